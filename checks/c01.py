"""C01 — sender-side construction conserves value (DESIGN.md section 6, C01)."""
import collections
import glob
import json
import os

import vlib
from vlib import cN, cB, cL

PROP = "C01"
STATUS = ["Unconfirmed", "Unspent", "Locked", "Spent", "Reverted"]


def case_term(c):
    outs = []
    for i, o in enumerate(c["outs"]):
        outs.append("mkOut %s %s %s %s %s %s %s" % (
            cN(o[0]), cN(i), cN(o[1]), STATUS[o[2]], cN(o[3]), cN(o[4]), cB(o[5])))
    p = "mkParams %s %s %s %s %s %s %s %s" % (
        cN(c["amount"]), cB(c["aif"]), cN(c["h"]), cN(c["minconf"]), cN(c["max_outputs"]),
        cN(c["change_outputs"]), cB(c["all"]), cN(c["parent"]))
    return "(%s, %s)" % (cL(outs), p)


def load(path):
    return [json.loads(l) for l in open(path)]


def run_harness(binp, wd, name, args, env=None):
    out = os.path.join(wd, name)
    rc, log = vlib.sh([binp, "--out", out] + args, timeout=3000, env=env)
    if rc != 0:
        raise vlib.Infra("c01 harness failed: " + log[-2000:])
    return load(out)


def run(tier, replay):
    V = vlib.Verdict(PROP, tier)
    wd = vlib.workdir(PROP)
    (binp,) = vlib.build_harness(["c01"])
    proof = vlib.proof_stage(PROP, V, "props/C01.v")

    rows = []
    # corpus (minimised earlier failures and the round-0 witnesses) runs first
    corpus = sorted(glob.glob(os.path.join(vlib.VERIF, "corpus", PROP, "*.json")))
    if replay:
        corpus = [replay]
    for f in corpus:
        rows += run_harness(binp, wd, "corpus.jsonl", ["--replay", f])
    n_corpus = len(rows)
    if not replay:
        if tier == "quick":
            rows += run_harness(binp, wd, "gen.jsonl", ["--n", "8000", "--l2", "150"])
        else:
            for k in range(8):
                rows += run_harness(binp, wd, "gen%d.jsonl" % k,
                                    ["--n", "25000", "--l2", "400", "--big", "1"],
                                    env={"VERIF_SEED": str(vlib.seed() * 1000 + k)})

    terms = [case_term(r["case"]) for r in rows]
    model = vlib.coq_eval(PROP, "From GW Require Import Select.", "run_case", terms, shard=700)

    # late-lock level: the same cases against a fee fixed earlier
    rows3 = [r for r in rows if r.get("l3") is not None]
    model3 = vlib.coq_eval(PROP + "_fixed", "From GW Require Import Select.", "run_case_fixed",
                           ["(%s, %s)" % (case_term(r["case"]), vlib.cN(r["fixed"])) for r in rows3], shard=700) if rows3 else []

    kinds = collections.Counter()
    distinct_ok = set()
    divergences = []
    oracle_fail = []
    for r, m in zip(rows, model):
        impl1 = [int(x) for x in r["l1"]]
        cls = {0: "ok", 1: "err", 2: "panic"}[impl1[0]]
        kinds[cls if cls != "err" else "err%d" % impl1[1]] += 1
        if impl1[0] == 0:
            distinct_ok.add(json.dumps(r["case"], sort_keys=True))
        if impl1 != m:
            divergences.append({"case": r["case"], "impl": r["l1"], "model": [str(x) for x in m],
                                "level": "select_coins_and_fee+inputs_and_change"})
        if r.get("l2") is not None and [int(x) for x in r["l2"]] != m:
            divergences.append({"case": r["case"], "impl": r["l2"], "model": [str(x) for x in m],
                                "level": "build_send_tx"})
        if r["oracle"]:
            oracle_fail.append({"case": r["case"], "impl": r["l1"], "impl_build_send_tx": r.get("l2"),
                                "failures": r["oracle"]})

    for r, m in zip(rows3, model3):
        if [int(x) for x in r["l3"]] != m:
            divergences.append({"case": r["case"], "fixed_fee": r["fixed"], "impl": r["l3"], "model": [str(x) for x in m],
                                "level": "build_send_tx with a fixed fee (late lock)"})
        kinds["fixed:" + {0: "ok", 1: "err", 2: "panic"}[int(r["l3"][0])]] += 1

    for f in oracle_fail[:3]:
        V.violation({"property": PROP, "kind": "oracle", "what": f["failures"], "case": f["case"],
                     "impl": f["impl"], "replay_cmd": "./check C01 --replay <this file>"})
    if divergences and not oracle_fail:
        # the correspondence broke but no input violates the property's oracle: say so
        V.violation({"property": PROP, "kind": "correspondence",
                     "correspondence": "Select.build_send (coq/theories/Select.v) vs libwallet selection::{select_coins_and_fee,inputs_and_change,build_send_tx}",
                     "theorems_no_longer_tied": proof["theorems"],
                     "n_divergences": len(divergences), "cases": [d["case"] for d in divergences[:5]],
                     "first": divergences[:3]}, no_input=True)

    n_ok = len(distinct_ok)
    cov = dict(proof)
    cov.update({
        "evaluations": len(rows),
        "distinct_nontrivial": n_ok,
        "rule": "cases = corpus + PRNG-generated wallets (0..40 outputs, up to 610 in thorough) x parameters "
                "(amount boundaries around spendable total and fees, 0..2^32-1 change outputs, max_outputs 0..2^32-1, "
                "both strategies, amount-includes-fee); non-trivial = distinct case on which the implementation "
                "agreed to build (result Ok)",
        "samples": [rows[i]["case"] for i in range(min(2, len(rows)))] +
                   [r["case"] for r in rows if r["l1"][0] == "0"][:2],
        "traces_validated_against_impl": len(rows) - len(set(json.dumps(d["case"], sort_keys=True) for d in divergences)),
        "result_kinds": dict(kinds),
        "corpus_cases": n_corpus,
        "build_send_tx_level_cases": sum(1 for r in rows if r.get("l2") is not None),
        "fixed_fee_level_cases": len(rows3),
        "divergences": len(divergences),
        "oracle_failures": len(oracle_fail),
    })
    return V.finish(cov, [
        "accept fee base fixed at the default 500_000 (grin_core global not overridden)",
        "range-proof creation, key derivation and LMDB are outside the model; selection is driven on an in-memory backend through hook H1",
        "the harness build has overflow checks on (a wrapping release build is not exercised)",
    ])
