"""C02 — finalized transactions are valid, exact, and safe against an altered reply
(DESIGN.md section 6, C02; design.d/C02.md)."""
import collections
import glob
import json
import os
from concurrent.futures import ThreadPoolExecutor

import vlib

PROP = "C02"
IMPORTS = "From GW Require Import Proto."


def load(path):
    return [json.loads(l) for l in open(path)]


def run_harness(binp, wd, name, args, env=None):
    out = os.path.join(wd, name)
    rc, log = vlib.sh([binp, "--out", out] + args, timeout=3000, env=env)
    if rc != 0:
        raise vlib.Infra("c02 harness failed (%s): %s" % (" ".join(args), log[-2000:]))
    return load(out)


def run(tier, replay):
    V = vlib.Verdict(PROP, tier)
    wd = vlib.workdir(PROP)
    (binp,) = vlib.build_harness(["c02"])
    proof = vlib.proof_stage(PROP, V, "props/C02.v")

    rows = []
    corpus = sorted(glob.glob(os.path.join(vlib.VERIF, "corpus", PROP, "*.json")))
    if replay:
        corpus = [replay]
    # corpus: minimised earlier failures / the witnesses of fixed defects, run first
    jobs = [("corpus%d.jsonl" % i, ["--replay", f, "--shard", str(100 + i)]) for i, f in enumerate(corpus)]
    n_corpus_jobs = len(jobs)
    if not replay:
        if tier == "quick":
            shards, n = 16, 16
        else:
            shards, n = 16, 160
        for sh in range(shards):
            jobs.append(("gen%d.jsonl" % sh, ["--n", str(n), "--shard", str(sh),
                                              "--thorough", "1" if tier != "quick" else "0"]))
    with ThreadPoolExecutor(max_workers=16) as ex:
        futs = [ex.submit(run_harness, binp, wd, name, args) for name, args in jobs]
        res = [f.result() for f in futs]
    n_corpus = sum(len(r) for r in res[:n_corpus_jobs])
    for r in res:
        rows += r

    cases = [r for r in rows if "coq" in r]
    ends = [r for r in rows if r.get("end")]
    undeliverable = [r for r in rows if "undeliverable" in r]
    model = vlib.coq_eval(PROP, IMPORTS, "run_case", [r["coq"] for r in cases], shard=60)

    kinds = collections.Counter()
    flows = collections.Counter()
    muts = collections.Counter()
    accepted_shapes = set()
    distinct = set()
    divergences = []
    oracle_fail = []
    for r, m in zip(cases, model):
        impl = [int(x) for x in r["impl"]]
        sc = r["script"]
        tag = {0: "ok", 1: "err%d" % (impl[1] if len(impl) > 1 else -1), 2: "panic"}[impl[0]]
        kinds[tag] += 1
        flows[sc["flow"] + ("/self" if sc["self_send"] else "")] += 1
        muts[r["mut"][0]] += 1
        key = (sc["flow"], sc["self_send"], json.dumps(sc["forge"]), json.dumps(r["mut"]), tag,
               sc["exact_slack"], sc["n_change"], sc["src_acct"], sc["active_ok"], sc["with_b"])
        distinct.add(key)
        if impl[0] == 0:
            accepted_shapes.add((sc["flow"], sc["self_send"], json.dumps(sc["forge"]), json.dumps(r["mut"]),
                                 impl[1], impl[2]))
        if impl != m:
            divergences.append({"script": sc, "mut": r["mut"], "case": r["j"], "impl": r["impl"],
                                "model": [str(x) for x in m], "info": r.get("info")})
        if r["oracle"]:
            oracle_fail.append({"script": sc, "mut": r["mut"], "case": r["j"], "impl": r["impl"],
                                "failures": r["oracle"], "info": r.get("info")})
    for r in ends:
        if r["oracle"]:
            oracle_fail.append({"script": r.get("script"), "mut": ["end-of-exchange"], "case": -1,
                                "impl": None, "failures": r["oracle"]})

    for f in oracle_fail[:3]:
        V.violation({"property": PROP, "kind": "oracle", "what": f["failures"], "script": f["script"],
                     "mutation": f["mut"], "case": f["case"], "impl": f["impl"], "info": f.get("info"),
                     "replay_cmd": "./check C02 --replay <this file>"})
    if divergences and not oracle_fail:
        V.violation({"property": PROP, "kind": "correspondence",
                     "correspondence": "Proto.finalize_tx (coq/theories/Proto.v, run_case) vs "
                                       "libwallet api_impl::{owner,foreign}::finalize_tx on real wallets",
                     "theorems_no_longer_tied": proof["theorems"],
                     "n_divergences": len(divergences),
                     "scripts": [d["script"] for d in divergences[:5]],
                     "first": divergences[:3]}, no_input=True)

    cov = dict(proof)
    cov.update({
        "evaluations": len(cases),
        "distinct_nontrivial": len(distinct),
        "rule": "one evaluation = one call of finalize_tx on a real wallet with a (mutated) reply slate that went "
                "through the JSON wire format; exchanges are generated from VERIF_SEED (flows send / send locked "
                "with the reply / late lock / self-send / invoice, 0..3 change outputs, exact-amount sends with fee "
                "slack, two accounts, second pending exchange); replies come from the real counterparty wallet or "
                "from a forging counterparty (re-signed: other amount, split, extra zero output, foreign input, "
                "payjoin, height-locked kernel, invoice state, two entries) followed by one field mutation of the "
                "catalogue; distinct = distinct (flow, forge, mutation, verdict, shape) tuples",
        "samples": [{"script": r["script"], "mut": r["mut"], "impl": r["impl"]} for r in cases[:2]] +
                   [{"script": r["script"], "mut": r["mut"], "impl": r["impl"]}
                    for r in cases if r["impl"][0] == "0"][:2],
        "traces_validated_against_impl": len(cases) - len(divergences),
        "result_kinds": dict(kinds),
        "flows": dict(flows),
        "mutations": dict(muts),
        "accepted_results_checked_by_oracle": kinds.get("ok", 0),
        "accepted_shapes": len(accepted_shapes),
        "exchanges_ended_by_cancel_or_honest_finalize": len(ends),
        "undeliverable_mutants": len(undeliverable),
        "corpus_rows": n_corpus,
        "divergences": len(divergences),
        "oracle_failures": len(oracle_fail),
    })
    return V.finish(cov, [
        "idealised cryptography in the theorems: commitments as pairs (binding assumed), public keys as discrete "
        "logarithms, range proofs sound, challenge hash uninterpreted; real secp256k1/bulletproofs only exercised "
        "by the correspondence runs",
        "kernel-feature arguments (lock height / NRD) are outside the property; the chain-acceptance oracle is "
        "applied to plain kernels and height locks already reached",
        "AutomatedTesting chain parameters (max tx weight 226, coinbase maturity 3); accept fee base 500000",
        "self-send covers the standard flow; the self-invoice context merge is not modelled",
    ], level="proof")
