"""C03 — reserved outputs are exclusive (DESIGN.md section 6, C03)."""
import ledgercheck
import ledgerlib as L


KNOWN = [{
    "id": "C03-scan-cancel-without-release",
    "match": lambda f: "[scan-cancel-without-release]" in f["what"],
    "text": "scan (inside update_wallet_state) finds an output recorded Spent in the UTXO set, restores it and marks the log entry linked to it cancelled (cancel_tx_log_entry) without releasing that entry's other reserved inputs, which stay Locked under a cancelled entry; reachable when unconfirmed change was re-spent with minimum_confirmations=0",
}]


def run(tier, replay):
    return ledgercheck.run_ledger_check(
        "C03", tier, replay, "c03", [L.oracle_c03],
        "Oracle: a successful reservation only took outputs that were free in the previous snapshot; at most one "
        "TxSent and one TxReceived entry per (slate, account); every Locked output is held by a live TxSent entry of its account.",
        known=KNOWN)
