"""C03 — reserved outputs are exclusive (DESIGN.md section 6, C03)."""
import ledgercheck
import ledgerlib as L


def run(tier, replay):
    return ledgercheck.run_ledger_check(
        "C03", tier, replay, "c03", [L.oracle_c03],
        "Oracle: a successful reservation only took outputs that were free in the previous snapshot; at most one "
        "TxSent and one TxReceived entry per (slate, account); every Locked output is held by a live TxSent entry of its account.")
