"""C04 — after refresh the books equal the chain's truth (DESIGN.md section 6, C04)."""
import ledgercheck
import ledgerlib as L


KNOWN = [{
    "id": "C04-respent-change",
    "match": lambda f: "[respent-change]" in f["what"],
    "text": "a sent transaction whose change output was spent again (locked by another send built with minimum_confirmations=0) before it confirmed is never marked confirmed: the change record is relinked to the spending entry, apply_api_outputs only confirms via Unconfirmed/Reverted outputs and update_txs_via_kernel skips entries with both debit and credit",
}, {
    "id": "C04-released-inputs-not-rechecked",
    "match": lambda f: "[released-inputs-not-rechecked]" in f["what"],
    "text": "inputs released by a cancellation before broadcast (TTL expiry of the payer's entry, or a manual cancel) hang under a cancelled entry; when the counterparty broadcasts after all, a partial refresh / update_wallet_state never queries them again: recorded Unspent although spent on chain until a full refresh or scan",
}]


def run(tier, replay):
    return ledgercheck.run_ledger_check(
        "C04", tier, replay, "c04", [L.oracle_c04],
        "Oracle: after every full refresh each record of the account is Unspent/Locked iff its commitment is in the chain's UTXO "
        "set (chain queried directly by the harness); the balance figures for 0/1/3 minimum confirmations equal an independent "
        "partition of the snapshot's records; after the final owner::update_wallet_state (histories without cancels) confirmed "
        "credits minus debits equal total plus locked.", known=KNOWN)
