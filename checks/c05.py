"""C05 — cancel is an exact rollback (DESIGN.md section 6, C05)."""
import ledgercheck
import ledgerlib as L

KNOWN = [{
    "id": "C05-unconfirmed-input",
    "match": lambda f: "[unconfirmed-input]" in f["what"],
    "text": "cancel of a send that reserved an Unconfirmed input (possible only with minimum_confirmations=0) returns that input as Unspent instead of Unconfirmed (lock_output keeps no record of the previous status)",
}]


def run(tier, replay):
    return ledgercheck.run_ledger_check(
        "C05", tier, replay, "c05", [L.oracle_c05],
        "Oracle: pre/post snapshot diff of every cancel (frame: only records linked to the cancelled entry, only that entry's type; "
        "refusals change nothing) and rollback of reservations (inputs back to their pre-reservation status, change outputs gone).",
        known=KNOWN)
