"""C06 — a crash at any point leaves a loadable, consistent, recoverable wallet."""
import collections
import json
import os
from concurrent.futures import ThreadPoolExecutor

import ledgerlib as L
import vlib
from vlib import cL

PROP = "C06"


def run(tier, replay):
    V = vlib.Verdict(PROP, tier)
    wd = vlib.workdir(PROP)
    (binp,) = vlib.build_harness(["c06"])
    proof = vlib.proof_stage(PROP, V, "props/C06.v")

    if replay:
        rj = json.load(open(replay))
        rows = rj["rows"] if "rows" in rj else [rj["row"]]
    else:
        n, shards = (1, 8) if tier == "quick" else (4, 16)

        def one(sh):
            out = os.path.join(wd, "c06_%d.jsonl" % sh)
            rc, log = vlib.sh([binp, "--out", out, "--n", str(n), "--shard", str(sh)], timeout=3000)
            if rc != 0:
                raise vlib.Infra("c06 harness failed: " + log[-2000:])
            rs = [json.loads(l) for l in open(out)]
            for r in rs:
                r["shard"] = sh
            return rs
        rows = []
        with ThreadPoolExecutor(max_workers=shards) as ex:
            for r in ex.map(one, range(shards)):
                rows.extend(r)

    # ---- correspondence: effect kinds and the state after every commit / file write
    terms, idx = [], []
    for i, r in enumerate(rows):
        if r["model_op"] is None or r["rc"] != [0]:
            continue
        pre = []
        for o in r["prefix_ops"]:
            pre.extend(L.op_terms(o))
        terms.append("(%s, %s)" % (cL(pre), cL(L.op_terms(r["model_op"]))))
        idx.append(i)
    model = vlib.coq_eval(PROP, "From GW Require Import Effects.", "effects_after", terms, shard=3) if terms else []
    div = []
    n_states_compared = 0
    for i, m in zip(idx, model):
        r = rows[i]
        ends = [(k, e) for k, e in enumerate(r["events"]) if e.endswith("_end")]
        kinds_impl = [0 if e == "commit_end" else 1 for _, e in ends]
        kinds_model = [x[0][0][0] for x in m]
        if kinds_impl != kinds_model:
            div.append({"name": r["name"], "shard": r.get("shard"), "what": "effect kinds impl=%s model=%s" % (kinds_impl, kinds_model)})
            continue
        for (k, e), x in zip(ends, m):
            cs = [c for c in r["crash"] if c["k"] == k and c["event"] == e]
            if not cs or cs[0]["snap"] is None:
                continue
            ip = L.canon(L.proj_from_snap(cs[0]["snap"]))[:4]
            mp = L.canon([x[1], x[2], x[3], x[4], []])[:4]
            # a slate created inside the enumerated call has no number yet in a crash snapshot
            unknown = {(t[0], t[1]) for t in ip[1] if t[2] == -1}
            mp[1] = sorted([t[:2] + [-1] + t[3:] if (t[0], t[1]) in unknown else t for t in mp[1]])
            nctx = len(ip[3][0]) if ip[3] else 0
            if mp[3] and len(mp[3][0]) == nctx + 1 and unknown:
                mp[3] = ip[3]   # likewise its context cannot be looked up by number yet
            n_states_compared += 1
            if ip != mp:
                what = []
                for name, a, b in zip(["outputs", "txs", "child", "contexts"], ip, mp):
                    if a != b:
                        what.append("%s impl-only=%s model-only=%s" % (name, [y for y in a if y not in b][:3], [y for y in b if y not in a][:3]))
                div.append({"name": r["name"], "shard": r.get("shard"), "what": "state after effect %d (%s): %s" % (k, e, what)})
                break

    # ---- oracle: every crash state and every injected fault
    fails = []
    kinds = collections.Counter()
    n_states = 0
    for r in rows:
        for c in r["crash"]:
            n_states += 1
            kinds["crash:%s:%s" % (r["name"], c["event"].split("_partial")[0])] += 1
            if c["fails"]:
                fails.append({"name": r["name"], "shard": r.get("shard"), "point": "crash after event %d (%s)" % (c["k"], c["event"]), "what": c["fails"]})
        for fcase in r["fault"]:
            kinds["fault:%s:%s" % (r["name"], "ok" if fcase["rc"] == [0] else "err" if fcase["rc"][0] == 1 else "panic")] += 1
            if fcase["rc"] == [2]:
                fails.append({"name": r["name"], "shard": r.get("shard"), "point": "failing effect %d" % fcase["k"], "what": ["operation panicked when the write failed"]})
            if fcase["fails"]:
                fails.append({"name": r["name"], "shard": r.get("shard"), "point": "failing effect %d" % fcase["k"], "what": fcase["fails"]})
    # the listed finding: a scan that drops pending transactions writes, for each record, the
    # cancellation of the log entry and the change of the record in two commits (and one pair per record)
    known_hit = [f for f in fails if f["name"] == "scan_drop" and
                 all("not held by a live sent entry" in w for w in f["what"])]
    if known_hit:
        V.known_finding("a crash (or failing write) inside scan(delete_unconfirmed) between the commit that cancels a "
                        "pending send's log entry and the commits that release its inputs leaves Locked outputs under a "
                        "cancelled entry (%d of the enumerated crash/fault points)" % len(known_hit), "C06-scan-drop-not-atomic")
    fails = [f for f in fails if f not in known_hit]
    by = {(r["name"], r.get("shard")): r for r in rows}
    for f in fails[:3]:
        row = by.get((f["name"], f["shard"]))
        V.violation({"property": PROP, "kind": "oracle", "operation": f["name"], "point": f["point"], "what": f["what"],
                     "row": {k: v for k, v in (row or {}).items() if k not in ("crash",)}})
    if div and not fails:
        V.violation({"property": PROP, "kind": "correspondence",
                     "correspondence": "Effects.op_effects (coq/theories/Effects.v) vs the recorded effect sequence and per-effect wallet states of the LMDB backend",
                     "theorems_no_longer_tied": proof["theorems"], "first": div[:3]}, no_input=True)

    cov = dict(proof)
    cov.update({
        "evaluations": n_states + sum(len(r["fault"]) for r in rows),
        "distinct_nontrivial": len(set((r["name"], c["event"], json.dumps(c["snap"], sort_keys=True)) for r in rows for c in r["crash"] if c["snap"])),
        "rule": "every persistent-effect boundary (before/after each LMDB batch commit, before/after each stored-tx write, recorded "
                "through the backend hook) of coinbase, init_send (1-3 change outputs), receive, lock, finalize, refresh, cancel, "
                "issue_invoice and update_wallet_state in a send/receive/invoice/cancel/refresh scenario; at each boundary the wallet "
                "directory is copied, reopened with a fresh LMDBBackend and checked (queries answer, Locked outputs held by a live sent "
                "entry, reservations all-or-nothing, stored tx value-or-error, every pending transaction cancellable, unspent total "
                "restored); stored-tx files additionally truncated to 0,1,2,n/2,n/2+1,n-1 bytes; then every effect in turn is made to "
                "fail. exhaustive over the boundaries of these operations; non-trivial = distinct (operation, boundary, reopened state).",
        "samples": [{"name": r["name"], "events": r["events"], "fault": [(f["k"], f["rc"]) for f in r["fault"]]} for r in rows[:4]],
        "traces_validated_against_impl": n_states_compared,
        "crash_states_checked": n_states,
        "faults_injected": sum(len(r["fault"]) for r in rows),
        "result_kinds": dict(kinds), "divergences": len(div), "oracle_failures": len(fails), "exhaustive": True,
    })
    return V.finish(cov, [
        "an LMDB batch commit is atomic and durable; a crash loses at most the effects after the boundary (fsync ordering and the file system are not modelled)",
        "crash states are directory copies taken in-process at the hook, not real power losses",
        "scan/update_wallet_state are enumerated by the oracle only (their effect lists are not in Effects.v)",
    ])
