"""C07 — the foreign API can only add funds, once per slate (DESIGN.md section 6, C07)."""
import ledgercheck
import ledgerlib as L

KNOWN = [{
    "id": "C07-late-lock",
    "match": lambda f: "[late-lock]" in f["what"],
    "text": "finalize_tx of a late-locked send selects and locks inputs before the reply's signatures are verified: a forged Standard2 reply leaves the inputs Locked (cancellable) although finalize fails",
}]


def run(tier, replay):
    return ledgercheck.run_ledger_check(
        "C07", tier, replay, "c07", [L.oracle_c07, L.oracle_no_panic],
        "Oracle: full snapshot diff around every foreign call (receive_tx incl. tampered amounts 0/u64::MAX/cutoffs and replays, "
        "build_coinbase with caller-named keys, finalize_tx with forged replies): no existing output changed or removed, no context "
        "consumed, spendable not decreased; successful receive adds exactly one Unconfirmed output of the slate amount and one entry, "
        "reply carries one participant entry.",
        known=KNOWN)
