"""C08 — slate and slatepack encodings round-trip and agree (DESIGN.md section 6, C08)."""
import collections
import glob
import json
import os

import vlib
from vlib import cN, cL

PROP = "C08"
IMPORTS = "From GW Require Import Base CodecBase CodecSlatepack CodecSlate CodecRun."


def chunks(h):
    if not h:
        return "(@nil N)"
    return cL(["0x1%s%%N" % h[i:i + 512] for i in range(0, len(h), 512)])


def ub(h):
    return "(ub %s)" % chunks(h)


def pack_nums(nums):
    out = []
    for n in nums:
        n = int(n)
        out.append("%02x" % n if n < 255 else "ff%016x" % n)
    return chunks("".join(out))


def hexof(nums):
    return "".join("%02x" % int(x) for x in nums)


def res_nums(v):
    """implementation decode result -> canonical result list"""
    if isinstance(v, list):
        return [0] + v
    if isinstance(v, dict) and "err" in v:
        return [1]
    if isinstance(v, dict) and "panic" in v:
        return [2]
    return [9]


class Cur:
    def __init__(self, v):
        self.v, self.i = [int(x) for x in v], 0

    def n(self):
        x = self.v[self.i]
        self.i += 1
        return x

    def raw(self, k):
        b = self.v[self.i:self.i + k]
        self.i += k
        return b


def slate_term(canon):
    """canonical V4 slate (harness canon_v4) -> Coq slate4 term"""
    r = Cur(canon)
    ver, bhv = r.n(), r.n()
    idb = r.raw(16)
    sta = r.n()
    off = r.raw(32)
    num_parts, amt, fee, feat, ttl = r.n(), r.n(), r.n(), r.n(), r.n()
    sigs = []
    for _ in range(r.n()):
        xs, nonce = r.raw(33), r.raw(33)
        part = "(Some %s)" % ub(hexof(r.raw(64))) if r.n() == 1 else "None"
        sigs.append("(mkSig %s %s %s)" % (ub(hexof(xs)), ub(hexof(nonce)), part))
    coms = "None"
    if r.n() == 1:
        cs = []
        for _ in range(r.n()):
            f = r.n()
            c = r.raw(33)
            p = "None"
            if r.n() == 1:
                k = r.n()
                p = "(Some %s)" % ub(hexof(r.raw(k)))
            cs.append("(mkCom %s %s %s)" % (cN(f), ub(hexof(c)), p))
        coms = "(Some %s)" % cL(cs)
    proof = "None"
    if r.n() == 1:
        sa, ra = r.raw(32), r.raw(32)
        sg = "(Some %s)" % ub(hexof(r.raw(64))) if r.n() == 1 else "None"
        proof = "(Some (mkProof %s %s %s))" % (ub(hexof(sa)), ub(hexof(ra)), sg)
    args = "(Some %s)" % cN(r.n()) if r.n() == 1 else "None"
    return "(mkSlate4 %s %s %s %s %s %s %s %s %s %s %s %s %s %s)" % (
        cN(ver), cN(bhv), ub(hexof(idb)), cN(sta), ub(hexof(off)), cN(num_parts), cN(amt), cN(fee),
        cN(feat), cN(ttl), cL(sigs), coms, proof, args)


def v4_term(r):
    im = r["impl"]
    canon = [int(x) for x in r["case"]["v4"]]
    kern = im["kernel"] if isinstance(im["kernel"], list) else []

    def same_or(v, nums):
        # "[]" stands for "equal to the slate itself" (keeps the generated Coq files small)
        return "(@nil N)" if v == canon else pack_nums(nums)
    return "(%s, %s, %s, %s, %s, %s, %s)" % (
        slate_term(canon),
        chunks(im["bin"]) if isinstance(im["bin"], str) else "(@nil N)",
        same_or(im["bin_dec"], res_nums(im["bin_dec"])),
        pack_nums(im["json_fields"] or []),
        same_or(im["json_dec"], res_nums(im["json_dec"])),
        same_or(im["conv"], im["conv"] if isinstance(im["conv"], list) else [9]),
        pack_nums(kern))


def opt_ub(h):
    return "None" if h is None else "(Some %s)" % ub(h)


def sp_term(r):
    c, im = r["case"], r["impl"]
    sp = "(mkSlatepack %s %s %s %s %s)" % (cN(c["major"]), cN(c["minor"]), cN(c["mode"]),
                                           opt_ub(im["sender_text"]), ub(c["payload"]))
    adec = im["armor_dec"]
    adec_nums = [0, len(adec) // 2] + list(bytes.fromhex(adec)) if isinstance(adec, str) else res_nums(adec)
    return "(%s, %s, %s, %s, %s)" % (sp, chunks(im["bin"]), pack_nums(res_nums(im["bin_dec"])),
                                     chunks(im["armor"]), pack_nums(adec_nums))


def meta_term(r):
    c, im = r["case"], r["impl"]
    m = "(mkEncmeta %s %s)" % (opt_ub(im["sender_text"]), cL([ub(x) for x in im["recipients_text"]]))
    return "(%s, %s, %s, %s)" % (m, chunks(c["payload"]), chunks(im["plain"] or ""),
                                 pack_nums(res_nums(im["dec"])))


def load(path):
    return [json.loads(l) for l in open(path)]


def run_harness(binp, wd, name, args, env=None):
    out = os.path.join(wd, name)
    rc, log = vlib.sh([binp, "--out", out] + args, timeout=3000, env=env)
    if rc != 0:
        raise vlib.Infra("c08 harness failed: " + log[-2000:])
    return load(out)


def eval_kind(rows, kind, term_fn, run_fn):
    idx_all = [i for i, r in enumerate(rows) if r["case"]["k"] == kind]
    out = {}
    # batches keep the 16 parallel coqc processes small (memory)
    for b0 in range(0, len(idx_all), 2000):
        idx = idx_all[b0:b0 + 2000]
        terms = [term_fn(rows[i]) for i in idx]
        order = sorted(range(len(idx)), key=lambda k: len(terms[k]))
        nsh = 16
        buckets = [[] for _ in range(nsh)]
        for j, k in enumerate(order):
            buckets[j % nsh].append(k)
        flat = [k for b in buckets for k in b]
        shard = max(1, (len(flat) + nsh - 1) // nsh)
        res = vlib.coq_eval(PROP + "_%d" % kind, IMPORTS, run_fn, [terms[k] for k in flat], shard=shard)
        for k, m in zip(flat, res):
            out[idx[k]] = m
    return out


WHAT = {
    1: {1: "binary encoding differs byte-wise", 2: "binary decoding", 3: "JSON field map", 4: "JSON decoding",
        5: "Slate<->SlateV4", 6: "reconstructed kernel"},
    2: {1: "binary slatepack encoding differs byte-wise", 2: "binary slatepack decoding", 3: "armor text differs",
        4: "armor decoding"},
    3: {1: "plaintext handed to age differs byte-wise", 2: "post-decryption parsing"},
}


def known_class_of(r):
    """recorded wire-format finding classes of a V4 case (mirrors KnownBin / KnownConv)"""
    ks = list(r["meta"]["known"])
    wk = r["impl"].get("wallet_kernel")
    if isinstance(wk, list) and wk[0] != 0:
        ks.append(4)
    return ks


def explained(failure, ks):
    """is this oracle failure exactly what a recorded class predicts?"""
    binpaths = ("binary:", "binary and JSON", "sp-bin:", "sp-json:", "sp-armor:", "sp-armor-enc:")
    if failure.startswith("wallet slate kernel"):
        return 4 in ks
    if any(failure.startswith(p) for p in binpaths) and ("differs" in failure or "different" in failure):
        return any(k in ks for k in (1, 2, 3))
    return False


def run(tier, replay):
    V = vlib.Verdict(PROP, tier)
    wd = vlib.workdir(PROP)
    (binp,) = vlib.build_harness(["c08"])
    proof = vlib.proof_stage(PROP, V, "props/C08.v")
    okb, logb = vlib.coq_make(["theories/CodecRun.vo"])   # evaluation entry point (not in the theorems' cone)
    if not okb:
        raise vlib.Infra("CodecRun.v does not build: " + logb[-1500:])

    rows = []
    corpus = sorted(glob.glob(os.path.join(vlib.VERIF, "corpus", PROP, "*.json")))
    if replay:
        corpus = [replay]
    for f in corpus:
        rows += run_harness(binp, wd, "corpus.jsonl", ["--replay", f])
    n_corpus = len(rows)
    if not replay:
        if tier == "quick":
            rows += run_harness(binp, wd, "gen.jsonl", ["--n", "1500"])
        else:
            for k in range(4):
                rows += run_harness(binp, wd, "gen%d.jsonl" % k, ["--n", "6000"],
                                    env={"VERIF_SEED": str(vlib.seed() * 1000 + k)})

    model = {}
    model.update(eval_kind(rows, 1, v4_term, "check_v4"))
    model.update(eval_kind(rows, 2, sp_term, "check_sp"))
    model.update(eval_kind(rows, 3, meta_term, "check_meta"))

    kinds = collections.Counter()
    known_seen = collections.Counter()
    divergences, oracle_fail = [], []
    distinct = set()
    feats, states = collections.Counter(), collections.Counter()
    for i, r in enumerate(rows):
        c = r["case"]
        k = c["k"]
        kname = {1: "v4-slate", 2: "slatepack", 3: "encrypted-metadata", 4: "address", 5: "stored-record"}[k]
        wf = r["meta"]["wf"]
        ks = known_class_of(r) if k == 1 else []
        if k == 1:
            feats[str(c["v4"][54])] += 1
            states[str(c["v4"][18])] += 1
        if i in model and model[i] != []:
            divergences.append({"case": c, "kind": kname, "what": [WHAT[k].get(x, str(x)) for x in model[i]]})
        if not wf:
            kinds[kname + ":outside-wf(correspondence only)"] += 1
            continue
        unexplained = [f for f in r["oracle"] if not explained(f, ks)]
        if r["oracle"] and not unexplained:
            kinds[kname + ":known-finding"] += 1
            for x in ks:
                known_seen[x] += 1
        elif unexplained:
            kinds[kname + ":oracle-failure"] += 1
            oracle_fail.append({"case": c, "kind": kname, "failures": unexplained, "known_classes": ks})
        else:
            kinds[kname + ":round-trips"] += 1
            distinct.add(json.dumps(c, sort_keys=True))

    labels = {
        1: "binary V4 slate writes kernel feature arguments only when feat == 2: NRD (feat 3) relative height and any other feat's arguments are lost in binary slates and slatepacks while V4 JSON keeps them",
        2: "binary V4 slate with feat == 2 and no arguments comes back with lock height Some(0)",
        3: "binary V4 slate omits the fee when FeeFields::fee() == 0 although the raw fee field (shift bits) is non-zero; V4 JSON tests the raw value and keeps it",
        4: "tx_from_slate_v4 maps feat 1 (not 2) to HeightLocked: a height-locked or NRD slate as the wallet holds it comes back with a plain kernel in its reconstructed transaction",
    }
    open_ids = {k["id"] for k in vlib.known_findings(PROP)}
    for x in sorted(known_seen):
        if "C08-F%d" % x in open_ids:
            V.known_finding("[C08-F%d] %s (%d generated slates)" % (x, labels[x], known_seen[x]))
        else:
            oracle_fail.append({"case": None, "kind": "v4-slate", "failures": [labels[x]], "known_classes": [x]})
    seen = set()
    for f in oracle_fail:
        key = (f["kind"], f["failures"][0][:30])
        if key in seen:
            continue
        seen.add(key)
        V.violation({"property": PROP, "kind": "oracle", "what": f["failures"], "object": f["kind"],
                     "case": f["case"], "replay_cmd": "./check C08 --replay <this file>"})
    if divergences and not oracle_fail:
        V.violation({"property": PROP, "kind": "correspondence",
                     "correspondence": "CodecSlate.{enc_v4bin,dec_v4bin,to_fields,of_fields,slate_of_v4,v4_of_slate}, "
                                       "CodecSlatepack.{enc_slatepack_bin,dec_slatepack_bin,pre_encrypt,post_decrypt}, "
                                       "CodecArmor.{armor_encode,armor_decode} vs byte_ser / serde_json / Slate::from / "
                                       "SlatepackArmor / try_encrypt_payload / try_decrypt_payload",
                     "theorems_no_longer_tied": proof["theorems"],
                     "n_divergences": len(divergences), "cases": [d["case"] for d in divergences[:5]],
                     "first": divergences[:3]}, no_input=True)

    cov = dict(proof)
    cov.update({
        "evaluations": len(rows),
        "distinct_nontrivial": len(distinct),
        "rule": "cases = corpus + structural PRNG generator: V4 slates over every optional field, 7 states, kernel "
                "features 0..3 (and 4, 7, 255 in the wild stream), boundary integers (0, 1, 2^32, 2^40, u64::MAX...), "
                "0..255 participants, 0..40 commitments; slatepacks (versions, modes, sender, payload sizes around the "
                "4-byte check); encrypted metadata (sender, 0..5 recipients); addresses; stored records. 1 in 5 slates "
                "comes from a wild stream outside wf (short proofs, feature bytes > 1, outputs before inputs): "
                "correspondence only. non-trivial = distinct well-formed case on which every path round-trips",
        "samples": [rows[i]["case"] for i in range(min(2, len(rows)))] +
                   [r["case"] for r in rows if r["case"]["k"] in (2, 3)][:2],
        "traces_validated_against_impl": len(model) - len(divergences),
        "modelled_cases": len(model),
        "result_kinds": dict(kinds),
        "kernel_features_seen": dict(feats),
        "states_seen": dict(states),
        "known_finding_cases": {("C08-F%d" % k): v for k, v in known_seen.items()},
        "corpus_cases": n_corpus,
        "divergences": len(divergences),
        "oracle_failures": len(oracle_fail),
    })
    return V.finish(cov, [
        "bech32, bs58, serde_json's text layer, hex/base64 text, uuid and state labels, the compact form of secp "
        "signatures, age encryption and the curve point parsers are external; JSON is compared as field maps",
        "base58 and SHA-256 are parameters of the armor theorem (hypotheses: decode inverts encode, alphabet has no "
        "period/whitespace, 4-byte check); the correspondence run uses executable Gallina versions",
        "kernel excess and excess signature of the reconstructed transaction (secp256k1 computations) are not compared",
        "stored wallet records (OutputData, TxLogEntry) and addresses are checked by the oracle only (no model)",
        "encrypted slatepacks are idealised in the model as pre_encrypt/post_decrypt around an external cipher; the "
        "implementation path runs real age encryption to the wallet's key",
    ])
