"""C09 — decoding untrusted input never crashes the wallet (DESIGN.md section 6, C09)."""
import collections
import glob
import json
import os

import vlib
from vlib import cN, cB, cL

PROP = "C09"
MODELLED = (1, 2, 4, 5, 6, 7)
DECODERS = {
    1: "SlatepackArmor::decode", 2: "from_bytes<SlatepackBin>", 4: "from_bytes<SlateV4Bin>",
    5: "deser_slatepack(decrypt=false)", 6: "try_decrypt_payload(age(plaintext))",
    7: "ser.rs helper (field level)", 8: "JSON VersionedSlate+upgrade", 9: "JSON Slatepack",
    10: "SlatepackAddress::try_from", 11: "OnionV3Address::try_from", 12: "JSON PaymentProof",
    13: "JSON EncryptedRequest+decrypt", 14: "get_slate", 15: "deser_slatepack(decrypt=true)",
    16: "ser.rs helper (raw JSON value)", 17: "JSON StoredProofInfo",
    18: "JSON api::ECDHPubkey", 19: "JSON api::Token", 20: "JSON api::Ed25519SecretKey",
    21: "JSON BlockFees (build_coinbase, foreign listener)",
}


def chunks(h):
    """byte string (hex text) as a list of hexadecimal numerals, 256 bytes each, with a leading 1 nibble"""
    if not h:
        return "(@nil N)"
    return cL(["0x1%s%%N" % h[i:i + 512] for i in range(0, len(h), 512)])


def hxs(h):
    return "(ub %s)" % chunks(h)


def pack_nums(nums):
    out = []
    for n in nums:
        n = int(n)
        out.append("%02x" % n if n < 255 else "ff%016x" % n)
    return chunks("".join(out))


def mask_hex(dec):
    return "0x%x%%N" % int(dec)


def sp_term(canon):
    """canonical slatepack (harness canon_sp) -> Coq slatepack term"""
    major, minor, mode, has = canon[0], canon[1], canon[2], canon[3]
    i = 4
    sender = "None"
    if has == 1:
        n = canon[i]
        sender = "(Some %s)" % cL([cN(x) for x in canon[i + 1:i + 1 + n]])
        i += 1 + n
    n = canon[i]
    payload = cL([cN(x) for x in canon[i + 1:i + 1 + n]])
    return "(mkSlatepack %s %s %s %s %s)" % (cN(major), cN(minor), cN(mode), sender, payload)


def case_term(r):
    c, ext = r["case"], r.get("ext") or {}
    pk = mask_hex(ext.get("pk", "0"))
    ed = mask_hex(ext.get("ed", "0"))
    addrs = cL(["(%s, %s)" % (hxs(a), hxs(b)) for a, b in ext.get("addrs", [])])
    js = []
    for q, ans in ext.get("json", []):
        if ans is None or ans == "panic":
            js.append("(%s, None)" % hxs(q))
        else:
            js.append("(%s, Some %s)" % (hxs(q), sp_term(ans)))
    x = "(mkX %s %s %s %s %s)" % (pk, ed, addrs, cL(js), cB(ext.get("edv", False)))
    return "((%s, %s, %s, %s), %s)" % (cN(c["d"]), cN(c["p"]), chunks(c["in"]), x, pack_nums(r["res"]))


def known_quadratic(c, r):
    """mirror of CodecArmor.known_quadratic_armor: armored input longer than 64 kB whose only oracle
    failure is the timing one"""
    return (c["d"] in (1, 5, 15) and len(c["in"]) // 2 > 65536
            and c["in"].startswith(b"BEGINSLATEPACK.".hex())
            and all(f.startswith("slow:") for f in r["oracle"]))


def load(path):
    return [json.loads(l) for l in open(path)]


class ProcessDeath(Exception):
    """A decoder took the whole harness process down (abort / fault below Rust)."""
    def __init__(self, rc, case, log):
        Exception.__init__(self, "harness died with status %s" % rc)
        self.rc, self.case, self.log = rc, case, log


def run_harness(binp, wd, name, args, env=None):
    out = os.path.join(wd, name)
    rc, log = vlib.sh([binp, "--out", out] + args, timeout=3000, env=env)
    if rc != 0:
        # run again on one thread, naming each case before it is decoded: the last one named is the input
        trace = os.path.join(wd, name + ".trace")
        if os.path.exists(trace):
            os.remove(trace)
        e2 = dict(env or {})
        e2["VERIF_C09_TRACE"] = trace
        rc2, log2 = vlib.sh([binp, "--out", out + ".rerun", "--threads", "1"] + args, timeout=3000, env=e2)
        if rc2 != 0 and os.path.exists(trace):
            lines = [l for l in open(trace) if l.strip()]
            if lines:
                raise ProcessDeath(rc2, json.loads(lines[-1]), log2[-1500:])
        raise vlib.Infra("c09 harness failed: " + log[-2000:])
    return load(out)


def eval_model(rows, run_fn="check_case"):
    """-> {row index: [] if model == implementation else [7, model result...]}"""
    idx_all = [i for i, r in enumerate(rows) if r["case"]["d"] in MODELLED]
    out = {}
    # batches keep the 16 parallel coqc processes small (memory)
    for b0 in range(0, len(idx_all), 6000):
        idx = idx_all[b0:b0 + 6000]
        terms = [case_term(rows[i]) for i in idx]
        # balance the shards: armored inputs cost more (base58 + SHA-256 inside Coq)
        order = sorted(range(len(idx)), key=lambda k: len(rows[idx[k]]["case"]["in"]) * (4 if rows[idx[k]]["case"]["d"] in (1, 5) else 1))
        nsh = 16
        buckets = [[] for _ in range(nsh)]
        for j, k in enumerate(order):
            buckets[j % nsh].append(k)
        flat = [k for b in buckets for k in b]
        shard = max(1, (len(flat) + nsh - 1) // nsh)
        res = vlib.coq_eval(PROP, "From GW Require Import Base CodecBase CodecSlatepack CodecRun.",
                            run_fn, [terms[k] for k in flat], shard=shard)
        for k, m in zip(flat, res):
            out[idx[k]] = m
    return out


def run(tier, replay):
    V = vlib.Verdict(PROP, tier)
    wd = vlib.workdir(PROP)
    (binp, binf) = vlib.build_harness(["c09", "c09f"])
    proof = vlib.proof_stage(PROP, V, "props/C09.v")

    # ---- "JSON-RPC request bodies on both listeners": the foreign listener's handler object on a real wallet,
    # valid requests of every method, their single-field mutations, text-layer junk, random bytes — no panic
    foreign_rows = []
    freplay = None
    if replay:
        rj = json.load(open(replay))
        if "foreign_post" in rj:
            freplay = os.path.join(wd, "foreign_replay.json")
            json.dump(rj["foreign_post"], open(freplay, "w"))
    if not replay or freplay:
        fout = os.path.join(wd, "foreign.jsonl")
        fargs = [binf, "--out", fout] + (["--replay", freplay] if freplay else ["--budget", "60" if tier == "quick" else "400"])
        rc_f, log_f = vlib.sh(fargs, timeout=1500)
        if rc_f != 0 or not os.path.exists(fout):
            raise vlib.Infra("c09f (foreign listener) failed: " + log_f[-1500:])
        foreign_rows = [json.loads(l) for l in open(fout)]
        seen_f = set()
        for r in foreign_rows:
            if r["panic"] is not None:
                key = (r["method"], r["panic"][:60])
                if key in seen_f or len(seen_f) >= 3:
                    continue
                seen_f.add(key)
                where = "on the foreign listener" if r["kind"] == "foreign_post" else "handed to the owner listener's dispatcher"
                V.violation({"property": PROP, "kind": "oracle",
                             "what": ["a request body %s (%s, %s) made the handler panic: %s"
                                      % (where, r["method"], r["case"], r["panic"][:200])],
                             "decoder": "ForeignAPIHandlerV2::post" if r["kind"] == "foreign_post" else "OwnerRpc::handle_request",
                             "foreign_post": {"method": r["method"], "in": r["in"], "kind": r["kind"]},
                             "body": bytes.fromhex(r["in"]).decode("utf-8", "replace")[:600],
                             "replay_cmd": "./check C09 --replay <this file>"})
    if freplay:
        cov = dict(proof)
        cov.update({"evaluations": len(foreign_rows), "distinct_nontrivial": len(foreign_rows), "rule": "replay of one foreign-listener POST",
                    "samples": [], "traces_validated_against_impl": 0})
        return V.finish(cov, ["replay of one foreign-listener request body"])
    okb, logb = vlib.coq_make(["theories/CodecRun.vo"])   # evaluation entry point (not in the theorems' cone)
    if not okb:
        raise vlib.Infra("CodecRun.v does not build: " + logb[-1500:])

    rows = []
    corpus = sorted(glob.glob(os.path.join(vlib.VERIF, "corpus", PROP, "*.json")))
    if replay:
        corpus = [replay]
    try:
        for f in corpus:
            rows += run_harness(binp, wd, "corpus.jsonl", ["--replay", f])
        n_corpus = len(rows)
        if not replay:
            if tier == "quick":
                rows += run_harness(binp, wd, "gen.jsonl", ["--scale", "1"])
            else:
                for k in range(4):
                    rows += run_harness(binp, wd, "gen%d.jsonl" % k, ["--scale", "3"],
                                        env={"VERIF_SEED": str(vlib.seed() * 1000 + k)})
    except ProcessDeath as e:
        # worse than a panic: the input killed the process (abort or fault below Rust)
        V.violation({"property": PROP, "kind": "oracle",
                     "what": ["decoding this input took the whole process down (exit status %s): not a Rust panic, "
                              "so neither catch_unwind nor a listener's per-request isolation contains it" % e.rc],
                     "case": e.case, "log_tail": e.log, "replay_cmd": "./check C09 --replay <this file>"})
        cov = dict(proof)
        cov.update({"evaluations": len(rows) + 1, "distinct_nontrivial": 0, "traces_validated_against_impl": len(rows),
                    "rule": "run aborted at the first input that killed the harness process",
                    "samples": [e.case], "oracle_failures": 1})
        return V.finish(cov, ["run aborted: see the violation"])

    model = eval_model(rows)

    kinds = collections.Counter()
    per_dec = collections.defaultdict(collections.Counter)
    streams = collections.Counter()
    divergences, oracle_fail, known_slow = [], [], []
    distinct = set()
    slowest, peak = 0, 0
    for i, r in enumerate(rows):
        c = r["case"]
        cls = {0: "value", 1: "error", 2: "panic"}[r["cls"]]
        kinds[cls] += 1
        per_dec[DECODERS.get(c["d"], str(c["d"]))][cls] += 1
        streams[c.get("s", "?")] += 1
        slowest = max(slowest, r["us"])
        peak = max(peak, r["peak"])
        if i in model:
            if model[i] != []:
                divergences.append({"case": {k: c[k] for k in ("d", "p", "in")}, "decoder": DECODERS[c["d"]],
                                    "impl": r["res"][:40], "model": model[i][1:41], "impl_msg": r["msg"]})
            # non-trivial: a distinct input on which the decoder got past its first check
            # (a value) or that is a mutation/grammar/boundary case (exercises a guard)
            if r["cls"] == 0 or c.get("s") != "random":
                distinct.add((c["d"], c["p"], c["in"]))
        if r["oracle"] and known_quadratic(c, r):
            known_slow.append(r["us"])
        elif r["oracle"]:
            oracle_fail.append({"case": {k: c[k] for k in ("d", "p", "in")}, "decoder": DECODERS.get(c["d"]),
                                "failures": r["oracle"], "msg": r["msg"]})

    if known_slow:
        if "C09-F1" in {k["id"] for k in vlib.known_findings(PROP)}:
            V.known_finding("[C09-F1] base58 decoding of an armored slatepack is quadratic in its length: a %d-byte input "
                            "(max_size on mainnet is 1279262) took %.1f s in SlatepackArmor::decode" % (120030, max(known_slow) / 1e6))
        else:
            oracle_fail.append({"case": None, "decoder": "deser_slatepack", "failures": ["slow armored input"], "msg": ""})
    seen = set()
    for f in oracle_fail:
        key = ((f["case"] or {}).get("d"), f["failures"][0][:40])
        if key in seen:
            continue
        seen.add(key)
        V.violation({"property": PROP, "kind": "oracle", "what": f["failures"], "decoder": f["decoder"],
                     "case": f["case"], "replay_cmd": "./check C09 --replay <this file>"})
    if divergences and not oracle_fail:
        V.violation({"property": PROP, "kind": "correspondence",
                     "correspondence": "Codec{Armor,Slatepack,Slate}.v decoders (via CodecRun.run_case) vs SlatepackArmor::decode, "
                                       "byte_ser::from_bytes<SlatepackBin|SlateV4Bin>, deser_slatepack, try_decrypt_payload, ser.rs helpers",
                     "theorems_no_longer_tied": proof["theorems"],
                     "n_divergences": len(divergences), "cases": [d["case"] for d in divergences[:5]],
                     "first": divergences[:3]}, no_input=True)

    cov = dict(proof)
    cov.update({
        "evaluations": len(rows),
        "distinct_nontrivial": len(distinct),
        "rule": "cases = corpus + three PRNG streams per entry point (random bytes; grammar-generated near-valid armor / "
                "SlatepackBin / EncMetadataBin with boundary choices for every length field; every single-position "
                "mutation, truncation, extension of valid encodings - sampled when long - and every single-leaf mutation "
                "of valid JSON, with decoded lengths {0, n-1, n, n+1} for every fixed-size field); non-trivial = distinct "
                "modelled-decoder input that decodes to a value or comes from the grammar/mutation/boundary streams. "
                "Error outcomes dominate by construction (a mutated encoding is usually rejected): that is the branch "
                "the property is about",
        "samples": [rows[i]["case"] for i in range(min(2, len(rows)))] +
                   [r["case"] for r in rows if r["cls"] == 0 and r["case"]["d"] in MODELLED][:2],
        "traces_validated_against_impl": len(model) - len(divergences),
        "modelled_cases": len(model),
        "fuzz_only_cases": len(rows) - len(model),
        "result_kinds": dict(kinds),
        "result_kinds_per_decoder": {k: dict(v) for k, v in per_dec.items()},
        "streams": dict(streams),
        "corpus_cases": n_corpus,
        "divergences": len(divergences),
        "oracle_failures": len(oracle_fail),
        "foreign_listener_posts": {"posts": sum(1 for r in foreign_rows if r["kind"] == "foreign_post"),
                                   "owner_dispatcher_calls": sum(1 for r in foreign_rows if r["kind"] == "owner_call"),
                                   "panics": sum(1 for r in foreign_rows if r["panic"] is not None),
                                   "by_method": dict(collections.Counter(r["method"] for r in foreign_rows)),
                                   "http_status": dict(collections.Counter(str(r["status"]) for r in foreign_rows))},
        "slowest_call_us": slowest,
        "largest_single_allocation_bytes": peak,
    })
    return V.finish(cov, [
        "bech32, bs58, serde_json, base64, age's parser, secp256k1 and curve25519 point parsers are external: their "
        "answers on the inputs enter the model as tables computed by the harness with the real libraries; they are "
        "exercised for panics only through the harness streams",
        "base58 and SHA-256 are parameters of the theorems; the correspondence run uses executable Gallina versions",
        "the harness build has overflow checks on (a wrapping release build is not exercised)",
        "JSON-RPC listeners are covered at the level of the types they deserialize (slates, slatepacks, addresses, "
        "payment proofs, EncryptedRequest); the hyper/easy-jsonrpc layers are not driven",
        "time bound: 2 s per call on inputs up to 8 kB; the base58 layer is quadratic in the armor length (bounded by "
        "slatepack::max_size), which the linear bound of the model excludes explicitly",
    ])
