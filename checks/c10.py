"""C10 — encrypted slatepacks are readable only by their recipients and tamper-evident; plain
armored slatepacks report corruption (DESIGN.md section 6, C10; design.d/C10.md)."""
import collections
import glob
import json
import os

import vlib
from vlib import cN, cL

PROP = "C10"
IMPORTS = "From GW Require Import Base CodecBase CodecSlatepack Box."

VERDICT = {0: "accepted, original payload and sender", 1: "rejected", 2: "panic",
           3: "accepted with a different payload/sender/mode", 4: "handed back still sealed"}
EDIT = {0: "change", 1: "drop", 2: "insert", 3: "transpose"}


def chunks(h):
    if not h:
        return "(@nil N)"
    return cL(["0x1%s%%N" % h[i:i + 512] for i in range(0, len(h), 512)])


def ub(h):
    return "(unpk %s)" % chunks(h)


def opt_ub(h):
    return "(@None bytes)" if h is None else "(Some %s)" % ub(h)


def nlist(xs):
    return "(@nil N)" if not xs else cL([cN(x) for x in xs])


def tlist(ty, items):
    return "(@nil %s)" % ty if not items else cL(items)


def case_term(r):
    im = r["impl"]
    ed = im["edits"]
    keys = tlist("(N * N * N * N)", ["(%s, %s, %s, %s)" % tuple(cN(x) for x in k) for k in im["keys"]])
    multi = tlist("(list N * N * N)", ["(%s, %s, %s)" % (nlist(m[0]), cN(m[1]), cN(m[2])) for m in im["multi"]])
    exc = tlist("(N * N)", ["(%s, %s)" % (cN(a), cN(b)) for a, b in ed.get("bin_exc", [])])
    aed = tlist("(N * N * N * N)", ["(%s, %s, %s, %s)" % tuple(cN(x) for x in e) for e in ed.get("armor_edits", [])])
    return "(mkCase %s %s %s %s %s %s %s %s %s %s %s %s %s %s %s)" % (
        opt_ub(im["sender_text"]),
        tlist("bytes", [ub(x) for x in im["rcpt_texts"]]),
        chunks(im["slate_bin"]),
        chunks(im["box"] if im["rcpts"] else ""),
        cL([ub(x) for x in im["pubs"]]),
        cN(im["ek"]),
        chunks(im["armor"]),
        chunks(im["bin"]),
        chunks(im["plain"] or ""),
        keys, multi, cN(ed.get("bin_stride", 1)), cN(ed.get("bin_n", 0)), exc, aed)


def explain(flags, r):
    """model-vs-implementation mismatch flags of Box.check_msg -> text"""
    out, i = [], 0
    while i < len(flags):
        f = flags[i]
        if f == 1:
            out.append("armored text differs byte-wise from armor_encode(model binary slatepack)"); i += 1
        elif f == 2:
            out.append("binary slatepack differs byte-wise from the model's (header bytes / flags / sender / length / payload)"); i += 1
        elif f == 3:
            out.append("plaintext inside the age box differs from pre_encrypt(metadata with the sender, slate)"); i += 1
        elif f == 4:
            out.append("binary encrypted slatepack is not clear_part(len box) ++ box"); i += 1
        elif f in (10, 11, 12):
            what = {10: "deser_slatepack", 11: "slate_from_slatepack_message", 12: "decode_slatepack_message"}[f]
            out.append("%s with key %d: model says '%s'" % (what, flags[i + 1], VERDICT.get(flags[i + 2]))); i += 3
        elif f in (13, 14):
            what = {13: "slate_from_slatepack_message", 14: "decode_slatepack_message"}[f]
            out.append("%s with a list of %d keys: model says '%s'" % (what, flags[i + 1], VERDICT.get(flags[i + 2]))); i += 3
        elif f == 21:
            out.append("model enumerates %d binary edits, harness ran %d" % (flags[i + 1], r["impl"]["edits"]["bin_n"])); i += 2
        elif f == 20:
            rest = flags[i + 1:]
            # the model's exceptions follow until the next flag (only ever last before 30s)
            j = 0
            while j + 1 < len(rest) and rest[j] != 30:
                j += 2
            out.append("binary single-byte edits: the model's non-rejected edits (index, verdict) start %s; the "
                       "implementation's start %s" % (rest[:j][:16], r["impl"]["edits"]["bin_exc"][:8]))
            i += 1 + j
        elif f == 30:
            e = r["impl"]["edits"]["armor_edits"][flags[i + 1]]
            out.append("armor edit %s at %d (value %d): implementation '%s', model '%s'" % (
                EDIT.get(e[0]), e[1], e[2], VERDICT.get(e[3]), VERDICT.get(flags[i + 2]))); i += 3
        else:
            out.append("flag %s" % flags[i:]); break
    return out


def load(path):
    return [json.loads(l) for l in open(path)]


def run_harness(binp, wd, name, args, env=None):
    out = os.path.join(wd, name)
    rc, log = vlib.sh([binp, "--out", out] + args, timeout=3000, env=env)
    if rc != 0:
        raise vlib.Infra("c10 harness failed: " + log[-2000:])
    return load(out)


def run(tier, replay):
    V = vlib.Verdict(PROP, tier)
    wd = vlib.workdir(PROP)
    (binp,) = vlib.build_harness(["c10"])
    proof = vlib.proof_stage(PROP, V, "props/C10.v")

    rows = []
    corpus = sorted(glob.glob(os.path.join(vlib.VERIF, "corpus", PROP, "*.json")))
    if replay:
        corpus = [replay]
    for k, f in enumerate(corpus):
        rows += run_harness(binp, wd, "corpus%d.jsonl" % k, ["--replay", f, "--model-edits", "16"])
    n_corpus = len(rows)
    if not replay:
        if tier == "quick":
            rows += run_harness(binp, wd, "gen.jsonl", ["--n", "15", "--model-edits", "20"])
        else:
            for k in range(4):
                rows += run_harness(binp, wd, "gen%d.jsonl" % k, ["--n", "40", "--model-edits", "40"],
                                    env={"VERIF_SEED": str(vlib.seed() * 1000 + k)})

    built = [i for i, r in enumerate(rows) if r["impl"] is not None]
    terms = [case_term(rows[i]) for i in built]
    # one message per coqc process (armor decoding in Gallina dominates); long ones first
    order = sorted(range(len(built)), key=lambda k: -len(rows[built[k]]["impl"]["armor"]))
    res = vlib.coq_eval(PROP, IMPORTS, "check_msg", [terms[k] for k in order], shard=1)
    model = {}
    for k, m in zip(order, res):
        model[built[k]] = m

    kinds = collections.Counter()
    sizes = collections.Counter()
    hist_armor, hist_bin = collections.Counter(), collections.Counter()
    divergences, oracle_fail, probes = [], [], []
    distinct = set()
    n_edits = n_model_edits = n_key_reads = 0
    for i, r in enumerate(rows):
        c = r["case"]
        for p in r.get("probe", []):
            if p not in probes:
                probes.append(p)
        if r["impl"] is None:
            kinds["message-not-built"] += 1
            oracle_fail.append({"case": c, "failures": r["oracle"]})
            continue
        im = r["impl"]
        ed = im["edits"]
        nr = len(im["rcpts"])
        sizes[str(nr)] += 1
        for k, v in ed.get("armor_hist", {}).items():
            hist_armor[("encrypted:" if nr else "plain:") + k] += v
        for k, v in ed.get("bin_hist", {}).items():
            hist_bin[k] += v
        n_edits += ed.get("armor_n", 0) + ed.get("bin_n", 0)
        n_model_edits += ed.get("bin_n", 0) + len(ed.get("armor_edits", []))
        n_key_reads += 3 * len(im["keys"]) + 2 * len(im["multi"])
        if model.get(i):
            divergences.append({"case": c, "what": explain(model[i], r), "flags": model[i][:40]})
        if r["oracle"]:
            kinds[("encrypted" if nr else "plain") + ":oracle-failure"] += 1
            oracle_fail.append({"case": c, "failures": r["oracle"]})
        else:
            kinds[("encrypted-to-%d" % nr if nr else "plain") + ":ok"] += 1
            distinct.add(json.dumps(c, sort_keys=True))
    if probes:
        oracle_fail.insert(0, {"case": None, "failures": probes})

    seen = set()
    for f in oracle_fail:
        key = f["failures"][0][:40]
        if key in seen:
            continue
        seen.add(key)
        V.violation({"property": PROP, "kind": "oracle", "what": f["failures"], "case": f["case"],
                     "replay_cmd": "./check C10 --replay <this file>"})
    if divergences and not oracle_fail:
        V.violation({"property": PROP, "kind": "correspondence",
                     "correspondence": "Box.{create_slatepack,pack_bin,pack,try_decrypt_payload,deser,try_keys,decode_keys} "
                                       "with the ideal box (coq/theories/Box.v check_msg) vs owner::create_slatepack_message / "
                                       "slate_from_slatepack_message / decode_slatepack_message / Slatepacker::deser_slatepack "
                                       "with real age",
                     "theorems_no_longer_tied": proof["theorems"],
                     "n_divergences": len(divergences), "cases": [d["case"] for d in divergences[:5]],
                     "first": divergences[:3]}, no_input=True)

    cov = dict(proof)
    cov.update({
        "evaluations": n_key_reads + n_edits,
        "distinct_nontrivial": len(distinct),
        "rule": "cases = corpus + PRNG-generated messages: slate (C08's structural generator: optional fields, states, "
                "0..3 participants, 0..3 commitments with and without range proofs; plus S1/S2/S3 of a real send between "
                "LMDB wallets), sender address present/absent, recipient set of size 0..4 (0 = plain) drawn from 4 "
                "wallets x derivation indices {0,1,2,9}. Per message: all 16 keys through deser_slatepack, "
                "slate_from_slatepack_message and decode_slatepack_message, index lists and no key; every single-byte "
                "edit of the binary encrypted slatepack (255 values at each of the 17 clear bytes; 3 bit patterns, drop, "
                "insert at every box position; append); every single-character edit of the armored text (4 replacement "
                "characters, drop, 2 insertions, transposition at every position; every k-th position for texts over "
                "1200 characters, framing always). evaluations = key reads + edits run on the implementation; "
                "non-trivial = distinct message on which every oracle clause held. The model is evaluated on every key "
                "read and every binary edit and on a stratified sample of the armor edits (all verdict classes)",
        "samples": [rows[i]["case"] for i in range(min(3, len(rows)))],
        "traces_validated_against_impl": len(model) - len(divergences),
        "modelled_messages": len(model),
        "model_evaluated_edits": n_model_edits,
        "implementation_edits": n_edits,
        "key_reads": n_key_reads,
        "result_kinds": dict(kinds),
        "recipient_set_sizes": dict(sizes),
        "armor_edit_verdicts(kind:region:class)": dict(hist_armor),
        "binary_edit_verdicts(kind:region:class)": dict(hist_bin),
        "verdict_classes": {str(k): v for k, v in VERDICT.items()},
        "corpus_cases": n_corpus,
        "divergences": len(divergences),
        "oracle_failures": len(oracle_fail),
    })
    return V.finish(cov, [
        "ASSUMED, not proved: confidentiality and integrity of age 0.7 (X25519 recipient stanzas, header HMAC, "
        "ChaCha20-Poly1305 STREAM) in the form of Box.ideal_box (a sealed message opens exactly under the recipients' "
        "keys, nothing else opens under any key); the run checks its predictions on every generated key and edit",
        "ASSUMED: the 4-byte truncated double SHA-256 does not match by accident on altered content (2^-32 per trial); "
        "the theorems state what an accepted text must satisfy, not that no such text exists",
        "the ed25519 -> x25519 conversions (address and secret key) are exercised (injective on the 16-key table, "
        "identity matches converted address), not proved",
        "base58 and SHA-256 are parameters of the theorems (decode inverts encode, alphabet without period/whitespace, "
        "4 bytes); the run uses executable Gallina versions; bech32 address parsing and serde_json's fallback are external",
        "the slate is the payload byte string (its own encoding is C08); get_slate is composed only in "
        "C10_api_slate_roundtrip",
        "armor edits are evaluated in the model on a stratified sample only (Gallina base58 is slow); all of them are run "
        "on the implementation and judged by the oracle",
    ], level="proof")
