"""C11 — payment proofs are sound end to end (DESIGN.md section 6, C11; design.d/C11.md)."""
import collections
import glob
import json
import os
from concurrent.futures import ThreadPoolExecutor

import vlib

PROP = "C11"
IMPORTS = "From GW Require Import Proto."


def load(path):
    return [json.loads(l) for l in open(path)]


def run_harness(binp, wd, name, args, env=None):
    out = os.path.join(wd, name)
    rc, log = vlib.sh([binp, "--out", out] + args, timeout=3000, env=env)
    if rc != 0:
        raise vlib.Infra("c11 harness failed (%s): %s" % (" ".join(args), log[-2000:]))
    return load(out)




def run(tier, replay):
    V = vlib.Verdict(PROP, tier)
    wd = vlib.workdir(PROP)
    (binp,) = vlib.build_harness(["c11"])
    proof = vlib.proof_stage(PROP, V, "props/C11.v")

    corpus = sorted(glob.glob(os.path.join(vlib.VERIF, "corpus", PROP, "*.json")))
    if replay:
        corpus = [replay]
    jobs = [("corpus%d.jsonl" % i, ["--replay", f, "--shard", str(100 + i)]) for i, f in enumerate(corpus)]
    n_corpus_jobs = len(jobs)
    if not replay:
        shards, n = (16, 10) if tier == "quick" else (16, 90)
        for sh in range(shards):
            jobs.append(("gen%d.jsonl" % sh, ["--n", str(n), "--shard", str(sh),
                                              "--thorough", "1" if tier != "quick" else "0"]))
    with ThreadPoolExecutor(max_workers=16) as ex:
        futs = [ex.submit(run_harness, binp, wd, name, args) for name, args in jobs]
        res = [f.result() for f in futs]
    n_corpus = sum(len(r) for r in res[:n_corpus_jobs])
    rows = [x for r in res for x in r]

    fin = [r for r in rows if "coq" in r]
    ver = [r for r in rows if "coqv" in r]
    ends = [r for r in rows if r.get("end")]
    m_fin = vlib.coq_eval(PROP, IMPORTS, "run_case", [r["coq"] for r in fin], shard=60)
    m_ver = vlib.coq_eval(PROP, IMPORTS, "run_verify_t", [r["coqv"] for r in ver], shard=60) if ver else []

    kinds = collections.Counter()
    vkinds = collections.Counter()
    flows = collections.Counter()
    muts = collections.Counter()
    distinct = set()
    divergences = []
    oracle_fail = []
    for r, m in zip(fin, m_fin):
        impl = [int(x) for x in r["impl"]]
        sc = r["script"]
        tag = {0: "ok", 1: "err%d" % (impl[1] if len(impl) > 1 else -1), 2: "panic"}[impl[0]]
        kinds[tag] += 1
        flows["%s/pp%d" % (sc["flow"], sc["pp"])] += 1
        muts[r["mut"][0]] += 1
        distinct.add((sc["flow"], sc["pp"], json.dumps(sc["forge"]), json.dumps(r["mut"]), tag,
                      sc["exact_slack"], sc["n_change"], sc["src_acct"], sc["active_ok"]))
        if impl != m:
            divergences.append({"stage": "finalize_tx", "script": sc, "mut": r["mut"], "case": r["j"],
                                "impl": r["impl"], "model": [str(x) for x in m], "info": r.get("info")})
        if r["oracle"]:
            oracle_fail.append({"stage": "finalize_tx", "script": sc, "mut": r["mut"], "case": r["j"],
                                "impl": r["impl"], "failures": r["oracle"], "info": r.get("info")})
    for r, m in zip(ver, m_ver):
        impl = [int(x) for x in r["impl"]]
        sc = r["script"]
        tag = {0: "ok", 1: "err", 2: "panic"}.get(impl[0], "other")
        vkinds["%s/%s" % (r["verify"]["pm"].split("(")[0], tag)] += 1
        distinct.add(("verify", sc["flow"], sc["pp"], r["verify"]["pm"], r["verify"]["verifier"],
                      r["verify"]["kernel_on_chain"], tag, sc["src_acct"], sc["active_ok"]))
        if impl != m:
            divergences.append({"stage": "verify_payment_proof", "script": sc, "mut": r["mut"], "verify": r["verify"],
                                "impl": r["impl"], "model": [str(x) for x in m]})
        if r["oracle"]:
            oracle_fail.append({"stage": "verify_payment_proof", "script": sc, "mut": r["mut"], "verify": r["verify"],
                                "impl": r["impl"], "failures": r["oracle"]})
    for r in ends:
        if r["oracle"]:
            oracle_fail.append({"stage": "end-of-exchange", "script": r.get("script"), "mut": ["end"],
                                "impl": None, "failures": r["oracle"]})

    for f in oracle_fail[:3]:
        V.violation({"property": PROP, "kind": "oracle", "stage": f["stage"], "what": f["failures"],
                     "script": f["script"], "mutation": f["mut"], "verify": f.get("verify"),
                     "impl": f["impl"], "info": f.get("info"),
                     "replay_cmd": "./check C11 --replay <this file>"})
    if divergences and not oracle_fail:
        V.violation({"property": PROP, "kind": "correspondence",
                     "correspondence": "Proto.finalize_tx / PayProof.{verify_slate_payment_proof, retrieve_payment_proof, "
                                       "verify_payment_proof} (run_case, run_verify) vs libwallet on real wallets",
                     "theorems_no_longer_tied": proof["theorems"],
                     "n_divergences": len(divergences),
                     "scripts": [d["script"] for d in divergences[:5]],
                     "first": divergences[:3]}, no_input=True)

    cov = dict(proof)
    cov.update({
        "evaluations": len(fin) + len(ver),
        "distinct_nontrivial": len(distinct),
        "rule": "finalize evaluations: one call of finalize_tx on a real wallet with a reply (real counterparty or a "
                "re-signing forger) whose payment-proof field was mutated (stripped, signature dropped, re-signed by "
                "another wallet's address key with and without its address, signed over amount±1 / another excess / "
                "another sender address, sender or recipient address replaced, a proof nobody asked for) and sent "
                "through the JSON wire format; flows: send locked with the first slate, send locked with the reply, "
                "late lock; accounts, 0..3 change outputs, proof requested for the counterparty / a third party / "
                "not at all. verify evaluations: the proof exported by retrieve_payment_proof after an accepted "
                "finalize, unaltered and with each field altered (amount±1, another on-chain excess, either address, "
                "either signature re-made by a third key, signatures swapped, addresses swapped), verified by "
                "verify_payment_proof in the sender's, the recipient's and a third wallet, before and after the "
                "kernel is mined. distinct = distinct (stage, flow, mutation, verdict, shape) tuples",
        "samples": [{"script": r["script"], "mut": r["mut"], "impl": r["impl"]} for r in fin[:2]] +
                   [{"script": r["script"], "verify": r["verify"], "impl": r["impl"]} for r in ver[:2]],
        "traces_validated_against_impl": len(fin) + len(ver) - len(divergences),
        "finalize_evaluations": len(fin),
        "verify_evaluations": len(ver),
        "result_kinds": dict(kinds),
        "verify_result_kinds": dict(vkinds),
        "flows": dict(flows),
        "mutations": dict(muts),
        "corpus_rows": n_corpus,
        "divergences": len(divergences),
        "oracle_failures": len(oracle_fail),
    })
    return V.finish(cov, [
        "ideal ed25519 in the theorems (exactly the key holder's signatures verify; a signature determines message "
        "and key): unforgeability is assumed, real ed25519-dalek only exercised by the correspondence runs and the oracle",
        "the signed message is modelled as the triple (amount, excess, sender address); the byte encoding is fixed-width",
        "Schnorr/commitment idealisation of C02 for the kernel excess",
        "self-send and invoice flows carry no payment proof and are covered by C02 only",
    ], level="proof")
