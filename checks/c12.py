"""C12 — secrets never leave the wallet in clear; signing nonces are never reused
(DESIGN.md section 6, C12; design.d/C12.md)."""
import collections
import glob
import json
import os
import re
import shutil
from concurrent.futures import ThreadPoolExecutor

import vlib
from vlib import cN, cB, cL

PROP = "C12"
OPN = {0: "init", 1: "recv", 2: "fin", 3: "invoice", 4: "pay", 5: "fininv", 6: "cancel", 7: "reopen", 8: "mine"}


def load(path):
    return [json.loads(l) for l in open(path) if l.strip()]


def harness(binp, wd, name, args, env=None, pre=None):
    out = os.path.join(wd, name)
    if os.path.exists(out):
        os.remove(out)
    cmd = (pre or []) + [binp, "--out", out] + args
    rc, log = vlib.sh(cmd, timeout=3000, env=env)
    if rc != 0 or not os.path.exists(out):
        raise vlib.Infra("c12 harness failed (%s): %s" % (" ".join(args), log[-2000:]))
    return load(out)


# ------------------------------------------------------------------------------ source scan (c)

def source_facts():
    """Table-like facts about the test-RNG plumbing (DESIGN.md A.10), tied to the source text."""
    def rd(p):
        return open(os.path.join("/repo", p)).read()
    facts = []

    def fact(name, ok, where):
        facts.append({"fact": name, "holds": bool(ok), "where": where})

    s = rd("src/cmd/wallet.rs")
    fact("the binary passes the literal false as test_mode to wallet_args::wallet_command",
         re.search(r"wallet_args::wallet_command\(\s*wallet_args,\s*wallet_config,\s*tor_config,\s*node_client,\s*false,", s),
         "src/cmd/wallet.rs")
    s = rd("src/cmd/wallet_args.rs")
    fact("wallet_command's 5th parameter is test_mode and doctest_mode is set only under it",
         re.search(r"pub fn wallet_command<C, F>\(\s*wallet_args: &ArgMatches,\s*mut wallet_config: WalletConfig,\s*"
                   r"tor_config: Option<TorConfig>,\s*mut node_client: C,\s*test_mode: bool,", s)
         and len(re.findall(r"doctest_mode\s*=\s*true", s)) == 1
         and re.search(r"if test_mode \{\s*owner_api\.doctest_mode = true;", s),
         "src/cmd/wallet_args.rs")
    s = rd("libwallet/src/api_impl/foreign.rs")
    fact("the late-lock branch of finalize_tx builds its temporary context with use_test_rng = false",
         re.search(r"Some\(context\.fee\.map\(\|f\| f\.fee\(\)\)\.unwrap_or\(0\)\),\s*parent_key_id\.clone\(\),\s*false,\s*true,\s*false,", s),
         "libwallet/src/api_impl/foreign.rs")
    m = re.search(r"pub fn receive_tx.*?\n}\n", s, flags=re.S)
    body = m.group(0) if m else ""
    fact("foreign::receive_tx hands its use_test_rng parameter (no literal) to add_output_to_slate",
         re.search(r"tx::add_output_to_slate\(\s*&mut \*w,\s*keychain_mask,\s*&mut ret_slate,\s*height,\s*&parent_key_id,\s*false,\s*use_test_rng,\s*\)", body),
         "libwallet/src/api_impl/foreign.rs")
    s = rd("libwallet/src/api_impl/owner.rs")
    calls = re.findall(r"tx::(?:add_inputs_to_slate|add_output_to_slate|create_late_lock_context)\((.*?)\)\?", s, flags=re.S)
    fact("owner::{init_send_tx, issue_invoice_tx, process_invoice_tx} pass use_test_rng through (no literal true)",
         len(calls) == 4 and all("use_test_rng" in c and not re.search(r"\btrue,\s*true\b", c) for c in calls)
         and not any(re.search(r",\s*true,\s*\)?\s*$", c.strip()) for c in calls),
         "libwallet/src/api_impl/owner.rs")
    s = rd("libwallet/src/types.rs")
    fact("Context::new / with_excess draw from thread_rng / create_secnonce unless use_test_rng",
         re.search(r"let sec_key = match use_test_rng \{\s*false => SecretKey::new\(secp, &mut thread_rng\(\)\),", s)
         and re.search(r"let sec_nonce = match use_test_rng \{\s*false => aggsig::create_secnonce\(secp\)\.unwrap\(\),", s),
         "libwallet/src/types.rs")
    s = rd("api/src/owner.rs")
    fact("api::Owner starts with doctest_mode = false and hands self.doctest_mode to the three initiating calls",
         re.search(r"doctest_mode: false,", s)
         and re.search(r"owner::init_send_tx\(&mut \*\*w, keychain_mask, args, self\.doctest_mode\)", s)
         and re.search(r"owner::issue_invoice_tx\(&mut \*\*w, keychain_mask, args, self\.doctest_mode\)", s)
         and re.search(r"owner::process_invoice_tx\(&mut \*\*w, keychain_mask, slate, args, self\.doctest_mode\)", s),
         "api/src/owner.rs")
    s = rd("controller/src/controller.rs")
    fact("the foreign listener builds Foreign with the listener's test_mode; foreign_single_use with false",
         re.search(r"Foreign::new\(wallet, mask, Some\(check_middleware\), test_mode\)", s)
         and re.search(r"f\(&mut Foreign::new\(\s*wallet,\s*keychain_mask,\s*Some\(check_middleware\),\s*false,\s*\)\)", s),
         "controller/src/controller.rs")
    s = rd("impls/src/backends/lmdb.rs")
    fact("save_private_context XORs all four secret fields; get_private_context undoes it",
         len(re.findall(r"s_ctx\.(?:sec_key|sec_nonce|initial_sec_key|initial_sec_nonce)\.0\[i\] \^= ", s)) == 4
         and len(re.findall(r"\bctx\.(?:sec_key|sec_nonce|initial_sec_key|initial_sec_nonce)\.0\[i\] \^= ", s)) == 4,
         "impls/src/backends/lmdb.rs")
    return facts


# ------------------------------------------------------------------------------ histories (a, c)

def hist_projection(row, me):
    """The calls wallet `me` made in this history, as model ops, with the harness rows."""
    ops, rows, own = [], [], 0
    owner = {}
    for st in row["steps"]:
        op = st["op"]
        code, w, f, flag = op[0], op[1] % 2, op[2], op[3]
        if code in (0, 3):
            # the flow exists for everybody, whoever created it
            if st["res"] == 4:
                owner[f] = None
            elif w == me:
                owner[f] = own
        if w != me or st["res"] in (3, 4):
            if code in (0, 3) and w != me:
                owner.setdefault(f, None)
            continue

        def sid():
            k = owner.get(f)
            return "(Own %s)" % cN(k) if k is not None else "(Ext %s)" % cN(f)
        if code == 0:
            ops.append("OInit %s" % cB(flag))
            own += 1
        elif code == 3:
            ops.append("OInvoice")
            own += 1
        elif code == 1:
            ops.append("ORecv %s" % sid())
        elif code == 2:
            ops.append("OFin %s %s" % (sid(), cN(st.get("n_in", 0))))
        elif code == 4:
            ops.append("OPay %s" % sid())
        elif code == 5:
            ops.append("OFinInv %s %s" % (sid(), cN(st.get("n_in", 0))))
        elif code == 6:
            ops.append("OCancel %s" % sid())
        else:
            ops.append("ONop")
        rows.append(st)
    return ops, rows


def canon_impl(rows):
    ids = {}

    def rn(x):
        return ids.setdefault(x, len(ids))
    out = []
    for st in rows:
        if st["res"] != 0:
            out.append([st["res"]])
            continue
        r = [0]
        rec = st.get("rec")
        if rec and st["op"][0] != 2:
            encs = rec["enc"]
            if len(encs) == 1:
                r.append(1)
                for e, i in zip(encs[0], rec["ids"]):
                    r += [e, rn(i)]
            else:
                r += [1, -1, len(encs)]     # no, or no unique, stored record found
        else:
            r += [0, 3, 0, 3, 0, 3, 0, 3, 0]
        r += [st["echo"], len(st["new"])]
        for n, k, s in st["new"]:
            r += [rn(n), rn(k), 1 if s else 0]
        out.append(r)
    return out


def canon_model(mrows, rows):
    ids = {}

    def rn(x):
        return ids.setdefault(x, len(ids))
    out = []
    for m, st in zip(mrows, rows):
        m = [int(x) for x in m]
        if m[0] != 0:
            out.append([m[0]])
            continue
        r = [0]
        has, fields = m[1], m[2:10]
        if has and st["op"][0] != 2:
            r.append(1)
            for j in range(4):
                r += [fields[2 * j], rn(fields[2 * j + 1])]
        else:
            r += [0, 3, 0, 3, 0, 3, 0, 3, 0]
        echo, n = m[10], m[11]
        r += [echo, n]
        for j in range(n):
            a, b, s = m[12 + 3 * j: 15 + 3 * j]
            r += [rn(a), rn(b), s]
        out.append(r)
    return out


def nonce_oracle(row):
    """Part (c) on the implementation: per wallet, no public nonce / excess in two flows."""
    fails = []
    if row["case"].get("test_rng"):
        return fails
    for me in (0, 1):
        seen_n, seen_k = {}, {}
        for st in row["steps"]:
            if st["op"][1] % 2 != me or st["res"] != 0:
                continue
            f = st["op"][2]
            for n, k, _ in st["new"]:
                for what, d, v in (("public_nonce", seen_n, n), ("public_blind_excess", seen_k, k)):
                    if v in d and d[v] != f:
                        fails.append({"wallet": me, "what": "%s %s emitted for flows %d and %d" % (what, v, d[v], f)})
                    d.setdefault(v, f)
    return fails


# ------------------------------------------------------------------------------ seed file (b)

def LN(items):
    """list N literal (typed also when empty)"""
    return cL(items) if items else "(@nil N)"


def utf8(s):
    return LN([cN(b) for b in s.encode("utf-8")])


def seed_term(c):
    return "(%s, %s, %s, %s)" % (
        LN([cN(b) for b in c["seed"]]), utf8(c["pw"]),
        cL([utf8(t) for t in c["tries"]]) if c["tries"] else "(@nil (list N))",
        cL(["(%s, %s)" % (cN(m[0]), cN(m[1])) for m in c["muts"]]) if c["muts"] else "(@nil (N * N))")


def fileops_term(c):
    baks = ["(%d%%nat, %s, %s)" % (b, cN(d[0]), cN(d[1])) for b, d in zip(c["baks"], c["bak_desc"])]
    return "mkFcase %s %s %s %s %s %s" % (
        cB(c["op"] == "change"), cB(not c.get("no_seed_file")),
        cL(baks) if baks else "(@nil (nat * N * N))", cB(c["old"] == c["new"]),
        cB(bool(c.get("wrong_old"))), cN(c.get("phrase_kind", 0)))


def fcode(name):
    if name == "wallet.seed":
        return 0
    if name == "wallet.seed.bak":
        return 1
    m = re.match(r"wallet\.seed\.bak\.(\d+)$", name)
    return int(m.group(1)) + 1 if m else -1


def parse_trace(path, base):
    """strace output -> {case id: [[kind, name, name2?]...]} for files wallet.seed* between the
    BEGIN_i / END_i markers the harness emits."""
    events, cur, fdmap = {}, None, {}
    q = r'"((?:[^"\\]|\\.)*)"'
    for line in open(path, errors="replace"):
        m = re.match(r"^(\d+)\s+(\w+)\((.*)\)\s+=\s+(-?\d+)", line)
        if not m:
            continue
        pid, sc, args, ret = m.group(1), m.group(2), m.group(3), int(m.group(4))
        mk = re.search(r"C12MARK_(BEGIN|END)_(\d+)", args)
        if mk:
            cur = int(mk.group(2)) if mk.group(1) == "BEGIN" else None
            if cur is not None:
                events[cur] = []
            continue
        if sc == "close":
            fdmap.pop((pid, args.strip()), None)
            continue
        if cur is None:
            continue
        ev = events[cur]

        def seedname(p):
            b = os.path.basename(p)
            return b if b.startswith("wallet.seed") and "/f%d/" % cur in p else None
        if sc == "openat":
            pm = re.search(q + r",\s*([A-Z_|0-9]+)", args)
            if not pm or ret < 0:
                continue
            n = seedname(pm.group(1))
            if n is None:
                fdmap.pop((pid, str(ret)), None)
                continue
            flags = pm.group(2)
            if "O_WRONLY" in flags or "O_RDWR" in flags:
                ev.append(["create" if ("O_TRUNC" in flags or "O_CREAT" in flags) else "openw", n])
                fdmap[(pid, str(ret))] = n
            else:
                ev.append(["read", n])
                fdmap.pop((pid, str(ret)), None)
        elif sc == "write":
            fd = args.split(",")[0].strip()
            n = fdmap.get((pid, fd))
            if n and ret >= 0:
                if not (ev and ev[-1][:2] == ["write", n]):
                    ev.append(["write", n])
        elif sc in ("rename", "renameat", "renameat2"):
            ps = re.findall(q, args)
            if len(ps) >= 2 and ret == 0:
                a, b = seedname(ps[0]), seedname(ps[1])
                if a or b:
                    ev.append(["rename", a or ps[0], b or ps[1]])
        elif sc in ("unlink", "unlinkat"):
            ps = re.findall(q, args)
            if ps and ret == 0 and "AT_REMOVEDIR" not in args:
                n = seedname(ps[0])
                if n:
                    ev.append(["remove", n])
    return events


EFF = {"read": 0, "rename": 1, "create": 2, "write": 3, "remove": 4}


def eff_flat(evs):
    out = []
    for e in evs:
        out += [EFF.get(e[0], 9), fcode(e[1]), fcode(e[2]) if len(e) > 2 else 0]
    return out


def unflat_eff(flat):
    names = {0: "wallet.seed", 1: "wallet.seed.bak"}
    kinds = {v: k for k, v in EFF.items()}
    out = []
    for i in range(0, len(flat), 3):
        k, a, b = flat[i:i + 3]
        e = [kinds[k], names.get(a, "wallet.seed.bak.%d" % (a - 1))]
        if k == 1:
            e.append(names.get(b, "wallet.seed.bak.%d" % (b - 1)))
        out.append(e)
    return out


# ------------------------------------------------------------------------------ the check

def run(tier, replay):
    V = vlib.Verdict(PROP, tier)
    wd = vlib.workdir(PROP)
    (binp,) = vlib.build_harness(["c12"])
    proof = vlib.proof_stage(PROP, V, "props/C12.v")
    seed = vlib.seed()
    kinds = collections.Counter()
    nontrivial = set()
    divergences = []
    oracle_fail = []
    samples = []
    n_eval = 0
    validated = 0

    corpus = sorted(glob.glob(os.path.join(vlib.VERIF, "corpus", PROP, "*.json")))
    if replay:
        corpus = [replay]
    by_kind = collections.defaultdict(list)
    for f in corpus:
        c = json.load(open(f))
        c = c.get("case", c)
        by_kind[c.get("kind", "hist")].append(f)

    # ---------------- source scan
    facts = source_facts()
    for fct in facts:
        if not fct["holds"]:
            V.violation({"property": PROP, "kind": "correspondence",
                         "correspondence": "test-RNG plumbing / masking table of the model (Secrets.v step, record_of) vs source text",
                         "fact_no_longer_true": fct, "theorems_no_longer_tied": ["C12_nonces_never_reused", "C12_no_secret_in_clear"]},
                        no_input=True)

    # ---------------- (a) + (c): histories
    hist_rows = []
    jobs = []
    for i, f in enumerate(by_kind["hist"]):
        jobs.append(("hc%d.jsonl" % i, ["--mode", "hist", "--replay", f], None))
    if not replay:
        jobs.append(("hfixed.jsonl", ["--mode", "hist", "--fixed", "1", "--n", "0"], None))
        shards, n, ln = (12, 2, 22) if tier == "quick" else (16, 10, 40)
        for k in range(shards):
            jobs.append(("h%d.jsonl" % k, ["--mode", "hist", "--n", str(n), "--len", str(ln), "--shard", str(k)],
                         {"VERIF_SEED": str(seed)}))
    with ThreadPoolExecutor(max_workers=16) as ex:
        for rows in ex.map(lambda j: harness(binp, wd, j[0], j[1], env=j[2]), jobs):
            hist_rows += rows
    terms, meta = [], []
    for r in hist_rows:
        if "harness_panic" in r:
            raise vlib.Infra("c12 harness panicked: %s" % r["harness_panic"])
        for me in (0, 1):
            ops, rows = hist_projection(r, me)
            terms.append("(%s, %s)" % (cB(r["case"].get("test_rng", False)), cL(ops) if ops else "(@nil op)"))
            meta.append((r, me, rows))
    model = vlib.coq_eval(PROP, "From GW Require Import Secrets.", "run_hist", terms, shard=8) if terms else []
    for (r, me, rows), mrows in zip(meta, model):
        ci, cm = canon_impl(rows), canon_model(mrows, rows)
        n_eval += len(rows)
        for st, a in zip(rows, ci):
            kinds["%s:%s" % (OPN.get(st["op"][0], "?"), {0: "ok", 1: "err", 2: "panic"}.get(st["res"], "skip"))] += 1
            if st["res"] == 0 and st["op"][0] < 6:
                nontrivial.add(("hist", st["op"][0], st["op"][3], tuple(a[1:10]), len(a), r["case"].get("test_rng"),
                                tuple(r["case"].get("masks", []))[me]))
        if ci != cm:
            first = next((i for i, (a, b) in enumerate(zip(ci, cm)) if a != b), min(len(ci), len(cm)))
            divergences.append({"case": r["case"], "wallet": me, "step": rows[first]["op"] if first < len(rows) else None,
                                "impl": ci[first] if first < len(ci) else None,
                                "model": cm[first] if first < len(cm) else None,
                                "res_text": rows[first].get("res_text") if first < len(rows) else None,
                                "level": "owner/foreign call history vs Secrets.run_hist (result, stored record encoding, own participant entries)"})
        else:
            validated += len(rows)
    for r in hist_rows:
        skipped = sum(1 for st in r["steps"] if st["res"] == 4)
        kinds["hist:env-skipped-steps"] += skipped
        # listed finding: paying one's own invoice, process_invoice_tx adjusts the offset with a context
        # stripped of its inputs and outputs: offset(I2) = offset(I1) - sec_key
        def self_paid(h):
            import re as _re
            mm = _re.match(r"w(\d+)\.flow(\d+)\.", h["secret"])
            if not mm or not h["where"].startswith("msg:I2:offset"):
                return False
            wl, fl = int(mm.group(1)), int(mm.group(2))
            ops = r["case"].get("ops", [])
            return any(o[0] == 3 and o[1] == wl and o[2] == fl for o in ops) and \
                any(o[0] == 4 and o[1] == wl and o[2] == fl for o in ops)
        kh = [h for h in r["hits"] if self_paid(h)]
        if kh:
            V.known_finding("the Invoice2 slate of a self-paid invoice carries offset(I1) minus the paying context's secret "
                            "key: one subtraction of two slate offsets recovers a pending transaction's blinding key",
                            "C12-self-paid-invoice-offset-reveals-key")
            r["hits"] = [h for h in r["hits"] if not self_paid(h)]
        if r["hits"]:
            oracle_fail.append({"case": r["case"], "failures": [
                "%s of wallet %s found in %s form in %s (step %s%s)" % (
                    h["secret"], h["secret_owner"], h["form"], h["where"], h["step"],
                    ", JSON field %s" % h["json_field"] if h.get("json_field") else "") for h in r["hits"][:12]]})
        dup = nonce_oracle(r)
        if dup:
            oracle_fail.append({"case": r["case"], "failures": [d["what"] + " by wallet %d" % d["wallet"] for d in dup[:6]]})
        for st in r["steps"]:
            if st["res"] == 2:
                oracle_fail.append({"case": r["case"], "failures": ["call %s panicked: %s" % (st["op"], st.get("res_text"))]})
            # a signing context is single use: once a finalize has produced the wallet's partial
            # signature, the stored secret key and nonce must be gone — a context left behind lets a
            # second reply be signed with the same nonce under another challenge
            if st["op"][0] in (2, 5) and st["res"] == 0 and st.get("ctx_after"):   # OP_FIN / OP_FININV
                oracle_fail.append({"case": r["case"], "failures": [
                    "call %s signed and returned a finalized slate but left its private context (secret nonce "
                    "and excess) stored: the nonce can sign again" % (st["op"],)]})
    if hist_rows:
        samples.append({"kind": "hist", "ops": hist_rows[0]["case"]["ops"][:8], "stats": hist_rows[0]["stats"]})
    scan_stats = collections.Counter()
    for r in hist_rows:
        for k, v in r["stats"].items():
            scan_stats[k] += v

    # ---------------- compat: records written before the masking fix stay readable
    if not replay:
        (cr,) = harness(binp, wd, "compat.jsonl", ["--mode", "compat"])
        n_eval += 1
        if not (cr.get("legacy_record_read_back") and cr.get("finalize_ok")):
            V.violation({"property": PROP, "kind": "correspondence",
                         "correspondence": "context record written in the pre-fix layout (no marker) is read back unchanged and finalizes",
                         "observed": cr}, no_input=True)
        else:
            validated += 1

    # ---------------- (b1) seed file: encrypt / decrypt / malformed
    seed_rows = []
    for i, f in enumerate(by_kind["seed"]):
        seed_rows += harness(binp, wd, "sc%d.jsonl" % i, ["--mode", "seed", "--replay", f])
    if not replay:
        seed_rows += harness(binp, wd, "seed.jsonl", ["--mode", "seed", "--n", "36" if tier == "quick" else "240"],
                             env={"VERIF_SEED": str(seed)})
    if seed_rows:
        sm = vlib.coq_eval(PROP, "From GW Require Import Secrets.", "run_seed", [seed_term(r["case"]) for r in seed_rows], shard=40)
        for r, m in zip(seed_rows, sm):
            impl = [[r["right"]], r["wrong"], r["mal"]]
            mod = [[int(x) for x in row] for row in m]
            n_eval += 1 + len(r["wrong"]) + len(r["mal"])
            for c in r["wrong"]:
                kinds["seed:other-password:%d" % c] += 1
            for mu, c in zip(r["case"]["muts"], r["mal"]):
                kinds["seed:malformed:%d" % c] += 1
                nontrivial.add(("seedmut", mu[0], c))
            nontrivial.add(("seed", len(r["case"]["seed"]), r["case"]["pw"][:40]))
            indep = [[r["indep"]["right"]], r["indep"]["wrong"], r["indep"]["mal"]]
            if r["enc"] != 0 or impl != mod or impl != indep:
                divergences.append({"case": r["case"], "impl": impl, "model": mod, "independent_decryption": indep,
                                    "level": "EncryptedWalletSeed::from_seed/decrypt via recover_from_mnemonic/get_mnemonic vs Secrets.run_seed"})
            else:
                validated += 1 + len(r["wrong"]) + len(r["mal"])
            if r["oracle"]:
                oracle_fail.append({"case": r["case"], "failures": r["oracle"][:8]})
        samples.append({"kind": "seed", "pw": seed_rows[0]["case"]["pw"], "seed_len": len(seed_rows[0]["case"]["seed"])})

    # ---------------- (b2) file operations of change_password / recover
    fo_rows = []
    strace_ok = shutil.which("strace") is not None
    fo_dir = "/tmp/vh_c12_fo_%d" % os.getpid()
    trace = os.path.join(wd, "trace.txt")
    fo_jobs = [["--mode", "fileops", "--dir", fo_dir, "--replay", f] for f in by_kind["fileops"]]
    if not replay:
        fo_jobs.append(["--mode", "fileops", "--dir", fo_dir, "--n", "40" if tier == "quick" else "200"])
    events_all = []
    for j, a in enumerate(fo_jobs):
        pre = ["strace", "-f", "-e", "trace=openat,rename,renameat,renameat2,unlink,unlinkat,write,close", "-o", trace] if strace_ok else None
        try:
            rows = harness(binp, wd, "fo%d.jsonl" % j, a, env={"VERIF_SEED": str(seed)}, pre=pre)
        except vlib.Infra:
            if not strace_ok:
                raise
            strace_ok = False           # ptrace not permitted here: fall back to the model's order
            rows = harness(binp, wd, "fo%d.jsonl" % j, a, env={"VERIF_SEED": str(seed)})
        ev = parse_trace(trace, fo_dir) if strace_ok else {}
        for r in rows:
            events_all.append(ev.get(r["id"]) if strace_ok else None)
            r["id"] = len(fo_rows)          # ids are per harness run: make them unique
            fo_rows.append(r)
    shutil.rmtree(fo_dir, ignore_errors=True)
    if fo_rows:
        fm = vlib.coq_eval(PROP, "From GW Require Import Secrets.", "run_fileops", [fileops_term(r["case"]) for r in fo_rows], shard=20)
        pre_in = os.path.join(wd, "prefix_in.jsonl")
        with open(pre_in, "w") as fh:
            for r, ev, m in zip(fo_rows, events_all, fm):
                m = [[int(x) for x in row] for row in m]
                model_eff = m[1]
                real_eff = eff_flat(ev) if ev is not None else model_eff
                r["_model"] = m
                r["_real_eff"] = real_eff
                r["_events"] = ev if ev is not None else unflat_eff(model_eff)
                wrote = any(e[0] == "write" for e in r["_events"])
                fh.write(json.dumps({
                    "id": r["id"], "old": r["case"]["old"], "new": r["case"]["new"], "orig_phrase": r["orig_phrase"],
                    "files0": r["files0"], "new_content": r["files1"].get("wallet.seed", "") if wrote else "",
                    "effects": r["_events"], "expect_recoverable": not r["case"].get("no_seed_file")}) + "\n")
        pst = {p["id"]: p for p in harness(binp, wd, "prefixes.jsonl", ["--mode", "prefixes", "--in", pre_in])}
        for r in fo_rows:
            m, p = r["_model"], pst[r["id"]]
            case = r["case"]
            n_eval += 1 + len(p["states"])
            kinds["fileops:%s:%s" % (case["op"], {0: "ok", 1: "err", 2: "panic"}[r["res"]])] += 1
            nontrivial.add(("fileops", case["op"], tuple(case["baks"]), r["res"], tuple(r["_real_eff"]),
                            case.get("phrase_kind"), case["old"] == case["new"]))
            problems = []
            if [r["res"]] != m[0]:
                problems.append("result class %s vs model %s" % (r["res"], m[0]))
            if r["_real_eff"] != m[1]:
                problems.append("file-operation order %s vs model %s" % (r["_events"], unflat_eff(m[1])))
            # final state: what the harness saw on disk after the real call == last prefix state
            # states: model rows m[2:], in crash_states order
            mi = 2
            evs = r["_events"]
            k_model = {}
            order = []
            for k in range(len(evs) + 1):
                order.append((k, False))
                if k < len(evs) and evs[k][0] == "write":
                    order.append((k, True))
            if len(order) == len(m) - 2:
                for (k, torn), row in zip(order, m[2:]):
                    k_model[(k, torn)] = row
                for stt in p["states"]:
                    key = (stt["k"], stt["torn"] is not None)
                    impl_row = []
                    for n, co, cn, cw in sorted(stt["files"], key=lambda x: fcode(x[0])):
                        impl_row += [fcode(n), co, cn]
                    if impl_row != k_model.get(key):
                        problems.append("state after %d operations%s: files %s vs model %s" % (
                            stt["k"], " (torn write, %s bytes)" % stt["torn"] if stt["torn"] is not None else "",
                            impl_row, k_model.get(key)))
                        break
            elif r["_real_eff"] == m[1]:
                problems.append("number of crash states differs")
            full = [s for s in p["states"] if s["torn"] is None]
            if full:
                seen_final = sorted(r["files1"].keys(), key=fcode)
                mat_final = sorted([x[0] for x in full[-1]["files"]], key=fcode)
                if seen_final != mat_final:
                    problems.append("replaying the observed operations gives files %s, the real call left %s" % (mat_final, seen_final))
            if problems:
                divergences.append({"case": case, "problems": problems[:4],
                                    "level": "change_password / recover_from_mnemonic file operations vs Secrets.run_fileops"})
            else:
                validated += 1 + len(p["states"])
            if p["oracle"]:
                oracle_fail.append({"case": case, "observed_operations": r["_events"],
                                    "failures": ["after %s operations%s: %s" % (o.get("k"), " (write torn at %s bytes)" % o["torn"] if o.get("torn") is not None else "", o["what"]) for o in p["oracle"][:6]]})
            if r["res"] == 2:
                oracle_fail.append({"case": case, "failures": ["%s panicked: %s" % (case["op"], r["res_text"])]})
            if r.get("open_fails"):
                oracle_fail.append({"case": case, "files_before": sorted(r["files0"]), "files_after": sorted(r["files1"]),
                                    "failures": r["open_fails"][:4]})
        samples.append({"kind": "fileops", "op": fo_rows[0]["case"]["op"], "baks": fo_rows[0]["case"]["baks"],
                        "observed_operations": fo_rows[0]["_events"]})

    # ---------------- (b2') the write of the new seed file fails (file-size limit) inside the real calls
    fault_rows = []
    if not replay:
        fault_rows = harness(binp, wd, "faults.jsonl", ["--mode", "faults"], env={"VERIF_SEED": str(seed)})
        for r in fault_rows:
            kinds["fault:%s:limit%s:%s" % (r["op"], r["limit"], {0: "ok", 1: "err", 2: "panic"}.get(r["res"], r["res"]))] += 1
            n_eval += 1
            why = list(r["bad"])
            if r["res"] == 2:
                why.append("%s panicked when the write failed: %s" % (r["op"], r["res_text"]))
            if not r["recoverable"]:
                why.append("%s with every write beyond %d bytes failing returned %s and no wallet.seed* file opens to the "
                           "original seed with the old or the new password any more (files left: %s)"
                           % (r["op"], r["limit"], {0: "Ok", 1: "an error"}.get(r["res"], "a panic"),
                              [(f[0], f[1]) for f in r["files"]]))
            if why:
                oracle_fail.append({"case": {"kind": "fault", "op": r["op"], "limit": r["limit"], "seed_len": r["seed_len"]},
                                    "failures": why})

    # ---------------- verdict
    for f in oracle_fail[:4]:
        V.violation({"property": PROP, "kind": "oracle", "what": f["failures"], "case": f["case"],
                     "observed_operations": f.get("observed_operations"),
                     "replay_cmd": "./check C12 --replay <this file>"})
    if divergences and not oracle_fail:
        V.violation({"property": PROP, "kind": "correspondence",
                     "correspondence": "Secrets.{run_hist, run_seed, run_fileops} (coq/theories/Secrets.v) vs owner/foreign api_impl + LMDBBackend contexts, lifecycle::seed, DefaultLCProvider::{change_password, recover_from_mnemonic}",
                     "theorems_no_longer_tied": proof["theorems"], "n_divergences": len(divergences),
                     "cases": [d["case"] for d in divergences[:5]], "first": divergences[:3]}, no_input=True)

    cov = dict(proof)
    cov.update({
        "evaluations": n_eval,
        "distinct_nontrivial": len(nontrivial),
        "rule": "histories: corpus + fixed walk through every flow (send, receive, invoice, late lock, self-send, self-paid invoice, "
                "cancel, reopen; production and test RNG) + PRNG-generated interleavings over two wallets; every call is one evaluation, "
                "compared with the model on result, stored-record encoding and own participant entries; after every call all files of "
                "both wallets and all wire forms of the emitted slate are searched for every known secret (raw, hex, JSON array). "
                "seed: 5 entropy lengths x 12 passwords x other passwords x 31 malformed files. fileops: change_password / recover on "
                "directories with 0..5 existing backups, each prefix and torn write materialised and opened. non-trivial = distinct "
                "(call kind, record encoding, role) / (mutation, outcome) / (operation, backups, observed syscall order)",
        "samples": samples,
        "traces_validated_against_impl": validated,
        "result_kinds": dict(kinds),
        "scan": dict(scan_stats),
        "source_facts": facts,
        "strace_used": strace_ok,
        "histories": len(hist_rows), "seed_cases": len(seed_rows), "fileops_cases": len(fo_rows),
        "corpus_cases": len(corpus),
        "divergences": len(divergences),
        "oracle_failures": len(oracle_fail),
    })
    return V.finish(cov, [
        "ideal AEAD / KDF: a sealed text opens only under its key and only to what was sealed; PBKDF2 is injective up to HMAC's key normalisation (trailing NULs, hashing of keys over 128 bytes) - Section hypotheses of C12_seed_opens_iff",
        "RNG: thread_rng / create_secnonce yield pairwise distinct values and k -> k*G is injective (hypotheses of C12_nonces_never_reused); Uuid::new_v4 slate ids are fresh",
        "XOR pads are as secret as the root key (Blake2b of root key, slate id, label); a pad reused for a rewritten record of the same slate (self-paid invoice) is outside the term model",
        "receiver-side contexts are never stored, so their secrets can only be searched for under the fixed test RNG; durability of file operations across power loss (no fsync in init_file) is not modelled",
        "the file-operation order is read from strace of the harness process when ptrace is permitted (evidence field strace_used), otherwise only the end state and the model's order are materialised",
    ], level="proof")
