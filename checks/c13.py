"""C13 — the owner listener acts only on requests authenticated by the session key
(DESIGN.md section 6, C13; design.d/C13.md)."""
import collections
import glob
import json
import os

import vlib
from vlib import cB, cL

PROP = "C13"
METH = {"init": "MInit", "open": "MOpen", "close": "MClose", "create": "MCreate",
        "accounts": "MAccounts", "txs": "MTxs", "unknown": "MUnknown"}


def jterm(d):
    c = d["c"]
    if c == "call":
        return "(JCall %s %s %s)" % (METH[d["m"]], cB(d["good"]), cB(d["notif"]))
    if c == "env":
        k = int(d["klabel"]) - 1
        return "(JEnv %s (%d%%N, %d%%N) 0%%N %s)" % (cB(d["sealed"]), k // 1000, k % 1000, jterm(d["j"]))
    if c == "batch":
        return "(JBatch %s)" % cL([jterm(x) for x in d["items"]])
    if c == "junk":
        return "(JJunk %s)" % cB(d["obj"])
    raise vlib.Infra("unknown description " + json.dumps(d))


def case_term(r):
    steps = ["None" if s["c"] == "raw" else "(Some %s)" % jterm(s) for s in r["steps"]]
    return "(mkCase %s %s %s %d%%N %s)" % (cB(r["rf"]), cB(r["open"]), cB(r["tok"]), int(r["accts"]), cL(steps))


def load(path):
    return [json.loads(l) for l in open(path)]


HANGS = []


def run_harness(binp, wd, name, args, env=None):
    out = os.path.join(wd, name)
    rc, log = vlib.sh([binp, "--out", out] + args, timeout=3000, env=env)
    if rc == 3 and os.path.exists(out + ".hang"):
        # the harness's watchdog: a POST was not answered within 20 s
        HANGS.append(json.load(open(out + ".hang")))
        return []
    if rc != 0:
        raise vlib.Infra("c13 harness failed: " + log[-2000:])
    return load(out)


def reply_kind(o):
    return {0: "http500", 1: "gate_error_%d" % (o[1] if len(o) > 1 else 0), 2: "clear_reply",
            3: "sealed_reply", 4: "empty_batch", 5: "panic"}.get(o[0], "other")


def run(tier, replay):
    V = vlib.Verdict(PROP, tier)
    wd = vlib.workdir(PROP)
    (binp,) = vlib.build_harness(["c13"])
    proof = vlib.proof_stage(PROP, V, "props/C13.v")

    rows = []
    corpus = sorted(glob.glob(os.path.join(vlib.VERIF, "corpus", PROP, "*.json")))
    if replay:
        corpus = [replay]
    for i, f in enumerate(corpus):
        rows += run_harness(binp, wd, "corpus%d.jsonl" % i, ["--replay", f])
    n_corpus = len(rows)
    if not replay:
        if tier == "quick":
            rows += run_harness(binp, wd, "gen.jsonl", ["--n", "200"])
        else:
            rows += run_harness(binp, wd, "gen.jsonl", ["--n", "1500"])
            for k in range(1, 6):
                rows += run_harness(binp, wd, "gen%d.jsonl" % k, ["--n", "1500", "--sys", "0"],
                                    env={"VERIF_SEED": str(vlib.seed() * 1000 + k)})

    terms = [case_term(r["resolved"]) for r in rows]
    model = vlib.coq_eval(PROP, "From GW Require Import Base Gate.", "run_case", terms, shard=150) if terms else []

    kinds = collections.Counter()
    distinct = set()
    divergences, oracle_fail = [], []
    posts = invoked = 0
    for r, m in zip(rows, model):
        posts += len(r["obs"])
        invoked += r["invoked"]
        for o in r["obs"]:
            kinds[reply_kind(o)] += 1
        if r["invoked"]:
            distinct.add(json.dumps(r["resolved"], sort_keys=True))
        if r["obs"] != m:
            first = next((i for i, (a, b) in enumerate(zip(r["obs"], m)) if a != b), min(len(r["obs"]), len(m)))
            divergences.append({"case": r["case"], "resolved": r["resolved"], "first_differing_post": first + 1,
                                "impl": r["obs"], "model": m})
        if r["oracle"]:
            oracle_fail.append({"case": r["case"], "failures": r["oracle"], "impl": r["obs"]})

    for c in HANGS:
        oracle_fail.append({"case": c, "failures": ["a POST of this session was never answered (handler hung > 20 s)"],
                            "impl": None})
    for f in oracle_fail[:3]:
        V.violation({"property": PROP, "kind": "oracle", "what": f["failures"], "case": f["case"],
                     "impl": f["impl"], "replay_cmd": "./check C13 --replay <this file>"})
    if divergences and not oracle_fail:
        V.violation({"property": PROP, "kind": "correspondence",
                     "correspondence": "Gate.step on Gate.csys (coq/theories/Gate.v) vs controller::OwnerAPIHandlerV3 "
                                       "through grin_api::Handler::post",
                     "theorems_no_longer_tied": proof["theorems"],
                     "n_divergences": len(divergences), "cases": [d["case"] for d in divergences[:5]],
                     "first": divergences[:3]}, no_input=True)

    div_cases = set(json.dumps(d["case"], sort_keys=True) for d in divergences)
    cov = dict(proof)
    cov.update({
        "evaluations": len(rows),
        "posts": posts,
        "distinct_nontrivial": len(distinct),
        "rule": "cases = corpus + product of 12 session histories (none/init/re-init in clear and in an envelope/"
                "open/close/create/batch with init/notification init) x 102 probe requests (6 non-JSON bodies, 13 junk "
                "values, every method in clear, clear batches, envelopes under current/superseded/never-issued key x 10 "
                "payloads incl. batches (with junk items, with open_wallet inside), nested envelopes, notifications, 9 tamperings of body/tag/nonce, array-form and "
                "wrong-method envelopes) each followed by two authenticated sentinel calls + PRNG sessions of 4..16 POSTs; "
                "non-trivial = distinct session in which the dispatcher was invoked at least once "
                "(clear-text key exchange or envelope authenticated under the current key)",
        "samples": [rows[i]["case"] for i in range(min(2, len(rows)))] +
                   [r["case"] for r in rows[n_corpus + 400:] if r["invoked"] >= 3][:2],
        "traces_validated_against_impl": len(rows) - len(div_cases),
        "result_kinds": dict(kinds),
        "requests_reaching_dispatcher": invoked,
        "corpus_cases": n_corpus,
        "divergences": len(divergences),
        "oracle_failures": len(oracle_fail),
    })
    return V.finish(cov, [
        "AES-256-GCM idealised (Gate.ideal: decrypt(encrypt v) = v; what opens under k was sealed under k; sealings under "
        "different keys differ); a nonce with bytes appended after the 12th is the same sealing (decrypt reads 12 bytes)",
        "each ECDH exchange yields a key never seen before (keys named by POST number and position in the instance)",
        "replay of a recorded envelope under the still-current key is accepted (no anti-replay in the protocol; not part of C13)",
        "one request at a time: concurrent POSTs racing on the shared key are not modelled",
        "HTTP basic auth / TLS in front of the handler (check_middleware) are outside the model",
        "dispatcher behind the gate abstracted to 7 method classes (init/open/close/create_account_path/accounts/"
        "retrieve_txs/unknown) with good/bad parameters and notification flag",
    ])
