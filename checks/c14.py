"""C14 — a masked wallet does nothing without the right token
(DESIGN.md section 6, C14; design.d/C14.md)."""
import collections
import glob
import json
import os
import re

import vlib
from vlib import cB, cL, cN

PROP = "C14"
OWNER_RS = "/repo/api/src/owner.rs"
FINDING_ID = "C14-delete-wallet-unguarded"


def scan_owner():
    """[(name, takes_mask)] for every `pub fn` of `impl Owner` in api/src/owner.rs."""
    src = open(OWNER_RS).read()
    m = re.search(r"^impl<L, C, K> Owner<L, C, K>.*?^\{", src, flags=re.S | re.M)
    if not m:
        raise vlib.Infra("impl Owner not found in " + OWNER_RS)
    body = src[m.end():]
    end = re.search(r"^\}", body, flags=re.M)
    body = body[:end.start()]
    out = []
    for fm in re.finditer(r"^\tpub (?:async )?fn (\w+)\s*(?:<[^>]*>)?\s*\((.*?)\)\s*(?:->.*?)?\{", body, flags=re.S | re.M):
        name, params = fm.group(1), fm.group(2)
        out.append((name, bool(re.search(r"\bkeychain_mask\s*:\s*Option<&SecretKey>", params))))
    return out


def case_term(c):
    return "(mkCase M_%s %s %s %s %s %s %s %s %s)" % (
        c["m"], cN(c["v"]), cB(c["masked"]), cN(c["tok"]), cB(c["open"]), cB(c["down"]), cB(c["upd"]),
        cB(c["pw"]), cL([cN(x) for x in c["vals"]]))


def load(path):
    return [json.loads(l) for l in open(path)]


def run_harness(binp, wd, name, args, env=None):
    out = os.path.join(wd, name)
    rc, log = vlib.sh([binp, "--out", out] + args, timeout=3000, env=env)
    if rc != 0:
        raise vlib.Infra("c14 harness failed: " + log[-2000:])
    return load(out)


def is_right(c):
    return c["tok"] == 0 if c["masked"] else c["tok"] <= 1


def run(tier, replay):
    V = vlib.Verdict(PROP, tier)
    wd = vlib.workdir(PROP)
    (binp,) = vlib.build_harness(["c14"])
    proof = vlib.proof_stage(PROP, V, "props/C14.v")

    # ---- tie (i): the method table against the source
    names = vlib.coq_eval(PROP, "From GW Require Import Base Mask.", "(fun _ : unit => table_names)", ["tt"])[0]
    model_tab = [("".join(chr(x) for x in row[1:]), bool(row[0])) for row in names]
    src_tab = scan_owner()
    scan_problems = []
    if sorted(model_tab) != sorted(src_tab):
        ms, ss = dict(model_tab), dict(src_tab)
        for n in sorted(set(ss) - set(ms)):
            scan_problems.append("pub fn %s of impl Owner is not in the model's method table (unclassified method)" % n)
        for n in sorted(set(ms) - set(ss)):
            scan_problems.append("method %s of the model's table is not a pub fn of impl Owner" % n)
        for n in sorted(set(ms) & set(ss)):
            if ms[n] != ss[n]:
                scan_problems.append("%s: keychain_mask parameter in source = %s, in the model = %s" % (n, ss[n], ms[n]))

    # ---- tie (ii): every method on real wallets
    rows = []
    if replay:
        spec = json.load(open(replay))
        c = spec.get("case", {})
        args = ["--states", c.get("state", "funded")] if c.get("state") in ("fresh", "funded", "pending") else []
        rows += run_harness(binp, wd, "replay.jsonl", args)
        if c.get("m"):
            keep = [r for r in rows if r["case"].get("m") == c["m"]]
            rows = keep or rows
    else:
        rows += run_harness(binp, wd, "gen.jsonl", [] if tier == "quick" else ["--rounds", "6"])
        # corpus: witness calls that every run must contain
        for f in sorted(glob.glob(os.path.join(vlib.VERIF, "corpus", PROP, "*.json"))):
            for w in json.load(open(f)).get("cases", []):
                if not any(all(r["case"].get(k) == v for k, v in w.items()) for r in rows):
                    raise vlib.Infra("corpus case %s of %s is no longer exercised by the harness" % (json.dumps(w), f))

    cmp_rows = [r for r in rows if not r["case"].get("twin")]
    terms = [case_term(r["case"]) for r in cmp_rows]
    model = vlib.coq_eval(PROP, "From GW Require Import Base Mask.", "run_case", terms, shard=400)

    kinds = collections.Counter()
    divergences, oracle_fail = [], []
    distinct = set()
    known_hit = False
    n_wrong = n_right = n_closed = n_notoken = 0
    for r in rows:
        if r["oracle"]:
            oracle_fail.append({"case": r["case"], "failures": r["oracle"], "impl": r["impl"]})
    for r, m in zip(cmp_rows, model):
        c, imp = r["case"], r["impl"]
        cls = imp[:-2]
        kinds["ok" if cls == [0] else "panic" if cls == [2] else "err%d" % cls[1]] += 1
        if not c["takes"]:
            n_notoken += 1
            ok = cls == m[:-2] and imp[-2] == m[-2]
            if c["m"] == "delete_wallet" and cls == [0] and imp[-2] == 1:
                known_hit = True
        elif not c["open"]:
            n_closed += 1
            ok = imp == m
        elif not is_right(c):
            n_wrong += 1
            ok = imp == m
        else:
            n_right += 1
            ok = True  # right token: decided by the twin run against the unmasked wallet
            if cls == [0]:
                distinct.add((c["m"], c["v"], c["state"], c["down"], c["masked"]))
        if not ok:
            divergences.append({"case": c, "impl": imp, "model": m})

    for f in oracle_fail[:3]:
        V.violation({"property": PROP, "kind": "oracle", "what": f["failures"], "case": f["case"],
                     "impl": f["impl"], "replay_cmd": "./check C14 --replay <this file>"})
    if scan_problems:
        V.violation({"property": PROP, "kind": "correspondence",
                     "correspondence": "Mask.table / Mask.takes_mask (coq/theories/Mask.v) vs the pub fn list of impl Owner in " + OWNER_RS,
                     "problems": scan_problems, "theorems_no_longer_tied": proof["theorems"]}, no_input=True)
    if divergences and not oracle_fail:
        V.violation({"property": PROP, "kind": "correspondence",
                     "correspondence": "Mask.exec on Mask.script_of (coq/theories/Mask.v) vs api::Owner on real LMDB wallets",
                     "theorems_no_longer_tied": proof["theorems"],
                     "n_divergences": len(divergences), "cases": [d["case"] for d in divergences[:5]],
                     "first": divergences[:5]}, no_input=True)

    known = [k for k in vlib.known_findings(PROP) if k.get("id") == FINDING_ID]
    if known_hit:
        if known:
            V.known_finding("delete_wallet removes the whole wallet directory with neither token nor password "
                            "(%s; mirrored by Mask.Known / C14_lifecycle_refuted)" % FINDING_ID)
        else:
            V.violation({"property": PROP, "kind": "oracle",
                         "what": ["delete_wallet destroyed the stored wallet with neither token nor password"],
                         "case": {"m": "delete_wallet", "state": "funded"}})

    div_keys = set(json.dumps(d["case"], sort_keys=True) for d in divergences)
    cov = dict(proof)
    cov.update({
        "evaluations": len(rows),
        "distinct_nontrivial": len(distinct),
        "rule": "every pub fn of impl Owner (source scan = model table, %d methods, %d variants) x tokens (issued, absent, random, "
                "one bit off, another wallet's; on the unmasked twin: absent, random, another wallet's) x wallet states "
                "(fresh, funded, pending send) x node reachable/unreachable, + the whole table on the closed wallet, + refresh "
                "variants with the updater flag stuck, + token of a previous opening after reopen, + lifecycle calls with right/"
                "wrong password, + delete_wallet on a scratch wallet; non-trivial = distinct (method, variant, state, node, "
                "masked) on which the call with the right token succeeded" % (len(model_tab), len(terms) and len(set((r['case']['m'], r['case']['v']) for r in cmp_rows))),
        "samples": [r["case"] for r in cmp_rows[:2]] + [r["case"] for r in cmp_rows if r["case"]["takes"] and is_right(r["case"]) and r["impl"][0] == 0][:2],
        "traces_validated_against_impl": len(cmp_rows) - len(div_keys),
        "result_kinds": dict(kinds),
        "wrong_token_calls": n_wrong, "right_token_calls": n_right, "closed_wallet_calls": n_closed,
        "tokenless_calls": n_notoken,
        "twin_mismatches": sum(1 for r in rows if r["case"].get("twin")),
        "source_scan": {"methods_in_source": len(src_tab), "methods_in_model": len(model_tab), "problems": scan_problems},
        "divergences": len(divergences),
        "oracle_failures": len(oracle_fail),
    })
    return V.finish(cov, [
        "checksum (key derivation + Blake2b) collision-free: hypothesis of the gate theorems; XOR involution is proved",
        "issued tokens are non-zero (secp256k1 secret keys); a wrong token that XORs the master key out of the curve order gives a "
        "Secp error instead of InvalidKeychainMask (probability ~2^-128)",
        "owner methods are modelled as scripts over backend primitives at the granularity of Mask.v (first mask check vs first "
        "effect, validations and node queries before it); effects after the first check are representative, not exhaustive",
        "right-token behaviour is tied by the twin run (masked vs unmasked wallet with the same seed), not by predicting results",
        "lifecycle calls take no token: password-guarded ones are classified as such; delete_wallet is the recorded known finding",
        "start_updater returns Ok for any token (the thread is refused at its first mask check and leaves the in-memory "
        "updater_running flag set until stop_updater); LMDBBackend::new re-puts the default account record on every open",
    ])
