"""C15 — no derivation path is used twice (DESIGN.md section 6, C15)."""
import ledgercheck
import ledgerlib as L


def restore_stage(V):
    """the 'after a restore from seed' clause: fresh wallets restored by scanning (c16 harness);
    the next child index must lie beyond every path found on chain (C16_restore_child_index_beyond)"""
    import json, os
    from concurrent.futures import ThreadPoolExecutor
    import vlib
    (binp,) = vlib.build_harness(["c16"])
    wd = vlib.workdir("C15")

    def one(sh):
        out = os.path.join(wd, "c16_%d.jsonl" % sh)
        rc, log = vlib.sh([binp, "--out", out, "--n", "1", "--shard", str(sh)], timeout=3000)
        if rc != 0:
            raise vlib.Infra("c16 harness failed: " + log[-2000:])
        return [json.loads(l) for l in open(out)]
    rows = []
    with ThreadPoolExecutor(max_workers=8) as ex:
        for r in ex.map(one, range(8)):
            rows.extend(r)
    n, bad = 0, 0
    for r in rows:
        if r["kind"] == "restore_partial" and r["rc"] == [0] and r["rc_update"] == [0]:
            n += 1
            child = {c[0]: c[1] for c in r["restored"]["child"]}
            for d in r["chain"]:
                if child.get(d["key"][0], 0) <= d["key"][1]:
                    bad += 1
                    V.violation({"property": "C15", "kind": "oracle",
                                 "what": "a wallet restored from seed, scanned from block %s only (tip %s) and then updated: the next "
                                         "child index %s of account %d is not beyond path %s found on chain (block %s)"
                                         % (r["start"], r["tip"], child.get(d["key"][0], 0), d["key"][0], d["key"], d["height"]),
                                 "row": {k: v for k, v in r.items() if k != "restored"}})
                    break
            continue
        if r["kind"] != "restore" or r["rc"] != [0]:
            continue
        n += 1
        child = {c[0]: c[1] for c in r["restored"]["child"]}
        for d in r["chain"]:
            if child.get(d["key"][0], 0) <= d["key"][1]:
                bad += 1
                V.violation({"property": "C15", "kind": "oracle",
                             "what": "after a restore from seed the next child index %s of account %d is not beyond path %s found on chain"
                                     % (child.get(d["key"][0], 0), d["key"][0], d["key"]), "row": r})
                break
    # "across restarts and crashes": the restore itself interrupted at every persistent-effect
    # boundary of the scan (and with each write failing in turn), then run again (c06 harness)
    (binc,) = vlib.build_harness(["c06"])

    def crash_one(sh):
        out = os.path.join(wd, "c06_restore_%d.jsonl" % sh)
        rc, log = vlib.sh([binc, "--out", out, "--n", "1", "--shard", str(sh), "--only-restore", "1"], timeout=3000)
        if rc != 0:
            raise vlib.Infra("c06 harness (interrupted restore) failed: " + log[-2000:])
        return [json.loads(l) for l in open(out)]
    crows = []
    with ThreadPoolExecutor(max_workers=6) as ex:
        for r in ex.map(crash_one, range(6)):
            crows.extend(r)
    n_states, n_bad = 0, 0
    for r in crows:
        for c in r["crash"] + r["fault"]:
            n_states += 1
            if c["fails"]:
                n_bad += 1
                if n_bad <= 2:
                    V.violation({"property": "C15", "kind": "oracle",
                                 "what": "restore from seed interrupted (%s), then scanned again: %s"
                                         % ("crash after effect %s (%s)" % (c["k"], c["event"]) if "event" in c
                                            else "write %s failed" % c["k"], c["fails"]),
                                 "events": r["events"], "crash_state": {k: v for k, v in c.items() if k != "snap"}})
    return {"restores_checked": n, "restores_with_reusable_path": bad,
            "interrupted_restore_states": n_states, "interrupted_restore_states_failing": n_bad}


def run(tier, replay):
    return ledgercheck.run_ledger_check(
        "C15", tier, replay, "c03", [L.oracle_c15],
        "Oracle: across each history (with wallet reopen in between) every (account, child) path ever seen in the output table is "
        "bound to one output identity, also after that record was deleted; coinbase candidate replacement excepted; every path lies "
        "below the next-child counter read back from LMDB. Plus: fresh wallets restored from the recovery phrase by scanning "
        "(c16 harness): next child index beyond every path found on chain.", extra_stage=restore_stage)
