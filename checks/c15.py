"""C15 — no derivation path is used twice (DESIGN.md section 6, C15)."""
import ledgercheck
import ledgerlib as L


def run(tier, replay):
    return ledgercheck.run_ledger_check(
        "C15", tier, replay, "c03", [L.oracle_c15],
        "Oracle: across each history (with wallet reopen in between) every (account, child) path ever seen in the output table is "
        "bound to one output identity, also after that record was deleted; coinbase candidate replacement excepted; every path lies "
        "below the next-child counter read back from LMDB.")
