"""C16 — scanning restores and repairs the wallet to the chain's truth, idempotently."""
import collections
import json
import os
from concurrent.futures import ThreadPoolExecutor

import ledgerlib as L
import vlib
from vlib import cN, cB, cL, cOpt

PROP = "C16"
STATUS = ["Unconfirmed", "Unspent", "Locked", "Spent", "Reverted"]
TTYPE = ["TCoinbase", "TReceived", "TSent", "TReceivedCancelled", "TSentCancelled", "TReverted"]

KNOWN = [{
    "id": "C16-ranged-drop-strands-inputs",
    "match": lambda f: "[ranged-drop-strands-inputs]" in f["what"],
    "text": "a delete_unconfirmed scan that starts above the blocks of a pending send's inputs deletes the send's Unconfirmed change and cancels its entry but leaves the inputs Locked (they lie outside the scanned range); cancel_tx refuses the cancelled entry and the same scan repeated changes nothing",
}, {
    "id": "C16-unconfirmed-on-chain",
    "match": lambda f: "[unconfirmed-on-chain-deleted]" in f["what"] or "[unconfirmed-on-chain-kept]" in f["what"],
    "text": "scan does not confirm a record that is Unconfirmed although its commitment is in the UTXO set: without delete_unconfirmed it stays Unconfirmed, with delete_unconfirmed it is DELETED (and its log entry cancelled) and only a second scan restores it — the first scan does not reach the chain's truth and the second one changes the wallet",
}, {
    "id": "C16-cross-account-change",
    "match": lambda f: "[cross-account-change]" in f["what"],
    "text": "a change output of a send made from a non-active source account (src_acct_name) is derived under the ACTIVE account's path while recorded under the source account; a restore from seed files it under the path's account, so per-account figures differ from the original wallet (the wallet-wide total is preserved)",
}]


def kid(a, c):
    return "(%s, %s)" % (cN(a), cN(c))


def chain_term(chain):
    return cL(["mkCO %s %s %s %s %s %s" % (kid(d["key"][0], d["key"][1]), cN(d["value"]), cN(d["height"]),
                                           cN(d["lock"]), cB(d["cb"]), cN(d["mmr"])) for d in chain])


def wallet_term(snap):
    slates = {}
    outs = cL(["mkO %s %s %s %s %s %s %s %s %s" % (
        cN(o["root"]), kid(o["acct"], o["child"]), cOpt(o["mmr"], cN), cN(o["value"]), STATUS[o["status"]],
        cN(o["height"]), cN(o["lock"]), cB(o["cb"]), cOpt(o["tx"], cN)) for o in snap["outputs"]])
    txs = []
    logid = collections.defaultdict(int)
    for t in snap["txs"]:
        sl = t["slate"]
        if sl is not None and not isinstance(sl, int):
            sl = slates.setdefault(sl, len(slates))
        txs.append("mkT %s %s %s %s %s %s %s %s %s %s %s %s %s" % (
            cN(t["parent"]), cN(t["id"]), cOpt(sl, cN), TTYPE[t["type"]], cB(t["confirmed"]), cN(t["credited"]),
            cN(t["debited"]), cOpt(t["fee"], cN), cOpt(t["ttl"], cN), cN(t["n_in"]), cN(t["n_out"]),
            cB(t["has_excess"]), cB(t["stored_tx"])))
        logid[t["parent"]] = max(logid[t["parent"]], t["id"] + 1)
    pairs = lambda d: cL(["(%s, %s)" % (cN(k), cN(v)) for k, v in sorted(d.items())])
    child = {c[0]: c[1] for c in snap["child"] if c[1]}
    confh = {snap["active"]: snap["conf_h"]}
    return "(wallet_of %s %s %s %s %s %s)" % (outs, cL(txs), pairs(child), pairs(dict(logid)), pairs(confh),
                                              cN(snap["active"])), slates


def norm_snap(snap, slates=None):
    """replace slate uuids by small numbers (shared numbering when a map is given)"""
    slates = {} if slates is None else slates
    s2 = dict(snap)
    txs = []
    for t in snap["txs"]:
        sl = t["slate"]
        if sl is not None and not isinstance(sl, int):
            sl = slates.setdefault(sl, len(slates))
        txs.append(dict(t, slate=sl))
    s2["txs"] = txs
    s2["contexts"] = []
    return s2


def proj(snap, slates=None):
    p = L.proj_from_snap(norm_snap(snap, slates))
    return [p[0], sorted(p[1]), sorted(p[2])]


def scanned(r):
    """the seed's chain outputs inside the range the scan looks at (blocks from its start height on)"""
    st = r.get("start") or 0
    return [d for d in r["chain"] if d["height"] >= st]


def oracle(rows):
    fails = []
    for r in rows:
        def fail(what):
            fails.append({"row": (r["seed"], r["kind"]), "seed": r["seed"], "step": r["kind"], "what": what})
        if r["rc"] != [0] or r["rc2"] != [0]:
            fail("scan failed: %s %s" % (r["rc"], r["rc2"]))
            continue
        chain = {(d["key"][0], d["key"][1], int(d["value"])): d for d in scanned(r)}
        if r["kind"] == "restore":
            outs = r["restored"]["outputs"]
            seen = set()
            for o in outs:
                k = (o["acct"], o["child"], int(o["value"]))
                d = chain.get(k)
                if d is None:
                    fail("restored a record that is not one of the seed's outputs in the UTXO set: %s" % (k,))
                    continue
                seen.add(k)
                if (o["status"], o["height"], o["lock"], o["cb"], o["mmr"], o["root"]) != \
                        (1, d["height"], d["lock"], d["cb"], d["mmr"], o["acct"]):
                    fail("restored record %s has wrong attributes %s (chain: %s)" % (k, o, d))
            for k in chain:
                if k not in seen:
                    fail("the seed's unspent output %s was not restored (batch size %s)" % (k, r["batch"]))
            child = {c[0]: c[1] for c in r["restored"]["child"]}
            for k in chain:
                if child.get(k[0], 0) <= k[1]:
                    fail("next child index %s of account %d not beyond restored path %s" % (child.get(k[0], 0), k[0], k))
            # "filed under the right account": every restored output's parent path is an account the
            # restored wallet knows (otherwise it can neither report nor spend it)
            if "accounts" in r:
                for o in outs:
                    if o["root"] not in r["accounts"]:
                        fail("restored output %s is filed under account path %d, which the restored wallet does "
                             "not have (its accounts: %s)" % ((o["acct"], o["child"]), o["root"], sorted(r["accounts"])))
                        break
            # same spendable totals per account as the (consistent) original
            def totals(snap):
                t = collections.Counter()
                for o in snap["outputs"]:
                    if o["status"] == 1:
                        t[o["root"]] += int(o["value"])
                return t
            to, tr = totals(r["orig"]), totals(r["restored"])
            if sum(to.values()) != sum(tr.values()):
                fail("restored wallet total %d differs from the original's %d" % (sum(tr.values()), sum(to.values())))
            elif to != tr:
                cross = any(o["status"] == 1 and o["root"] != o["acct"] for o in r["orig"]["outputs"])
                fail("per-account unspent totals differ: original %s restored %s%s"
                     % (dict(to), dict(tr), " [cross-account-change]" if cross else ""))
            sl = {}
            if L.canon(L.proj_from_snap(norm_snap(r["restored"], sl))) != L.canon(L.proj_from_snap(norm_snap(r["restored2"], sl))):
                fail("a second scan of the restored wallet changed it")
        else:
            after = r["after"]
            by_commit = collections.defaultdict(list)
            for o in after["outputs"]:
                by_commit[(o["acct"], o["child"], int(o["value"]))].append(o)
            before_by_commit = collections.defaultdict(list)
            for o in r["before"]["outputs"]:
                before_by_commit[(o["acct"], o["child"], int(o["value"]))].append(o)
            deleted_unconfirmed = False
            for k, d in chain.items():
                recs = by_commit.get(k, [])
                ok = [o for o in recs if o["status"] == 1 or (o["status"] == 2 and not r["del"])]
                if not ok:
                    tag = ""
                    if r["del"] and not recs and any(o["status"] == 0 for o in before_by_commit.get(k, [])):
                        tag = " [unconfirmed-on-chain-deleted]"
                        deleted_unconfirmed = True
                    elif not r["del"] and recs and all(o["status"] == 0 for o in recs):
                        tag = " [unconfirmed-on-chain-kept]"
                    fail("after the repair scan the seed's unspent output %s is recorded as %s%s"
                         % (k, [o["status"] for o in recs], tag))
            if r["del"]:
                for o in after["outputs"]:
                    if o["status"] == 0:
                        fail("delete_unconfirmed scan left unconfirmed output %s" % ((o["acct"], o["child"]),))
                # a pending transaction that was dropped holds nothing any more
                dropped = {(t["parent"], t["id"]) for t in after["txs"] if t["type"] in (3, 4)}
                # (pending = an unconfirmed sent entry; an injected divergence can make a record of a
                # CONFIRMED send look Unconfirmed / Locked: not a pending transaction)
                was = {(t["parent"], t["id"]): t["type"] for t in r["before"]["txs"] if not t["confirmed"]}
                for o in after["outputs"]:
                    if o["status"] == 2 and (o["root"], o["tx"]) in dropped and was.get((o["root"], o["tx"])) == 2:
                        below = r.get("start") and o["height"] < r["start"]
                        fail("the scan dropped pending transaction %s but its input %s stays Locked (height %d, scan from %s)%s"
                             % ((o["root"], o["tx"]), (o["acct"], o["child"]), o["height"], r.get("start"),
                                " [ranged-drop-strands-inputs]" if below else ""))
            act = after["active"]
            # the active account's records (the ones the scan's leading refresh looks at) carry the height the chain
            # has the output at: confirmations and spendable figures are counted from it
            for k, d in chain.items():
                for o in by_commit.get(k, []):
                    if o["root"] == act and o["status"] == 1 and o["height"] != d["height"]:
                        fail("after the repair scan output %s of the active account is recorded at height %s, the chain has it at %s"
                             % (k, o["height"], d["height"]))
            utxo = {(d["key"][0], d["key"][1], int(d["value"])) for d in r["chain"]}
            for o in after["outputs"]:
                if o["root"] == act and o["status"] == 1 and (o["acct"], o["child"], int(o["value"])) not in utxo:
                    fail("active account still records %s Unspent though it is not in the UTXO set" % ((o["acct"], o["child"]),))
            sl = {}
            if L.canon(L.proj_from_snap(norm_snap(after, sl))) != L.canon(L.proj_from_snap(norm_snap(r["after2"], sl))):
                fail("a second scan changed the repaired wallet" + (" [unconfirmed-on-chain-deleted]" if deleted_unconfirmed else ""))
    return fails


def run(tier, replay):
    V = vlib.Verdict(PROP, tier)
    wd = vlib.workdir(PROP)
    (binp,) = vlib.build_harness(["c16"])
    proof = vlib.proof_stage(PROP, V, "props/C16.v")

    if replay:
        rj = json.load(open(replay))
        rows = rj["rows"] if "rows" in rj else [rj["row"]]
    else:
        n, shards = (2, 16) if tier == "quick" else (10, 16)

        def one(sh):
            out = os.path.join(wd, "c16_%d.jsonl" % sh)
            rc, log = vlib.sh([binp, "--out", out, "--n", str(n), "--shard", str(sh)], timeout=3000)
            if rc != 0:
                raise vlib.Infra("c16 harness failed: " + log[-2000:])
            return [json.loads(l) for l in open(out)]
        rows = []
        with ThreadPoolExecutor(max_workers=shards) as ex:
            for r in ex.map(one, range(shards)):
                rows.extend(r)

    # (the partially scanned restore of long chains is judged by C15's restore stage: key indices)
    rows = [r for r in rows if r["kind"] != "restore_partial"]
    terms, expect = [], []
    for r in rows:
        if r["kind"] == "restore":
            terms.append("(wallet_of [] [] [] [] [] 0%%N, %s, false)" % chain_term(r["chain"]))
            expect.append(proj(r["restored"]))
        else:
            wt, slates = wallet_term(r["before"])
            v = r["view"]
            act = r["before"]["active"]
            pres = cL(["(%s, %s, %s)" % (kid(x[0], x[1]), cOpt(x[2], cN), cN(x[3])) for x in v["presence"]])
            km = cL([cN(x[1]) for x in v["kernel_missing"] if x[0] == act])
            terms.append("(refresh %s %s true %s %s %s, %s, %s)" % (wt, cN(act), cN(v["tip"]), pres, km,
                                                                  chain_term(scanned(r)), cB(r["del"])))
            expect.append(proj(r["after"], slates))
    model = vlib.coq_eval(PROP, "From GW Require Import Scan.", "run_scan", terms, shard=4)

    div = []
    for r, m, e in zip(rows, model, expect):
        mp = L.canon([m[0], m[1], m[2], [[]]])[:3]
        ep = L.canon([e[0], e[1], e[2], [[]]])[:3]
        if mp != ep:
            what = []
            for name, a, b in zip(["outputs", "txs", "child"], ep, mp):
                if a != b:
                    what.append("%s impl-only=%s model-only=%s" % (name, [x for x in a if x not in b][:4], [x for x in b if x not in a][:4]))
            div.append({"seed": r["seed"], "kind": r["kind"], "what": what})

    fails = oracle(rows)
    new_fails = []
    for f in fails:
        hit = [k for k in KNOWN if k["match"](f)]
        if hit:
            V.known_finding(hit[0]["text"], hit[0].get("id"))
        else:
            new_fails.append(f)
    by_row = {(r["seed"], r["kind"]): r for r in rows}
    for f in new_fails[:3]:
        V.violation({"property": PROP, "kind": "oracle", "what": f["what"], "seed": f["seed"], "row": by_row.get(tuple(f["row"]))})
    if div and not new_fails:
        V.violation({"property": PROP, "kind": "correspondence",
                     "correspondence": "Scan.scan_repair (coq/theories/Scan.v) vs libwallet internal::scan::scan through owner::scan on real wallets",
                     "theorems_no_longer_tied": proof["theorems"], "n_divergences": len(div), "first": div[:3],
                     "row": by_row.get((div[0]["seed"], div[0]["kind"]))}, no_input=True)

    kinds = collections.Counter()
    for r in rows:
        kinds[r["kind"] + ":batch%s" % r["batch"]] += 1
        if r["kind"] == "repair":
            kinds["start:%s" % ("first-block" if not r.get("start") or r["start"] <= 1 else "inside")] += 1
            kinds["pending-send:%s" % bool(r.get("pending"))] += 1
        else:
            kinds["pre-created-label:%s" % r.get("pre_label")] += 1
        for i in r.get("injected", []):
            kinds["inject:%s" % ["delete", "spent", "locked", "unconfirmed", "unspent", "spent-other-height", "locked-other-height", "unspent-other-height"][i[3]]] += 1
    cov = dict(proof)
    cov.update({
        "evaluations": len(rows),
        "distinct_nontrivial": len(set(json.dumps([r["kind"], r["chain"], r.get("injected")], sort_keys=True) for r in rows if r["chain"])),
        "rule": "each evaluation is one scan scenario on real wallets over a real chain: (restore) a fresh wallet from wallet 0's recovery "
                "phrase scanned after a PRNG-generated multi-account history (mining to two accounts, sends both ways, self-sends, sends "
                "from a non-active account, 1..3 change outputs), with the node paging the UTXO set in batches of 1/2/3/5/7/1000; (repair) "
                "wallet 0 with injected divergences (record deleted / marked Spent / Locked / Unconfirmed / Unspent) scanned with or "
                "without delete_unconfirmed; each followed by a second scan. Non-trivial = distinct (kind, chain outputs, injections) with "
                "a non-empty set of chain outputs.",
        "samples": [{"kind": r["kind"], "batch": r["batch"], "chain": r["chain"][:3], "injected": r.get("injected")} for r in rows[:3]],
        "traces_validated_against_impl": len(rows) - len(div),
        "result_kinds": dict(kinds), "divergences": len(div), "oracle_failures": len(fails),
        "oracle_failures_matching_known_findings": len(fails) - len(new_fails),
    })
    return V.finish(cov, [
        "which chain outputs belong to the seed (range-proof rewind) is an oracle input of the model; the harness derives it from every record wallet 0 ever held",
        "the node pages truthfully (elements_from_pmmr_index semantics); the paging theorem is proved over an abstract leaf function",
        "owner::scan's initial refresh covers the active account only; other accounts' stale Unspent records are outside scan's repair",
    ])
