"""C17 — expired slates refused, expired pending transactions released (DESIGN.md section 6, C17)."""
import ledgercheck
import ledgerlib as L


def run(tier, replay):
    return ledgercheck.run_ledger_check(
        "C17", tier, replay, "c17", [L.oracle_c17, L.oracle_no_panic],
        "Oracle: receive/finalize of a slate whose cutoff is at or below the wallet's last confirmed height is refused as expired "
        "with an unchanged snapshot, never otherwise; the final owner::update_wallet_state of each history cancels exactly the active "
        "account's unconfirmed entries whose cutoff the tip has reached and releases their outputs.")
