"""C18 — reorganised-away payments are found reverted, never spendable (DESIGN.md section 6, C18)."""
import ledgercheck
import ledgerlib as L


def run(tier, replay):
    return ledgercheck.run_ledger_check(
        "C18", tier, replay, "c18", [L.oracle_c18, L.oracle_c04_no_equation],
        "Profile c18 adds real reorganisations of the in-process grin_chain::Chain (branches forking 1..3 blocks below the tip and "
        "1..2 blocks longer, orphaned transactions re-mined or dropped, repeated flip-flops, directed pay/confirm/orphan/look/"
        "re-mine episodes with refreshes at the intermediate points). Oracle: after each full refresh, received transactions whose "
        "output and kernel vanished are TxReverted/unconfirmed with a Reverted output; outputs back in the UTXO set are "
        "Unspent/TxReceived/confirmed; orphaned coinbases are not Unspent; balance figures exclude reverted values (partition); "
        "no Reverted output is ever reserved.",
        quick=(3, 40, 16), thorough=(12, 60, 16))
