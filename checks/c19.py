"""C19 — transaction-log queries return exactly what was asked for (DESIGN.md section 6, C19)."""
import collections
import glob
import json
import os

import vlib
from vlib import cN, cZ, cB, cL, cOpt

PROP = "C19"
TYPES = ["ConfirmedCoinbase", "TxReceived", "TxSent", "TxReceivedCancelled", "TxSentCancelled", "TxReverted"]
FIELDS = ["SId", "SCreationTimestamp", "SConfirmationTimestamp", "STotalAmount", "SAmountCredited", "SAmountDebited"]
ORDERS = ["Asc", "Desc"]
QNAMES = ["min_id", "max_id", "limit", "exclude_cancelled", "include_outstanding_only", "include_confirmed_only",
          "include_sent_only", "include_received_only", "include_coinbase_only", "include_reverted_only",
          "min_amount", "max_amount", "min_creation_timestamp", "max_creation_timestamp",
          "min_confirmed_timestamp", "max_confirmed_timestamp", "sort_field", "sort_order"]


def entry_term(e):
    return "mkEntry %s %s %s %s %s %s %s %s %s" % (
        cN(e[0]), cN(e[1]), TYPES[int(e[2])], cB(e[3]), cN(e[4]), cN(e[5]), cZ(e[6]),
        cOpt(e[7], cZ), cOpt(e[8], cN))


def query_term(q):
    if q is None:
        return "None"
    parts = [cOpt(q[0], cN), cOpt(q[1], cN), cOpt(q[2], cN)]
    parts += [cOpt(q[i], cB) for i in range(3, 10)]
    parts += [cOpt(q[10], cN), cOpt(q[11], cN)]
    parts += [cOpt(q[i], cZ) for i in range(12, 16)]
    parts += [cOpt(q[16], lambda f: FIELDS[int(f)]), cOpt(q[17], lambda o: ORDERS[int(o)])]
    return "(Some (mkQuery %s))" % " ".join(parts)


def call_term(case):
    c = case["call"]
    if c["via_owner"]:
        # the owner API passes the wallet's active account and outstanding_only = false
        return "COwner %s %s %s %s" % (cN(case["active"]), cOpt(c["tx_id"], cN), cOpt(c["slate"], cN),
                                       query_term(c["q"]))
    return "CUpdater %s %s %s %s %s" % (cOpt(c["tx_id"], cN), cOpt(c["slate"], cN), query_term(c["q"]),
                                        cOpt(c["parent"], cN), cB(c["outstanding"]))


def db_ordered_log(r):
    """The log as the backend iterates it (the model takes this sequence)."""
    by_key = {int(e[0]) * 4294967296 + int(e[1]): e for e in r["case"]["log"]}
    keys = [int(k) for k in r["dblog"]]
    if sorted(keys) != sorted(by_key):
        return None
    return [by_key[k] for k in keys]


def load(path):
    return [json.loads(l) for l in open(path)]


def run_harness(binp, wd, name, args, env=None):
    out = os.path.join(wd, name)
    rc, log = vlib.sh([binp, "--out", out, "--tag", name] + args, timeout=3000, env=env)
    if rc != 0:
        raise vlib.Infra("c19 harness failed: " + log[-2000:])
    rows = load(out)
    os.remove(out)  # rows are in memory; do not leave hundreds of MB in .cache
    return rows


def is_advanced(c):
    return c["q"] is not None and c["tx_id"] is None and c["slate"] is None


def run(tier, replay):
    V = vlib.Verdict(PROP, tier)
    wd = vlib.workdir(PROP)
    (binp,) = vlib.build_harness(["c19"])
    proof = vlib.proof_stage(PROP, V, "props/C19.v")

    runs = []  # each harness run is a list of rows; groups never span runs
    corpus = sorted(glob.glob(os.path.join(vlib.VERIF, "corpus", PROP, "*.json")))
    if replay:
        corpus = [replay]
    for i, f in enumerate(corpus):
        runs.append(run_harness(binp, wd, "corpus%d.jsonl" % i, ["--replay", f]))
    n_corpus = sum(len(r) for r in runs)
    if not replay:
        if tier == "quick":
            runs.append(run_harness(binp, wd, "gen.jsonl", ["--logs", "80", "--per-log", "260"]))
        else:
            for k in range(8):
                runs.append(run_harness(binp, wd, "gen%d.jsonl" % k,
                                        ["--logs", "150", "--per-log", "420", "--big", "1"],
                                        env={"VERIF_SEED": str(vlib.seed() * 1000 + k)}))

    # group consecutive rows over the same stored log: one Coq term per (log, calls)
    rows, groups, storage_fail = [], [], []
    for rr in runs:
        last = None
        for r in rr:
            log = db_ordered_log(r)
            if log is None:
                storage_fail.append(r)
                continue
            gid = (id(rr), r["log_id"])
            if gid != last:
                groups.append((log, []))
                last = gid
            groups[-1][1].append(len(rows))
            rows.append(r)
    terms = ["(%s, %s)" % (cL([entry_term(e) for e in log]), cL([call_term(rows[i]["case"]) for i in idx]))
             for log, idx in groups]
    nsh = max(1, min(16, len(terms)))
    shard = max(1, (len(terms) + nsh - 1) // nsh)
    out = vlib.coq_eval(PROP, "From GW Require Import Query.", "run_case", terms, shard=shard)
    for f in os.listdir(wd):
        if f.startswith("cases_") or f.startswith(".cases_"):
            os.remove(os.path.join(wd, f))
    model = [None] * len(rows)
    for (log, idx), res in zip(groups, out):
        if len(res) != len(idx):
            raise vlib.Infra("model returned %d results for %d calls" % (len(res), len(idx)))
        for i, m in zip(idx, res):
            model[i] = m

    kinds = collections.Counter()
    decisive = collections.Counter()
    supplied = collections.Counter()
    distinct_nonempty, distinct_discriminating = set(), set()
    divergences, oracle_fail = [], []
    for r in storage_fail:
        oracle_fail.append({"case": r["case"], "impl": r["impl"],
                            "failures": ["the backend does not iterate exactly the entries that were stored"]})
    for r, m in zip(rows, model):
        impl = [int(x) for x in r["impl"]]
        c = r["case"]["call"]
        path = "advanced" if is_advanced(c) else "legacy"
        if impl[0] == 0:
            kinds["%s_%s" % (path, "nonempty" if len(impl) > 1 else "empty")] += 1
        else:
            kinds["panic" if impl[0] == 2 else "err%d" % impl[1]] += 1
        key = json.dumps(r["case"], sort_keys=True)
        if impl[0] == 0 and len(impl) > 1:
            distinct_nonempty.add(key)
            if r.get("decisive"):
                distinct_discriminating.add(key)
        for d in r.get("decisive", []):
            decisive[d] += 1
        if path == "advanced":
            for i, x in enumerate(c["q"]):
                if x is not None:
                    supplied[QNAMES[i]] += 1
        if impl != m:
            divergences.append({"case": r["case"], "impl": r["impl"], "model": [str(x) for x in m],
                                "level": "owner::retrieve_txs" if c["via_owner"] else "updater::retrieve_txs"})
        if r["oracle"]:
            oracle_fail.append({"case": r["case"], "impl": r["impl"], "failures": r["oracle"]})

    for f in oracle_fail[:3]:
        V.violation({"property": PROP, "kind": "oracle", "what": f["failures"], "case": f["case"],
                     "impl": f["impl"], "replay_cmd": "./check C19 --replay <this file>"})
    if divergences and not oracle_fail:
        V.violation({"property": PROP, "kind": "correspondence",
                     "correspondence": "Query.retrieve_txs / owner_retrieve_txs (coq/theories/Query.v) vs libwallet "
                                       "updater::{retrieve_txs,apply_advanced_tx_list_filtering} and owner::retrieve_txs",
                     "theorems_no_longer_tied": proof["theorems"],
                     "n_divergences": len(divergences), "cases": [d["case"] for d in divergences[:5]],
                     "first": divergences[:3]}, no_input=True)

    samples = [rows[i]["case"] for i in range(min(1, len(rows)))]
    samples += [r["case"] for r in rows if r.get("decisive") and len(r["impl"]) > 2][:2]
    samples += [r["case"] for r in rows if not is_advanced(r["case"]["call"]) and len(r["impl"]) > 1][:1]
    cov = dict(proof)
    cov.update({
        "evaluations": len(rows),
        "distinct_nontrivial": len(distinct_discriminating),
        "distinct_nonempty_results": len(distinct_nonempty),
        "rule": "cases = corpus (pre-fix witnesses) + PRNG-generated (log, call) pairs: logs of 0..16 entries (up to 120 "
                "in thorough) over 3 accounts with colliding ids, all 6 entry types, all confirmed/confirmation-time "
                "combinations, few distinct instants and amounts (equal sort keys; amounts up to u64::MAX), written "
                "with save_tx_log_entry into a fresh LMDB wallet per log; calls = empty and default query, every "
                "single field, every sort field x order, every pair of the 18 fields (values taken at / one off "
                "values occurring in the log), random field combinations, legacy look-ups by every id 0..9, slate "
                "0..5, both, outstanding-only, with/without query args and account; 3/4 through owner::retrieve_txs, "
                "the rest through updater::retrieve_txs with another or no account. non-trivial = distinct case with "
                "a non-empty result in which at least one stored entry was excluded by exactly one supplied criterion",
        "samples": samples,
        "traces_validated_against_impl": len(rows) - len(set(json.dumps(d["case"], sort_keys=True) for d in divergences)),
        "result_kinds": dict(kinds),
        "logs": len(groups),
        "criterion_supplied_calls": dict(supplied),
        "criterion_decisive_calls": dict(decisive),
        "corpus_cases": n_corpus,
        "via_owner_api_calls": sum(1 for r in rows if r["case"]["call"]["via_owner"]),
        "divergences": len(divergences),
        "oracle_failures": len(oracle_fail),
    })
    return V.finish(cov, [
        "timestamps are modelled as integers (instants at 250 ms steps from 2020-09-13T12:26:40Z in the harness); "
        "DateTime<Utc> ordering is assumed to be the ordering of instants",
        "the log is taken as the sequence the backend iterates (read back from LMDB for every generated log); LMDB, "
        "serde (de)serialisation of TxLogEntry and wallet opening are outside the model",
        "where RetrieveTxQueryArgs' documentation leaves the reading open the specification follows the code: entries "
        "without confirmation time pass confirmation-time bounds and sort first; the amount of a sent entry is "
        "debited - credited; sent/received-only include the cancelled variants; outstanding-only means unconfirmed",
        "refresh_from_node = false (the node update that owner::retrieve_txs may run first is not part of this property)",
    ])
