"""C20 — background refresh never clobbers concurrent wallet operations (DESIGN.md 6/C20, A.7).

Stages: (1) Coq proofs + audit (props/C20.v); (2) source scan: the wallet_lock! sites of
update_wallet_state / update_txs_via_kernel / cancel_tx / scan (owner.rs) and scan::scan
(scan.rs) against the model's section list; (3) the cooperative-scheduler harness runs the
REAL code on every schedule of each scenario (DFS, preemption bound, sharded by subtree);
(4) every final (wallet projection, operation results) is compared with the set reached by
the serial orders (oracle) and with the Coq model's prediction for the same schedule
(correspondence)."""
import collections
import glob
import json
import os
import re
import subprocess
from concurrent.futures import ThreadPoolExecutor

import vlib
from vlib import cN, cB, cL

PROP = "C20"
ENV = {"cpfin", "postmine", "mine", "down", "up"}
STATUS = ["Unconfirmed", "Unspent", "Locked", "Spent", "Reverted"]
TTYPE = ["TCoinbase", "TReceived", "TSent", "TRecvCancelled", "TSentCancelled", "TReverted"]

# ------------------------------------------------------------------ source scan

# (file, function, expected number of wallet_lock! acquisitions, model sections)
SECTIONS = [
    ("libwallet/src/api_impl/owner.rs", "update_wallet_state", 6, "U1 U2 U4 U8 U9 U10(loop)"),
    ("libwallet/src/api_impl/owner.rs", "update_outputs", 1, "U3"),
    ("libwallet/src/api_impl/owner.rs", "update_txs_via_kernel", 2, "U6 U7(loop)"),
    ("libwallet/src/api_impl/owner.rs", "cancel_tx", 1, "CF (after update_wallet_state)"),
    ("libwallet/src/api_impl/owner.rs", "retrieve_txs", 1, "TF (after update_wallet_state)"),
    ("libwallet/src/api_impl/owner.rs", "scan", 2, "ST SF (around update_outputs and scan::scan)"),
    ("libwallet/src/internal/scan.rs", "scan", 6, "S1 S2 S4(loop) S7(loop) S9(loop) S10"),
    ("libwallet/src/internal/scan.rs", "cancel_tx_log_entry", 1, "S3 S6 S8"),
    ("libwallet/src/internal/scan.rs", "restore_missing_output", 1, "S5"),
]


def fn_body(src, name):
    m = re.search(r"^(?:pub )?fn %s\b" % re.escape(name), src, flags=re.M)
    if not m:
        return None
    i = src.index("{", src.index(")", m.end()) if False else m.end())
    # skip the where clause: the body starts at the first '{' at line start after the signature
    m2 = re.compile(r"^\{", re.M).search(src, m.end())
    i = m2.start()
    depth, j = 0, i
    while j < len(src):
        if src[j] == "{":
            depth += 1
        elif src[j] == "}":
            depth -= 1
            if depth == 0:
                return src[i:j + 1]
        j += 1
    return None


def source_scan():
    problems, found = [], []
    for f, fn, want, secs in SECTIONS:
        src = open(os.path.join("/repo", f)).read()
        body = fn_body(src, fn)
        if body is None:
            problems.append("%s: fn %s not found" % (f, fn))
            continue
        n = len(re.findall(r"\bwallet_lock!\s*\(", body))
        found.append({"file": f, "fn": fn, "wallet_lock": n, "model_sections": secs})
        if n != want:
            problems.append("%s: fn %s has %d wallet_lock! acquisitions, the model (Sched.v) has %d (%s)"
                            % (f, fn, n, want, secs))
    # the macro itself: hook immediately before the acquisition, one lock() per use
    lib = open("/repo/libwallet/src/lib.rs").read()
    m = re.search(r"macro_rules! wallet_lock \{(.*?)\n\}", lib, flags=re.S)
    if not m or m.group(1).count(".lock()") != 1 or "verif_hooks::before_lock()" not in m.group(1):
        problems.append("libwallet/src/lib.rs: wallet_lock! no longer is 'hook; one lock()'")
    # no other function of the two files acquires the lock inside the refresh call graph
    total_owner = len(re.findall(r"\bwallet_lock!\s*\(", open("/repo/libwallet/src/api_impl/owner.rs").read()))
    total_scan = len(re.findall(r"\bwallet_lock!\s*\(", open("/repo/libwallet/src/internal/scan.rs").read()))
    return problems, {"functions": found, "wallet_lock_total_owner_rs": total_owner,
                      "wallet_lock_total_scan_rs": total_scan}


# ------------------------------------------------------------------ model terms

def is_env(op):
    return op.split(":")[0] in ENV


def kind_term(op):
    p = op.split(":")
    n = p[0]
    if n == "refresh":
        return "KRefresh"
    if n == "scan":
        return "(KScan %s)" % cB(p[1] != "0")
    if n == "cancel":
        return "(KCancel %s)" % cN(p[1])
    if n == "txs":
        return "KTxs"
    if n == "init":
        return "(KInit %s %s %s %s %s)" % (cN(p[1]), cN(p[2]), cB(p[3] != "0"), cB(p[4] != "0"), cB(p[5] != "0"))
    if n in ("receive", "lock", "finalize", "cpfin"):
        return "(K%s %s)" % (n.capitalize(), cN(p[1]))
    return {"postmine": "KPostmine", "mine": "KMine", "down": "KDown", "up": "KUp"}[n]


def cON(x):
    return "None" if x is None else "(Some %s)" % cN(x)


def excess_label(t):
    """label of a stored excess in the INITIAL state (see Sched.v): slot kernel k+1, other 0"""
    if not t["has_excess"]:
        return None
    e = t["excess"]
    if isinstance(e, str) and e.startswith("k"):
        return int(e[1:]) + 1
    if t["type"] in (1, 3, 5) and t["slate"] is not None:
        return int(t["slate"]) + 1   # the receiver stores the final excess at receive time
    return 0


def state_term(h):
    snap, nodev = h["init"], h["node"]
    outs = []
    byc = {}
    for o in snap["outputs"]:
        byc[o["child"]] = o
        outs.append("mkWout %s %s %s %s %s %s %s %s" % (
            cN(o["child"]), cB(o["mmr"] is not None), cN(o["value"]), STATUS[o["status"]],
            cN(o["height"]), cN(o["lock"]), cB(o["cb"]), cON(o["tx"])))
    log = []
    for t in snap["txs"]:
        proof = "None" if not t["has_proof"] else "(Some %s)" % cB(t["proof_sender_sig"])
        log.append("mkEntry %s %s %s %s %s %s %s %s %s %s %s %s %s %s" % (
            cN(t["id"]), cON(t["slate"]), TTYPE[t["type"]], cB(t["confirmed"]), cN(t["credited"]),
            cN(t["debited"]), cON(t["fee"]), cON(t["ttl"]), cN(t["n_in"]), cN(t["n_out"]),
            cON(excess_label(t)), cON(t["min_h"]), proof, cB(t["stored_tx"])))
    nextid = max([t["id"] for t in snap["txs"]] + [-1]) + 1
    ctxs = []
    for c in h["ctxs"]:
        ctxs.append("mkCtx %s %s %s %s %s %s" % (
            cN(c["slot"]), cL(["(%s, %s)" % (cN(a), cB(b)) for a, b in c["inputs"]]),
            cL(["(%s, %s)" % (cN(a), cN(b)) for a, b in c["changes"]]),
            cN(c["fee"] or 0), cN(c["amount"]), cB(c["proof"])))
    # slots: effect of the transaction when mined, derived from the wallet's own records
    slots, pool = [], []
    onchain_k = {k for k, _ in nodev["kernels"]}
    for k, sl in enumerate(h["slots"]):
        spends, creates = [], []
        for t in snap["txs"]:
            if t["slate"] == k and t["type"] in (2, 4):      # sent
                for o in snap["outputs"]:
                    if o["tx"] == t["id"]:
                        if o["status"] == 2:
                            spends.append(o["child"])
                        elif o["status"] == 0:
                            creates.append((o["child"], o["value"]))
            if t["slate"] == k and t["type"] in (1, 3):      # received
                for o in snap["outputs"]:
                    if o["tx"] == t["id"] and o["status"] == 0:
                        creates.append((o["child"], o["value"]))
        txd = "(mkTxd %s %s %s)" % (cN(k + 1), cL([cN(x) for x in spends]),
                                    cL(["(%s, %s)" % (cN(a), cN(b)) for a, b in creates]))
        slots.append("mkSlot %s %s %s %s %s %s %s %s %s" % (
            cB(sl["has0"]), cB(sl["has1"]), cB(sl["fin"]), cB(sl["posted"]), cB(sl["proof"]),
            cN(sl["amount"] or 0), cN(sl["fee"] or 0), cN(sl["ttl"] or 0), txd))
        if sl["posted"] and k not in onchain_k:
            pool.append(txd)
    utxo = []
    for child, hh, value, cb in nodev["utxo"]:
        utxo.append("(%s, %s, %s, %s)" % (cN(child), cN(hh), cN(value), cB(cb)))
    node = "(mkNode %s %s %s false %s)" % (
        cN(nodev["height"]), cL(utxo),
        cL(["(%s, %s)" % (cN(k + 1), cN(hh)) for k, hh in nodev["kernels"]]), cL(pool))
    return "(mkState %s %s %s %s %s %s %s %s %s %s)" % (
        cL(outs), cL(log), cN(nextid), cN(snap["child"][0][1] if snap["child"] else 0), cL(ctxs),
        cN(snap["conf_h"]), cN(snap["scanned_h"]), cN(snap["init"]), node, cL(slots))


def real_rows(h, r):
    """the real run in the row format of Sched.enc_config"""
    snap = r["snapshot"]
    fin = r.get("fin", [])
    rows = []
    for o in snap["outputs"]:
        rows.append([1, o["child"], int(o["mmr"] is not None), int(o["value"]), o["status"], o["height"],
                     o["lock"], int(o["cb"]), -1 if o["tx"] is None else o["tx"]])
    for t in snap["txs"]:
        if not t["has_excess"]:
            ex = -1
        elif isinstance(t["excess"], str) and t["excess"].startswith("k"):
            ex = int(t["excess"][1:]) + 1
        else:
            ex = 0
        rows.append([2, t["id"], -1 if t["slate"] is None else t["slate"], t["type"], int(t["confirmed"]),
                     int(t["credited"]), int(t["debited"]), -1 if t["fee"] is None else int(t["fee"]),
                     -1 if t["ttl"] is None else t["ttl"], t["n_in"], t["n_out"], ex,
                     -1 if t["min_h"] is None else t["min_h"],
                     0 if not t["has_proof"] else (2 if t["proof_sender_sig"] else 1), int(t["stored_tx"])])
    nextid = max([t["id"] for t in snap["txs"]] + [-1]) + 1
    head = [list(r["steps"]), list(r["results"]),
            [snap["child"][0][1] if snap["child"] else 0, nextid, snap["conf_h"], snap["scanned_h"],
             snap["init"], r["node"]["height"], 1],
            sorted(snap["contexts"])]
    return head, sorted(rows), fin


def model_rows(m, fin):
    """m = Sched.run_case output: [known flags; section codes of the trace] ++ enc_config"""
    m = m[2:]
    head = [m[0], m[1], m[2], sorted(m[3])]
    rows = []
    for x in m[4:]:
        if x[0] == 3:
            continue
        if x[0] == 2 and x[11] > 0 and not (x[11] - 1 < len(fin) and fin[x[11] - 1]):
            x = list(x)
            x[11] = 0      # the harness can only name a kernel once the transaction exists
        rows.append(list(x))
    return head, sorted(rows)


# ------------------------------------------------------------------ serializability oracle

def serial(threads, sched):
    seq = [t for t in sched if not is_env(threads[t])]
    seen = []
    for t in seq:
        if seen and seen[-1] == t:
            continue
        if t in seen:
            return False
        seen.append(t)
    return True


def projection(snap):
    """what the property names: outputs (status, tx link), log entries (type, confirmed, excess,
    proof...), key indices, contexts; log ids are names: compared up to renaming"""
    txs = []
    for t in snap["txs"]:
        d = {k: t[k] for k in ("parent", "slate", "type", "confirmed", "credited", "debited", "fee", "ttl",
                               "n_in", "n_out", "excess", "has_proof", "proof_sender_sig", "stored_tx",
                               "reverted_after")}
        txs.append((t["id"], d))
    # ties between entries of equal content are broken by the outputs that point to them, so that the
    # canonical form does not depend on the order in which equal entries happened to be numbered
    linked = collections.defaultdict(list)
    for o in snap["outputs"]:
        if o["tx"] is not None:
            linked[o["tx"]].append((o["child"], o["mmr"] is not None, o["status"]))
    order = sorted(txs, key=lambda x: (json.dumps(x[1], sort_keys=True), sorted(linked[x[0]]), x[0]))
    ren = {tid: i for i, (tid, _) in enumerate(order)}
    outs = []
    for o in snap["outputs"]:
        d = {k: o[k] for k in ("root", "acct", "child", "value", "status", "height", "lock", "cb")}
        d["mmr"] = o["mmr"] is not None
        d["tx"] = ren.get(o["tx"], "?") if o["tx"] is not None else None
        outs.append(d)
    return {"txs": [d for _, d in order], "outputs": outs, "child": snap["child"],
            "contexts": snap["contexts"], "active": snap["active"]}


def obs_key(threads, r):
    res = [c for i, c in enumerate(r["results"])
           if not is_env(threads[i]) and threads[i].split(":")[0] not in ("refresh", "scan")]
    return json.dumps([projection(r["snapshot"]), res], sort_keys=True)


# ------------------------------------------------------------------ harness driver

# (scenario, preemption bound, prefix depth used to shard the DFS over processes)
QUICK = [
    ("send_nochange_finalize", 1000, 2),
    ("send_change_finalize", 1000, 2),
    ("recv_cpfin", 1000, 2),
    ("init_lock", 1000, 2),
    ("scan_restore_receive", 1000, 2),
    ("ttl_expire", 1000, 2),
    ("down", 1000, 2),
    ("send_nochange_cancel", 1, 3),
    ("recv_cancel", 1, 3),
    ("restore_two_refresh", 1, 3),
    ("scan_cancel", 1, 3),
    ("restored_scan_receive2", 1000, 2),
]
# scenarios judged by a state invariant of every final state instead of serial equivalence and the
# model: a wallet restored from its phrase that receives payments while its first scan is still
# running draws keys below the index the scan is about to restore — in most schedules (and already
# in the serial order "receive, then scan") that is no serial order's outcome, harmless or not, so
# serial equivalence separates nothing there. What every schedule must keep: the next key index of
# an account lies above every path recorded for it (else the next operation reuses a key and
# overwrites a pending output).
INVARIANT_ONLY = {"restored_scan_receive2"}


def not_fresh(snap):
    ch = {c[0]: c[1] for c in snap["child"]}
    return [(o["acct"], o["child"], ch.get(o["acct"], 0)) for o in snap["outputs"] if o["child"] >= ch.get(o["acct"], 0)]
THOROUGH = [(s, (2 if b == 1 else b), 3) for s, b, _ in QUICK] + [("send3", 1000, 2)]

KNOWN_TEXT = {
    "C20-K1-stale-chain-view":
        "two overlapping refresh bodies: a scan takes its wallet snapshot after another run's update_outputs "
        "applied a block newer than the chain outputs the scan collected; it 'repairs' the rightly spent "
        "output to Unspent and cancels the (confirmed) log entry",
    "C20-K2-cancel-two-phase":
        "cancel_tx checks (own refresh) and cancels (final section) in two phases; another run's "
        "update_outputs that saw a newer block lands in between: entry cancelled although mined, input Spent",
    "C20-K3-double-restore":
        "two overlapping scans both snapshot the wallet before either restores the same missing output: "
        "the output is restored twice, two confirmed TxReceived log entries for one output",
}
KNOWN_IDS = ["C20-K1-stale-chain-view", "C20-K2-cancel-two-phase", "C20-K3-double-restore"]


def prefixes(n, depth):
    res = [[]]
    for _ in range(depth):
        res = [p + [t] for p in res for t in range(n)]
    return res


def run_jobs(binp, wd, jobs):
    """jobs: list of (name, args). 16 processes at a time. Returns {name: (rc, rows, log)}."""
    def one(job):
        name, args = job
        out = os.path.join(wd, name + ".jsonl")
        if os.path.exists(out):
            os.remove(out)
        rc, log = vlib.sh([binp, "--out", out] + args, timeout=3000)
        rows = []
        if os.path.exists(out):
            for l in open(out):
                try:
                    rows.append(json.loads(l))
                except ValueError:
                    pass
        return name, rc, rows, log
    res = {}
    with ThreadPoolExecutor(max_workers=16) as ex:
        for name, rc, rows, log in ex.map(one, jobs):
            res[name] = (rc, rows, log)
    return res


def run(tier, replay):
    V = vlib.Verdict(PROP, tier)
    wd = vlib.workdir(PROP)
    for f in glob.glob(os.path.join(wd, "*.jsonl")):
        os.remove(f)
    (binp,) = vlib.build_harness(["c20"])
    proof = vlib.proof_stage(PROP, V, "props/C20.v")

    # ---- source scan: the section list of the model against the code
    scan_problems, scan_info = source_scan()
    if scan_problems:
        V.violation({"property": PROP, "kind": "section-list",
                     "correspondence": "critical sections of Sched.v (DESIGN A.7) vs wallet_lock! acquisitions in /repo",
                     "theorems_no_longer_tied": proof["theorems"], "problems": scan_problems}, no_input=True)

    rc, out = vlib.sh([binp, "--list"])
    scen_threads = {x["name"]: x["threads"] for x in json.loads(out.strip().splitlines()[-1])}

    # ---- jobs
    jobs = []
    corpus = sorted(glob.glob(os.path.join(vlib.VERIF, "corpus", PROP, "*.json")))
    if replay:
        corpus = [replay]
    need_serial = set()
    for k, f in enumerate(corpus):
        c = json.load(open(f))
        jobs.append(("corpus%d" % k, ["--replay", f]))
        need_serial.add((c["scenario"], ",".join(c["threads"]) if c.get("threads") else ""))
    plan = [] if replay else (QUICK if tier == "quick" else THOROUGH)
    explored = {s for s, _, _ in plan}
    for sc, thr in sorted(need_serial):
        if sc not in explored or thr:
            args = ["--scenario", sc, "--bound", "0"] + (["--threads", thr] if thr else [])
            jobs.append(("serial_%s_%d" % (sc, len(jobs)), args))
    for sc, bound, depth in plan:
        for pf in prefixes(len(scen_threads[sc]), depth):
            jobs.append(("dfs_%s_%s" % (sc, "".join(map(str, pf))),
                         ["--scenario", sc, "--bound", str(bound), "--prefix", ",".join(map(str, pf))]))
    # ---- the updater THREAD of api::Owner parked at each of its lock acquisitions while an owner-API call that
    # takes the wallet mutex itself (close_wallet, ...) runs: the call has to return ("no interleaving deadlocks"
    # for the lock pair wallet mutex / updater mutex)
    lifecycle_replay = bool(replay) and json.load(open(replay)).get("scenario") == "lifecycle"
    if lifecycle_replay:
        jobs = []
    if not replay or lifecycle_replay:
        jobs.append(("lifecycle", ["--mode", "lifecycle", "--kmax", "14" if tier == "quick" else "45", "--park_wait", "6"]))
    results = run_jobs(binp, wd, jobs)
    lifecycle_rows = [r for r in results.get("lifecycle", (0, [], ""))[1] if r.get("kind") == "lifecycle"]

    # ---- collect runs grouped by (scenario, threads); every job has its own base (header)
    headers, runs = [], []
    infra = []
    for name, (rc_, rows, log) in sorted(results.items()):
        h = None
        for r in rows:
            if r["kind"] == "header":
                h = len(headers)
                headers.append(r)
            elif r["kind"] in ("dfs", "replay"):
                r["_h"] = h
                r["_job"] = name
                runs.append(r)
            elif r["kind"] == "footer" and r.get("nondeterminism"):
                infra.append("%s: %d nondeterministic decision points" % (name, r["nondeterminism"]))
        if rc_ not in (0, 3):
            infra.append("%s: harness exit %s: %s" % (name, rc_, log[-400:]))
    if infra and not runs:
        raise vlib.Infra("; ".join(infra)[:2000])

    # ---- the model on the same schedules
    extra = "".join("Definition c20_s%d := %s.\nDefinition c20_k%d := %s.\n"
                    % (i, state_term(h), i, cL([kind_term(t) for t in h["threads"]]))
                    for i, h in enumerate(headers))
    inv_runs = [r for r in runs if headers[r["_h"]]["scenario"] in INVARIANT_ONLY]
    runs = [r for r in runs if headers[r["_h"]]["scenario"] not in INVARIANT_ONLY]
    terms = ["(c20_s%d, c20_k%d, %s)" % (r["_h"], r["_h"], cL([cN(t) for t in r["schedule"]])) for r in runs]
    model = vlib.coq_eval(PROP, "From GW Require Import Select Sched.", "run_case", terms, shard=250,
                          extra_defs=extra) if runs else []

    # ---- oracle + correspondence
    groups = collections.defaultdict(list)
    for r, m in zip(runs, model):
        h = headers[r["_h"]]
        groups[(h["scenario"], tuple(h["threads"]))].append((r, m, h))
    divergences, oracle_fail, deadlocks = [], [], []
    known_hits = collections.Counter()
    stats = {}
    finals_all = set()
    steps_hist = collections.Counter()
    res_hist = collections.Counter()
    n_nonserial = 0
    for (sc, threads), items in sorted(groups.items()):
        ser = set()
        for r, m, h in items:
            if not r["deadlock"] and serial(threads, r["schedule"]):
                ser.add(obs_key(threads, r))
        fin = set()
        n_bad = n_known = n_div = 0
        for r, m, h in items:
            if r["deadlock"]:
                deadlocks.append({"scenario": sc, "threads": list(threads), "schedule": r["schedule"],
                                  "steps": r["steps"]})
                continue
            key = obs_key(threads, r)
            fin.add(key)
            finals_all.add((sc, key))
            steps_hist[str(r["steps"])] += 1
            res_hist[str(r["results"])] += 1
            rh, rr, finflags = real_rows(h, r)
            mh, mr = model_rows(m, finflags)
            if rh != mh or rr != mr:
                n_div += 1
                divergences.append({"scenario": sc, "threads": list(threads), "schedule": r["schedule"],
                                    "impl": {"head": rh, "rows": rr}, "model": {"head": mh, "rows": mr}})
            if key not in ser:
                n_nonserial += 1
                flags = m[0]
                if any(flags):
                    n_known += 1
                    for kid, fl in zip(KNOWN_IDS, flags):
                        if fl:
                            known_hits[kid] += 1
                else:
                    n_bad += 1
                    oracle_fail.append({"scenario": sc, "threads": list(threads), "schedule": r["schedule"],
                                        "sections": m[1], "results": r["results"], "steps": r["steps"],
                                        "final": r["snapshot"], "n_serial_finals": len(ser)})
        stats[sc + ("" if list(threads) == scen_threads.get(sc) else " " + ",".join(threads))] = {
            "schedules": len(items), "serial_schedules": sum(1 for r, _, _ in items if serial(threads, r["schedule"])),
            "serial_finals": len(ser), "distinct_finals": len(fin), "non_serializable_known_shape": n_known,
            "non_serializable_other": n_bad, "model_divergences": n_div}

    # ---- invariant-only scenarios
    inv_fail = []
    inv_by = collections.Counter()
    for r in inv_runs:
        h = headers[r["_h"]]
        inv_by[h["scenario"]] += 1
        if r["deadlock"]:
            deadlocks.append({"scenario": h["scenario"], "threads": list(h["threads"]), "schedule": r["schedule"],
                              "steps": r["steps"]})
            continue
        nf = not_fresh(r["snapshot"])
        if nf:
            inv_fail.append({"scenario": h["scenario"], "threads": list(h["threads"]), "schedule": r["schedule"],
                             "results": r["results"], "final": r["snapshot"], "what": nf})
    for sc, n in inv_by.items():
        stats[sc] = {"schedules": n, "judged_by": "state invariant (next key index above every recorded path)",
                     "invariant_failures": sum(1 for f in inv_fail if f["scenario"] == sc)}
    for f in inv_fail[:3]:
        V.violation({"property": PROP, "kind": "oracle",
                     "what": "after this schedule the next key index of an account is not above a path recorded for it "
                             "(account, path, next index): %s — the next operation is handed a key in use" % (f["what"][:3],),
                     "scenario": f["scenario"], "threads": f["threads"], "schedule": f["schedule"], "results": f["results"],
                     "final": f["final"], "replay_cmd": "./check C20 --replay <this file>"})

    open_ids = {k["id"] for k in vlib.known_findings(PROP)}
    for kid, n in sorted(known_hits.items()):
        if kid in open_ids:
            V.known_finding("%s (%d schedules): %s" % (kid, n, KNOWN_TEXT[kid]))
        else:
            V.violation({"property": PROP, "kind": "oracle", "what": "non-serializable schedule of shape %s, "
                         "which is not recorded as an open finding" % kid})
    lifecycle_stuck = [r for r in lifecycle_rows if not r["returned"]]
    for r in lifecycle_stuck[:2]:
        V.violation({"property": PROP, "kind": "deadlock", "scenario": "lifecycle",
                     "what": "api::Owner::%s, called while the updater thread (start_updater) stood before its wallet-lock "
                             "acquisition number %d and released 150 ms later, never returned: the two threads hold the wallet "
                             "mutex and the updater mutex in opposite orders" % (r["op"], r["k"]),
                     "op": r["op"], "k": r["k"], "updater_parked": r["parked"],
                     "replay_cmd": "./check C20 --replay <this file>"})
    if not replay and not lifecycle_rows:
        infra.append("lifecycle job produced no rows: %s" % results.get("lifecycle", (0, [], ""))[2][-300:])
    for d in deadlocks[:3]:
        V.violation({"property": PROP, "kind": "deadlock", "what": "watchdog: a thread never reached its next "
                     "lock acquisition / end (deadlock or hang)", "scenario": d["scenario"],
                     "threads": d["threads"], "schedule": d["schedule"], "steps": d["steps"],
                     "replay_cmd": "./check C20 --replay <this file>"})
    for f in oracle_fail[:3]:
        V.violation({"property": PROP, "kind": "oracle",
                     "what": "final wallet state + operation results not reached by any serial order of the "
                             "same operations (and the schedule has none of the recorded shapes)",
                     "scenario": f["scenario"], "threads": f["threads"], "schedule": f["schedule"],
                     "sections": f["sections"], "results": f["results"], "steps": f["steps"],
                     "final": f["final"], "n_serial_finals": f["n_serial_finals"],
                     "replay_cmd": "./check C20 --replay <this file>"})
    if divergences and not oracle_fail and not deadlocks:
        V.violation({"property": PROP, "kind": "correspondence",
                     "correspondence": "Sched.step/run (coq/theories/Sched.v) vs owner::{update_wallet_state,scan,"
                                       "cancel_tx,retrieve_txs,...} under the cooperative scheduler",
                     "theorems_no_longer_tied": proof["theorems"], "n_divergences": len(divergences),
                     "cases": [{"scenario": d["scenario"], "threads": d["threads"], "schedule": d["schedule"]}
                               for d in divergences[:5]],
                     "first": divergences[:2]}, no_input=True)
    if infra:
        V.violation({"property": PROP, "kind": "harness", "problems": infra[:5]}, no_input=True)

    cov = dict(proof)
    samples = [{"scenario": headers[r["_h"]]["scenario"], "threads": headers[r["_h"]]["threads"],
                "schedule": r["schedule"], "sections": m[1], "steps": r["steps"], "results": r["results"]}
               for r, m in list(zip(runs, model))[:2] + list(zip(runs, model))[-2:]]
    cov.update({
        "evaluations": len(runs),
        "distinct_nontrivial": len(finals_all),
        "rule": "every complete schedule (DFS with re-execution on a fresh copy of the prepared wallets) of each "
                "scenario's threads within the preemption bound, at wallet_lock! granularity; environment steps "
                "(block mined, counterparty finalizes, node down/up) land anywhere; non-trivial = distinct final "
                "(projected wallet state, operation results) per scenario",
        "samples": samples,
        "traces_validated_against_impl": len(runs) - len(divergences),
        "exhaustive": all(b >= 1000 for _, b, _ in plan) and bool(plan),
        "exhaustive_within_preemption_bound": True,
        "schedules_enumerated": len(runs),
        "distinct_final_states": len(finals_all),
        "non_serializable_schedules": n_nonserial,
        "sections_per_thread_histogram": dict(steps_hist.most_common(12)),
        "operation_results_histogram": dict(res_hist.most_common(12)),
        "per_scenario": stats,
        "preemption_bounds": {s: b for s, b, _ in plan},
        "corpus_cases": len(corpus),
        "divergences": len(divergences),
        "oracle_failures": len(oracle_fail),
        "deadlocks": len(deadlocks),
        "lifecycle": {"calls": len(lifecycle_rows), "updater_parked": sum(1 for r in lifecycle_rows if r["parked"]),
                      "returned": sum(1 for r in lifecycle_rows if r["returned"]),
                      "ops": sorted({r["op"] for r in lifecycle_rows}),
                      "what": "api::Owner::start_updater thread parked before its k-th wallet_lock! acquisition; "
                              "owner-API call from another thread; the call must return"},
        "known_finding_hits": dict(known_hits),
        "source_scan": scan_info,
    })
    return V.finish(cov, [
        "lock-granular: one step = one critical section plus the node calls up to the next acquisition; OS "
        "scheduling inside a section, LMDB-internal concurrency and memory effects are not exhibited",
        "serial reference = all serial orders of the wallet operations with environment events (block mined, "
        "counterparty actions, node down/up) landing anywhere; the refresh's own return value is not compared",
        "log ids are compared up to renaming; confirmed/scanned heights are checked against the model but are "
        "not part of the serializability observation (the property does not name them)",
        "cancel_tx scenarios and scenarios with two refresh bodies are explored within a preemption bound "
        "(quick 1, thorough 2); scenarios whose other threads are single sections are explored completely",
        "single account, AutomatedTesting chain, one wallet under test; api::Owner/Foreign calls are driven through "
        "libwallet::api_impl with the scheduler gate in front of their single lock acquisition",
    ])
