"""Generic driver of the Ledger-based checks: one function, parameterised by the property."""
import collections
import json

import ledgerlib as L
import vlib


def run_ledger_check(prop, tier, replay, profile, oracles, rule_extra, quick=(3, 45, 16), thorough=(14, 70, 16),
                     known=None, assumptions=None, prop_file=None, extra_stage=None):
    """quick/thorough = (histories per shard, steps per history, shards)."""
    V = vlib.Verdict(prop, tier)
    (binp,) = vlib.build_harness(["ledger"])
    proof = vlib.proof_stage(prop, V, prop_file or "props/%s.v" % prop)

    if replay:
        rj = json.load(open(replay))
        rows = rj["rows"] if "rows" in rj else [rj["row"]]
    else:
        n, steps, shards = quick if tier == "quick" else thorough
        rows = L.run_harness(binp, prop, profile, n, steps, shards)

    traces = L.model_traces(prop, rows)
    agree, div = L.compare(rows, traces)

    # property oracles on the implementation's own snapshots
    fails = []
    for o in oracles:
        fails.extend(o(rows))
    known = known or []
    new_fails = []
    for f in fails:
        hit = [k for k in known if k["match"](f)]
        if hit:
            V.known_finding(hit[0]["text"], hit[0].get("id"))
        else:
            new_fails.append(f)

    by_row = {(r["seed"], r["wallet"]): r for r in rows}
    for f in new_fails[:3]:
        row = by_row.get(tuple(f["row"]))
        V.violation({"property": prop, "kind": "oracle", "what": f["what"], "step": f.get("step"),
                     "seed": f.get("seed"), "row": row,
                     "replay_cmd": "./check %s --replay <this file>" % prop})
    if div and not new_fails:
        d = div[0]
        V.violation({"property": prop, "kind": "correspondence",
                     "correspondence": "Ledger.step / Ledger.trace (coq/theories/Ledger.v) vs libwallet api_impl::{owner,foreign}, internal::{updater,tx,selection} on real LMDB wallets",
                     "theorems_no_longer_tied": proof["theorems"], "n_divergences": len(div),
                     "first_divergence": {k: d[k] for k in ("hist", "seed", "wallet", "step", "op", "what")},
                     "row": by_row.get((d["seed"], d["wallet"]))}, no_input=True)

    kinds = collections.Counter()
    nontrivial = set()
    n_steps = 0
    for r in rows:
        for s in r["steps"]:
            n_steps += 1
            kinds["%s:%s" % (s["op"]["k"], "ok" if s["rc"] == [0] else "err%s" % (s["rc"][1] if len(s["rc"]) > 1 else "panic"))] += 1
            if s["rc"] == [0] and s["op"]["k"] not in ("set_active",):
                nontrivial.add(json.dumps([s["op"], s["snap"]["outputs"], s["snap"]["txs"]], sort_keys=True))
    cov = dict(proof)
    cov.update({
        "evaluations": n_steps,
        "distinct_nontrivial": len(nontrivial),
        "rule": "each evaluation is one operation of a PRNG-generated multi-slate history on two real LMDB wallets over a real "
                "in-process chain (mine / refresh / account switch / init_send incl. late lock, ttl, src account / receive incl. "
                "tampered amounts and cutoffs, replays, wrong wallet / lock / finalize incl. forged replies / post / cancel by id, "
                "slate, unknown / coinbase with caller-named key / reopen); non-trivial = distinct (operation, resulting outputs, "
                "resulting log) among operations that succeeded. " + rule_extra,
        "samples": [{"op": s["op"], "rc": s["rc"]} for s in rows[0]["steps"][:6]] if rows else [],
        "traces_validated_against_impl": agree,
        "histories": len(rows),
        "result_kinds": dict(kinds),
        "divergences": len(div),
        "oracle_failures": len(fails),
        "oracle_failures_matching_known_findings": len(fails) - len(new_fails),
    })
    if extra_stage is not None:
        cov.update(extra_stage(V))
    return V.finish(cov, (assumptions or []) + [
        "node answers (tip, UTXO membership, kernel presence) and signature verdicts enter the model as recorded inputs",
        "coinbase log ids compared as a multiset (HashMap iteration order in apply_api_outputs)",
        "crypto, LMDB, serde and the chain are exercised by the run, not modelled",
    ])
