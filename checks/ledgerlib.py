"""Shared code of the Ledger-based checks (C03, C04, C05, C07, C15, C17): running the
ledger harness, translating its traces into coq/theories/Ledger.v operations, comparing
the model's per-step projection with the implementation's snapshots, and the property
oracles evaluated on the implementation's own snapshots."""
import collections
import json
import os
from concurrent.futures import ThreadPoolExecutor

import vlib
from vlib import cN, cB, cL, cOpt

STATUS = ["Unconfirmed", "Unspent", "Locked", "Spent", "Reverted"]


def kid(a, c):
    return "(%s, %s)" % (cN(a), cN(c))


def op_terms(op):
    """One harness op record -> list of Coq `op` terms (a harness op may be several model ops)."""
    k = op["k"]
    if k == "coinbase":
        key = op["key"]
        return ["OpCoinbase %s %s %s" % (cN(op["fees"]), cN(op["height"]),
                                          "None" if key is None else "(Some %s)" % kid(key[0], key[1]))]
    if k == "refresh":
        return [refresh_term(op["parent"], op["all"], op["view"])]
    if k == "set_active":
        return ["OpSetActive %s" % cN(op["a"])]
    if k == "receive":
        return ["OpReceive %s %s %s %s %s" % (cN(op["slate"]), cN(op["amount"]), cN(op["ttl"]),
                                              cOpt(op["dest"], cN), cB(op["crypto_ok"]))]
    if k == "lock":
        return ["OpLock %s %s %s" % (cN(op["slate"]), cN(op["ttl"]), cN(op["tip"]))]
    if k == "cancel":
        return ["OpCancel %s %s" % (cOpt(op["id"], cN), cOpt(op["slate"], cN))]
    if k == "finalize":
        return ["OpFinalize %s %s %s %s %s" % (cN(op["slate"]), cN(op["ttl"]), cN(op["tip"]),
                                               cB(op["state_ok"]), cB(op["crypto_ok"]))]
    if k == "init_send":
        p = op["p"]
        slate = op["slate"] if op["slate"] is not None else 999999
        params = "(mkParams %s %s %s %s %s %s %s 0%%N)" % (
            cN(p["amount"]), cB(p["aif"]), cN(p["h"]), cN(p["minconf"]), cN(p["max_outputs"]),
            cN(p["change_outputs"]), cB(p["all"]))
        return [refresh_term(op["parent"], False, op["view"]),
                "OpInitSend %s %s %s %s" % (cN(slate), cOpt(op["src"], cN), params, cB(op["late"]))]
    raise vlib.Infra("unknown op " + k)


def refresh_term(parent, update_all, view):
    pres = cL(["(%s, %s, %s)" % (kid(x[0], x[1]), cOpt(x[2], cN), cN(x[3])) for x in view["presence"]])
    km = cL([cN(x[1]) for x in view["kernel_missing"] if x[0] == parent])
    return "OpRefresh %s %s %s %s %s" % (cN(parent), cB(update_all), cN(view["tip"]), pres, km)


def oi(x):
    return -1 if x is None else int(x)


def proj_from_snap(s):
    outs = [[o["root"], o["acct"], o["child"], oi(o["mmr"]), int(o["value"]), o["status"], o["height"],
             o["lock"], 1 if o["cb"] else 0, oi(o["tx"])] for o in s["outputs"]]
    txs = [[t["parent"], t["id"], oi(t["slate"]), t["type"], 1 if t["confirmed"] else 0, int(t["credited"]),
            int(t["debited"]), oi(t["fee"]), oi(t["ttl"]), t["n_in"], t["n_out"], 1 if t["has_excess"] else 0]
           for t in s["txs"]]
    child = sorted([c[0], c[1]] for c in s["child"] if c[1] != 0)
    return [outs, txs, child, [sorted(s["contexts"])]]


def canon(proj):
    """ConfirmedCoinbase log ids are assigned in HashMap iteration order by the
    implementation (apply_api_outputs iterates a HashMap), so coinbase entries are compared
    as a multiset: their ids, and references to them from outputs, become one constant."""
    outs, txs, child, ctxs = proj
    cb_ids = set((t[0], t[1]) for t in txs if t[3] == 0)
    outs2 = [o[:9] + [1000000 if (o[0], o[9]) in cb_ids else o[9]] for o in outs]
    txs2 = sorted([[t[0], 1000000 if (t[0], t[1]) in cb_ids else t[1]] + t[2:] for t in txs])
    return [outs2, txs2, sorted(child), [sorted(ctxs[0])] if ctxs and ctxs[0] else [[]]]


def run_harness(binp, prop, profile, n_hist, steps, shards, seed_mul=1):
    wd = vlib.workdir(prop)

    def one(sh):
        out = os.path.join(wd, "ledger_%d.jsonl" % sh)
        rc, log = vlib.sh([binp, "--out", out, "--n", str(n_hist), "--steps", str(steps),
                           "--shard", str(sh), "--profile", profile], timeout=3000,
                          env={"VERIF_SEED": str(vlib.seed() * seed_mul)})
        if rc != 0:
            raise vlib.Infra("ledger harness failed: " + log[-2000:])
        return [json.loads(l) for l in open(out)]

    rows = []
    with ThreadPoolExecutor(max_workers=min(16, shards)) as ex:
        for r in ex.map(one, range(shards)):
            rows.extend(r)
    return rows


def model_traces(prop, rows):
    """Evaluate Ledger.trace on every (history, wallet) row. Returns per row a list of
    (rc, projection) aligned with the harness steps (multi-op steps collapsed to the last)."""
    terms, layout = [], []
    for r in rows:
        ops, lay = [], []
        for s in r["steps"]:
            t = op_terms(s["op"])
            ops.extend(t)
            lay.append(len(t))
        terms.append(cL(ops))
        layout.append(lay)
    res = vlib.coq_eval(prop, "From GW Require Import Ledger.", "(trace empty_wallet)", terms, shard=8)
    out = []
    for tr, lay in zip(res, layout):
        i, steps = 0, []
        for n in lay:
            last = tr[i + n - 1]
            steps.append((last[0][0], last[1:]))
            i += n
        out.append(steps)
    return out


def compare(rows, traces):
    """Step-by-step comparison; returns (n_steps_agreeing, divergences)."""
    agree, div = 0, []
    for r, tr in zip(rows, traces):
        for idx, (s, (mrc, mproj)) in enumerate(zip(r["steps"], tr)):
            irc = s["rc"]
            ip = canon(proj_from_snap(s["snap"]))
            mp = canon([mproj[0], mproj[1], mproj[2], mproj[3]])
            if irc != mrc or ip != mp:
                what = []
                if irc != mrc:
                    what.append("result impl=%s model=%s" % (irc, mrc))
                for name, a, b in zip(["outputs", "txs", "child", "contexts"], ip, mp):
                    if a != b:
                        da = [x for x in a if x not in b]
                        db = [x for x in b if x not in a]
                        what.append("%s impl-only=%s model-only=%s" % (name, da[:4], db[:4]))
                div.append({"hist": r["hist"], "seed": r["seed"], "wallet": r["wallet"], "step": idx,
                            "op": s["op"], "what": what})
                break   # later steps of this history are not comparable
            agree += 1
    return agree, div


# ------------------------------------------------------------------ oracles on the implementation

def outputs_by_key(snap):
    return {(o["acct"], o["child"], o["mmr"]): o for o in snap["outputs"]}


def oracle_c03(rows):
    """Exclusivity: a successful reservation only takes outputs that were free; never two
    TxSent / two TxReceived entries for one slate in one account; every Locked output
    belongs to exactly one live TxSent entry of its account."""
    fails = []
    for r in rows:
        prev = None
        for idx, s in enumerate(r["steps"]):
            snap = s["snap"]
            if s["op"]["k"] in ("lock", "finalize") and s["rc"] == [0] and prev is not None:
                ins = s["extra"].get("ctx_inputs")
                if s["op"]["k"] == "lock" and ins:
                    po = outputs_by_key(prev)
                    for a, c, m, _v in ins:
                        o = po.get((a, c, m))
                        if o is None or o["status"] not in (0, 1):
                            fails.append({"row": (r["hist"], r["wallet"]), "seed": r["seed"], "step": idx,
                                          "what": "reservation took output %s that was not free (status %s)"
                                                  % ((a, c, m), None if o is None else o["status"])})
            cnt = collections.Counter()
            for t in snap["txs"]:
                if t["slate"] is not None and t["type"] in (1, 2):
                    cnt[(t["parent"], t["slate"], t["type"])] += 1
            for k, v in cnt.items():
                if v > 1:
                    fails.append({"row": (r["hist"], r["wallet"]), "seed": r["seed"], "step": idx,
                                  "what": "%d live log entries of type %d for slate %d in account %d" % (v, k[2], k[1], k[0])})
            live = {(t["parent"], t["id"]) for t in snap["txs"] if t["type"] == 2 and not t["confirmed"]}
            for o in snap["outputs"]:
                if o["status"] == 2 and (o["root"], o["tx"]) not in live:
                    fails.append({"row": (r["hist"], r["wallet"]), "seed": r["seed"], "step": idx,
                                  "what": "Locked output %s not held by a live TxSent entry" % ((o["acct"], o["child"]),)})
            prev = snap
    return fails
