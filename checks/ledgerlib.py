"""Shared code of the Ledger-based checks (C03, C04, C05, C07, C15, C17): running the
ledger harness, translating its traces into coq/theories/Ledger.v operations, comparing
the model's per-step projection with the implementation's snapshots, and the property
oracles evaluated on the implementation's own snapshots."""
import collections
import json
import os
from concurrent.futures import ThreadPoolExecutor

import vlib
from vlib import cN, cB, cL, cOpt

STATUS = ["Unconfirmed", "Unspent", "Locked", "Spent", "Reverted"]


def kid(a, c):
    return "(%s, %s)" % (cN(a), cN(c))


def chain_term(chain):
    return cL(["mkCO %s %s %s %s %s %s" % (kid(d["key"][0], d["key"][1]), cN(d["value"]), cN(d["height"]),
                                            cN(d["lock"]), cB(d["cb"]), cN(d["mmr"])) for d in chain])


def xop_terms(op):
    """One harness op record -> list of Coq `xop` terms (LedgerX.v)."""
    k = op["k"]
    if op.get("outage"):
        # the node's output query failed: the call gives up before touching the wallet
        return ["XRc %s" % cL([vlib.cZ(x) for x in op["rc"]])]
    # owner::scan = full refresh of the active account, then the scan proper
    if k == "restore":
        return ["XReset", "XOp (%s)" % refresh_term(op["parent"], True, op["view"]),
                "XScan %s false" % chain_term(op["chain"])]
    if k == "scan":
        return ["XOp (%s)" % refresh_term(op["parent"], True, op["view"]),
                "XScan %s %s" % (chain_term(op["chain"]), cB(op["del"]))]
    # owner::update_wallet_state: refresh of the active account, confirmation by kernel, scan
    # (the chains here are shorter than the 100-block look-back, so it covers the whole chain),
    # TTL expiry
    if k == "cancel" and op.get("via_owner"):
        # owner::cancel_tx = update_wallet_state, then tx::cancel_tx
        upd = dict(op); upd["k"] = "update_state"
        return xop_terms(upd) + ["XOp (%s)" % t for t in op_terms({"k": "cancel", "id": op["id"], "slate": op["slate"]})]
    if k == "update_state":
        v = op["view"]
        km = cL([cN(x[1]) for x in v["kernel_missing"] if x[0] == op["parent"]])
        return ["XOp (%s)" % refresh_term(op["parent"], False, v),
                "XKernel %s %s" % (cN(op["parent"]), km),
                "XScan %s false" % chain_term(op["chain"]),
                "XOp (OpExpire %s)" % cN(op["tip"])]
    return ["XOp (%s)" % t for t in op_terms(op)]


def op_terms(op):
    """One harness op record -> list of Coq `op` terms (a harness op may be several model ops)."""
    k = op["k"]
    if k == "coinbase":
        key = op["key"]
        return ["OpCoinbase %s %s %s" % (cN(op["fees"]), cN(op["height"]),
                                          "None" if key is None else "(Some %s)" % kid(key[0], key[1]))]
    if k == "refresh":
        return [refresh_term(op["parent"], op["all"], op["view"])]
    if k == "set_active":
        return ["OpSetActive %s" % cN(op["a"])]
    if k == "receive":
        return ["OpReceive %s %s %s %s %s" % (cN(op["slate"]), cN(op["amount"]), cN(op["ttl"]),
                                              cOpt(op["dest"], cN), cB(op["crypto_ok"]))]
    if k == "lock":
        return ["OpLock %s %s %s %s" % (cN(op["slate"]), cN(op["ttl"]), cN(op["tip"]), cB(op.get("has_tx", True)))]
    if k == "cancel":
        return ["OpCancel %s %s" % (cOpt(op["id"], cN), cOpt(op["slate"], cN))]
    if k == "finalize":
        return ["OpFinalize %s %s %s %s %s" % (cN(op["slate"]), cN(op["ttl"]), cN(op["tip"]),
                                               cB(op["state_ok"]), cB(op["crypto_ok"]))]
    if k == "init_send":
        p = op["p"]
        slate = op["slate"] if op["slate"] is not None else 999999
        params = "(mkParams %s %s %s %s %s %s %s 0%%N)" % (
            cN(p["amount"]), cB(p["aif"]), cN(p["h"]), cN(p["minconf"]), cN(p["max_outputs"]),
            cN(p["change_outputs"]), cB(p["all"]))
        return [refresh_term(op["parent"], False, op["view"]),
                "OpInitSend %s %s %s %s" % (cN(slate), cOpt(op["src"], cN), params, cB(op["late"]))]
    if k == "init_send_only":
        p = op["p"]
        params = "(mkParams %s %s %s %s %s %s %s 0%%N)" % (
            cN(p["amount"]), cB(p["aif"]), cN(p["h"]), cN(p["minconf"]), cN(p["max_outputs"]),
            cN(p["change_outputs"]), cB(p["all"]))
        return ["OpInitSend %s %s %s %s" % (cN(op["slate"]), cOpt(op["src"], cN), params, cB(op["late"]))]
    if k == "issue_invoice":
        slate = op["slate"] if op["slate"] is not None else 999999
        return ["OpIssueInvoice %s %s %s %s" % (cN(slate), cN(op["amount"]), cN(op["tip"]), cOpt(op["dest"], cN))]
    if k == "process_invoice":
        p = op["p"]
        params = "(mkParams %s %s %s %s %s %s %s 0%%N)" % (
            cN(p["amount"]), cB(p["aif"]), cN(p["h"]), cN(p["minconf"]), cN(p["max_outputs"]),
            cN(p["change_outputs"]), cB(p["all"]))
        v = op["view"]
        pres = cL(["(%s, %s, %s)" % (kid(x[0], x[1]), cOpt(x[2], cN), cN(x[3])) for x in v["presence"]])
        km = cL([cN(x[1]) for x in v["kernel_missing"] if x[0] == op["parent"]])
        return ["OpProcessInvoice %s %s %s %s %s %s %s" % (cN(op["slate"]), cN(op["ttl"]), cOpt(op["src"], cN), params,
                                                            cN(v["tip"]), pres, km)]
    if k == "finalize_invoice":
        return ["OpFinalizeInvoice %s %s %s" % (cN(op["slate"]), cN(op["ttl"]), cB(op["crypto_ok"]))]
    raise vlib.Infra("unknown op " + k)


def refresh_term(parent, update_all, view):
    pres = cL(["(%s, %s, %s)" % (kid(x[0], x[1]), cOpt(x[2], cN), cN(x[3])) for x in view["presence"]])
    km = cL([cN(x[1]) for x in view["kernel_missing"] if x[0] == parent])
    return "OpRefresh %s %s %s %s %s" % (cN(parent), cB(update_all), cN(view["tip"]), pres, km)


def oi(x):
    return -1 if x is None else int(x)


def proj_from_snap(s):
    outs = [[o["root"], o["acct"], o["child"], oi(o["mmr"]), int(o["value"]), o["status"], o["height"],
             o["lock"], 1 if o["cb"] else 0, oi(o["tx"])] for o in s["outputs"]]
    txs = [[t["parent"], t["id"], oi(t["slate"]), t["type"], 1 if t["confirmed"] else 0, int(t["credited"]),
            int(t["debited"]), oi(t["fee"]), oi(t["ttl"]), t["n_in"], t["n_out"], 1 if t["has_excess"] else 0]
           for t in s["txs"]]
    child = sorted([c[0], c[1]] for c in s["child"] if c[1] != 0)
    info = [[int(x) if not isinstance(x, str) or x.isdigit() else -7 for x in row] for row in s.get("info", [])]
    return [outs, txs, child, [sorted(s["contexts"])], info]


def canon(proj):
    """ConfirmedCoinbase log ids are assigned in HashMap iteration order by the
    implementation (apply_api_outputs iterates a HashMap), so coinbase entries are compared
    as a multiset: their ids, and references to them from outputs, become one constant."""
    outs, txs, child, ctxs = proj[:4]
    info = proj[4] if len(proj) > 4 else []
    cb_ids = set((t[0], t[1]) for t in txs if t[3] == 0)
    outs2 = [o[:9] + [1000000 if (o[0], o[9]) in cb_ids else o[9]] for o in outs]
    txs2 = sorted([[t[0], 1000000 if (t[0], t[1]) in cb_ids else t[1]] + t[2:] for t in txs])
    return [outs2, txs2, sorted(child), [sorted(ctxs[0])] if ctxs and ctxs[0] else [[]], info]


def run_harness(binp, prop, profile, n_hist, steps, shards, seed_mul=1):
    wd = vlib.workdir(prop)

    def one(sh):
        out = os.path.join(wd, "ledger_%d.jsonl" % sh)
        rc, log = vlib.sh([binp, "--out", out, "--n", str(n_hist), "--steps", str(steps),
                           "--shard", str(sh), "--profile", profile], timeout=3000,
                          env={"VERIF_SEED": str(vlib.seed() * seed_mul)})
        if rc != 0:
            raise vlib.Infra("ledger harness failed: " + log[-2000:])
        return [json.loads(l) for l in open(out)]

    rows = []
    with ThreadPoolExecutor(max_workers=min(16, shards)) as ex:
        for r in ex.map(one, range(shards)):
            rows.extend(r)
    return rows


def model_traces(prop, rows):
    """Evaluate Ledger.trace on every (history, wallet) row. Returns per row a list of
    (rc, projection) aligned with the harness steps (multi-op steps collapsed to the last)."""
    terms, layout = [], []
    for r in rows:
        ops, lay = [], []
        for s in r["steps"]:
            if s["extra"].get("nomodel"):
                break
            if s["op"]["k"] == "process_invoice" and s["rc"] in ([1, 7], [1, 5], [1, 6]):
                s["op"]["_refused_early"] = True
            if s["op"]["k"] == "init_send" and s["rc"] == [1, 19]:
                s["op"]["_refused_early"] = True
            t = xop_terms(s["op"])
            ops.extend(t)
            lay.append(len(t))
        terms.append(cL(ops))
        layout.append(lay)
    ok, log = vlib.coq_make(["theories/LedgerX.vo"])
    if not ok:
        raise vlib.Infra("coq build of theories/LedgerX.vo failed: " + log[-2000:])
    res = vlib.coq_eval(prop, "From GW Require Import LedgerX.", "(xtrace empty_wallet)", terms, shard=8)
    out = []
    for tr, lay in zip(res, layout):
        i, steps = 0, []
        for n in lay:
            last = tr[i + n - 1]
            steps.append((last[0][0], last[1:]))
            i += n
        out.append(steps)
    return out


def compare(rows, traces):
    """Step-by-step comparison; returns (n_steps_agreeing, divergences)."""
    agree, div = 0, []
    for r, tr in zip(rows, traces):
        for idx, (s, (mrc, mproj)) in enumerate(zip(r["steps"], tr)):
            irc = s["rc"]
            if s["op"]["k"] == "finalize_invoice" and not s["op"]["crypto_ok"]:
                irc = [1, 17]   # signature / kernel-sum / fee verdicts of slate.finalize: one class
            ip = canon(proj_from_snap(s["snap"]))
            mp = canon([mproj[0], mproj[1], mproj[2], mproj[3], mproj[4]])
            if irc != mrc or ip != mp:
                what = []
                if irc != mrc:
                    what.append("result impl=%s model=%s" % (irc, mrc))
                for name, a, b in zip(["outputs", "txs", "child", "contexts", "info"], ip, mp):
                    if a != b:
                        da = [x for x in a if x not in b]
                        db = [x for x in b if x not in a]
                        what.append("%s impl-only=%s model-only=%s" % (name, da[:4], db[:4]))
                div.append({"hist": r["hist"], "seed": r["seed"], "wallet": r["wallet"], "step": idx,
                            "op": s["op"], "what": what})
                break   # later steps of this history are not comparable
            agree += 1
    return agree, div


# ------------------------------------------------------------------ oracles on the implementation

def outputs_by_key(snap):
    return {(o["acct"], o["child"], o["mmr"]): o for o in snap["outputs"]}


def oracle_c03(rows):
    """Exclusivity: a successful reservation only takes outputs that were free; never two
    TxSent / two TxReceived entries for one slate in one account; every Locked output
    belongs to exactly one live TxSent entry of its account."""
    fails = []
    for r in rows:
        prev = None
        stranded = set()
        for idx, s in enumerate(r["steps"]):
            snap = s["snap"]
            if s["op"]["k"] == "restore":
                stranded = set()
            # a finalize that succeeded has used the slate's private context up: repeating it (with this
            # or another reply) must find nothing to sign with
            if s["op"]["k"] in ("finalize", "finalize_invoice") and s["rc"] == [0] \
                    and s["op"]["slate"] in snap.get("contexts", []):
                fails.append({"row": (r["seed"], r["wallet"]), "seed": r["seed"], "step": idx,
                              "what": "successful finalize of slate %s left its private context stored" % s["op"]["slate"]})
            if s["op"]["k"] in ("lock", "finalize") and s["rc"] == [0] and prev is not None:
                ins = s["extra"].get("ctx_inputs")
                if s["op"]["k"] == "lock" and ins:
                    po = outputs_by_key(prev)
                    for a, c, m, _v in ins:
                        o = po.get((a, c, m))
                        if o is None or o["status"] not in (0, 1):
                            fails.append({"row": (r["seed"], r["wallet"]), "seed": r["seed"], "step": idx,
                                          "what": "reservation took output %s that was not free (status %s)"
                                                  % ((a, c, m), None if o is None else o["status"])})
            # a finalize that signed: every input of the final transaction that is this wallet's is reserved
            # for that transaction (Locked under its sent entry)
            if s["op"]["k"] == "finalize" and s["rc"] == [0] and (s["extra"].get("tx_inputs") or {}).get("keys"):
                no = outputs_by_key(snap)
                sent = {(t["parent"], t["id"]) for t in snap["txs"] if t["slate"] == s["op"]["slate"] and t["type"] == 2}
                for a, c, m in s["extra"]["tx_inputs"]["keys"]:
                    o = no.get((a, c, m))
                    if o is not None and not (o["status"] in (2, 3) and (o["root"], o["tx"]) in sent):
                        fails.append({"row": (r["seed"], r["wallet"]), "seed": r["seed"], "step": idx,
                                      "what": "finalize_tx signed a transaction whose input %s is not reserved for it "
                                              "(status %s, linked to %s)" % ((a, c), o["status"], (o["root"], o["tx"]))})
            if s["op"]["k"] == "init_send" and s["rc"] == [0] and prev is not None and s["extra"].get("sel_inputs"):
                # (the internal refresh may have confirmed an Unconfirmed record first: judge by the snapshot after)
                no = outputs_by_key(snap)
                for a, c, m, _v in s["extra"]["sel_inputs"]:
                    o = no.get((a, c, m))
                    if o is None or o["status"] not in (0, 1):
                        fails.append({"row": (r["seed"], r["wallet"]), "seed": r["seed"], "step": idx,
                                      "what": "selection put output %s with status %s into a new transaction's context"
                                              % ((a, c, m), None if o is None else o["status"])})
            cnt = collections.Counter()
            for t in snap["txs"]:
                if t["slate"] is not None and t["type"] in (1, 2):
                    cnt[(t["parent"], t["slate"], t["type"])] += 1
            for k, v in cnt.items():
                if v > 1:
                    fails.append({"row": (r["seed"], r["wallet"]), "seed": r["seed"], "step": idx,
                                  "what": "%d live log entries of type %d for slate %d in account %d" % (v, k[2], k[1], k[0])})
            live = {(t["parent"], t["id"]) for t in snap["txs"] if t["type"] == 2 and not t["confirmed"]}
            for o in snap["outputs"]:
                if o["status"] == 1 and (o["root"], o["tx"]) in live and not o["cb"] is None and prev is not None:
                    po = outputs_by_key(prev).get((o["acct"], o["child"], o["mmr"]))
                    if po is not None and po["status"] == 2 and po["tx"] == o["tx"] and s["op"]["k"] == "cancel":
                        fails.append({"row": (r["seed"], r["wallet"]), "seed": r["seed"], "step": idx,
                                      "what": "input %s of live sent entry %s released by a cancel of another transaction"
                                              % ((o["acct"], o["child"]), (o["root"], o["tx"]))})
                if o["status"] == 2 and (o["root"], o["tx"]) not in live:
                    tag = ""
                    ent = [t for t in snap["txs"] if (t["parent"], t["id"]) == (o["root"], o["tx"])]
                    okey = (o["acct"], o["child"], o["mmr"])
                    has_scan = s["op"]["k"] in ("update_state", "scan") or \
                        (s["op"]["k"] == "cancel" and s["op"].get("via_owner"))
                    if (has_scan and ent and ent[0]["type"] == 4) or okey in stranded:
                        # known finding: the scan cancelled the entry of an output it un-spent without
                        # releasing the entry's other inputs; they stay stranded until released otherwise
                        tag = " [scan-cancel-without-release]"
                        stranded.add(okey)
                    fails.append({"row": (r["seed"], r["wallet"]), "seed": r["seed"], "step": idx,
                                  "what": "Locked output %s not held by a live TxSent entry%s" % ((o["acct"], o["child"]), tag)})
            prev = snap
    return fails


def _fail(r, idx, what):
    return {"row": (r["seed"], r["wallet"]), "seed": r["seed"], "step": idx, "what": what}


def sv_map(snap):
    return {(o["acct"], o["child"], o["mmr"]): (o["value"], o["status"]) for o in snap["outputs"]}


def oracle_c05(rows):
    """Cancel: frame (only records linked to the cancelled entry change; only that entry, only
    its type), refusals change nothing, and rollback: after a successful cancel of a sent
    transaction its inputs have the status they had before the reservation and its change
    outputs are gone."""
    fails = []
    for r in rows:
        prev = None
        reserved = {}   # (parent, id) -> {"before": sv map before the lock, "ins": [...], "refreshed": bool}
        for idx, s in enumerate(r["steps"]):
            snap = s["snap"]
            k = s["op"]["k"]
            if prev is not None and k == "lock" and s["rc"] == [0]:
                new = [t for t in snap["txs"] if t["type"] == 2 and (t["parent"], t["id"]) not in
                       {(x["parent"], x["id"]) for x in prev["txs"]}]
                if len(new) == 1:
                    reserved[(new[0]["parent"], new[0]["id"])] = {
                        "before": sv_map(prev), "ins": s["extra"].get("ctx_inputs") or [], "refreshed": False,
                        "keys_before": set(sv_map(prev))}
            if k == "restore":
                reserved = {}   # a new database: log ids start again
            if k in ("refresh", "init_send", "process_invoice", "update_state", "scan", "restore") or \
                    (k == "cancel" and s["op"].get("via_owner")):   # every operation that refreshes first
                for v in reserved.values():
                    v["refreshed"] = True
            if k == "cancel" and s["op"].get("names_nothing"):
                if s["rc"] == [0]:
                    ch = [(t["parent"], t["id"]) for t in snap["txs"]
                          if prev is not None and {(x["parent"], x["id"]): x["type"] for x in prev["txs"]}.get((t["parent"], t["id"])) != t["type"]]
                    fails.append(_fail(r, idx, "a cancel that names no transaction (neither log id nor slate id) succeeded and cancelled %s" % ch))
                prev = snap
                continue
            # a cancel that succeeds was given identifiers that all name one and the same entry of the active
            # account (the log ids and slate ids the wallet held before the call); anything else is unknown
            if prev is not None and k == "cancel" and s["rc"] == [0]:
                oid, osl = s["op"].get("id"), s["op"].get("slate")
                named = [t for t in prev["txs"] if t["parent"] == prev["active"]
                         and (oid is None or t["id"] == oid) and (osl is None or t["slate"] == osl)]
                if len(named) != 1:
                    ch = [(t["parent"], t["id"]) for t in snap["txs"]
                          if {(x["parent"], x["id"]): x["type"] for x in prev["txs"]}.get((t["parent"], t["id"])) != t["type"]]
                    fails.append(_fail(r, idx, "cancel(id=%s, slate=%s) names %d entries of the active account (a log id and a slate "
                                               "id that do not belong to one entry name nothing) yet it succeeded and cancelled %s"
                                       % (oid, osl, len(named), ch)))
                    prev = snap
                    continue
            # the private signing contexts are keyed by slate id alone: cancelling one entry must not take the
            # context another, still pending entry with that slate id needs (both halves of an exchange within one
            # wallet: a payment between two of its accounts, an invoice it pays itself)
            if prev is not None and k == "cancel" and s["rc"] == [0] and "contexts" in prev and "contexts" in snap:
                gone = [c for c in prev["contexts"] if c not in snap["contexts"]]
                for c in gone:
                    live = [(t["parent"], t["id"]) for t in snap["txs"]
                            if t["slate"] == c and t["type"] in (1, 2) and not t["confirmed"]]
                    if live:
                        fails.append(_fail(r, idx, "cancel(id=%s, slate=%s) removed the private context of slate %s although entry %s with "
                                                   "that slate id is still pending: it can no longer be finalized"
                                           % (s["op"].get("id"), s["op"].get("slate"), c, live[0])))
            if prev is not None and k == "cancel" and s["op"].get("via_owner"):
                # owner::cancel_tx updates the wallet state first (refresh, kernels, scan, expiry), so
                # the snapshot diff is not the cancel's alone: the frame is the model's business here
                # (correspondence); the rollback of the cancelled reservations is still checked
                if s["rc"] == [0] and s["extra"].get("target_mined"):
                    fails.append(_fail(r, idx, "owner cancel_tx (which refreshes from the node first) accepted the cancel of "
                                               "transaction id=%s slate=%s that is already in the chain"
                                       % (s["op"]["id"], s["op"]["slate"])))
                if s["rc"] == [0]:
                    ptx = {(t["parent"], t["id"]): t for t in prev["txs"]}
                    after = sv_map(snap)
                    for t in snap["txs"]:
                        ck = (t["parent"], t["id"])
                        if t["type"] == 4 and ck in ptx and ptx[ck]["type"] == 2 and ck in reserved:
                            info = reserved.pop(ck)
                            for a_, c_, m_, _v in info["ins"]:
                                before = info["before"].get((a_, c_, m_))
                                now = after.get((a_, c_, m_))
                                if before is not None and not (now is not None and now[0] == before[0] and now[1] != 2):
                                    fails.append(_fail(r, idx, "rollback: input %s was %s before the reservation, %s after "
                                                               "the owner-API cancel" % ((a_, c_, m_), before, now)))
                prev = snap
                continue
            if prev is not None and k == "cancel":
                if s["rc"] != [0]:
                    if canon(proj_from_snap(prev))[:4] != canon(proj_from_snap(snap))[:4]:
                        fails.append(_fail(r, idx, "refused cancel changed the wallet"))
                else:
                    po, no = outputs_by_key(prev), outputs_by_key(snap)
                    ptx = {(t["parent"], t["id"]): t for t in prev["txs"]}
                    ntx = {(t["parent"], t["id"]): t for t in snap["txs"]}
                    changed = [kk for kk in ptx if ptx[kk] != ntx.get(kk)]
                    if len(changed) != 1 or set(ntx) != set(ptx):
                        fails.append(_fail(r, idx, "cancel changed %d log entries" % len(changed)))
                        prev = snap
                        continue
                    ck = changed[0]
                    a, b = ptx[ck], ntx[ck]
                    if {kk: v for kk, v in a.items() if kk != "type"} != {kk: v for kk, v in b.items() if kk != "type"} \
                            or b["type"] not in (3, 4):
                        fails.append(_fail(r, idx, "cancel altered more than the entry's type"))
                    for key in set(po) | set(no):
                        if po.get(key) != no.get(key):
                            o = po.get(key)
                            if o is None or o["tx"] != ck[1] or o["root"] != ck[0]:
                                fails.append(_fail(r, idx, "cancel of entry %s touched unrelated output %s" % (ck, key)))
                    # rollback of a reservation
                    if ck in reserved:
                        info = reserved.pop(ck)
                        after = sv_map(snap)
                        for a_, c_, m_, _v in info["ins"]:
                            before = info["before"].get((a_, c_, m_))
                            now = after.get((a_, c_, m_))
                            if before is None:
                                continue
                            ok = now == before or (info["refreshed"] and now is not None and now[0] == before[0])
                            if not ok:
                                fails.append(_fail(r, idx, "rollback: input %s was %s before the reservation, %s after cancel"
                                                   % ((a_, c_, m_), before, now) +
                                                   (" [unconfirmed-input]" if before[1] == 0 and now and now[1] == 1 else "")))
                        for key, o in no.items():
                            if o["tx"] == ck[1] and o["root"] == ck[0] and key not in info["keys_before"] and o["status"] == 0:
                                fails.append(_fail(r, idx, "rollback: change output %s of cancelled entry still present" % (key,)))
            prev = snap
    return fails


def spendable(snap, mc=1):
    for row in snap.get("info", []):
        if row[0] == mc and len(row) > 2:
            return int(row[1])
    return None


def oracle_c07(rows):
    """Foreign calls (receive_tx, build_coinbase, finalize_tx without a validly counter-signed
    reply): no existing output changes, nothing is removed, no context is consumed, spendable
    does not decrease; a successful receive adds exactly one Unconfirmed output of the slate's
    amount and one received entry, and the reply carries only the recipient's own entry."""
    fails = []
    for r in rows:
        prev = None
        for idx, s in enumerate(r["steps"]):
            snap = s["snap"]
            ex = s["extra"]
            k = s["op"]["k"]
            is_foreign = ex.get("foreign") or (k == "finalize" and ex.get("forged"))
            legit_finalize = k in ("finalize", "finalize_invoice") and s["rc"] == [0] and not ex.get("forged")
            if prev is not None and is_foreign and not legit_finalize:
                po, no = outputs_by_key(prev), outputs_by_key(snap)
                for key, o in po.items():
                    n = no.get(key)
                    if n is None:
                        # the coinbase candidate exception cannot remove either
                        fails.append(_fail(r, idx, "foreign %s removed output %s" % (k, key)))
                    elif n != o:
                        replaced_candidate = (k == "coinbase" and o["cb"] and o["status"] == 0 and
                                              s["op"]["key"] == [key[0], key[1]])
                        if not replaced_candidate:
                            tag = " [late-lock]" if k == "finalize" and n["status"] == 2 else ""
                            fails.append(_fail(r, idx, "foreign %s changed existing output %s: %s -> %s%s"
                                               % (k, key, (o["value"], o["status"]), (n["value"], n["status"]), tag)))
                if not set(prev["contexts"]) <= set(snap["contexts"]):
                    fails.append(_fail(r, idx, "foreign %s consumed a private context" % k))
                sp0, sp1 = spendable(prev), spendable(snap)
                if sp0 is not None and sp1 is not None and sp1 < sp0:
                    # (the known late-lock reservation shows here too: the inputs it locks are no longer spendable)
                    late = k == "finalize" and any(o["status"] != 2 and key in no and no[key]["status"] == 2
                                                   for key, o in po.items())
                    fails.append(_fail(r, idx, "foreign %s decreased spendable %d -> %d%s"
                                       % (k, sp0, sp1, " [late-lock]" if late else "")))
                if k == "receive" and s["rc"] == [0]:
                    dest = s["op"]["dest"] if s["op"].get("dest") is not None else prev["active"]
                    if any(t["slate"] == s["op"]["slate"] and t["type"] == 1 and t["parent"] == dest for t in prev["txs"]):
                        fails.append(_fail(r, idx, "a second delivery of slate %s to account %s was accepted (its received "
                                                   "entry exists%s)" % (s["op"]["slate"], dest,
                                           ", confirmed" if any(t["slate"] == s["op"]["slate"] and t["type"] == 1 and
                                                                t["parent"] == dest and t["confirmed"] for t in prev["txs"]) else "")))
                    added = [o for key, o in no.items() if key not in po]
                    if len(added) != 1 or added[0]["status"] != 0 or int(added[0]["value"]) != int(s["op"]["amount"]):
                        fails.append(_fail(r, idx, "receive did not add exactly one Unconfirmed output of the slate amount"))
                    if len(snap["txs"]) != len(prev["txs"]) + 1:
                        fails.append(_fail(r, idx, "receive did not add exactly one log entry"))
                    if ex.get("reply_participants") != 1:
                        fails.append(_fail(r, idx, "reply carries %s participant entries" % ex.get("reply_participants")))
                if k == "receive" and s["rc"] != [0]:
                    if canon(proj_from_snap(prev))[:4] != canon(proj_from_snap(snap))[:4]:
                        fails.append(_fail(r, idx, "refused receive changed the wallet" +
                                           ("" if s["op"].get("crypto_ok", True) else
                                            " (refused for its signature data after the output and the entry were written)"
                                            " [refused-receive-leaves-record]")))
            prev = snap
    return fails


def oracle_c15(rows):
    """No derivation path is given to two different outputs: a record appearing under a key
    that was ever used before (even by a record deleted since), or an existing record being
    overwritten with another output, is a reuse — except a coinbase replacing its own
    still-unconfirmed candidate. All keys lie below the account's next-child counter."""
    fails = []
    for r in rows:
        # (acct, child) -> identity of the output: (coinbase?, value) — key and value fix the
        # commitment; which account a record is booked under is bookkeeping (C04), not identity
        ever = {}
        replaced = {}  # key -> identities of coinbase candidates replaced under the caller-named-key exception
        excused = {}   # acct -> paths below this index were handed out by a wallet since lost
        prev = None
        for idx, s in enumerate(r["steps"]):
            snap = s["snap"]
            if s["op"]["k"] == "restore":
                # a wallet restored from its seed knows only what is on chain: a path handed out
                # before the restore but not yet on chain may be handed out again (C15 promises the
                # next path beyond every path FOUND) — and the earlier output may still reach the chain
                # later. Paths below the counters the lost wallet had reached are excused from here on.
                if prev is not None:
                    for c in prev["child"]:
                        excused[c[0]] = max(excused.get(c[0], 0), c[1])
                ever = {}
                prev = None
            child = {c[0]: c[1] for c in snap["child"]}
            # the record under the plain DB key (no PMMR index) is the one a caller-named coinbase replaces
            po = {(o["acct"], o["child"]): o for o in prev["outputs"] if o["mmr"] is None} if prev else {}
            for o in snap["outputs"]:
                key = (o["acct"], o["child"])
                ident = (o["cb"], o["value"])
                if (o["mmr"] is None or s["op"]["k"] == "restore") and o["child"] >= child.get(o["acct"], 0):
                    fails.append(_fail(r, idx, "key %s not below the next-child counter %s" % (key, child.get(o["acct"], 0))))
                if key in ever and ever[key] != ident and ident not in replaced.get(key, ()) \
                        and o["child"] >= excused.get(o["acct"], 0):
                    old = po.get(key)
                    candidate = o["cb"] and ever[key][0] and (old is None or old["status"] == 0)
                    if candidate:
                        # the exception: a coinbase naming the still-unconfirmed candidate it replaces. The
                        # replaced candidate may have been mined already without the wallet having looked:
                        # a scan brings it back under the same path — it is the same output as before
                        replaced.setdefault(key, set()).add(ever[key])
                    else:
                        fails.append(_fail(r, idx, "derivation path %s reused: was %s, now %s" % (key, ever[key], ident)))
                if ident not in replaced.get(key, ()):
                    ever[key] = ident
            prev = snap
    return fails


def oracle_no_panic(rows):
    """no operation panics, whatever its parameters (a time to live of u64::MAX blocks included)"""
    fails = []
    for r in rows:
        for idx, s in enumerate(r["steps"]):
            if s["rc"] == [2]:
                fails.append(_fail(r, idx, "%s panicked: %s" % (s["op"]["k"], (s["extra"].get("err") or "")[:200])))
    return fails


def oracle_c17(rows):
    """Expired slates are refused with no state change; slates without a cutoff or with a
    cutoff ahead are never refused as expired; update_wallet_state at a tip at or beyond the
    cutoff cancels the wallet's own unconfirmed entries carrying it, and no others."""
    fails = []
    for r in rows:
        prev = None
        for idx, s in enumerate(r["steps"]):
            snap = s["snap"]
            k = s["op"]["k"]
            if prev is not None and k in ("receive", "finalize", "process_invoice", "finalize_invoice"):
                ttl = int(s["op"]["ttl"])
                confh = prev["conf_h"]
                expired = ttl != 0 and confh >= ttl
                if k in ("finalize", "finalize_invoice") and s["rc"] == [1, 21]:
                    pass   # no context: refused before the TTL test
                elif expired:
                    if s["rc"] != [1, 7]:
                        fails.append(_fail(r, idx, "%s of a slate with cutoff %d accepted/other at observed height %d: %s"
                                           % (k, ttl, confh, s["rc"])))
                    if canon(proj_from_snap(prev))[:4] != canon(proj_from_snap(snap))[:4]:
                        fails.append(_fail(r, idx, "expired %s changed the wallet" % k))
                elif s["rc"] == [1, 7]:
                    fails.append(_fail(r, idx, "%s refused as expired with cutoff %d at observed height %d" % (k, ttl, confh)))
            # the issuer of an invoice adopts the cutoff the payer attached (it enforces it at finalize; its
            # entry has to expire like the payer's)
            if k == "finalize_invoice" and s["rc"] == [0] and int(s["op"]["ttl"]) != 0:
                for t in snap["txs"]:
                    if t["slate"] == s["op"]["slate"] and t["type"] == 1 and t["ttl"] is None:
                        fails.append(_fail(r, idx, "invoice finalized on a reply with cutoff %s: the issuer's entry %s carries "
                                                   "no cutoff and never expires [invoice-issuer-no-cutoff]"
                                           % (s["op"]["ttl"], (t["parent"], t["id"]))))
            # (also when the call failed with "not cancellable": the refresh had reached its expiry step)
            if prev is not None and k == "update_state" and s["rc"] in ([0], [1, 10]) and not s["op"].get("outage"):
                tip = s["op"]["tip"]
                act = prev["active"]
                ptx = {(t["parent"], t["id"]): t for t in prev["txs"]}
                for t in snap["txs"]:
                    p = ptx.get((t["parent"], t["id"]))
                    if p is None:
                        continue
                    was_live = p["type"] in (1, 2, 5) and not p["confirmed"]
                    due = p["ttl"] is not None and tip >= p["ttl"] and p["parent"] == act
                    now_cancelled = t["type"] in (3, 4) and p["type"] not in (3, 4)
                    if was_live and due and not t["confirmed"] and not now_cancelled:
                        fails.append(_fail(r, idx, "entry %s with cutoff %s not cancelled at tip %d" % ((t["parent"], t["id"]), p["ttl"], tip)))
                    if now_cancelled and not due:
                        # (not the TTL step: the scan inside update_wallet_state cancels the entry linked to
                        # an output it finds on chain although recorded Spent — it un-spends that output)
                        po_ = {(o["acct"], o["child"], o["mmr"]): o for o in prev["outputs"]}
                        repaired = any(o["tx"] == t["id"] and o["root"] == t["parent"] and o["status"] == 1
                                       and po_.get((o["acct"], o["child"], o["mmr"]), {}).get("status") == 3
                                       for o in snap["outputs"])
                        if not repaired:
                            fails.append(_fail(r, idx, "entry %s cancelled by the refresh without a due cutoff (ttl %s, tip %d)"
                                               % ((t["parent"], t["id"]), p["ttl"], tip)))
                    if now_cancelled and due:
                        for o in snap["outputs"]:
                            if o["tx"] == t["id"] and o["root"] == t["parent"] and o["status"] == 2:
                                fails.append(_fail(r, idx, "expired entry cancelled but output %s still Locked" % ((o["acct"], o["child"]),)))
            prev = snap
    return fails


def oracle_c04_no_equation(rows):
    """oracle_c04 without the ledger equation (which the property states only for histories
    without reorganisations)."""
    return oracle_c04(rows, equation=False)


def oracle_c04(rows, equation=True):
    """After a full refresh (update_all) of an account: every record of that account that is
    Unspent or Locked is in the node's UTXO set and every Unconfirmed/Reverted one is not;
    the balance figures are the partition of the record values recomputed independently;
    after the final update_wallet_state (histories without cancels and without a broadcast spend
    the wallet never reserved): no Spent record is in the UTXO set and confirmed credits minus
    confirmed debits equal total + locked."""
    fails = []
    for r in rows:
        had_cancel = False
        dirty = False
        for idx, s in enumerate(r["steps"]):
            snap = s["snap"]
            k = s["op"]["k"]
            if k == "restore":
                dirty = False
            if k == "cancel" and s["rc"] == [0]:
                had_cancel = True
            if k == "scan" and s["op"].get("del"):
                had_cancel = True    # a scan that drops pending transactions cancels them
            if k == "restore":
                had_cancel = False   # a new database: the log starts again from the chain
            # partition of the figures, on every snapshot
            act = snap["active"]
            confh = snap["conf_h"]
            for row in snap.get("info", []):
                if len(row) < 9:
                    fails.append(_fail(r, idx, "retrieve_info failed: %s" % (row,)))
                    continue
                mc = row[0]
                b = collections.Counter()
                for o in snap["outputs"]:
                    if o["root"] != act:
                        continue
                    v = int(o["value"])
                    st = o["status"]
                    if st == 1:
                        if o["cb"] and o["lock"] > confh:
                            b["imm"] += v
                        else:
                            conf = 0 if o["height"] > confh else min(1 + (confh - o["height"]), 2**64 - 1)
                            b["conf" if conf < mc else "sp"] += v
                    elif st == 0:
                        if not o["cb"]:
                            b["conf" if mc == 0 else "fin"] += v
                    elif st == 2:
                        b["lock"] += v
                    elif st == 4:
                        b["rev"] += v
                sat = lambda x: min(x, 2**64 - 1)
                want = [mc, sat(b["sp"]), sat(b["imm"]), sat(b["conf"]), sat(b["fin"]), sat(b["lock"]), sat(b["rev"]),
                        sat(sat(sat(b["sp"]) + sat(b["conf"])) + sat(b["imm"])), confh]
                got = [int(x) for x in row]
                if got != want:
                    fails.append(_fail(r, idx, "balance figures %s differ from the partition of the records %s" % (got, want)))
            if k == "refresh" and s["rc"] == [0] and idx > 0:
                pprev = r["steps"][idx - 1]["snap"]
                parent = s["op"]["parent"]
                ptx = {(t["parent"], t["id"]): t for t in pprev["txs"]}
                for t in snap["txs"]:
                    p0 = ptx.get((t["parent"], t["id"]))
                    if p0 is None:
                        continue
                    if t["parent"] != parent and p0 != t:
                        fails.append(_fail(r, idx, "refresh of account %d changed log entry %s of another account"
                                           % (parent, (t["parent"], t["id"]))))
                    if t["parent"] == parent and (p0["slate"], p0["type"] in (0,), p0["credited"], p0["debited"]) != \
                            (t["slate"], t["type"] in (0,), t["credited"], t["debited"]):
                        fails.append(_fail(r, idx, "refresh of account %d replaced log entry %s: slate/amounts %s -> %s"
                                           % (parent, (t["parent"], t["id"]),
                                              (p0["slate"], p0["credited"], p0["debited"]), (t["slate"], t["credited"], t["debited"]))))
            # a refresh that could not query the UTXO set knows nothing about the chain: the books stay
            if s["op"].get("outage") and idx > 0 and not s["op"].get("names_nothing"):
                pv = r["steps"][idx - 1]["snap"]
                po = {(o["acct"], o["child"], o["mmr"]): (o["status"], o["value"], o["height"]) for o in pv["outputs"]}
                no = {(o["acct"], o["child"], o["mmr"]): (o["status"], o["value"], o["height"]) for o in snap["outputs"]}
                pt = {(t["parent"], t["id"]): (t["type"], t["confirmed"]) for t in pv["txs"]}
                nt = {(t["parent"], t["id"]): (t["type"], t["confirmed"]) for t in snap["txs"]}
                if po != no or pt != nt:
                    ch = [kk for kk in set(po) | set(no) if po.get(kk) != no.get(kk)] + \
                         [kk for kk in set(pt) | set(nt) if pt.get(kk) != nt.get(kk)]
                    fails.append(_fail(r, idx, "%s whose output query failed changed the books: %s" % (k, sorted(ch)[:4])))
            if s["extra"].get("unreserved_spend"):
                dirty = True
            # a full refresh always; a partial one (only outputs of outstanding transactions are queried)
            # and owner::update_wallet_state in histories the property covers: nothing cancelled, no
            # scan dropping pending transactions, no broadcast spend the wallet never reserved
            is_refresh = k == "refresh" and (s["op"]["all"] or (equation and not had_cancel and not dirty)) \
                and s["op"]["view"]["tip"] >= 0
            is_update = k == "update_state" and equation and not had_cancel and not dirty and "truth" in s["extra"]
            if (is_refresh or is_update) and s["rc"] == [0] and not s["op"].get("outage"):
                truth = {(t[0], t[1], t[2]): t[3] for t in s["extra"].get("truth", [])}
                parent = s["op"]["parent"]
                # a record of the account whose output was in the UTXO set when the refresh asked the node is
                # still recorded afterwards (the books contain every output of the account the chain holds)
                if k == "refresh" and s["op"].get("all") and idx > 0:
                    pv = r["steps"][idx - 1]["snap"]
                    had = {(o["acct"], o["child"], o["mmr"]): o for o in pv["outputs"] if o["root"] == parent}
                    now = {(o["acct"], o["child"], o["mmr"]) for o in snap["outputs"]}
                    for a_, c_, m_, h_ in s["op"]["view"].get("presence", []):
                        if (a_, c_, m_) in had and (a_, c_, m_) not in now:
                            fails.append(_fail(r, idx, "refresh at tip %s dropped the record of output %s (status %d, height %s) "
                                                       "although the output is in the UTXO set (block %s)"
                                               % (s["op"]["view"]["tip"], (a_, c_), had[(a_, c_, m_)]["status"],
                                                  had[(a_, c_, m_)]["height"], h_)))
                for o in snap["outputs"]:
                    if o["root"] != parent:
                        continue
                    on_chain = truth.get((o["acct"], o["child"], o["mmr"]))
                    if on_chain is None:
                        continue
                    if o["status"] in (1, 2) and not on_chain:
                        ent = next((t for t in snap["txs"] if t["parent"] == o["root"] and t["id"] == o["tx"]), None)
                        # (known finding: an input released by a cancellation before broadcast — e.g. the TTL
                        # expiry — hangs under a cancelled entry and is not queried by a partial refresh)
                        tag = " [released-inputs-not-rechecked]" if ent is not None and ent["type"] in (3, 4) \
                            and o["status"] == 1 and not (k == "refresh" and s["op"].get("all")) else ""
                        fails.append(_fail(r, idx, "after refresh output %s is recorded status %d but is not in the UTXO set%s"
                                           % ((o["acct"], o["child"]), o["status"], tag)))
                    if o["status"] in (0, 4) and on_chain:
                        fails.append(_fail(r, idx, "after refresh output %s is in the UTXO set but recorded status %d"
                                           % ((o["acct"], o["child"]), o["status"])))
            # (not for a wallet whose outputs were spent by a broadcast transaction it never reserved —
            # tx_lock_outputs skipped: the wallet has no record of that spend to account for)
            if equation and k == "update_state" and s["rc"] == [0] and not had_cancel \
                    and not s["extra"].get("unreserved_spend") and not s["op"].get("outage"):
                cred = sum(int(t["credited"]) - int(t["debited"]) for t in snap["txs"]
                           if t["parent"] == act and t["confirmed"])
                held = sum(int(o["value"]) for o in snap["outputs"] if o["root"] == act and o["status"] in (1, 2))
                if cred != held:
                    # known finding C04-respent-change: a sent entry whose change output was re-spent
                    # (relinked to the spending entry) while still unconfirmed is never marked confirmed
                    adj = 0
                    for t in snap["txs"]:
                        if t["parent"] == act and t["type"] == 2 and not t["confirmed"] and t["n_in"] > 0:
                            linked = [o for o in snap["outputs"] if o["root"] == act and o["tx"] == t["id"]]
                            if linked and all(o["status"] == 3 for o in linked):
                                adj += int(t["credited"]) - int(t["debited"])
                    tag = " [respent-change]" if adj != 0 and cred + adj == held else ""
                    fails.append(_fail(r, idx, "confirmed credits - debits = %d but total + locked = %d (account %d)%s"
                                       % (cred, held, act, tag)))
    return fails


def oracle_c18(rows):
    """Reorganisations: after a FULL refresh of an account, a received transaction whose
    output is no longer in the UTXO set and whose kernel the node no longer has is reported
    TxReverted/unconfirmed with its output Reverted (excluded from spendable and total by the
    partition oracle); once its output is in the UTXO set again it is TxReceived/confirmed and
    the output Unspent; orphaned coinbases are not Unspent; a reservation never takes a
    Reverted output."""
    fails = []
    for r in rows:
        prev = None
        for idx, s in enumerate(r["steps"]):
            snap = s["snap"]
            k = s["op"]["k"]
            if k == "refresh" and s["op"]["all"] and s["rc"] == [0]:
                parent = s["op"]["parent"]
                truth = {(t[0], t[1], t[2]): t[3] for t in s["extra"].get("truth", [])}
                missing = {tuple(x) for x in s["op"]["view"]["kernel_missing"]}
                applied = prev is None or s["op"]["view"]["tip"] >= prev["conf_h"] or prev["active"] != parent
                ents = {(t["parent"], t["id"]): t for t in snap["txs"]}
                for o in snap["outputs"]:
                    if o["root"] != parent or o["cb"] or o["tx"] is None:
                        continue
                    e = ents.get((o["root"], o["tx"]))
                    on_chain = truth.get((o["acct"], o["child"], o["mmr"]))
                    if e is None or on_chain is None or e["type"] not in (1, 5):
                        continue
                    if on_chain:
                        if o["status"] == 4 or (e["type"] == 5 and applied):
                            fails.append(_fail(r, idx, "output %s is in the UTXO set again but still reverted (output status %d, entry type %d)"
                                               % ((o["acct"], o["child"]), o["status"], e["type"])))
                    else:
                        po = outputs_by_key(prev).get((o["acct"], o["child"], o["mmr"])) if prev else None
                        was_confirmed = po is not None and po["status"] in (1, 4)
                        if applied and was_confirmed and (o["root"], o["tx"]) in missing and e["has_excess"]:
                            if o["status"] != 4 or e["type"] != 5 or e["confirmed"]:
                                fails.append(_fail(r, idx, "received output %s vanished with its kernel but is recorded status %d, entry type %d confirmed %s"
                                                   % ((o["acct"], o["child"]), o["status"], e["type"], e["confirmed"])))
            if k == "scan" and s["op"].get("outage") and s["rc"] == [0]:
                fails.append(_fail(r, idx, "scan reported success although the refresh of the wallet's outputs it starts "
                                           "with failed (node outage): nothing has checked the records against the UTXO set"))
            # the repair scan (also the one that drops unconfirmed records) leaves a reverted payment in the books:
            # its output record stays (Reverted, or Unspent when mined again), its entry is not cancelled
            if k == "scan" and s["rc"] == [0] and not s["op"].get("outage") and prev is not None:
                now = outputs_by_key(snap)
                for o in prev["outputs"]:
                    if o["status"] == 4 and (o["acct"], o["child"], o["mmr"]) not in now:
                        fails.append(_fail(r, idx, "scan%s dropped the record of the reverted output %s (value %s): the payment can "
                                                   "no longer be found confirmed when it is mined again"
                                           % (" -d" if s["op"].get("del") else "", (o["acct"], o["child"]), o["value"])))
            # a payment reported reverted stays reported so (or confirmed again) whatever else the wallet's
            # periodic update does: it is not a pending transaction that could expire
            if k in ("update_state", "refresh") and s["rc"] == [0] and prev is not None:
                pe = {(t["parent"], t["id"]): t for t in prev["txs"]}
                for t in snap["txs"]:
                    p0 = pe.get((t["parent"], t["id"]))
                    if p0 is not None and p0["type"] == 5 and t["type"] == 3:
                        fails.append(_fail(r, idx, "%s turned the reverted payment %s (cutoff %s) into a cancelled one"
                                           % (k, (t["parent"], t["id"]), t["ttl"])))
            if k == "lock" and s["rc"] == [0] and prev is not None:
                po = outputs_by_key(prev)
                for a, c, m, _v in (s["extra"].get("ctx_inputs") or []):
                    o = po.get((a, c, m))
                    if o is not None and o["status"] == 4:
                        fails.append(_fail(r, idx, "a Reverted output %s was reserved as an input" % ((a, c),)))
            if k == "init_send" and s["rc"] == [0] and s["extra"].get("sel_inputs"):
                no = outputs_by_key(snap)
                for a, c, m, _v in s["extra"]["sel_inputs"]:
                    o = no.get((a, c, m))
                    if o is not None and o["status"] == 4:
                        fails.append(_fail(r, idx, "a Reverted output %s was selected as an input of a new transaction" % ((a, c),)))
            prev = snap
    return fails
