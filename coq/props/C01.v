(** C01 — sender-side transaction construction conserves value.
    Statements only; proofs are in theories/SelectProofs.v. The model [build_send]
    (theories/Select.v) is tied to libwallet's select_coins_and_fee / inputs_and_change /
    build_send_tx by the correspondence run of ./check C01. This file's SHA-256 is pinned
    in /verif/pins.json. *)
From GW Require Import Select SelectProofs.

(** For every wallet [os] (any length, any values, statuses, heights, lock heights,
    coinbase flags, accounts) and every parameterisation [p]: whenever the wallet agrees
    to build the payment, (a) every input is a distinct, currently spendable output of
    the source account, (b) inputs = amount + fee + change in N (no wrap-around),
    (c) amount / amount-includes-fee as specified, (d) the fee is at least the network
    minimum for the resulting numbers of inputs, outputs and kernels and fits the fee
    field, (e) change outputs: none or exactly the requested count, none of value 0. *)
Theorem C01_conservation : forall (os : list out) (p : params) (b : built),
  build_send os p = Ok b ->
  (forall o, In o (b_inputs b) -> In o os /\ o_root o = p_parent p
                                  /\ eligible o (p_h p) (p_minconf p) = true)
  /\ (NoDup (map o_key os) -> NoDup (map o_key (b_inputs b)))
  /\ sumN (values (b_inputs b)) = b_amount b + b_fee b + sumN (b_changes b)
  /\ b_total b = sumN (values (b_inputs b)) /\ b_total b <= U64MAX
  /\ (if p_aif p then b_amount b + b_fee b = p_amount p else b_amount b = p_amount p)
  /\ (exists m, tx_fee (lenN (b_inputs b)) (lenN (b_changes b) + 1) 1 = Ok m /\ m <= b_fee b)
  /\ 0 < b_fee b <= FEE_MASK
  /\ (b_changes b = [] \/ lenN (b_changes b) = p_change_outputs p)
  /\ Forall (fun x => 0 < x) (b_changes b).
Proof. exact build_send_conserves. Qed.
Print Assumptions C01_conservation.

(** Late lock: the selection is redone when the send is finalized, against the fee fixed at
    initiation (the fee in the kernel the counterparty has signed for). The wallet agrees only
    if the new selection needs exactly that fee, so the equation holds with the agreed fee;
    a selection needing any other fee — lower as well as higher — is refused. *)
Theorem C01_late_lock_uses_the_agreed_fee : forall (os : list out) (p : params) (fixed : N) (b : built),
  build_send_fixed os p fixed = Ok b ->
  build_send os p = Ok b /\ b_fee b = fixed
  /\ sumN (values (b_inputs b)) = b_amount b + fixed + sumN (b_changes b).
Proof. exact build_send_fixed_agreed. Qed.
Print Assumptions C01_late_lock_uses_the_agreed_fee.

Theorem C01_late_lock_refuses_another_fee : forall (os : list out) (p : params) (fixed : N) (b : built),
  build_send os p = Ok b -> b_fee b <> fixed -> build_send_fixed os p fixed = Err EFee.
Proof. exact build_send_fixed_refuses. Qed.
Print Assumptions C01_late_lock_refuses_another_fee.

(** It never crashes: with the API's u32 bounds on the number of change outputs (and fewer
    than 2^32 outputs in the wallet) the only remaining unchecked arithmetic, the fee
    product, cannot overflow; everything else returns an error value. *)
Theorem C01_total : forall (os : list out) (p : params) (q : panic),
  lenN os < 4294967296 -> p_change_outputs p < 4294967296 ->
  build_send os p <> Panic q.
Proof. exact build_send_total. Qed.
Print Assumptions C01_total.

(** The re-selection loop terminates within |wallet| + 2 iterations: the fuelled model
    never reports out-of-fuel, for any input. *)
Theorem C01_select_terminates : forall (os : list out) (p : params),
  build_send os p <> Err EOutOfFuel.
Proof. exact build_send_terminates. Qed.
Print Assumptions C01_select_terminates.

(** Outputs that are reserved, spent, reverted, immature or time-locked are never selected. *)
Theorem C01_never_selects_unspendable : forall (o : out) (h minconf : N),
  eligible o h minconf = true ->
  o_status o <> Locked /\ o_status o <> Spent /\ o_status o <> Reverted
  /\ o_lock o <= h /\ (o_status o = Unconfirmed -> o_cb o = false /\ minconf = 0).
Proof. exact eligible_sound. Qed.
Print Assumptions C01_never_selects_unspendable.
