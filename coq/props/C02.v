(** C02 — finalized transactions are valid, exact, and safe against an altered reply.
    Statements only; proofs are in theories/ProtoProofs.v. The model [finalize_tx]
    (theories/Proto.v) follows foreign::finalize_tx and everything it calls, check by check;
    it is tied to the code by the correspondence run of ./check C02 (real wallets, a mutation
    catalogue on the reply, an independent oracle on every accepted transaction).

    Scope of the idealisation (design.d/C02.md): commitments are pairs (value, blind) and
    public keys are their discrete logarithms, so binding of commitments, soundness of range
    proofs and unforgeability of signatures are ASSUMED by the representation, not proved.
    What is proved is that the wallet's own checks, in the order the code makes them, force
    every stated fact for ALL replies. The parameters [chal] (challenge hash), [derive]
    (keychain) and the ed25519 functions are arbitrary.

    This file's SHA-256 is pinned in /verif/pins/C02.sha256. *)
From GW Require Import Proto ProtoProofs.

(** An ordinary send whose outputs were locked. [c] is any sender context that conserves
    value (what C01 proves about every context the wallet builds, see
    [C02_contexts_from_C01_qualify]) and whose coins the wallet has records for; [r] is ANY
    reply slate — any amount, fee, offset, participant list, partial signatures, commitments
    with or without proofs, kernel features, id, ttl, participant count, payment-proof field.
    If finalize_tx returns a transaction then
    (a) it is valid: one kernel; values balance with the fee; blinding factors balance with
        kernel excess and offset; the aggregate signature verifies over the kernel message;
        every output is in range with a verifying proof; no duplicate commitment; the fee is at
        least the minimum for its numbers of inputs, outputs and kernels;
    (b) its inputs are exactly the context's inputs (the coins the wallet reserved);
    (c) its kernel fee is the context's fee;
    (d) every change output of the context is among its outputs;
    (e) the outputs other than the change carry, in total, exactly the context's amount;
    (f) the transaction stored for re-posting is this very transaction. *)
Theorem C02_finalized_send_is_valid_and_exact :
  forall (chal : Z -> Z -> kmsg -> Z) (derive : N -> N -> Z) (sk pk esig : Type)
         (pk_eqb : pk -> pk -> bool) (pub : sk -> pk) (sign : sk -> emsg pk -> esig)
         (verify : pk -> emsg pk -> esig -> bool) (addr_sk : N -> N -> sk)
         (w : wallet pk esig) (r : slate pk esig) (c : ctxrec pk) (f : N)
         (w' : wallet pk esig) (t : tx),
    lookup_ctx pk esig w (sl_id r) = Some c -> sl_state r = StS2 -> cx_late c = None ->
    cx_fee c = Some f -> f < FEE_MOD ->
    ctx_conserves pk c f -> wallet_has pk esig w c ->
    NoDup (map fst (cx_inputs c)) -> NoDup (map fst (cx_outputs c)) -> derive_distinct derive ->
    finalize_tx chal derive sk pk esig pk_eqb pub sign verify addr_sk w r = (w', Ok t) ->
    valid_tx chal t
    /\ in_commits t = map (commit_kv derive) (cx_inputs c)
    /\ (exists k, tx_kerns t = [k] /\ kernel_fee k = f)
    /\ incl (change_commits derive pk c) (out_commits t)
    /\ sum_v (filter (fun x => negb (is_change derive pk c x)) (out_commits t)) = Z.of_N (cx_amount c)
    /\ get_stored pk esig w' (sl_id r) = Some t.
Proof. exact finalize_send_exact. Qed.
Print Assumptions C02_finalized_send_is_valid_and_exact.

(** A late-locked send: coins are selected, the context completed and the outputs locked
    inside finalize_tx (by C01's [build_send] on the wallet's current outputs). The same six
    facts hold for the completed context [c'], whose inputs are spendable outputs of the
    account the send was initiated from, whose amount is the one fixed at initiation and whose fee is the one
    announced at initiation. *)
Theorem C02_finalized_late_locked_send_is_valid_and_exact :
  forall (chal : Z -> Z -> kmsg -> Z) (derive : N -> N -> Z) (sk pk esig : Type)
         (pk_eqb : pk -> pk -> bool) (pub : sk -> pk) (sign : sk -> emsg pk -> esig)
         (verify : pk -> emsg pk -> esig -> bool) (addr_sk : N -> N -> sk)
         (w : wallet pk esig) (r : slate pk esig) (c : ctxrec pk) (la : late_args) (f : N)
         (w' : wallet pk esig) (t : tx),
    lookup_ctx pk esig w (sl_id r) = Some c -> sl_state r = StS2 -> cx_late c = Some la ->
    cx_fee c = Some f -> f < FEE_MOD ->
    NoDup (map o_key (w_outs w)) -> derive_distinct derive ->
    finalize_tx chal derive sk pk esig pk_eqb pub sign verify addr_sk w r = (w', Ok t) ->
    exists c' : ctxrec pk,
      cx_amount c' = cx_amount c /\ ctx_conserves pk c' f
      /\ (forall kv, In kv (cx_inputs c') ->
            exists o, In o (w_outs w) /\ o_key o = fst kv /\ o_value o = snd kv
                      /\ o_root o = cx_parent c /\ eligible o (w_tip w) (la_minconf la) = true)
      /\ valid_tx chal t
      /\ in_commits t = map (commit_kv derive) (cx_inputs c')
      /\ (exists k, tx_kerns t = [k] /\ kernel_fee k = f)
      /\ incl (change_commits derive pk c') (out_commits t)
      /\ sum_v (filter (fun x => negb (is_change derive pk c' x)) (out_commits t)) = Z.of_N (cx_amount c)
      /\ get_stored pk esig w' (sl_id r) = Some t.
Proof. exact finalize_late_exact. Qed.
Print Assumptions C02_finalized_late_locked_send_is_valid_and_exact.

(** The invoice flow: the issuer finalizes the payer's reply (ANY reply). The transaction is
    valid, contains the issuer's output (the invoiced amount under the issuer's key), pays the
    fee written on the reply (the payer chooses and pays it), and is the stored one. *)
Theorem C02_finalized_invoice_is_valid :
  forall (chal : Z -> Z -> kmsg -> Z) (derive : N -> N -> Z) (sk pk esig : Type)
         (pk_eqb : pk -> pk -> bool) (pub : sk -> pk) (sign : sk -> emsg pk -> esig)
         (verify : pk -> emsg pk -> esig -> bool) (addr_sk : N -> N -> sk)
         (w : wallet pk esig) (r : slate pk esig) (c : ctxrec pk) (w' : wallet pk esig) (t : tx),
    lookup_ctx pk esig w (sl_id r) = Some c -> sl_state r = StI2 -> wallet_has pk esig w c ->
    finalize_tx chal derive sk pk esig pk_eqb pub sign verify addr_sk w r = (w', Ok t) ->
    valid_tx chal t
    /\ incl (change_commits derive pk c) (out_commits t)
    /\ (exists k, tx_kerns t = [k] /\ kernel_fee k = fee_of_fields (sl_fee r))
    /\ get_stored pk esig w' (sl_id r) = Some t.
Proof. exact finalize_invoice_facts. Qed.
Print Assumptions C02_finalized_invoice_is_valid.

(** A reply that is refused (error or panic, whatever the reason) leaves the wallet exactly
    as it was — context, tx-log entry, outputs, stored transaction — so the pending
    transaction can be cancelled just as before. (Every send that is not late-locked, and
    every invoice.) *)
Theorem C02_refused_reply_changes_nothing :
  forall (chal : Z -> Z -> kmsg -> Z) (derive : N -> N -> Z) (sk pk esig : Type)
         (pk_eqb : pk -> pk -> bool) (pub : sk -> pk) (sign : sk -> emsg pk -> esig)
         (verify : pk -> emsg pk -> esig -> bool) (addr_sk : N -> N -> sk)
         (w : wallet pk esig) (r : slate pk esig) (w' : wallet pk esig) (res : result tx),
    (forall c, lookup_ctx pk esig w (sl_id r) = Some c -> sl_state r = StS2 -> cx_late c = None) ->
    finalize_tx chal derive sk pk esig pk_eqb pub sign verify addr_sk w r = (w', res) ->
    (forall t, res <> Ok t) -> w' = w.
Proof. exact finalize_fail_no_effect. Qed.
Print Assumptions C02_refused_reply_changes_nothing.

(** A late-locked send that is refused leaves the wallet unchanged, or with the completed
    context stored, or with the context stored and an unconfirmed TxSent entry for this slate
    appended — in which case cancel_tx by slate id succeeds (given no other entry of the
    active account carried that slate id). *)
Theorem C02_refused_late_locked_send_stays_cancellable :
  forall (chal : Z -> Z -> kmsg -> Z) (derive : N -> N -> Z) (sk pk esig : Type)
         (pk_eqb : pk -> pk -> bool) (pub : sk -> pk) (sign : sk -> emsg pk -> esig)
         (verify : pk -> emsg pk -> esig -> bool) (addr_sk : N -> N -> sk)
         (w : wallet pk esig) (r : slate pk esig) (c : ctxrec pk) (la : late_args)
         (w' : wallet pk esig) (res : result tx),
    lookup_ctx pk esig w (sl_id r) = Some c -> cx_late c = Some la ->
    finalize_tx chal derive sk pk esig pk_eqb pub sign verify addr_sk w r = (w', res) ->
    (forall t, res <> Ok t) ->
    w' = w
    \/ (exists c', w' = save_ctx pk esig w (sl_id r) c')
    \/ (exists c' e,
          lookup_ctx pk esig w' (sl_id r) = Some c'
          /\ w_log w' = w_log w ++ [e] /\ lg_type e = TxSent /\ lg_confirmed e = false
          /\ lg_slate e = Some (sl_id r) /\ lg_parent e = cx_parent c
          /\ (entries_for pk esig w (sl_id r) (Some (w_parent w)) = [] -> cx_parent c = w_parent w ->
              cancel_verdict pk esig w' (sl_id r) = Ok tt)).
Proof. exact finalize_late_fail. Qed.
Print Assumptions C02_refused_late_locked_send_stays_cancellable.

(** Every context assembled from a successful run of C01's [build_send] meets the
    hypotheses above: it conserves value, its fee fits the fee field, its input keys are
    distinct. *)
Theorem C02_contexts_from_C01_qualify :
  forall (os : list out) (p : params) (b : built) (pk : Type) (parent : N) (x k : Z)
         (keys : list N) (idx : option N),
    build_send os p = Ok b -> length keys = length (b_changes b) ->
    b_fee b < FEE_MOD
    /\ ctx_conserves pk
         (mkCtx parent x k x k (map (fun o => (o_key o, o_value o)) (b_inputs b))
                (combine keys (b_changes b)) (b_amount b) (Some (b_fee b)) idx None None) (b_fee b)
    /\ (NoDup (map o_key os) ->
        NoDup (map fst (map (fun o => (o_key o, o_value o)) (b_inputs b)))).
Proof. exact build_send_ctx_conserves. Qed.
Print Assumptions C02_contexts_from_C01_qualify.
