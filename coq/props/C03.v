(** C03 — reserved outputs are exclusive: no two live transactions share an input.
    Statements only (proofs: theories/LedgerProofs.v, theories/SelectProofs.v). The model
    (theories/Ledger.v) is tied to libwallet by the ledger correspondence run of ./check C03. *)
From GW Require Import Ledger LedgerProofs Select SelectProofs HeldProofs.

(** A successful reservation (owner::tx_lock_outputs / lock_tx_context), in ANY wallet
    state: every input it takes was free (Unspent, or Unconfirmed for 0-confirmation
    spends) — in particular not held by another pending transaction; exactly those records
    become Locked and linked to the new log entry; no other existing record changes. *)
Theorem C03_reservation_takes_only_free_outputs : forall w slate ttl tip w',
  lock w slate ttl tip = (w', Ok tt) ->
  exists c, get_ctx w slate = Some c /\
    let id := lookup (w_logid w) (c_parent c) in
    (forall k m v, In (k, m, v) (c_ins c) ->
       (exists o0, get_out (w_outs w) k m = Some o0 /\ lockable (r_status o0) = true))
    /\ (forall k m o, get_out (w_outs w) k m = Some o ->
          (forall v, ~ In (k, m, v) (c_ins c)) ->
          (forall v, ~ In (k, m, v) (map (fun x => (fst (fst x), None, snd x)) (c_outs c))) ->
          get_out (w_outs w') k m = Some o)
    /\ (forall k m v, In (k, m, v) (c_ins c) ->
          (forall v', ~ In (k, m, v') (map (fun x => (fst (fst x), None, snd x)) (c_outs c))) ->
          exists o, get_out (w_outs w') k m = Some o /\ r_status o = Locked /\ r_tx o = Some id).
Proof. exact lock_exclusive. Qed.
Print Assumptions C03_reservation_takes_only_free_outputs.

(** A reservation naming an output that is held (Locked), Spent, Reverted or missing is
    refused and the wallet is unchanged — whatever else the context contains. *)
Theorem C03_held_output_cannot_be_reserved : forall w slate ttl tip c k m v,
  get_ctx w slate = Some c -> In (k, m, v) (c_ins c) ->
  (match get_out (w_outs w) k m with
   | Some o => lockable (r_status o) = false
   | None => True end) ->
  exists e, lock w slate ttl tip = (w, Err e).
Proof. exact lock_refuses_held. Qed.
Print Assumptions C03_held_output_cannot_be_reserved.

(** Repeating the reserve step for a slate that already has a live sent entry in that
    account is refused without effect. *)
Theorem C03_second_reservation_refused : forall w slate ttl tip c t,
  get_ctx w slate = Some c -> In t (w_log w) -> t_slate t = Some slate ->
  t_parent t = c_parent c -> t_type t = TSent ->
  lock w slate ttl tip = (w, Err EGeneric).
Proof. exact lock_twice_refused. Qed.
Print Assumptions C03_second_reservation_refused.

(** Repeating the receive step is refused without effect. *)
Theorem C03_second_receive_refused : forall w slate amount ttl dest crypto_ok t,
  In t (w_log w) -> t_slate t = Some slate -> (t_type t = TReceived \/ t_type t = TReverted) ->
  t_parent t = (match dest with Some d => d | None => w_active w end) ->
  fst (receive w slate amount ttl dest crypto_ok) = w
  /\ is_ok (snd (receive w slate amount ttl dest crypto_ok)) = false.
Proof. exact receive_twice_refused. Qed.
Print Assumptions C03_second_receive_refused.

(** Repeating finalize: the first success deleted the context, so the second is refused. *)
Theorem C03_second_finalize_refused : forall w slate ttl tip so co,
  get_ctx w slate = None -> finalize w slate ttl tip so co = (w, Err EOther).
Proof. exact finalize_unknown_slate. Qed.
Print Assumptions C03_second_finalize_refused.

(** Repeating the payer's step of an invoice: once the stored context names the inputs chosen
    for it, processing the same invoice again (any account, any arguments) is refused and
    changes nothing — no second set of inputs is attached to the slate. *)
Theorem C03_second_process_invoice_refused : forall w s ttl src p tip pr km,
  ctx_has_inputs w s = true ->
  fst (process_invoice w s ttl src p tip pr km) = w
  /\ is_ok (snd (process_invoice w s ttl src p tip pr km)) = false.
Proof. exact process_invoice_twice_refused. Qed.
Print Assumptions C03_second_process_invoice_refused.

(** Selection never offers a held, spent or reverted output to a new transaction
    (with C01_conservation (a): every selected input is [eligible]). *)
Theorem C03_selection_skips_held_outputs : forall (o : out) (h minconf : N),
  eligible o h minconf = true ->
  o_status o <> Locked /\ o_status o <> Spent /\ o_status o <> Reverted
  /\ o_lock o <= h /\ (o_status o = Unconfirmed -> o_cb o = false /\ minconf = 0).
Proof. exact eligible_sound. Qed.
Print Assumptions C03_selection_skips_held_outputs.

(** Held outputs stay held. For a record that is Locked, each operation either leaves it
    exactly as it is, or is a legitimate release: a successful cancel of the log entry
    holding it (-> Unspent); a reservation naming it is refused. (A refresh may turn it
    Spent; late-locked finalize = selection + reservation, covered by C01 and the theorems
    above.) Stated for every wallet state satisfying the reachable-state invariants. *)
Theorem C03_held_outputs_are_stable : forall w k m o,
  Fresh w -> WF w -> get_out (w_outs w) k m = Some o -> r_status o = Locked ->
  (forall s a t d c, get_out (w_outs (fst (receive w s a t d c))) k m = Some o)
  /\ (forall f h key, get_out (w_outs (fst (coinbase w f h key))) k m = Some o)
  /\ (forall s src p late, get_out (w_outs (fst (init_send w s src p late))) k m = Some o)
  /\ (forall s t tip, get_out (w_outs (fst (lock w s t tip))) k m = Some o
        \/ exists c v, get_ctx w s = Some c
             /\ In (k, m, v) (map (fun x => (fst (fst x), None, snd x)) (c_outs c)))
  /\ (forall id sl, get_out (w_outs (fst (cancel w id sl))) k m = Some o
        \/ (snd (cancel w id sl) = Ok tt
            /\ r_root o = w_active w
            /\ get_out (w_outs (fst (cancel w id sl))) k m = Some (set_status o Unspent)
            /\ exists t, In t (retrieve_txs w id sl (w_active w)) /\ r_tx o = Some (t_id t)))
  /\ (forall s t tip so co c, get_ctx w s = Some c -> c_late c = None ->
        get_out (w_outs (fst (finalize w s t tip so co))) k m = Some o).
Proof. exact held_stable_step. Qed.
Print Assumptions C03_held_outputs_are_stable.

(** History level. In EVERY state reachable from the empty wallet by standard-flow operations
    (receive, reserve, cancel, build_coinbase incl. caller-named keys, refresh with arbitrary
    node answers, initiate incl. late lock and source accounts, finalize incl. late lock,
    account switch, TTL expiry — over any number of accounts and slates, in any order), every
    Locked output is held by a TxSent log entry of the output's OWN account: the reservation
    has exactly one owner, and that owner is where cancel_tx looks for it. (Proved through the
    invariant [Inv]: log sorted by key with ids below the counters, plus what stored contexts
    may refer to. The invoice operations are outside [std_op]: see theories/HeldProofs.v.) *)
Theorem C03_every_locked_output_has_one_live_owner : forall ops, forallb std_op ops = true ->
  let w := run empty_wallet ops in
  forall o, In o (w_outs w) -> r_status o = Locked ->
  exists id t, r_tx o = Some id /\ In t (w_log w) /\ t_parent t = r_root o /\ t_id t = id
               /\ t_type t = TSent.
Proof. exact locked_is_held. Qed.
Print Assumptions C03_every_locked_output_has_one_live_owner.

(** "Repeating a protocol step with the same slate never adds a second log entry", at history
    level: in every state reachable by standard-flow operations — however often and in whatever
    order receives, reservations, finalizations, cancels and refreshes (incl. reorganisations)
    of the same slates are repeated — a slate has at most one live sent entry and at most one
    live received entry (TxReceived or TxReverted) in an account. *)
Theorem C03_one_live_entry_per_slate : forall ops, forallb std_op ops = true ->
  forall a b s, In a (w_log (run empty_wallet ops)) -> In b (w_log (run empty_wallet ops)) ->
  t_slate a = Some s -> t_slate b = Some s -> t_parent a = t_parent b ->
  ((t_type a = TSent /\ t_type b = TSent)
   \/ ((t_type a = TReceived \/ t_type a = TReverted) /\ (t_type b = TReceived \/ t_type b = TReverted))) ->
  a = b.
Proof. exact one_live_entry_per_slate. Qed.
Print Assumptions C03_one_live_entry_per_slate.

(** the invariant is preserved by every single standard-flow step from ANY state satisfying it
    (not only from the empty wallet) *)
Theorem C03_invariant_step : forall w o, std_op o = true -> Inv w -> Inv (fst (step w o)).
Proof. exact step_inv. Qed.
Print Assumptions C03_invariant_step.

(** non-vacuity: a concrete two-slate history (init A, init B over the same coin, lock A,
    lock B) in which the second reservation is refused and the coin stays held by A. *)
Example C03_two_slates :
  let w0 := fst (step (fst (step empty_wallet (OpCoinbase 0 1 None)))
                      (OpRefresh 0 false 5 [((0, 0), None, 1)] [])) in
  let p := mkParams 1000000000 false 5 1 500 1 true 0 in
  let wA := fst (step w0 (OpInitSend 1 None p false)) in
  let wB := fst (step wA (OpInitSend 2 None p false)) in
  let wLA := fst (step wB (OpLock 1 0 5 true)) in
  snd (step wB (OpLock 1 0 5 true)) = [0%Z]
  /\ snd (step wLA (OpLock 2 0 5 true)) = [1%Z; 2%Z]
  /\ fst (step wLA (OpLock 2 0 5 true)) = wLA
  /\ option_map r_status (get_out (w_outs wLA) (0, 0) None) = Some Locked.
Proof. vm_compute. repeat split; reflexivity. Qed.

(** non-vacuity: a payer with coins in two accounts processes invoice 7 from account 0; the
    stored context then names an input, and processing it again from account 1 is refused. *)
Example C03_invoice_twice :
  let pres := [((0, 0), None, 1); ((1, 0), None, 2)] in
  let w0 := fst (step (fst (step empty_wallet (OpCoinbase 0 1 None))) (OpSetActive 1)) in
  let w1 := fst (step (fst (step w0 (OpCoinbase 0 2 None))) (OpRefresh 1 true 6 pres [])) in
  let p := mkParams 1000000000 false 6 1 500 1 false 0 in
  let wP := fst (step w1 (OpProcessInvoice 7 0 (Some 0) p 6 pres [])) in
  snd (step w1 (OpProcessInvoice 7 0 (Some 0) p 6 pres [])) = [0%Z]
  /\ ctx_has_inputs wP 7 = true
  /\ fst (step wP (OpProcessInvoice 7 0 (Some 1) p 6 pres [])) = wP
  /\ snd (step wP (OpProcessInvoice 7 0 (Some 1) p 6 pres [])) = [1%Z; 5%Z].
Proof. vm_compute. repeat split; reflexivity. Qed.

(** non-vacuity of the history-level theorem: a standard-flow history over two accounts that
    ends with a Locked output of account 1 held by entry 1 of account 1. *)
Example C03_history_with_held_output :
  let pres := [((0, 0), None, 1); ((1, 0), None, 2)] in
  let p := mkParams 1000000000 false 6 1 500 1 false 0 in
  let ops := [OpCoinbase 0 1 None; OpSetActive 1; OpCoinbase 0 2 None; OpRefresh 1 true 6 pres [];
              OpSetActive 0; OpInitSend 5 (Some 1) p false; OpLock 5 0 6 true] in
  forallb std_op ops = true
  /\ exists o, In o (w_outs (run empty_wallet ops)) /\ r_status o = Locked /\ r_root o = 1
               /\ r_tx o = Some 1.
Proof. vm_compute. split; [reflexivity|]. eexists. split; [right; right; left; reflexivity|]. repeat split. Qed.

(** non-vacuity: slate 5 delivered three times and slate 6 reserved twice; one live entry each *)
Example C03_replays_add_nothing :
  let pres := [((0, 0), None, 1)] in
  let p := mkParams 1000000000 false 6 1 500 1 false 0 in
  let ops := [OpCoinbase 0 1 None; OpRefresh 0 true 6 pres []; OpReceive 5 77 0 None true;
              OpReceive 5 77 0 None true; OpInitSend 6 None p false; OpLock 6 0 6 true; OpLock 6 0 6 true;
              OpReceive 5 78 0 None true] in
  forallb std_op ops = true
  /\ map (fun t => (t_slate t, t_type t)) (filter (fun t => match t_slate t with Some _ => true | None => false end)
                                                 (w_log (run empty_wallet ops)))
     = [(Some 5, TReceived); (Some 6, TSent)].
Proof. vm_compute. split; reflexivity. Qed.
