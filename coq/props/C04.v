(** C04 — after refresh the wallet's books equal the chain's truth.
    Statements only (proofs: theories/LedgerProofs.v). What the node answers (which queried
    commitments are in the UTXO set, at which height; which kernels are missing) is an input
    of the model; "the node answers truthfully" is the NodeClient contract, not modelled. *)
From GW Require Import Ledger LedgerProofs.

(** Refresh is exact: in every well-formed wallet state, once the node's answers are applied,
    every record the refresh looks at (all non-Spent records of the account for a full
    refresh) carries exactly the status those answers dictate, with value, owner and coinbase
    flag unchanged. *)
Theorem C04_refresh_exact : forall w parent all tip p km q,
  WF w -> lookup (w_confh w) parent <= tip ->
  In q (refresh_set w parent all) ->
  let w' := refresh_apply w parent all tip p km in
  let rev := reverted_ids w parent (refresh_set w parent all) p km in
  exists o', get_out (w_outs w') (r_key q) (r_mmr q) = Some o'
     /\ r_status o' = refreshed_status p rev q /\ r_value o' = r_value q /\ r_root o' = r_root q
     /\ r_cb o' = r_cb q.
Proof. exact refresh_exact. Qed.
Print Assumptions C04_refresh_exact.

(** ... hence a queried record is Unspent or Locked afterwards exactly when the node reports
    it in its unspent set. *)
Theorem C04_books_match_utxo : forall w parent all tip p km q,
  WF w -> lookup (w_confh w) parent <= tip ->
  In q (refresh_set w parent all) ->
  (r_status q = Locked ->
     match r_tx q with
     | Some i => existsb (N.eqb i) (reverted_ids w parent (refresh_set w parent all) p km) = false
     | None => True end) ->
  exists o', get_out (w_outs (refresh_apply w parent all tip p km)) (r_key q) (r_mmr q) = Some o'
    /\ ((r_status o' = Unspent \/ r_status o' = Locked)
        <-> present_height p (r_key q) (r_mmr q) <> None).
Proof. exact refresh_matches_utxo. Qed.
Print Assumptions C04_books_match_utxo.

(** The reported figures partition the account's values: each record falls in exactly one
    bucket determined by status, coinbase maturity and confirmations ... *)
Theorem C04_bucket_classification : forall o h minconf,
  match bucket_of o h minconf with
  | BSpendable => r_status o = Unspent /\ (r_cb o = true -> r_lock o <= h) /\ minconf <= num_conf o h
  | BImmature => r_status o = Unspent /\ r_cb o = true /\ h < r_lock o
  | BAwaitConf => (r_status o = Unspent /\ num_conf o h < minconf)
                  \/ (r_status o = Unconfirmed /\ r_cb o = false /\ minconf = 0)
  | BAwaitFinal => r_status o = Unconfirmed /\ r_cb o = false /\ minconf <> 0
  | BLocked => r_status o = Locked
  | BReverted => r_status o = Reverted
  | BNone => r_status o = Spent \/ (r_status o = Unconfirmed /\ r_cb o = true)
  end.
Proof. exact bucket_classification. Qed.
Print Assumptions C04_bucket_classification.

(** ... the bucket sums add up to the total value of the account's records ... *)
Theorem C04_buckets_partition : forall outs parent h minconf,
  sumN (map (fun b => bucket_sum outs parent h minconf b) all_buckets)
  = sumN (map r_value (filter (fun o => r_root o =? parent) outs)).
Proof. exact buckets_partition. Qed.
Print Assumptions C04_buckets_partition.

(** ... and (when nothing saturates at u64::MAX) the figures returned are those sums, with
    total = spendable + awaiting confirmation + immature. *)
Theorem C04_retrieve_info_partition : forall w parent minconf,
  let h := lookup (w_confh w) (w_active w) in
  let s := bucket_sum (w_outs w) parent h minconf in
  s BSpendable + s BAwaitConf + s BImmature <= U64MAX ->
  s BAwaitFinal <= U64MAX -> s BLocked <= U64MAX -> s BReverted <= U64MAX ->
  let i := retrieve_info w parent minconf in
  i_spendable i = s BSpendable /\ i_awaiting_confirmation i = s BAwaitConf
  /\ i_immature i = s BImmature /\ i_awaiting_finalization i = s BAwaitFinal
  /\ i_locked i = s BLocked /\ i_reverted i = s BReverted
  /\ i_total i = i_spendable i + i_awaiting_confirmation i + i_immature i.
Proof. exact retrieve_info_partition. Qed.
Print Assumptions C04_retrieve_info_partition.

(** One account's refresh never changes a record of another account; (one account's cancel
    only touches records rooted in it: C05_cancel_frame; selection only takes records rooted in
    the source account: C01_conservation (a)). *)
Theorem C04_refresh_other_accounts_untouched : forall w parent all tip p km k m o,
  WF w -> get_out (w_outs w) k m = Some o -> r_root o <> parent ->
  get_out (w_outs (refresh_apply w parent all tip p km)) k m = Some o.
Proof. exact refresh_apply_other_account. Qed.
Print Assumptions C04_refresh_other_accounts_untouched.

(** The whole refresh (the node's answers applied, THEN stale coinbase candidates dropped): a queried
    record the node reports in its unspent set is still recorded afterwards, Unspent or Locked. The
    cleanup only takes records stored under (key id, no MMR index) of Unconfirmed candidates; the
    side condition excludes a record shadowed by an Unconfirmed one under the same key id (key ids
    are unique unless the same output was restored twice). The order of the two steps is what the
    seeded change C04_m4 reverses. *)
Theorem C04_stale_candidate_cleanup_keeps_settled_records : forall w parent tip k m o,
  get_out (w_outs w) k m = Some o ->
  (forall d, In d (w_outs w) -> r_status d = Unconfirmed -> r_key d = k -> m <> None) ->
  get_out (w_outs (clean_old_unconfirmed w parent tip)) k m = Some o.
Proof. exact clean_old_keeps. Qed.
Print Assumptions C04_stale_candidate_cleanup_keeps_settled_records.

Theorem C04_refresh_keeps_outputs_on_chain : forall w parent all tip p km q,
  WF w -> lookup (w_confh w) parent <= tip ->
  In q (refresh_set w parent all) ->
  (r_status q = Locked ->
     match r_tx q with
     | Some i => existsb (N.eqb i) (reverted_ids w parent (refresh_set w parent all) p km) = false
     | None => True end) ->
  present_height p (r_key q) (r_mmr q) <> None ->
  (forall d, In d (w_outs (refresh_apply w parent all tip p km)) -> r_status d = Unconfirmed ->
             r_key d = r_key q -> r_mmr q <> None) ->
  exists o', get_out (w_outs (refresh w parent all tip p km)) (r_key q) (r_mmr q) = Some o'
    /\ (r_status o' = Unspent \/ r_status o' = Locked).
Proof. exact refresh_keeps_present. Qed.
Print Assumptions C04_refresh_keeps_outputs_on_chain.

(** non-vacuity: an account builds two coinbases (heights 1 and 2), only the first is mined, and it
    first looks at tip 60: the mined one is confirmed, the candidate that never made it is dropped. *)
Example C04_late_refresh_example :
  let w0 := fst (step empty_wallet (OpCoinbase 0 1 None)) in
  let w1 := fst (step w0 (OpCoinbase 0 2 None)) in
  let w2 := refresh w1 0 true 60 [((0, 0), None, 1)] [] in
  map r_status (w_outs w1) = [Unconfirmed; Unconfirmed]
  /\ map (fun o => (r_key o, r_status o)) (w_outs w2) = [((0, 0), Unspent)].
Proof. vm_compute. repeat split; reflexivity. Qed.

(** non-vacuity: a coinbase confirmed at height 1 is immature until its lock height, then
    spendable; a refresh at tip 5 that no longer finds it marks it Spent. *)
Example C04_example :
  let w0 := fst (step empty_wallet (OpCoinbase 0 1 None)) in
  let w1 := refresh w0 0 true 2 [((0, 0), None, 1)] [] in
  let w2 := refresh w1 0 true 5 [((0, 0), None, 1)] [] in
  let w3 := refresh w2 0 true 6 [] [] in
  i_immature (retrieve_info w1 0 1) = 60000000000 /\ i_spendable (retrieve_info w1 0 1) = 0
  /\ i_spendable (retrieve_info w2 0 1) = 60000000000 /\ i_total (retrieve_info w3 0 1) = 0
  /\ map r_status (w_outs w3) = [Spent].
Proof. vm_compute. repeat split; reflexivity. Qed.
