(** C05 — cancelling an unconfirmed transaction is an exact rollback.
    Statements only (proofs: theories/LedgerProofs.v). *)
From GW Require Import Ledger LedgerProofs HeldProofs.

(** Frame: in every well-formed wallet, a successful cancel (by log id or slate id) finds
    exactly one unconfirmed sent/received/reverted entry of the active account, rewrites
    only the records linked to it (Unconfirmed/Reverted -> removed, Locked -> Unspent, others
    as they are), changes that entry's type only, and leaves every other output, every other
    log entry, all contexts and all counters untouched. *)
Theorem C05_cancel_frame : forall w id slate w',
  WF w -> cancel w id slate = (w', Ok tt) ->
  exists t, retrieve_txs w id slate (w_active w) = [t]
    /\ In t (w_log w) /\ t_parent t = w_active w /\ t_conf t = false
    /\ (t_type t = TSent \/ t_type t = TReceived \/ t_type t = TReverted)
    /\ (forall k m, get_out (w_outs w') k m
                    = match get_out (w_outs w) k m with
                      | Some o => cancelled_rec (w_active w) (t_id t) o
                      | None => None end)
    /\ w_log w' = save_tx (w_log w) (set_ttype t (cancelled_type (t_type t)))
    /\ w_ctxs w' = w_ctxs w /\ w_child w' = w_child w /\ w_logid w' = w_logid w
    /\ w_confh w' = w_confh w /\ w_active w' = w_active w.
Proof. exact cancel_frame. Qed.
Print Assumptions C05_cancel_frame.

(** Exact rollback of a reservation: status and value of EVERY output are back to what they
    were before the transaction was reserved (inputs spendable again, change gone, nothing
    else changed), contexts and key counters untouched. *)
Theorem C05_lock_then_cancel_is_identity : forall w slate ttl tip w1 c,
  WF w -> get_ctx w slate = Some c -> c_parent c = w_active w ->
  lock w slate ttl tip = (w1, Ok tt) ->
  let id := lookup (w_logid w) (c_parent c) in
  (forall k m o, get_out (w_outs w) k m = Some o -> r_root o = c_parent c -> r_tx o <> Some id) ->
  (forall t, In t (w_log w) -> t_parent t = c_parent c -> t_id t <> id) ->
  (forall k m v, In (k, m, v) (c_ins c) ->
     exists o, get_out (w_outs w) k m = Some o /\ r_status o = Unspent /\ r_root o = c_parent c) ->
  (forall k m v, In (k, m, v) (c_outs c) -> get_out (w_outs w) k None = None) ->
  exists w2, cancel w1 (Some id) None = (w2, Ok tt)
    /\ (forall k m, option_map sv (get_out (w_outs w2) k m) = option_map sv (get_out (w_outs w) k m))
    /\ w_ctxs w2 = w_ctxs w /\ w_child w2 = w_child w.
Proof. exact lock_cancel_rollback. Qed.
Print Assumptions C05_lock_then_cancel_is_identity.

(** The well-formedness assumed above (one record per DB key) holds in every reachable state. *)
Theorem C05_wf_reachable : forall ops, WF (run empty_wallet ops).
Proof. exact wf_reachable. Qed.
Print Assumptions C05_wf_reachable.

(** Refusals change nothing. *)
(** History level: no reservation is ever stranded. In every state reachable by standard-flow
    operations, a Locked output of the active account is linked to a TxSent entry of that
    account, and as long as that entry is unconfirmed, cancelling it succeeds and returns the
    output to Unspent. *)
Theorem C05_every_reservation_can_be_rolled_back : forall ops, forallb std_op ops = true ->
  let w := run empty_wallet ops in
  forall k m o, get_out (w_outs w) k m = Some o -> r_status o = Locked -> r_root o = w_active w ->
  exists id t, r_tx o = Some id /\ get_tx (w_log w) (r_root o) id = Some t /\ t_type t = TSent
    /\ (t_conf t = false ->
        snd (cancel w (Some id) None) = Ok tt
        /\ get_out (w_outs (fst (cancel w (Some id) None))) k m = Some (set_status o Unspent)).
Proof. exact held_is_releasable. Qed.
Print Assumptions C05_every_reservation_can_be_rolled_back.

Theorem C05_refused_cancel_changes_nothing : forall w id slate w' e,
  cancel w id slate = (w', Err e) -> w' = w.
Proof. exact cancel_refusals. Qed.
Print Assumptions C05_refused_cancel_changes_nothing.

(** Confirmed, coinbase and already-cancelled transactions are refused. *)
Theorem C05_not_cancellable : forall w id slate t,
  retrieve_txs w id slate (w_active w) = [t] ->
  (t_conf t = true \/ t_type t = TCoinbase \/ t_type t = TSentCancelled
   \/ t_type t = TReceivedCancelled) ->
  cancel w id slate = (w, Err ENotCancellable).
Proof. exact cancel_refuses_what. Qed.
Print Assumptions C05_not_cancellable.

(** Unknown ids (no entry of the active account matches) are refused. *)
Theorem C05_unknown_refused : forall w id slate,
  (forall t, In t (w_log w) -> t_parent t = w_active w ->
     ~ ((match id with Some i => t_id t = i | None => True end)
        /\ (match slate with Some s => t_slate t = Some s | None => True end))) ->
  cancel w id slate = (w, Err ENotFound).
Proof. exact cancel_unknown. Qed.
Print Assumptions C05_unknown_refused.

(** non-vacuity: reserve then cancel on a concrete wallet restores the coin and removes
    the change output. *)
Example C05_roundtrip :
  let w0 := fst (step (fst (step empty_wallet (OpCoinbase 0 1 None)))
                      (OpRefresh 0 false 5 [((0, 0), None, 1)] [])) in
  let wA := fst (step w0 (OpInitSend 1 None (mkParams 1000000000 false 5 1 500 1 true 0) false)) in
  let wL := fst (step wA (OpLock 1 0 5 true)) in
  let wC := fst (step wL (OpCancel (Some 1) None)) in
  map sv (w_outs wC) = map sv (w_outs w0) /\ map sv (w_outs wL) <> map sv (w_outs w0)
  /\ snd (step wL (OpCancel (Some 1) None)) = [0%Z].
Proof. vm_compute. repeat split; try reflexivity. discriminate. Qed.

(** Known finding C05-unconfirmed-input (the class excluded by the "inputs were Unspent"
    hypothesis above): a send built with minimum_confirmations = 0 may reserve an Unconfirmed
    output; cancelling it returns that output as Unspent, not Unconfirmed. *)
Theorem C05_unconfirmed_input_refuted : exists w slate tip w1 w2 k,
  lock w slate 0 tip = (w1, Ok tt)
  /\ cancel w1 (Some 1) None = (w2, Ok tt)
  /\ option_map r_status (get_out (w_outs w) k None) = Some Unconfirmed
  /\ option_map r_status (get_out (w_outs w2) k None) = Some Unspent.
Proof.
  set (w0 := fst (step empty_wallet (OpReceive 1 5000000000 0 None true))).
  set (wA := fst (step w0 (OpInitSend 2 None (mkParams 1000000000 false 5 0 500 1 true 0) false))).
  exists wA, 2, 5. eexists. eexists. exists (0, 0).
  vm_compute. repeat split; reflexivity.
Qed.
Print Assumptions C05_unconfirmed_input_refuted.
