(** C06 — a crash at any point leaves a loadable, consistent, recoverable wallet.
    Statements only (proofs: theories/EffectsProofs.v, LedgerProofs.v). The effect lists of
    Effects.v are tied to the code by the C06 run: the backend hook records the real sequence
    of batch commits / stored-tx writes of every enumerated operation and a copy of the wallet
    directory at every boundary; kinds and per-commit states are compared with [op_effects].
    Partial (proof (partial)): LMDB's atomic commit, fsync ordering and the file system are
    assumed; "loads, answers every query, can be cancelled" at each real crash state is decided
    by the fault-enumeration oracle on the reopened copies, not by a theorem. *)
From GW Require Import Effects EffectsProofs Ledger LedgerProofs.

(** Reservation is all-or-nothing: owner::tx_lock_outputs either writes nothing, or ONE batch
    commit writes the locked inputs, the change outputs and the log entry together; the only
    later effect is the stored-transaction file. No crash point separates them. *)
Theorem C06_reservation_is_one_commit : forall w s t tip h,
  op_effects w (OpLock s t tip h) = []
  \/ exists w', lock_tx w s t tip h = (w', Ok tt)
       /\ op_effects w (OpLock s t tip h) = [(ECommit, with_files w' (w_files w)); (EFile, w')]
       /\ w_outs (with_files w' (w_files w)) = w_outs w' /\ w_log (with_files w' (w_files w)) = w_log w'
       /\ w_ctxs (with_files w' (w_files w)) = w_ctxs w'.
Proof. exact lock_is_one_commit. Qed.
Print Assumptions C06_reservation_is_one_commit.

Theorem C06_cancel_is_one_commit : forall w i s,
  op_effects w (OpCancel i s) = []
  \/ exists w', cancel w i s = (w', Ok tt) /\ op_effects w (OpCancel i s) = [(ECommit, w')].
Proof. exact cancel_is_one_commit. Qed.
Print Assumptions C06_cancel_is_one_commit.

(** Refinement: the last state of every operation's effect list is the operation's result,
    so the prefix states are exactly the intermediate crash states of that operation. *)
Theorem C06_effects_end_in_result : forall w o,
  op_effects w o <> [] ->
  match o with
  | OpRefresh _ _ _ _ _ | OpReceive _ _ _ _ _ | OpLock _ _ _ _ | OpCancel _ _ | OpCoinbase _ _ _
  | OpInitSend _ _ _ _ | OpIssueInvoice _ _ _ _ | OpFinalizeInvoice _ _ _ | OpFinalize _ _ _ _ _ =>
    last_state (op_effects w o) w = fst (step w o)
  | _ => True
  end.
Proof. exact effects_end_in_result. Qed.
Print Assumptions C06_effects_end_in_result.

(** At EVERY crash point of the operations that hand out derivation paths or touch records,
    every recorded key lies below its account's counter (the bump is committed first): after
    any crash the wallet cannot hand the same path out again (C15's crash half). *)
Theorem C06_keys_fresh_at_every_crash_point : forall w o,
  Fresh w ->
  match o with
  | OpReceive _ _ _ _ _ | OpCoinbase _ _ _ | OpInitSend _ _ _ _ | OpIssueInvoice _ _ _ _
  | OpLock _ _ _ _ | OpCancel _ _ =>
    Forall (fun ew => Fresh (snd ew)) (op_effects w o)
  | _ => True
  end.
Proof. exact keys_fresh_at_every_crash_point. Qed.
Print Assumptions C06_keys_fresh_at_every_crash_point.

(** A pending reservation found after a crash can be cancelled, restoring status and value of
    every output (C05_lock_then_cancel_is_identity applies to the post-commit state; the
    pre-commit state is the untouched wallet). *)
Theorem C06_crashed_reservation_cancellable : forall w slate ttl tip w1 c,
  WF w -> get_ctx w slate = Some c -> c_parent c = w_active w ->
  lock w slate ttl tip = (w1, Ok tt) ->
  let id := lookup (w_logid w) (c_parent c) in
  (forall k m o, get_out (w_outs w) k m = Some o -> r_root o = c_parent c -> r_tx o <> Some id) ->
  (forall t, In t (w_log w) -> t_parent t = c_parent c -> t_id t <> id) ->
  (forall k m v, In (k, m, v) (c_ins c) ->
     exists o, get_out (w_outs w) k m = Some o /\ r_status o = Unspent /\ r_root o = c_parent c) ->
  (forall k m v, In (k, m, v) (c_outs c) -> get_out (w_outs w) k None = None) ->
  exists w2, cancel w1 (Some id) None = (w2, Ok tt)
    /\ (forall k m, option_map sv (get_out (w_outs w2) k m) = option_map sv (get_out (w_outs w) k m))
    /\ w_ctxs w2 = w_ctxs w /\ w_child w2 = w_child w.
Proof. exact lock_cancel_rollback. Qed.
Print Assumptions C06_crashed_reservation_cancellable.

(** non-vacuity: the effect lists of a receive, a reservation and a finalize. *)
Example C06_effect_lists :
  let w0 := fst (step (fst (step empty_wallet (OpCoinbase 0 1 None)))
                      (OpRefresh 0 false 5 [((0, 0), None, 1)] [])) in
  let wA := fst (step w0 (OpInitSend 1 None (mkParams 1000000000 false 5 1 500 2 true 0) false)) in
  let wL := fst (step wA (OpLock 1 0 5 true)) in
  map (fun ew => eff_code (fst ew)) (op_effects w0 (OpReceive 7 5 0 None true)) = [0; 0]%Z
  /\ map (fun ew => eff_code (fst ew)) (op_effects w0 (OpInitSend 1 None (mkParams 1000000000 false 5 1 500 2 true 0) false)) = [0; 0; 0]%Z
  /\ map (fun ew => eff_code (fst ew)) (op_effects wA (OpLock 1 0 5 true)) = [0; 1]%Z
  /\ map (fun ew => eff_code (fst ew)) (op_effects wL (OpFinalize 1 0 5 true true)) = [1; 0; 0]%Z.
Proof. vm_compute. repeat split; reflexivity. Qed.
