(** C07 — the foreign API can only add funds, exactly once per slate.
    Statements only (proofs: theories/LedgerProofs.v). The foreign API is
    receive_tx, build_coinbase, finalize_tx (check_version has no effect). *)
From GW Require Import Ledger LedgerProofs ForeignProofs.

(** receive_tx with ANY slate (amount, ttl, destination, valid or invalid signature data):
    every existing output record is unchanged, no context is consumed; on success exactly one
    Unconfirmed output of the slate's amount appears in the destination account and nothing
    else changes; on refusal (expired, duplicate) the wallet is unchanged. *)
Theorem C07_receive_only_adds : forall w slate amount ttl dest crypto_ok w' r,
  Fresh w -> receive w slate amount ttl dest crypto_ok = (w', r) ->
  (forall k m o, get_out (w_outs w) k m = Some o -> get_out (w_outs w') k m = Some o)
  /\ w_ctxs w' = w_ctxs w
  /\ (r = Ok tt ->
      let key := (w_active w, lookup (w_child w) (w_active w)) in
      let parent := match dest with Some d => d | None => w_active w end in
      exists o, get_out (w_outs w') key None = Some o
        /\ r_value o = amount /\ r_status o = Unconfirmed /\ r_root o = parent /\ r_cb o = false
        /\ (forall k m, (k, m) <> (key, None) -> get_out (w_outs w') k m = get_out (w_outs w) k m))
  /\ (is_ok r = false -> r <> Err ECrypto -> w' = w).
Proof. exact receive_only_adds. Qed.
Print Assumptions C07_receive_only_adds.

(** a second delivery of the same slate to that account is refused without effect *)
Theorem C07_second_delivery_refused : forall w slate amount ttl dest crypto_ok t,
  In t (w_log w) -> t_slate t = Some slate -> (t_type t = TReceived \/ t_type t = TReverted) ->
  t_parent t = (match dest with Some d => d | None => w_active w end) ->
  fst (receive w slate amount ttl dest crypto_ok) = w
  /\ is_ok (snd (receive w slate amount ttl dest crypto_ok)) = false.
Proof. exact receive_twice_refused. Qed.
Print Assumptions C07_second_delivery_refused.

(** build_coinbase with ANY BlockFees (fees, height, caller-chosen key id): every existing
    record is unchanged except a still-unconfirmed coinbase candidate the caller names;
    contexts and the log are untouched. *)
Theorem C07_coinbase_only_adds : forall w fees height key w' k,
  Fresh w -> coinbase w fees height key = (w', Ok k) ->
  (forall k0 m o, get_out (w_outs w) k0 m = Some o ->
     get_out (w_outs w') k0 m = Some o
     \/ (key = Some k0 /\ m = None /\ r_cb o = true /\ r_status o = Unconfirmed))
  /\ w_ctxs w' = w_ctxs w /\ w_log w' = w_log w.
Proof. exact coinbase_only_adds. Qed.
Print Assumptions C07_coinbase_only_adds.

(** finalize_tx for a slate this wallet did not initiate (no stored context): no effect. *)
Theorem C07_finalize_unknown_slate : forall w slate ttl tip so co,
  get_ctx w slate = None -> finalize w slate ttl tip so co = (w, Err EOther).
Proof. exact finalize_unknown_slate. Qed.
Print Assumptions C07_finalize_unknown_slate.

(** finalize_tx with a reply that is not validly counter-signed: refused, wallet unchanged,
    the pending transaction's context is not consumed. Proved for transactions that were not
    late-locked; for a late-locked one the code reserves inputs BEFORE it verifies the reply
    (known finding C07-late-lock, witnessed by [C07_late_lock_refuted]). *)
Theorem C07_invalid_reply_no_effect : forall w slate ttl tip so c,
  get_ctx w slate = Some c -> c_late c = None ->
  finalize w slate ttl tip so false = (w, snd (finalize w slate ttl tip so false))
  /\ is_ok (snd (finalize w slate ttl tip so false)) = false.
Proof. exact finalize_invalid_reply_no_effect. Qed.
Print Assumptions C07_invalid_reply_no_effect.

(** History level. For ANY sequence of foreign requests — receive_tx with any slate,
    build_coinbase with any fees / height / caller-named key, finalize_tx and the invoice
    finalisation with replies whose signature data does not verify — from any wallet state
    satisfying the key invariant and holding no late-locked context (the known finding): every
    existing output record that is not a coinbase candidate is exactly as it was, no stored
    context is consumed or altered, and every record counted as spendable stays counted. *)
Theorem C07_any_foreign_sequence_only_adds : forall ops w,
  Fresh w -> NoLate w -> forallb foreign_op ops = true ->
  (forall k m r, get_out (w_outs w) k m = Some r -> candb r = false ->
     get_out (w_outs (run w ops)) k m = Some r)
  /\ w_ctxs (run w ops) = w_ctxs w
  /\ w_confh (run w ops) = w_confh w /\ w_active (run w ops) = w_active w.
Proof. exact foreign_history. Qed.
Print Assumptions C07_any_foreign_sequence_only_adds.

Theorem C07_spendable_never_decreases : forall ops w k m r,
  Fresh w -> NoLate w -> forallb foreign_op ops = true ->
  get_out (w_outs w) k m = Some r ->
  bucket_of r (lookup (w_confh w) (w_active w)) 1 = BSpendable ->
  get_out (w_outs (run w ops)) k m = Some r
  /\ bucket_of r (lookup (w_confh (run w ops)) (w_active (run w ops))) 1 = BSpendable.
Proof. exact foreign_history_keeps_spendable. Qed.
Print Assumptions C07_spendable_never_decreases.

Theorem C07_late_lock_refuted : exists w slate ttl tip,
  is_ok (snd (finalize w slate ttl tip true false)) = false
  /\ exists k m o o', get_out (w_outs w) k m = Some o /\ r_status o = Unspent
       /\ get_out (w_outs (fst (finalize w slate ttl tip true false))) k m = Some o'
       /\ r_status o' = Locked.
Proof. exact late_lock_reserves_before_verifying. Qed.
Print Assumptions C07_late_lock_refuted.

(** A receive that is refused — expired, a second delivery, or for its signature data — writes no
    output, no log entry and no context (since the [fix:] that moved the signature steps before
    the write; before it a slate refused for a bad partial signature left an Unconfirmed output
    and a received entry behind, and the genuine slate with that id was then refused). *)
Theorem C07_refused_receive_writes_nothing : forall w s a t d c,
  is_ok (snd (receive w s a t d c)) = false ->
  let w' := fst (receive w s a t d c) in
  w_outs w' = w_outs w /\ w_log w' = w_log w /\ w_ctxs w' = w_ctxs w.
Proof. exact refused_receive_writes_nothing. Qed.
Print Assumptions C07_refused_receive_writes_nothing.

(** non-vacuity: a wallet with one spendable coinbase and one pending send; the foreign
    sequence (a receive, a coinbase naming an existing non-candidate key, a forged reply for the
    pending send, a replayed receive) leaves the coin and the context as they were. *)
Example C07_foreign_sequence_example :
  let pres := [((0, 0), None, 1)] in
  let p := mkParams 1000000000 false 6 1 500 1 false 0 in
  let w := run empty_wallet [OpCoinbase 0 1 None; OpRefresh 0 true 6 pres []; OpInitSend 5 None p false] in
  let ops := [OpReceive 9 77 0 None true; OpCoinbase 5 7 (Some (0, 0)); OpFinalize 5 0 6 true false;
              OpReceive 9 77 0 None true] in
  forallb foreign_op ops = true
  /\ option_map r_status (get_out (w_outs w) (0, 0) None) = Some Unspent
  /\ get_out (w_outs (run w ops)) (0, 0) None = get_out (w_outs w) (0, 0) None
  /\ w_ctxs (run w ops) = w_ctxs w /\ w_ctxs w <> [].
Proof. vm_compute. repeat split; try reflexivity. discriminate. Qed.
