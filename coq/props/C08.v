(** C08 — slate and slatepack encodings round-trip and agree with each other.
    Statements only; proofs are in theories/Codec*Proofs.v. The encoder/decoder models
    (theories/CodecSlate.v, CodecSlatepack.v, CodecArmor.v) are byte-exact for the binary
    forms (SlateV4Bin, SlatepackBin, SlatepackEncMetadataBin, address, armor) and work on
    field maps for V4 JSON; they are tied to the code by the correspondence run of
    ./check C08 (the real encoders' bytes compared byte for byte with the model's, decode
    results compared both ways). Well-formedness ([wf_*]) is derived from the code and
    explicit. Base58, SHA-256, address parsing and curve-point checks are universally
    quantified parameters with the hypotheses visible in each statement. The slates outside
    the theorems are exactly the recorded wire-format findings ([KnownBin], [KnownConv]).
    This file's SHA-256 is pinned in /verif/pins/C08.sha256. *)
From GW Require Import Base CodecBase CodecBaseProofs CodecArmor CodecArmorProofs
     CodecSlatepack CodecSlatepackProofs CodecSlate CodecSlateProofs.

(** Binary V4 slate: decoding the encoding of a well-formed slate returns the slate (and
    ignores trailing bytes), for every slate outside [KnownBin]. [wf_slate4]: version fields
    < 2^16, 16-byte id, state <= 6, 32-byte offset, u8/u64 ranges, <= 255 participants with
    33-byte valid keys and 64-byte partial signatures, <= 65535 commitments with feature
    byte 0/1, 33-byte commitments and 675-byte proofs, 32-byte valid ed25519 addresses and
    a well-formed 64-byte receiver signature. *)
Theorem C08_v4bin_roundtrip :
  forall (valid_pk valid_ed : bytes -> bool) (s : slate4) (trailing : bytes),
    wf_slate4 valid_pk valid_ed s -> ~ KnownBin s ->
    run_rd (dec_v4bin valid_pk valid_ed true) (enc_v4bin s ++ trailing) = Ok s.
Proof. exact c08_v4bin_roundtrip. Qed.
Print Assumptions C08_v4bin_roundtrip.

Example C08_v4bin_nonvacuous :
  wf_slate4 VK0 VK0 S_BASE /\ ~ KnownBin S_BASE
  /\ run_rd (dec_v4bin VK0 VK0 true) (enc_v4bin S_BASE) = Ok S_BASE.
Proof.
  split; [|split].
  - unfold wf_slate4, S_BASE; cbn. unfold lenN, U64MAX; cbn.
    repeat (split; [try lia; try constructor; try discriminate|]); try discriminate; try lia.
  - intros [[_ H]|[[H _]|[_ H]]]; [apply H; reflexivity|discriminate H|vm_compute in H; discriminate H].
  - vm_compute. reflexivity.
Qed.

(** Binary slatepack (mode <= 1, canonical sender address of at most 255 bytes, payload of
    at most 100 000 bytes), the address itself, and the encrypted-metadata block through
    what the wallet hands to / gets from age. *)
Theorem C08_slatepack_roundtrip :
  forall (addr_parse : bytes -> option bytes) (sp : slatepack) (trailing : bytes),
    wf_slatepack addr_parse sp ->
    run_rd (dec_slatepack_bin addr_parse true) (enc_slatepack_bin sp ++ trailing) = Ok sp.
Proof. exact c08_slatepack_roundtrip. Qed.
Print Assumptions C08_slatepack_roundtrip.

Theorem C08_address_roundtrip :
  forall (addr_parse : bytes -> option bytes) (a trailing : bytes),
    wf_addr addr_parse a -> read_addr addr_parse (write_addr a ++ trailing) = Ok (a, trailing).
Proof. exact c08_address_roundtrip. Qed.
Print Assumptions C08_address_roundtrip.

Theorem C08_encmeta_roundtrip :
  forall (addr_parse : bytes -> option bytes) (m : encmeta) (payload : bytes),
    wf_encmeta addr_parse m ->
    post_decrypt addr_parse true (pre_encrypt m payload) = Ok (m, payload).
Proof. exact c08_encmeta_roundtrip. Qed.
Print Assumptions C08_encmeta_roundtrip.

Example C08_slatepack_nonvacuous :
  let sp := mkSlatepack 1 0 0 (Some [97; 98]) [1; 2; 3] in
  let m := mkEncmeta (Some [97; 98]) [[99]; [100; 101]] in
  wf_slatepack AP0 sp /\ run_rd (dec_slatepack_bin AP0 true) (enc_slatepack_bin sp) = Ok sp
  /\ wf_encmeta AP0 m /\ post_decrypt AP0 true (pre_encrypt m [5; 6]) = Ok (m, [5; 6]).
Proof.
  cbv zeta. split; [|split; [|split]].
  - split; [cbn; lia|split; [|unfold lenN, MAX_READ; cbn; lia]].
    intros a H. injection H as <-. split; [reflexivity|unfold lenN; cbn; lia].
  - vm_compute. reflexivity.
  - split; [|split].
    + intros a H. injection H as <-. split; [reflexivity|unfold lenN; cbn; lia].
    + repeat constructor; unfold lenN; cbn; lia.
    + unfold lenN; cbn; lia.
  - vm_compute. reflexivity.
Qed.

(** Armor, for every base58 codec whose decoder inverts its encoder and whose alphabet has no
    period and no armor whitespace, and every 4-byte check function. *)
Theorem C08_armor_roundtrip :
  forall (b58_enc : bytes -> bytes) (b58_dec : bytes -> option bytes) (sha4 : bytes -> bytes)
         (data : bytes),
    (forall x, b58_dec (b58_enc x) = Some x) ->
    (forall x, forallb plain_char (b58_enc x) = true) ->
    (forall x, length (sha4 x) = 4%nat) ->
    armor_decode b58_dec sha4 (armor_encode b58_enc sha4 data) = Ok data.
Proof. exact c08_armor_roundtrip. Qed.
Print Assumptions C08_armor_roundtrip.

(** The whole stack in one statement: slate -> binary slate -> slatepack -> armored text ->
    [deser_slatepack] -> payload -> slate. *)
Theorem C08_stack_roundtrip :
  forall (valid_pk valid_ed : bytes -> bool) (addr_parse : bytes -> option bytes)
         (b58_enc : bytes -> bytes) (b58_dec : bytes -> option bytes) (sha4 : bytes -> bytes)
         (json_sp : bytes -> option slatepack) (max_size : N)
         (s : slate4) (sender : option bytes),
    (forall x, b58_dec (b58_enc x) = Some x) ->
    (forall x, forallb plain_char (b58_enc x) = true) ->
    (forall x, length (sha4 x) = 4%nat) ->
    wf_slate4 valid_pk valid_ed s -> ~ KnownBin s ->
    (forall a, sender = Some a -> wf_addr addr_parse a) ->
    lenN (enc_v4bin s) <= MAX_READ ->
    let sp := mkSlatepack 1 0 0 sender (enc_v4bin s) in
    let text := armor_encode b58_enc sha4 (enc_slatepack_bin sp) in
    lenN text <= max_size ->
    exists sp', deser_slatepack addr_parse true b58_dec sha4 json_sp max_size text = Ok sp'
                /\ sp' = sp
                /\ run_rd (dec_v4bin valid_pk valid_ed true) (sp_payload sp') = Ok s.
Proof. exact c08_stack_roundtrip. Qed.
Print Assumptions C08_stack_roundtrip.

(** V4 JSON at the level of field maps (omission and default rules, fixed-size conversions),
    and agreement: the binary and the JSON form of one slate decode to equal slates. *)
Theorem C08_json_roundtrip :
  forall (valid_pk valid_ed valid_sig : bytes -> bool) (s : slate4),
    wf_json valid_pk valid_ed valid_sig s ->
    of_fields true valid_pk valid_ed valid_sig (to_fields s) = Ok s.
Proof. exact c08_json_roundtrip. Qed.
Print Assumptions C08_json_roundtrip.

Theorem C08_encodings_agree :
  forall (valid_pk valid_ed valid_sig : bytes -> bool) (s : slate4),
    wf_slate4 valid_pk valid_ed s -> wf_json valid_pk valid_ed valid_sig s -> ~ KnownBin s ->
    run_rd (dec_v4bin valid_pk valid_ed true) (enc_v4bin s)
    = of_fields true valid_pk valid_ed valid_sig (to_fields s).
Proof. exact c08_encodings_agree. Qed.
Print Assumptions C08_encodings_agree.

(** Slate <-> SlateV4: V4 -> Slate -> V4 is the identity when the commitment list is in the
    order the wallet emits; Slate -> V4 -> Slate is the identity on slates as the wallet
    holds them, outside [KnownConv]. *)
Theorem C08_conversion :
  (forall s, wf_coms_order s -> v4_of_slate (slate_of_v4 s) = s)
  /\ (forall sl, wf_wallet_slate sl -> ~ KnownConv sl -> slate_of_v4 (v4_of_slate sl) = sl).
Proof. exact c08_conversion. Qed.
Print Assumptions C08_conversion.

(** The recorded wire-format findings are real: well-formed slates inside [KnownBin] do not
    survive the binary form (NRD arguments dropped; a fee field whose 40-bit fee part is 0
    dropped; feat 2 without arguments comes back with Some 0) while JSON keeps them, and a
    height-locked slate as the wallet holds it comes back with a plain kernel ([KnownConv];
    feat 1 instead is mapped to HeightLocked). *)
Theorem C08_known_refuted :
  ((wf_slate4 VK0 VK0 S_NRD /\ KnownBin S_NRD
    /\ run_rd (dec_v4bin VK0 VK0 true) (enc_v4bin S_NRD) = Ok (set_feat_args S_NRD None))
   /\ (wf_slate4 VK0 VK0 S_FEE_SHIFT /\ KnownBin S_FEE_SHIFT
       /\ exists s', run_rd (dec_v4bin VK0 VK0 true) (enc_v4bin S_FEE_SHIFT) = Ok s' /\ s_fee s' = 0)
   /\ (wf_slate4 VK0 VK0 S_HL_NOARGS /\ KnownBin S_HL_NOARGS
       /\ run_rd (dec_v4bin VK0 VK0 true) (enc_v4bin S_HL_NOARGS) = Ok (set_feat_args S_HL_NOARGS (Some 0))))
  /\ (of_fields true VK0 VK0 VK0 (to_fields S_NRD) = Ok S_NRD
      /\ of_fields true VK0 VK0 VK0 (to_fields S_FEE_SHIFT) = Ok S_FEE_SHIFT
      /\ of_fields true VK0 VK0 VK0 (to_fields S_HL_NOARGS) = Ok S_HL_NOARGS)
  /\ (wf_wallet_slate SL_HEIGHT_LOCKED /\ KnownConv SL_HEIGHT_LOCKED
      /\ option_map tx_kernel (sl_tx (slate_of_v4 (v4_of_slate SL_HEIGHT_LOCKED))) = Some KPlain
      /\ slate_of_v4 (v4_of_slate SL_HEIGHT_LOCKED) <> SL_HEIGHT_LOCKED
      /\ option_map tx_kernel (sl_tx (slate_of_v4 SL_FEAT1)) = Some (KHeightLocked 100)).
Proof.
  split; [exact known_bin_refuted|split; [exact known_bin_json_keeps|exact known_conv_refuted]].
Qed.
Print Assumptions C08_known_refuted.
