(** C09 — decoding untrusted input never crashes the wallet.
    Statements only; proofs are in theories/Codec*Proofs.v. The decoder models
    (theories/CodecArmor.v, CodecSlatepack.v, CodecSlate.v) follow SlatepackArmor::decode,
    the SlatepackBin / SlatepackEncMetadataBin / SlateV4Bin readers, Slatepacker::deser_slatepack,
    the tail of Slatepack::try_decrypt_payload and the hex/base64 helpers of slate_versions/ser.rs
    with every slice, copy_from_slice, unwrap, unreachable!, unsigned subtraction and split_off
    under its real guard; they are tied to the code by the correspondence run of ./check C09
    (exact result equality on generated inputs). External libraries (base58, SHA-256, bech32
    address parsing, curve point checks, serde_json) are universally quantified function
    parameters. This file's SHA-256 is pinned in /verif/pins/C09.sha256. *)
From GW Require Import Base CodecBase CodecBaseProofs CodecArmor CodecArmorProofs
     CodecSlatepack CodecSlatepackProofs CodecSlate CodecSlateProofs.

(** Armor: for every byte string, whatever base58 and the hash do, the result is a value or
    an error. *)
Theorem C09_armor_total :
  forall (b58_dec : bytes -> option bytes) (sha4 : bytes -> bytes) (bs : bytes) (p : panic),
    armor_decode b58_dec sha4 bs <> Panic p.
Proof. exact armor_decode_total. Qed.
Print Assumptions C09_armor_total.

Example C09_armor_accepts_and_rejects :
  armor_decode b58_decode_impl sha256d4_impl
               (armor_encode b58_encode_impl sha256d4_impl [1; 0; 0; 0; 0; 0; 0; 0; 0]) =
  Ok [1; 0; 0; 0; 0; 0; 0; 0; 0]
  /\ armor_decode b58_decode_impl sha256d4_impl W_NO_SECOND_DOT = Err EBadArmor
  /\ armor_decode b58_decode_impl sha256d4_impl W_SHORT_PAYLOAD = Err EDeser.
Proof. repeat split; vm_compute; reflexivity. Qed.

(** Binary slatepack, encrypted-metadata block, post-decryption parsing, the dispatcher. *)
Theorem C09_slatepack_bin_total :
  forall (addr_parse : bytes -> option bytes) (bs : bytes) (p : panic),
    run_rd (dec_slatepack_bin addr_parse true) bs <> Panic p.
Proof. exact c09_slatepack_bin_total. Qed.
Print Assumptions C09_slatepack_bin_total.

Theorem C09_encmeta_total :
  forall (addr_parse : bytes -> option bytes) (bs : bytes) (p : panic),
    run_rd (dec_encmeta addr_parse true) bs <> Panic p.
Proof. exact c09_encmeta_total. Qed.
Print Assumptions C09_encmeta_total.

Theorem C09_post_decrypt_total :
  forall (addr_parse : bytes -> option bytes) (decrypted : bytes) (p : panic),
    post_decrypt addr_parse true decrypted <> Panic p
    /\ forall is_recipients_type, age_header_dispatch true is_recipients_type <> Panic p.
Proof. exact c09_post_decrypt_total. Qed.
Print Assumptions C09_post_decrypt_total.

Theorem C09_deser_slatepack_total :
  forall (addr_parse : bytes -> option bytes) (b58_dec : bytes -> option bytes)
         (sha4 : bytes -> bytes) (json_sp : bytes -> option slatepack) (max_size : N)
         (bs : bytes) (p : panic),
    deser_slatepack addr_parse true b58_dec sha4 json_sp max_size bs <> Panic p.
Proof. exact deser_slatepack_total. Qed.
Print Assumptions C09_deser_slatepack_total.

Example C09_slatepack_accepts_and_rejects :
  run_rd (dec_slatepack_bin AP0 true) [1; 0; 0; 0; 1; 0; 0; 0; 3; 2; 97; 98; 0; 0; 0; 0; 0; 0; 0; 1; 7]
  = Ok (mkSlatepack 1 0 0 (Some [97; 98]) [7])
  /\ run_rd (dec_slatepack_bin AP0 true) W_SPBIN_UNDERFLOW = Err EDeser
  /\ run_rd (dec_encmeta AP0 true) W_META_UNDERFLOW = Err EDeser
  /\ post_decrypt AP0 true [1; 2; 3] = Err EDeser
  /\ post_decrypt AP0 true [0; 0; 0; 2; 0; 0; 9; 9] = Ok (mkEncmeta None [], [9; 9]).
Proof. repeat split; vm_compute; reflexivity. Qed.

(** Binary V4 slate, for every validity oracle of the two curves. *)
Theorem C09_v4bin_total :
  forall (valid_pk valid_ed : bytes -> bool) (bs : bytes) (p : panic),
    run_rd (dec_v4bin valid_pk valid_ed true) bs <> Panic p.
Proof. exact c09_v4bin_total. Qed.
Print Assumptions C09_v4bin_total.

(** The hex/base64 -> fixed-size helpers, for every helper kind and decoded byte string. *)
Theorem C09_helper_total :
  forall (valid_ed : bytes -> bool) (kind : N) (decoded : bytes) (p : panic),
    helper true valid_ed kind decoded <> Panic p.
Proof. exact helper_total. Qed.
Print Assumptions C09_helper_total.

Example C09_helper_accepts_and_rejects :
  helper true (fun _ => true) 6 (repeat 1 64) = Ok (repeat 1 64)
  /\ helper true (fun _ => true) 6 (repeat 1 63) = Err EDeser
  /\ helper true (fun _ => true) 5 (repeat 255 64) = Err EDeser
  /\ helper true (fun _ => true) 13 (repeat 0 676) = Err EDeser.
Proof. repeat split; vm_compute; reflexivity. Qed.

(** Step bound: every loop of the decoders is fuelled with |remaining input| + 1 iterations
    and never runs out — each iteration consumes at least one byte, so the number of
    iterations is at most the input length whatever counts the input announces — and a
    decoder never hands back more input than it received. *)
Theorem C09_loops_bounded :
  forall (valid_pk valid_ed : bytes -> bool) (addr_parse : bytes -> option bytes) (bs : bytes),
    run_rd (dec_v4bin valid_pk valid_ed true) bs <> Err EOutOfFuel
    /\ run_rd (dec_encmeta addr_parse true) bs <> Err EOutOfFuel
    /\ run_rd (dec_slatepack_bin addr_parse true) bs <> Err EOutOfFuel
    /\ post_decrypt addr_parse true bs <> Err EOutOfFuel
    /\ (forall v r, dec_v4bin valid_pk valid_ed true bs = Ok (v, r) -> (length r <= length bs)%nat)
    /\ (forall v r, dec_slatepack_bin addr_parse true bs = Ok (v, r) -> (length r <= length bs)%nat).
Proof. exact c09_loops_bounded. Qed.
Print Assumptions C09_loops_bounded.

(** Allocation: the only read whose length comes from the input refuses more than 100 000
    bytes before allocating, and returns exactly the bytes it consumed; the dispatcher
    refuses inputs outside [15, max_size]; helper and armor outputs are no longer than
    their inputs. *)
Theorem C09_alloc_bounded :
  (forall len bs, MAX_READ < len -> read_fixed len bs = Err EDeser)
  /\ (forall len bs v r, read_fixed len bs = Ok (v, r) ->
                         lenN v = len /\ len <= MAX_READ /\ bs = v ++ r)
  /\ (forall addr_parse b58_dec sha4 json_sp max_size bs sp,
         deser_slatepack addr_parse true b58_dec sha4 json_sp max_size bs = Ok sp ->
         MIN_SIZE <= lenN bs <= max_size)
  /\ (forall valid_ed k b out, helper true valid_ed k b = Ok out -> (length out <= length b)%nat)
  /\ (forall b58_dec sha4 bs out,
         armor_decode b58_dec sha4 bs = Ok out ->
         exists clean dec, b58_dec clean = Some dec /\ out = skipn 4 dec
                           /\ (length clean <= length bs)%nat).
Proof. exact c09_alloc_bounded. Qed.
Print Assumptions C09_alloc_bounded.

(** The code before the fix: commits did panic: the same models with the guards switched
    off reach [Panic] on concrete inputs (the harness witnesses are in
    findings/C09-prefix-witnesses.json). *)
Theorem C09_unrepaired_refuted :
  ((forall b58_dec sha4, armor_decode_orig b58_dec sha4 W_HEADER_ONLY = Panic PSliceOOB)
   /\ (forall b58_dec sha4, armor_decode_orig b58_dec sha4 W_NO_SECOND_DOT = Panic PSliceOOB)
   /\ armor_decode_orig b58_decode_impl sha256d4_impl W_SHORT_PAYLOAD = Panic PSliceOOB)
  /\ (run_rd (dec_slatepack_bin AP0 false) W_SPBIN_UNDERFLOW = Panic PSubOverflow
      /\ run_rd (dec_encmeta AP0 false) W_META_UNDERFLOW = Panic PSubOverflow
      /\ post_decrypt AP0 false [1; 2; 3] = Panic PSliceOOB
      /\ post_decrypt AP0 false [0; 0; 0; 9; 0; 0] = Panic PIndexOOB
      /\ age_header_dispatch false false = Panic PUnreachable)
  /\ (run_rd (dec_v4bin VK0 VK0 false) W_V4_BAD_PROOF = Panic PUnwrap
      /\ helper false VK0 6 (repeat 0 63) = Panic PSliceOOB
      /\ helper false VK0 5 (repeat 255 64) = Panic PUnwrap
      /\ helper false VK0 8 [] = Panic PSliceOOB
      /\ helper false VK0 13 (repeat 0 676) = Panic PIndexOOB).
Proof. exact c09_unrepaired_refuted. Qed.
Print Assumptions C09_unrepaired_refuted.
