(** C10 — encrypted slatepacks are readable only by their recipients and tamper-evident;
    plain armored slatepacks report corruption through framing and the 4-byte check.
    Statements only; proofs are in theories/BoxProofs.v, the model in theories/Box.v (on top
    of CodecSlatepack.v and CodecArmor.v).

    PROOF (PARTIAL). Confidentiality and integrity are ASSUMED of age (X25519 recipients,
    header MAC, ChaCha20-Poly1305 STREAM) in the form of the explicit premise [ideal_box]:
    [seal X r m] opens to [m] under exactly the keys whose converted address is in [X], and no
    byte string that [seal] did not produce opens under any key. The ed25519 -> x25519
    conversion is the premise [conv_injective]. Base58 and the 4-byte double-SHA-256 check
    enter through [armor_codec] (decode inverts encode, alphabet without period/whitespace,
    4 bytes); that the truncated hash does not accidentally match on other content (2^-32 per
    trial) is outside every theorem: the armor theorems say exactly what an accepted text
    must satisfy. All premises are visible in each statement; the correspondence run of
    ./check C10 compares what they predict (accept / reject, recovered payload and sender,
    for every key and every edit) with the real wallet and the real age library.
    This file's SHA-256 is pinned in /verif/pins/C10.sha256. *)
From GW Require Import Base CodecBase CodecBaseProofs CodecArmor CodecArmorProofs
     CodecSlatepack CodecSlatepackProofs CodecSlate CodecSlateProofs Box BoxProofs.

(** Every recipient's key recovers the slate payload and the sender address from the armored
    encrypted message. [wf_msg]: canonical sender address (<= 255 bytes), box within the
    100 000-byte read limit, text within [max_size]. *)
Theorem C10_recipients_decrypt :
  forall (key : Type) (pub : key -> bytes) (conv : bytes -> bytes) (rnd : Type)
         (seal : list bytes -> rnd -> bytes -> bytes) (open : key -> bytes -> option bytes)
         (addr_parse : bytes -> option bytes) (b58_enc : bytes -> bytes)
         (b58_dec : bytes -> option bytes) (sha4 : bytes -> bytes)
         (json_sp : bytes -> option slatepack) (max_size : N)
         (k : key) (sender : option bytes) (R : list bytes) (r : rnd) (s : bytes),
    ideal_box key pub conv rnd seal open ->
    armor_codec b58_enc b58_dec sha4 ->
    wf_msg conv rnd seal addr_parse b58_enc sha4 max_size sender R r s ->
    R <> [] -> In (pub k) R ->
    unpack key open addr_parse b58_dec sha4 json_sp max_size (Some k)
           (pack conv rnd seal b58_enc sha4 sender R r s) = Ok (s, sender).
Proof. exact unpack_recipient. Qed.
Print Assumptions C10_recipients_decrypt.

(** Every other key gets an error. *)
Theorem C10_others_rejected :
  forall (key : Type) (pub : key -> bytes) (conv : bytes -> bytes) (rnd : Type)
         (seal : list bytes -> rnd -> bytes -> bytes) (open : key -> bytes -> option bytes)
         (addr_parse : bytes -> option bytes) (b58_enc : bytes -> bytes)
         (b58_dec : bytes -> option bytes) (sha4 : bytes -> bytes)
         (json_sp : bytes -> option slatepack) (max_size : N)
         (k : key) (sender : option bytes) (R : list bytes) (r : rnd) (s : bytes),
    ideal_box key pub conv rnd seal open -> conv_injective conv ->
    armor_codec b58_enc b58_dec sha4 ->
    wf_msg conv rnd seal addr_parse b58_enc sha4 max_size sender R r s ->
    R <> [] -> ~ In (pub k) R ->
    unpack key open addr_parse b58_dec sha4 json_sp max_size (Some k)
           (pack conv rnd seal b58_enc sha4 sender R r s) = Err ECrypto.
Proof. exact unpack_other. Qed.
Print Assumptions C10_others_rejected.

(** The hypotheses are satisfiable and the conclusions are not vacuous: a concrete box
    ([toy_seal] spells out randomness, recipients and message; [toy_open] parses it back)
    satisfies [ideal_box]; with it, recipients 5 and 6 read the message, key 7 does not, and
    nobody needs a key for a plain message. *)
Example C10_nonvacuous :
  ideal_box N toy_pub toy_conv N toy_seal toy_open /\ conv_injective toy_conv
  /\ armor_codec toy_b58_enc toy_b58_dec toy_sha4
  /\ (let P := pack toy_conv N toy_seal toy_b58_enc toy_sha4 (Some [9]) [[5]; [6]] 77 [1; 2; 3] in
      let U := unpack N toy_open AP0 toy_b58_dec toy_sha4 (fun _ => None) 10000 in
      wf_msg toy_conv N toy_seal AP0 toy_b58_enc toy_sha4 10000 (Some [9]) [[5]; [6]] 77 [1; 2; 3]
      /\ U (Some 5) P = Ok ([1; 2; 3], Some [9]) /\ U (Some 6) P = Ok ([1; 2; 3], Some [9])
      /\ U (Some 7) P = Err ECrypto
      /\ U None P = Ok (toy_seal [[5]; [6]] 77 (pre_encrypt (mkEncmeta (Some [9]) []) [1; 2; 3]), None))
  /\ unpack N toy_open AP0 toy_b58_dec toy_sha4 (fun _ => None) 10000 (Some 7)
            (pack toy_conv N toy_seal toy_b58_enc toy_sha4 (Some [9]) [] 77 [1; 2; 3])
     = Ok ([1; 2; 3], Some [9]).
Proof.
  split; [exact toy_ideal|]. split; [exact toy_conv_injective|]. split; [exact toy_codec|].
  split; [|vm_compute; reflexivity].
  cbv zeta. split.
  - split; [|split].
    + intros a H. injection H as <-. split; [reflexivity|unfold lenN; cbn; lia].
    + vm_compute. discriminate.
    + vm_compute. discriminate.
  - repeat split; vm_compute; reflexivity.
Qed.

(** The clear form of an encrypted message: the binary slatepack is a constant 9-byte header
    (version 1.0, mode 1, no optional-field flag — in particular no sender —, zero optional
    bytes), the length of the box, and the box; the armored text is the armor of exactly
    that. So the sender address and the slate occur only inside the box: the part outside it
    depends on nothing but the box's length, and nothing longer than 17 bytes occurs in it. *)
Theorem C10_clear_form :
  forall (conv : bytes -> bytes) (rnd : Type) (seal : list bytes -> rnd -> bytes -> bytes)
         (b58_enc : bytes -> bytes) (sha4 : bytes -> bytes)
         (sender : option bytes) (R : list bytes) (r : rnd) (s : bytes),
    R <> [] ->
    let box := seal (map conv R) r (pre_encrypt (mkEncmeta sender []) s) in
    sp_sender (create_slatepack conv rnd seal sender R r s) = None
    /\ sp_mode (create_slatepack conv rnd seal sender R r s) = 1
    /\ sp_payload (create_slatepack conv rnd seal sender R r s) = box
    /\ pack_bin conv rnd seal sender R r s = clear_part (lenN box) ++ box
    /\ pack conv rnd seal b58_enc sha4 sender R r s
       = armor_encode b58_enc sha4 (clear_part (lenN box) ++ box)
    /\ (forall needle, infix needle (clear_part (lenN box)) -> (length needle <= 17)%nat).
Proof. exact c10_clear_form. Qed.
Print Assumptions C10_clear_form.

Example C10_clear_form_nonvacuous :
  pack_bin toy_conv N toy_seal (Some [9; 9; 9]) [[5]] 77 [1; 2; 3]
  = [1; 0; 1; 0; 0; 0; 0; 0; 0] ++ [0; 0; 0; 0; 0; 0; 0; 17]
    ++ toy_seal [[5]] 77 ([0; 0; 0; 6; 0; 1; 3; 9; 9; 9] ++ [1; 2; 3])
  /\ pack_bin toy_conv N toy_seal (Some [9; 9; 9]) [] 77 [1; 2; 3]
     = [1; 0; 0; 0; 1; 0; 0; 0; 4] ++ [3; 9; 9; 9] ++ [0; 0; 0; 0; 0; 0; 0; 3; 1; 2; 3].
Proof. split; vm_compute; reflexivity. Qed.

(** Tamper evidence: a mode-1 slatepack whose payload is not a byte string produced by
    [seal] is an error under every key — at the level of [try_decrypt_payload] and through
    the whole reader for the armored message carrying the modified box. *)
Theorem C10_tampered_box_rejected :
  forall (key : Type) (pub : key -> bytes) (conv : bytes -> bytes) (rnd : Type)
         (seal : list bytes -> rnd -> bytes -> bytes) (open : key -> bytes -> option bytes)
         (addr_parse : bytes -> option bytes) (k : key) (sp : slatepack),
    ideal_box key pub conv rnd seal open ->
    sp_mode sp <> 0 ->
    (forall X r m, sp_payload sp <> seal X r m) ->
    try_decrypt_payload key open addr_parse (Some k) sp = Err ECrypto.
Proof. exact tampered_box_rejected. Qed.
Print Assumptions C10_tampered_box_rejected.

Theorem C10_tampered_message_rejected :
  forall (key : Type) (pub : key -> bytes) (conv : bytes -> bytes) (rnd : Type)
         (seal : list bytes -> rnd -> bytes -> bytes) (open : key -> bytes -> option bytes)
         (addr_parse : bytes -> option bytes) (b58_enc : bytes -> bytes)
         (b58_dec : bytes -> option bytes) (sha4 : bytes -> bytes)
         (json_sp : bytes -> option slatepack) (max_size : N)
         (k : key) (major minor : N) (c' : bytes),
    ideal_box key pub conv rnd seal open ->
    armor_codec b58_enc b58_dec sha4 ->
    lenN c' <= MAX_READ ->
    (forall X r m, c' <> seal X r m) ->
    let sp := mkSlatepack major minor 1 None c' in
    lenN (armor_encode b58_enc sha4 (enc_slatepack_bin sp)) <= max_size ->
    unpack key open addr_parse b58_dec sha4 json_sp max_size (Some k)
           (armor_encode b58_enc sha4 (enc_slatepack_bin sp)) = Err ECrypto.
Proof. exact tampered_message_rejected. Qed.
Print Assumptions C10_tampered_message_rejected.

(** Whatever [try_decrypt_payload] accepts as encrypted is genuine: the payload is a box
    sealed to a list containing the reader's converted address, and the sender and payload
    it returns are the ones inside that box. *)
Theorem C10_accept_genuine :
  forall (key : Type) (pub : key -> bytes) (conv : bytes -> bytes) (rnd : Type)
         (seal : list bytes -> rnd -> bytes -> bytes) (open : key -> bytes -> option bytes)
         (addr_parse : bytes -> option bytes) (k : key) (sp sp' : slatepack) (rc : list bytes),
    ideal_box key pub conv rnd seal open ->
    sp_mode sp <> 0 ->
    try_decrypt_payload key open addr_parse (Some k) sp = Ok (sp', rc) ->
    exists X r m,
      sp_payload sp = seal X r m /\ In (conv (pub k)) X
      /\ post_decrypt addr_parse true m = Ok (mkEncmeta (sp_sender sp') rc, sp_payload sp')
      /\ sp_mode sp' = 0.
Proof. exact accept_genuine. Qed.
Print Assumptions C10_accept_genuine.

Example C10_tamper_nonvacuous :
  let box := toy_seal [[5]] 77 (pre_encrypt (mkEncmeta (Some [9]) []) [1; 2; 3]) in
  try_decrypt_payload N toy_open AP0 (Some 5) (mkSlatepack 1 0 1 None box)
  = Ok (mkSlatepack 1 0 0 (Some [9]) [1; 2; 3], [])
  (* the recipient count overwritten: no [toy_seal] output looks like this *)
  /\ try_decrypt_payload N toy_open AP0 (Some 5) (mkSlatepack 1 0 1 None [77; 2; 1; 5])
     = Err ECrypto
  /\ (forall X r m, [77; 2; 1; 5] <> toy_seal X r m).
Proof.
  cbv zeta. split; [vm_compute; reflexivity|]. split; [vm_compute; reflexivity|].
  exact toy_not_sealed.
Qed.

(** The wallet API ([slate_from_slatepack_message] with a list of derivation indices =
    keys, [decode_slatepack_message]): the slate comes out exactly when one of the listed
    keys is a recipient's; otherwise the first reports an error and the second hands back
    the still sealed slatepack (mode 1, no sender, payload = the box). *)
Theorem C10_api_recipients_only :
  forall (key : Type) (pub : key -> bytes) (conv : bytes -> bytes) (rnd : Type)
         (seal : list bytes -> rnd -> bytes -> bytes) (open : key -> bytes -> option bytes)
         (addr_parse : bytes -> option bytes) (b58_enc : bytes -> bytes)
         (b58_dec : bytes -> option bytes) (sha4 : bytes -> bytes)
         (json_sp : bytes -> option slatepack) (max_size : N)
         (slate : Type) (get_slate : bytes -> result slate)
         (ks : list key) (sender : option bytes) (R : list bytes) (r : rnd) (s : bytes),
    ideal_box key pub conv rnd seal open -> conv_injective conv ->
    armor_codec b58_enc b58_dec sha4 ->
    wf_msg conv rnd seal addr_parse b58_enc sha4 max_size sender R r s ->
    R <> [] -> ks <> [] ->
    ((exists k, In k ks /\ In (pub k) R) ->
     slate_from_slatepack_message key open addr_parse b58_dec sha4 json_sp max_size slate get_slate ks
       (pack conv rnd seal b58_enc sha4 sender R r s) = get_slate s)
    /\ ((forall k, In k ks -> ~ In (pub k) R) ->
        slate_from_slatepack_message key open addr_parse b58_dec sha4 json_sp max_size slate get_slate ks
          (pack conv rnd seal b58_enc sha4 sender R r s) = Err ECrypto).
Proof. exact api_recipients_only. Qed.
Print Assumptions C10_api_recipients_only.

Theorem C10_decode_other_sealed :
  forall (key : Type) (pub : key -> bytes) (conv : bytes -> bytes) (rnd : Type)
         (seal : list bytes -> rnd -> bytes -> bytes) (open : key -> bytes -> option bytes)
         (addr_parse : bytes -> option bytes) (b58_enc : bytes -> bytes)
         (b58_dec : bytes -> option bytes) (sha4 : bytes -> bytes)
         (json_sp : bytes -> option slatepack) (max_size : N)
         (ks : list key) (sender : option bytes) (R : list bytes) (r : rnd) (s : bytes),
    ideal_box key pub conv rnd seal open -> conv_injective conv ->
    armor_codec b58_enc b58_dec sha4 ->
    wf_msg conv rnd seal addr_parse b58_enc sha4 max_size sender R r s ->
    R <> [] ->
    (forall k, In k ks -> ~ In (pub k) R) ->
    decode_slatepack_message key open addr_parse b58_dec sha4 json_sp max_size ks
      (pack conv rnd seal b58_enc sha4 sender R r s)
    = Ok (mkSlatepack 1 0 1 None (seal (map conv R) r (pre_encrypt (mkEncmeta sender []) s)), []).
Proof. exact decode_other_sealed. Qed.
Print Assumptions C10_decode_other_sealed.

(** Down to the slate, with C08's binary round trip: a listed recipient key gives back the
    slate that was packed. *)
Theorem C10_api_slate_roundtrip :
  forall (key : Type) (pub : key -> bytes) (conv : bytes -> bytes) (rnd : Type)
         (seal : list bytes -> rnd -> bytes -> bytes) (open : key -> bytes -> option bytes)
         (addr_parse : bytes -> option bytes) (b58_enc : bytes -> bytes)
         (b58_dec : bytes -> option bytes) (sha4 : bytes -> bytes)
         (json_sp : bytes -> option slatepack) (max_size : N)
         (valid_pk valid_ed : bytes -> bool)
         (ks : list key) (sender : option bytes) (R : list bytes) (r : rnd) (sl : slate4),
    ideal_box key pub conv rnd seal open -> conv_injective conv ->
    armor_codec b58_enc b58_dec sha4 ->
    wf_slate4 valid_pk valid_ed sl -> ~ KnownBin sl ->
    wf_msg conv rnd seal addr_parse b58_enc sha4 max_size sender R r (enc_v4bin sl) ->
    R <> [] ->
    (exists k, In k ks /\ In (pub k) R) ->
    slate_from_slatepack_message key open addr_parse b58_dec sha4 json_sp max_size slate4
      (run_rd (dec_v4bin valid_pk valid_ed true)) ks
      (pack conv rnd seal b58_enc sha4 sender R r (enc_v4bin sl)) = Ok sl.
Proof. exact api_slate_roundtrip. Qed.
Print Assumptions C10_api_slate_roundtrip.

Example C10_api_nonvacuous :
  let P := pack toy_conv N toy_seal toy_b58_enc toy_sha4 (Some [9]) [[5]; [6]] 77 [1; 2; 3] in
  let F := slate_from_slatepack_message N toy_open AP0 toy_b58_dec toy_sha4 (fun _ => None) 10000
             bytes (fun p => Ok p) in
  F [7; 8; 6] P = Ok [1; 2; 3] /\ F [7; 8] P = Err ECrypto
  /\ decode_slatepack_message N toy_open AP0 toy_b58_dec toy_sha4 (fun _ => None) 10000 [7; 8] P
     = Ok (mkSlatepack 1 0 1 None
             (toy_seal [[5]; [6]] 77 (pre_encrypt (mkEncmeta (Some [9]) []) [1; 2; 3])), []).
Proof. cbv zeta. repeat split; vm_compute; reflexivity. Qed.

(** Plain armored messages. An accepted text has the shape
    header . payload . footer [. anything] with both framings matching the wallet's regular
    expressions, and its payload, stripped of the five whitespace characters, is a base58
    string whose first four bytes are the check of the rest — the rest is what is returned. *)
Theorem C10_armor_accept_check :
  forall (b58_dec : bytes -> option bytes) (sha4 : bytes -> bytes) (m p : bytes),
    armor_decode b58_dec sha4 m = Ok p ->
    exists h pl f rest dec,
      m = h ++ DOT :: pl ++ DOT :: f ++ rest
      /\ nodot h = true /\ nodot pl = true /\ nodot f = true /\ dot_or_end rest
      /\ framing_ok HEADER_WORD h = true /\ framing_ok FOOTER_WORD f = true
      /\ b58_dec (clean pl) = Some dec /\ (4 <= length dec)%nat
      /\ firstn 4 dec = sha4 p /\ p = skipn 4 dec.
Proof. exact armor_accept_check. Qed.
Print Assumptions C10_armor_accept_check.

(** An altered text that is accepted but does not yield the armored data carries a different
    byte string whose own truncated double hash matches (a collision-like event of
    probability 2^-32 for unrelated content, which no theorem excludes). *)
Theorem C10_armor_altered_needs_match :
  forall (b58_dec : bytes -> option bytes) (sha4 : bytes -> bytes) (data m' p' : bytes),
    (forall x, length (sha4 x) = 4%nat) ->
    armor_decode b58_dec sha4 m' = Ok p' -> p' <> data ->
    exists dec', (4 <= length dec')%nat /\ dec' <> sha4 data ++ data
                 /\ firstn 4 dec' = sha4 (skipn 4 dec') /\ p' = skipn 4 dec'.
Proof. exact armor_altered_needs_match. Qed.
Print Assumptions C10_armor_altered_needs_match.

(** Framing: the decoder's answer is a function of the two framings and of the payload
    without whitespace (so adding, dropping or moving whitespace yields the same bytes), a
    framing that does not match is [EBadArmor], and a text with fewer than two periods is
    never accepted. *)
Theorem C10_armor_framing :
  (forall b58_dec sha4 h pl f rest,
      nodot h = true -> nodot pl = true -> nodot f = true -> dot_or_end rest ->
      armor_decode b58_dec sha4 (h ++ DOT :: pl ++ DOT :: f ++ rest)
      = if framing_ok HEADER_WORD h
        then if framing_ok FOOTER_WORD f then check_stage b58_dec sha4 (clean pl) else Err EBadArmor
        else Err EBadArmor)
  /\ (forall b58_dec sha4 m p,
         armor_decode b58_dec sha4 m = Ok p -> (2 <= length (filter (fun c => (c =? DOT)%N) m))%nat).
Proof. exact c10_armor_framing. Qed.
Print Assumptions C10_armor_framing.

Example C10_armor_nonvacuous :
  let text := armor_encode b58_encode_impl sha256d4_impl [1; 2; 3] in
  let dec := armor_decode b58_decode_impl sha256d4_impl in
  dec text = Ok [1; 2; 3]
  (* a space inserted into the payload, the final period dropped: same bytes *)
  /\ dec (apply_edit (2, 17, 32) text) = Ok [1; 2; 3]
  /\ dec (apply_edit (1, N.of_nat (length text) - 2, 0) text) = Ok [1; 2; 3]
  (* a base58 character changed, two characters transposed: the check reports it *)
  /\ dec (apply_edit (0, 17, 65) text) = Err EBadCheck
  /\ dec (apply_edit (3, 17, 0) text) = Err EBadCheck
  (* a header letter changed, the period after the payload dropped *)
  /\ dec (apply_edit (0, 3, 65) text) = Err EBadArmor
  /\ dec (apply_edit (1, N.of_nat (length text) - 16, 0) text) = Err EBadArmor.
Proof. cbv zeta. repeat split; vm_compute; reflexivity. Qed.
