(** C11 — payment proofs are sound end to end.
    Statements only; proofs are in theories/PayProofProofs.v. Models: theories/PayProof.v
    (payment_proof_message, verify_slate_payment_proof, the proof parts of lock_tx_context and
    update_stored_tx, retrieve_payment_proof, verify_payment_proof) plugged into the model of
    finalize_tx (theories/Proto.v). Tied to the code by the correspondence run of ./check C11.

    ed25519 is IDEAL ([ideal_sig], an explicit hypothesis of every theorem below): exactly the
    signatures made with the matching secret key verify, a signature determines the message
    and key that made it, a public key determines its secret key. Unforgeability is therefore
    assumed, not proved (proof (partial), design.d/C11.md). [pk_eqb] decides equality of
    addresses. The signed message is the triple (amount, excess, sender address): in the code
    8 + 33 + 32 bytes of fixed width, so the bytes determine the triple.

    This file's SHA-256 is pinned in /verif/pins/C11.sha256. *)
From GW Require Import Proto PayProofProofs.

(** A send whose context says a payment proof was requested ([cx_pp_index c = Some i]) and ANY
    reply [r]. If finalize_tx (ordinary or late-locked) returns a transaction then the reply
    carries a proof [p] whose sender address is the sender's own derived address, whose
    recipient address is the one asked for at initiation (when the context recorded it), and
    whose signature was made by the holder of that recipient address over exactly
    (the context's amount, the excess of the kernel of the returned transaction, the sender
    address). *)
Theorem C11_finalize_requires_the_requested_recipients_signature :
  forall (chal : Z -> Z -> kmsg -> Z) (derive : N -> N -> Z) (sk pk esig : Type)
         (pk_eqb : pk -> pk -> bool) (pub : sk -> pk) (sign : sk -> emsg pk -> esig)
         (verify : pk -> emsg pk -> esig -> bool) (addr_sk : N -> N -> sk),
    ideal_sig sk pk (emsg pk) esig pub sign verify ->
    (forall a b, pk_eqb a b = true <-> a = b) ->
    forall (w : wallet pk esig) (r : slate pk esig) (c : ctxrec pk) (i : N)
           (w' : wallet pk esig) (t : tx),
      lookup_ctx pk esig w (sl_id r) = Some c -> sl_state r = StS2 -> cx_pp_index c = Some i ->
      finalize_tx chal derive sk pk esig pk_eqb pub sign verify addr_sk w r = (w', Ok t) ->
      exists p s k ks,
        sl_proof r = Some p
        /\ pi_sender p = pub (addr_sk (cx_parent c) i)
        /\ (forall a, cx_pp_recipient c = Some a -> pi_receiver p = a)
        /\ pi_rsig p = Some s
        /\ tx_kerns t = [k]
        /\ pi_receiver p = pub ks
        /\ s = sign ks (pp_message pk (cx_amount c) (kn_excess k) (pub (addr_sk (cx_parent c) i))).
Proof. exact finalize_requires_proof. Qed.
Print Assumptions C11_finalize_requires_the_requested_recipients_signature.

(** ... whatever state the reply is labelled with: a send for which a proof was requested is
    only ever finalized by a reply in the standard send's state, so the check above cannot be
    side-stepped by relabelling the reply as an invoice's (before the [fix:] the Invoice2 branch
    ran without any proof check; a recipient who first planted a received entry under the slate
    id got a proof-less finalization). *)
Theorem C11_proof_requested_only_a_standard_reply_finalizes :
  forall (chal : Z -> Z -> kmsg -> Z) (derive : N -> N -> Z) (sk pk esig : Type)
         (pk_eqb : pk -> pk -> bool) (pub : sk -> pk) (sign : sk -> emsg pk -> esig)
         (verify : pk -> emsg pk -> esig -> bool) (addr_sk : N -> N -> sk)
         (w : wallet pk esig) (r : slate pk esig) (c : ctxrec pk) (i : N)
         (w' : wallet pk esig) (t : tx),
      lookup_ctx pk esig w (sl_id r) = Some c -> cx_pp_index c = Some i ->
      finalize_tx chal derive sk pk esig pk_eqb pub sign verify addr_sk w r = (w', Ok t) ->
      sl_state r = StS2.
Proof. exact finalize_with_proof_only_standard. Qed.
Print Assumptions C11_proof_requested_only_a_standard_reply_finalizes.

(** Hence: a reply with the proof stripped, without signature, naming another recipient,
    signed by another key, or signed over other values is refused. *)
Theorem C11_forged_reply_proof_is_refused :
  forall (chal : Z -> Z -> kmsg -> Z) (derive : N -> N -> Z) (sk pk esig : Type)
         (pk_eqb : pk -> pk -> bool) (pub : sk -> pk) (sign : sk -> emsg pk -> esig)
         (verify : pk -> emsg pk -> esig -> bool) (addr_sk : N -> N -> sk),
    ideal_sig sk pk (emsg pk) esig pub sign verify ->
    (forall a b, pk_eqb a b = true <-> a = b) ->
    forall (w : wallet pk esig) (r : slate pk esig) (c : ctxrec pk) (i : N) (a : pk)
           (w' : wallet pk esig) (res : result tx),
      lookup_ctx pk esig w (sl_id r) = Some c -> sl_state r = StS2 ->
      cx_pp_index c = Some i -> cx_pp_recipient c = Some a ->
      finalize_tx chal derive sk pk esig pk_eqb pub sign verify addr_sk w r = (w', res) ->
      (sl_proof r = None
       \/ (exists p, sl_proof r = Some p /\ pi_rsig p = None)
       \/ (exists p, sl_proof r = Some p /\ pi_receiver p <> a)
       \/ (exists p k', sl_proof r = Some p /\ pub k' <> a /\ exists m', pi_rsig p = Some (sign k' m'))
       \/ (exists p k' m', sl_proof r = Some p /\ pi_rsig p = Some (sign k' m')
                          /\ forall t k, res = Ok t -> tx_kerns t = [k] ->
                             m' <> pp_message pk (cx_amount c) (kn_excess k) (pub (addr_sk (cx_parent c) i)))) ->
      forall t, res <> Ok t.
Proof. exact finalize_refuses_forged_proof. Qed.
Print Assumptions C11_forged_reply_proof_is_refused.

(** After any accepted finalize of a proof-requesting send (context conserving value, log
    entry as lock_tx_context wrote it) the sender's log holds the TxSent entry from which
    retrieve_payment_proof exports a proof for exactly the agreed amount, the excess of the
    returned transaction's kernel, the requested recipient and the sender's address; with the
    kernel on chain verify_payment_proof accepts it. *)
Theorem C11_exported_proof_verifies :
  forall (chal : Z -> Z -> kmsg -> Z) (derive : N -> N -> Z) (sk pk esig : Type)
         (pk_eqb : pk -> pk -> bool) (pub : sk -> pk) (sign : sk -> emsg pk -> esig)
         (verify : pk -> emsg pk -> esig -> bool) (addr_sk : N -> N -> sk),
    ideal_sig sk pk (emsg pk) esig pub sign verify ->
    (forall a b, pk_eqb a b = true <-> a = b) ->
    forall (w : wallet pk esig) (r : slate pk esig) (c : ctxrec pk) (i f : N)
           (w' : wallet pk esig) (t : tx) (vparent : N),
      cx_pp_index c = Some i -> cx_fee c = Some f -> f < FEE_MOD -> ctx_conserves pk c f ->
      (forall e, In e (w_log w) -> lg_slate e = Some (sl_id r) -> lg_type e = TxSent ->
                 entry_matches pk esig e c) ->
      finalize_core chal derive sk pk esig pk_eqb pub sign verify addr_sk w r c false = Ok (w', t) ->
      exists e k p v,
        In e (w_log w') /\ lg_slate e = Some (sl_id r) /\ lg_type e = TxSent /\ tx_kerns t = [k]
        /\ retrieve_payment_proof pk esig (lg_proof e) (lg_credited e) (lg_debited e)
                                  (match lg_fee e with Some x => Some (fee_of_fields x) | None => None end)
                                  (lg_excess e) = Ok p
        /\ pf_amount p = cx_amount c /\ pf_excess p = kn_excess k
        /\ (forall a, cx_pp_recipient c = Some a -> pf_raddr p = a)
        /\ pf_saddr p = pub (addr_sk (cx_parent c) i)
        /\ verify_payment_proof sk pk esig pk_eqb pub verify addr_sk p (Some true) vparent = Ok v.
Proof. exact exported_proof_verifies. Qed.
Print Assumptions C11_exported_proof_verifies.

(** What verify_payment_proof accepts: the kernel is on chain and both signatures were made by
    the holders of the two addresses over (amount, excess, sender address) as written in the
    proof. *)
Theorem C11_accepted_proof_is_genuine :
  forall (sk pk esig : Type) (pk_eqb : pk -> pk -> bool) (pub : sk -> pk)
         (sign : sk -> emsg pk -> esig) (verify : pk -> emsg pk -> esig -> bool)
         (addr_sk : N -> N -> sk),
    ideal_sig sk pk (emsg pk) esig pub sign verify ->
    forall (p : proof pk esig) (kernel : option bool) (parent : N) (v : bool * bool),
      verify_payment_proof sk pk esig pk_eqb pub verify addr_sk p kernel parent = Ok v ->
      kernel = Some true /\ valid_proof sk pk esig pub sign p.
Proof. exact verify_ok_inv. Qed.
Print Assumptions C11_accepted_proof_is_genuine.

(** Changing the amount, the excess, either address or either signature of an accepted proof
    (any single field, to any other value) makes verification fail, whatever the chain says. *)
Theorem C11_altered_proof_is_refused :
  forall (sk pk esig : Type) (pk_eqb : pk -> pk -> bool) (pub : sk -> pk)
         (sign : sk -> emsg pk -> esig) (verify : pk -> emsg pk -> esig -> bool)
         (addr_sk : N -> N -> sk),
    ideal_sig sk pk (emsg pk) esig pub sign verify ->
    forall (p p' : proof pk esig) (kernel : option bool) (parent : N) (v v' : bool * bool),
      verify_payment_proof sk pk esig pk_eqb pub verify addr_sk p (Some true) parent = Ok v ->
      one_field_changed pk esig p p' ->
      verify_payment_proof sk pk esig pk_eqb pub verify addr_sk p' kernel parent <> Ok v'.
Proof. exact altered_proof_refused. Qed.
Print Assumptions C11_altered_proof_is_refused.

(** No kernel on chain (or the node cannot be asked): verification fails. *)
Theorem C11_kernel_absent_is_refused :
  forall (sk pk esig : Type) (pk_eqb : pk -> pk -> bool) (pub : sk -> pk)
         (verify : pk -> emsg pk -> esig -> bool) (addr_sk : N -> N -> sk)
         (p : proof pk esig) (parent : N),
    verify_payment_proof sk pk esig pk_eqb pub verify addr_sk p None parent = Err EPaymentProof
    /\ verify_payment_proof sk pk esig pk_eqb pub verify addr_sk p (Some false) parent = Err EPaymentProof.
Proof. exact verify_kernel_absent. Qed.
Print Assumptions C11_kernel_absent_is_refused.

(** The signature scheme used when the model is evaluated against the code is ideal. *)
Theorem C11_concrete_scheme_is_ideal : ideal_sig Z Z cmsg (Z * cmsg) c_pub c_sign c_verify.
Proof. exact c_ideal_sig. Qed.
Print Assumptions C11_concrete_scheme_is_ideal.
