(** C12 — secrets never leave the wallet in clear; signing nonces are never reused.
    Statements only; proofs are in theories/SecretsProofs.v, the model in theories/Secrets.v
    (tied to impls/src/backends/lmdb.rs, libwallet/src/{types,slate}.rs,
    libwallet/src/api_impl/{owner,foreign}.rs, impls/src/lifecycle/{seed,default}.rs by the
    correspondence run of ./check C12). This file's SHA-256 is pinned in pins/C12.sha256. *)
From GW Require Import Secrets SecretsProofs.

(** (a) For every history of owner/foreign calls (any interleaving of sends, receives,
    invoices, payments, finalisations, late locks, self-sends, cancels; production or test
    RNG), every record put into the database and every message handed to a peer consists of
    XOR-padded, public-image, signature or public terms only: no secret occurs in clear. *)
Theorem C12_no_secret_in_clear : forall (test : bool) (ops : list op) (it : item) (t : term),
  In it (emitted false test ops) -> In t (item_terms it) -> forall x : secret, t <> Clear x.
Proof. exact emitted_clear_free. Qed.
Print Assumptions C12_no_secret_in_clear.

(** The record layout written before the repair (initial_sec_key / initial_sec_nonce stored as
    they are) does not have this property: the statement above is not vacuous. *)
Theorem C12_legacy_layout_refuted :
  exists it t x, In it (emitted true false [OInit false]) /\ In t (item_terms it) /\ t = Clear x.
Proof. exact legacy_layout_leaks. Qed.
Print Assumptions C12_legacy_layout_refuted.

(** (c) With the RNG a stream of pairwise distinct values ([rng] injective) and k |-> k*G
    injective ([pk]), and [use_test_rng = false]: over every history, the participant entries
    the wallet builds from its own secrets for two different slates never share the public
    nonce or the public blind excess. *)
Theorem C12_nonces_never_reused :
  forall (rng pk : N -> N),
    (forall i j, rng i = rng j -> i = j) -> (forall a b, pk a = pk b -> a = b) ->
  forall (ops : list op) (s s' : sid) (e e' : entry),
    In (s, e) (own_entries (emitted false false ops)) ->
    In (s', e') (own_entries (emitted false false ops)) ->
    s <> s' ->
    exists i j i' j',
      e_nonce e = SDraw i /\ e_key e = SDraw j /\ e_nonce e' = SDraw i' /\ e_key e' = SDraw j' /\
      pk (rng i) <> pk (rng i') /\ pk (rng j) <> pk (rng j').
Proof. exact nonces_distinct. Qed.
Print Assumptions C12_nonces_never_reused.

Example C12_nonces_example :
  own_entries (emitted false false [OInit false; ORecv (Ext 7); OInvoice; OFin (Own 0) 1])
  = [(Own 0, mkEntry (SDraw 1) (SDraw 0) false); (Ext 7, mkEntry (SDraw 3) (SDraw 2) true);
     (Own 1, mkEntry (SDraw 5) (SDraw 4) false); (Own 0, mkEntry (SDraw 1) (SDraw 0) true)].
Proof. exact nonces_example. Qed.

(** The hypothesis [use_test_rng = false] is needed: the fixed test RNG repeats itself. *)
Theorem C12_test_rng_repeats :
  exists ops s s' e e',
    In (s, e) (own_entries (emitted false true ops)) /\
    In (s', e') (own_entries (emitted false true ops)) /\
    s <> s' /\ e_nonce e = e_nonce e' /\ e_key e = e_key e'.
Proof. exact test_rng_repeats. Qed.
Print Assumptions C12_test_rng_repeats.

(** (b1) The seed file. [pwnorm] is the key normalisation of HMAC (passwords that differ only
    by trailing NUL bytes, or a long password and its hash, are the same key); the KDF is
    injective up to it, and the AEAD opens a sealed text only under the key it was sealed with,
    to the text that was sealed. Then a seed file opens to [seed'] under [pw'] iff [seed'] is
    the seed it was made from and [pw'] is the password it was saved under: never another
    seed, and an error for every other password. *)
Theorem C12_seed_opens_iff :
  forall (K CT : Type) (pwnorm : list N -> list N) (kdf : list N -> list N -> K)
         (seal : K -> list N -> list N -> CT) (open : K -> list N -> CT -> option (list N)),
    (forall s p, kdf s (pwnorm p) = kdf s p) ->
    (forall s p p', kdf s p = kdf s p' -> pwnorm p = pwnorm p') ->
    (forall k n m, open k n (seal k n m) = Some m) ->
    (forall k k' n m m', open k' n (seal k n m) = Some m' -> k' = k /\ m' = m) ->
  forall seed pw salt nonce pw' seed' : list N,
    length nonce = 12%nat ->
    (decrypt K CT kdf open (from_seed K CT kdf seal seed pw salt nonce) pw' = Ok seed'
     <-> seed' = seed /\ pwnorm pw' = pwnorm pw).
Proof. exact decrypt_iff. Qed.
Print Assumptions C12_seed_opens_iff.

Theorem C12_wrong_password_is_an_error :
  forall (K CT : Type) (pwnorm : list N -> list N) (kdf : list N -> list N -> K)
         (seal : K -> list N -> list N -> CT) (open : K -> list N -> CT -> option (list N)),
    (forall s p p', kdf s p = kdf s p' -> pwnorm p = pwnorm p') ->
    (forall k k' n m m', open k' n (seal k n m) = Some m' -> k' = k /\ m' = m) ->
  forall seed pw salt nonce pw' : list N,
    length nonce = 12%nat -> pwnorm pw' <> pwnorm pw ->
    decrypt K CT kdf open (from_seed K CT kdf seal seed pw salt nonce) pw' = Err ECrypto.
Proof. exact decrypt_wrong_password. Qed.
Print Assumptions C12_wrong_password_is_an_error.

(** Whatever the three hex fields of a seed file hold (including undecodable text, a short
    nonce, a short ciphertext), decryption returns a value. *)
Theorem C12_decrypt_never_panics :
  forall (K CT : Type) (kdf : list N -> list N -> K) (open : K -> list N -> CT -> option (list N))
         (f : seedfile CT) (pw : list N) (p : panic),
    decrypt K CT kdf open f pw <> Panic p.
Proof. exact decrypt_total. Qed.
Print Assumptions C12_decrypt_never_panics.

(** (b2) change_password, interrupted anywhere: for every directory [d] whose seed file opens
    to [seed] under [old], every prefix of the file operations (and every partially written
    new file) leaves some file that opens to [seed] under [old] or under [new]. No assumption
    on the cryptography is needed: the code reads the new file back before it removes the
    backup. *)
Theorem C12_change_password_recoverable :
  forall (K CT : Type) (kdf : list N -> list N -> K) (seal : K -> list N -> list N -> CT)
         (open : K -> list N -> CT -> option (list N)) (mn : list N -> list N)
         (d : dir CT) (old new salt nonce seed : list N) (r : result unit) (es : list (eff CT)),
    from_file K CT kdf open d old = Ok seed ->
    change_password K CT kdf seal open mn d old new salt nonce = (r, es) ->
    forall d' : dir CT, In d' (crash_states CT d es) ->
      exists f : fname, holds K CT kdf open d' f old seed \/ holds K CT kdf open d' f new seed.
Proof. exact change_password_recoverable. Qed.
Print Assumptions C12_change_password_recoverable.

Theorem C12_change_password_success :
  forall (K CT : Type) (kdf : list N -> list N -> K) (seal : K -> list N -> list N -> CT)
         (open : K -> list N -> CT -> option (list N)) (mn : list N -> list N)
         (d : dir CT) (old new salt nonce seed : list N) (es : list (eff CT)),
    from_file K CT kdf open d old = Ok seed ->
    change_password K CT kdf seal open mn d old new salt nonce = (Ok tt, es) ->
    from_file K CT kdf open (apply_all CT d es) new = Ok seed.
Proof. exact change_password_success. Qed.
Print Assumptions C12_change_password_success.

(** (b3) Phrase recovery, interrupted anywhere (also when the phrase turns out invalid after
    the seed file was already moved): the seed that was there stays in a file that opens under
    its old password. *)
Theorem C12_recover_recoverable :
  forall (K CT : Type) (kdf : list N -> list N -> K) (seal : K -> list N -> list N -> CT)
         (open : K -> list N -> CT -> option (list N))
         (d : dir CT) (words : option (list N)) (pw salt nonce old seed : list N)
         (r : result unit) (es : list (eff CT)),
    from_file K CT kdf open d old = Ok seed ->
    recover K CT kdf seal d words pw salt nonce = (r, es) ->
    forall d' : dir CT, In d' (crash_states CT d es) ->
      exists f : fname, holds K CT kdf open d' f old seed.
Proof. exact recover_recoverable. Qed.
Print Assumptions C12_recover_recoverable.

(** Neither operation overwrites or removes a backup that already existed: the backup name is
    searched until it is free (the search ends within |directory| + 1 names). *)
Theorem C12_backups_untouched :
  forall (K CT : Type) (kdf : list N -> list N -> K) (seal : K -> list N -> list N -> CT)
         (open : K -> list N -> CT -> option (list N)) (mn : list N -> list N)
         (d : list (fname * content CT)) (r : result unit) (es : list (eff CT)),
    NoDup (map fst d) ->
    (exists old new salt nonce : list N,
       change_password K CT kdf seal open mn d old new salt nonce = (r, es)) \/
    (exists (words : option (list N)) (pw salt nonce : list N),
       recover K CT kdf seal d words pw salt nonce = (r, es)) ->
    forall d' : dir CT, In d' (crash_states CT d es) ->
    forall (i : nat) (c : content CT),
      lookup CT d (FBak i) = Some c -> lookup CT d' (FBak i) = Some c.
Proof. exact backups_untouched. Qed.
Print Assumptions C12_backups_untouched.

(** The hypotheses of (b1) can be met (by the instance the correspondence run evaluates), and
    the premises of (b2) too. *)
Example C12_hypotheses_satisfiable :
  (forall s p, toy_kdf s (toy_pwnorm p) = toy_kdf s p) /\
  (forall s p p', toy_kdf s p = toy_kdf s p' -> toy_pwnorm p = toy_pwnorm p') /\
  (forall k n m, toy_open k n (toy_seal k n m) = Some m) /\
  (forall k k' n m m', toy_open k' n (toy_seal k n m) = Some m' -> k' = k /\ m' = m).
Proof. exact (conj toy_kdf_norm (conj toy_kdf_inj (conj toy_open_seal toy_open_auth))). Qed.

Example C12_change_password_example :
  let seed := repeat 7 16 in
  let d : t_dir := [(FSeed, CFull (t_from_seed seed [1] SALT NONCE))] in
  from_file TK TCT toy_kdf toy_open d [1] = Ok seed /\
  length (crash_states TCT d
            (snd (change_password TK TCT toy_kdf toy_seal toy_open (fun s => s) d [1] [2] SALT NONCE))) = 8%nat.
Proof. exact toy_change_password_states. Qed.
