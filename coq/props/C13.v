(** C13 — the owner listener acts only on requests authenticated by the session key.
    Statements only; proofs are in theories/GateProofs.v. The model [step]
    (theories/Gate.v) is OwnerAPIHandlerV3::call_api; it is generic in a signature [sys]
    (AEAD, JSON-level tests, the inner JSON-RPC dispatcher). Every theorem below holds for
    EVERY [sys] satisfying [ideal] (AES-256-GCM idealised: decrypt∘encrypt = id, whatever
    opens under k was sealed under k, sealings under different keys differ; plus: the two
    "method" tests are exclusive and a value whose method is init_secure_api does not touch
    the wallet). [csys] is the executable instance that ./check C13 compares, POST by POST,
    with the real handler driven through api::Handler::post; [csys_ideal] shows the
    hypotheses are satisfiable, by that very instance. *)
From GW Require Import Base Gate GateProofs.

(** The hypotheses are not vacuous: the instance used for the correspondence meets them. *)
Theorem C13_hypotheses_inhabited : ideal csys.
Proof. exact csys_ideal. Qed.
Print Assumptions C13_hypotheses_inhabited.

(** (a) For every state, POST body and server randomness: the dispatcher is invoked on a
    value [v] iff the body is a clear-text init_secure_api value [v], or an envelope whose
    ciphertext is [v] sealed under the key the handler holds at that moment. *)
Theorem C13_invoked_iff_authenticated : forall (S : sys), ideal S ->
  forall (s : gstate S) (e : sentropy S) (b : option (sjson S)) s' r inv,
  step s e b = (s', r, inv) ->
  forall v, inv = Some v <->
            exists bv, b = Some bv /\ (plain_init bv v \/ authentic s bv v).
Proof. exact gate_invoked_iff. Qed.
Print Assumptions C13_invoked_iff_authenticated.

(** (b) Everything else (not JSON, clear-text calls, arrays, malformed envelopes, no key
    yet, wrong or superseded key, tampered body/tag/nonce) is answered with an error value
    and leaves the whole state — session key, Owner key, stored mask, wallet — unchanged. *)
Theorem C13_rejected_is_noop : forall (S : sys),
  forall (s : gstate S) e b s' r,
  step s e b = (s', r, None) -> s' = s /\ is_error r.
Proof. exact gate_rejects. Qed.
Print Assumptions C13_rejected_is_noop.

(** (c) The reply to a request that came in an envelope is sealed under the key that
    authenticated it (or is the constant [[]] for notifications). *)
Theorem C13_reply_sealed_under_same_key : forall (S : sys),
  forall (s : gstate S) e bv s' r v,
  step s e (Some bv) = (s', r, Some v) -> is_init S bv = false ->
  exists k, g_key s = Some k /\
            (r = REmptyBatch \/ exists rep, r = RSealed (seal S k (nonce_of S e) rep)).
Proof. exact gate_reply_sealed. Qed.
Print Assumptions C13_reply_sealed_under_same_key.

(** (d) The clear-text key exchange changes neither the wallet nor the stored mask and
    hands out only the dispatcher's reply to init_secure_api. *)
Theorem C13_plain_init_touches_nothing : forall (S : sys), ideal S ->
  forall (s : gstate S) e bv s' r inv,
  step s e (Some bv) = (s', r, inv) -> is_init S bv = true ->
  g_w s' = g_w s /\ g_mask s' = g_mask s /\ inv = Some bv /\
  (r = REmptyBatch \/ exists rep, r = RPlain rep /\ snd (handle S e (g_w s) bv) = Some rep).
Proof. exact gate_plain_init. Qed.
Print Assumptions C13_plain_init_touches_nothing.

(** (e) Envelopes under any key other than the current one, and forged ciphertexts, are
    refused with -32002; without a key everything but the key exchange gets -32001. *)
Theorem C13_other_key_refused : forall (S : sys), ideal S ->
  forall (s : gstate S) e bv k k0 n p,
  g_key s = Some k -> k0 <> k -> is_init S bv = false ->
  as_env S bv = Some (seal S k0 n p) ->
  step s e (Some bv) = (s, RGateError (-32002)%Z, None).
Proof. exact gate_other_key_rejected. Qed.
Print Assumptions C13_other_key_refused.

Theorem C13_forged_refused : forall (S : sys), ideal S ->
  forall (s : gstate S) e bv k c,
  g_key s = Some k -> is_init S bv = false -> as_env S bv = Some c ->
  (forall n v, c <> seal S k n v) ->
  step s e (Some bv) = (s, RGateError (-32002)%Z, None).
Proof. exact gate_forged_rejected. Qed.
Print Assumptions C13_forged_refused.

Theorem C13_no_key_refused : forall (S : sys),
  forall (s : gstate S) e bv,
  g_key s = None -> is_init S bv = false ->
  step s e (Some bv) = (s, RGateError (-32001)%Z, None).
Proof. exact gate_no_key_rejected. Qed.
Print Assumptions C13_no_key_refused.

(** (f) All histories: every step of every sequence of POSTs (any order of init, re-init,
    open, close, calls, garbage) obeys (a)-(d) with respect to the key current at that
    step; the wallet or the stored mask change only at steps that are envelopes sealed
    under the then-current key. *)
Theorem C13_every_history_obeys_gate : forall (S : sys), ideal S ->
  forall (evs : list (event S)) (s : gstate S), Forall (gate_ok S) (trace s evs).
Proof. exact history_gate. Qed.
Print Assumptions C13_every_history_obeys_gate.

Theorem C13_effect_only_when_authenticated : forall (S : sys), ideal S ->
  forall (evs : list (event S)) (s : gstate S),
  Forall (fun t => (g_w (t_post t) <> g_w (t_pre t) \/ g_mask (t_post t) <> g_mask (t_pre t)) ->
                   exists bv v, snd (t_ev t) = Some bv /\ authentic (t_pre t) bv v)
         (trace s evs).
Proof. exact history_effect_needs_auth. Qed.
Print Assumptions C13_effect_only_when_authenticated.

(** (g) Refused requests are no-ops inside any history: removing one changes neither the
    final state nor any other reply. *)
Theorem C13_refused_requests_can_be_dropped : forall (S : sys),
  forall evs1 ev evs2 (s : gstate S),
  rejected (run s evs1) ev ->
  run s (evs1 ++ ev :: evs2) = run s (evs1 ++ evs2) /\
  exists r, is_error r /\
    replies s (evs1 ++ ev :: evs2) = replies s evs1 ++ r :: replies (run s evs1) evs2 /\
    replies s (evs1 ++ evs2) = replies s evs1 ++ replies (run s evs1) evs2.
Proof. exact run_drop_rejected. Qed.
Print Assumptions C13_refused_requests_can_be_dropped.

(** (h) Before the first key exchange no history without an init_secure_api value does
    anything. *)
Theorem C13_nothing_before_key_exchange : forall (S : sys),
  forall evs (s : gstate S),
  g_key s = None ->
  Forall (fun ev => match snd ev with Some b => is_init S b = false | None => True end) evs ->
  run s evs = s /\ Forall is_error (replies s evs).
Proof. exact run_without_key. Qed.
Print Assumptions C13_nothing_before_key_exchange.

(** (i) Rotation, on the instance where each ECDH exchange yields a key never seen before
    (named by POST number and position): once the handler's key has been replaced, the
    superseded key authenticates nothing for the rest of the session, whatever follows. *)
Theorem C13_superseded_key_authenticates_nothing :
  forall rf w (reqs : list (option cj)) (i j m : nat) ti tj tm k k',
  (i < j <= m)%nat ->
  nth_error (trace (cinit rf w) (number 1 reqs)) i = Some ti ->
  nth_error (trace (cinit rf w) (number 1 reqs)) j = Some tj ->
  nth_error (trace (cinit rf w) (number 1 reqs)) m = Some tm ->
  g_key (t_post ti) = Some k -> g_key (t_post tj) = Some k' -> k' <> k ->
  forall e n p,
    step (t_post tm) e (Some (JEnv true k n p)) = (t_post tm, RGateError (-32002)%Z, None).
Proof. exact superseded_key_dead. Qed.
Print Assumptions C13_superseded_key_authenticates_nothing.

(** Non-vacuity: a session on the instance. POST 1 clear-text accounts (refused, no key);
    2 key exchange; 3 open_wallet under key (2,0); 4 create_account_path; 5 re-init inside
    an envelope (reply under the old key, key rotates to (5,0)); 6 a call under the
    superseded key (refused); 7 the same call under the new key; 8 the same with a flipped
    bit (refused); 9 clear-text call after all that (refused). *)
Example C13_session :
  run_case (mkCase true false false 0
    [ Some (JCall MAccounts true false);
      Some (JCall MInit true false);
      Some (JEnv true (2, 0) 7 (JCall MOpen true false));
      Some (JEnv true (2, 0) 7 (JCall MCreate true false));
      Some (JEnv true (2, 0) 7 (JCall MInit true false));
      Some (JEnv true (2, 0) 7 (JCall MAccounts true false));
      Some (JEnv true (5, 0) 7 (JCall MAccounts true false));
      Some (JEnv false (5, 0) 7 (JCall MAccounts true false));
      Some (JCall MCreate true false) ])
  = [ [1; 32001;        0; 0; 0; 0];
      [2; 1;            2001; 0; 0; 0];
      [3; 2001; 1;      2001; 1; 0; 1];
      [3; 2001; 1;      2001; 1; 1; 1];
      [3; 2001; 1;      5001; 1; 1; 1];
      [1; 32002;        5001; 1; 1; 1];
      [3; 5001; 1;      5001; 1; 1; 1];
      [1; 32002;        5001; 1; 1; 1];
      [1; 32002;        5001; 1; 1; 1] ]%Z.
Proof. vm_compute. reflexivity. Qed.

(** Non-vacuity of (i): in that session i = 1 (key (2,0)), j = 4 (key (5,0)), m = 8. *)
Example C13_rotation_instance :
  keys_after true (mkW false false 0)
    [ Some (JCall MAccounts true false); Some (JCall MInit true false);
      Some (JEnv true (2, 0) 7 (JCall MOpen true false));
      Some (JEnv true (2, 0) 7 (JCall MCreate true false));
      Some (JEnv true (2, 0) 7 (JCall MInit true false)) ]
  = [None; Some (2, 0); Some (2, 0); Some (2, 0); Some (5, 0)].
Proof. vm_compute. reflexivity. Qed.
