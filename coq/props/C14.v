(** C14 — a masked wallet does nothing without the right token.
    Statements only; proofs are in theories/MaskProofs.v. Model (theories/Mask.v): the
    keychain gate of impls/src/backends/lmdb.rs (XOR masking on N, checksum comparison) and
    every [pub fn] of [impl Owner] (api/src/owner.rs, through libwallet/src/api_impl/owner.rs)
    as a script over backend primitives. [checksum] (key derivation + Blake2b) is a
    variable; where needed its collision-freeness is a hypothesis of the statement. The
    table is tied to the source by the scan of [impl Owner] and by running every variant of
    every method on real masked / unmasked LMDB wallets (./check C14). *)
From GW Require Import Base Mask MaskProofs.

(** XOR masking is an involution (proved, not assumed). *)
Theorem C14_xor_involutive : forall k m, xmask (xmask k m) m = k.
Proof. exact xmask_involutive. Qed.
Print Assumptions C14_xor_involutive.

(** The gate: on a wallet opened with mask [mv], [keychain tok] succeeds iff [tok] is the
    issued token; then it yields the real master key; every other token (absent, one bit
    off, any other value) yields InvalidKeychainMask. *)
Theorem C14_keychain_iff_issued_token : forall (checksum : N -> N),
  (forall a b, checksum a = checksum b -> a = b) ->
  forall k mv tok, mv <> 0 ->
  ((exists k', keychain checksum (set_keychain checksum k (Some mv)) tok = Ok k') <-> tok = Some mv).
Proof. exact keychain_iff_issued_token. Qed.
Print Assumptions C14_keychain_iff_issued_token.

Theorem C14_right_token_unmasks : forall (checksum : N -> N) k mv,
  keychain checksum (set_keychain checksum k (Some mv)) (Some mv) = Ok k.
Proof. exact keychain_right_token. Qed.
Print Assumptions C14_right_token_unmasks.

Theorem C14_wrong_token_refused : forall (checksum : N -> N),
  (forall a b, checksum a = checksum b -> a = b) ->
  forall k mv tok, mv <> 0 -> tok <> Some mv ->
  keychain checksum (set_keychain checksum k (Some mv)) tok = Err EInvalidMask.
Proof. exact keychain_wrong_token. Qed.
Print Assumptions C14_wrong_token_refused.

(** A wallet opened without a mask accepts exactly the absent token. *)
Theorem C14_unmasked_accepts_absent : forall (checksum : N -> N) k,
  keychain checksum (set_keychain checksum k None) None = Ok k.
Proof. exact keychain_unmasked_none. Qed.
Print Assumptions C14_unmasked_accepts_absent.

Theorem C14_unmasked_refuses_tokens : forall (checksum : N -> N),
  (forall a b, checksum a = checksum b -> a = b) ->
  forall k m, m <> 0 -> keychain checksum (set_keychain checksum k None) (Some m) = Err EInvalidMask.
Proof. exact keychain_unmasked_some. Qed.
Print Assumptions C14_unmasked_refuses_tokens.

(** After the backend's close() the keychain is gone for every token. *)
Theorem C14_backend_closed : forall (checksum : N -> N) s tok,
  keychain checksum (close_keychain s) tok = Err ENoKeychain.
Proof. exact keychain_closed. Qed.
Print Assumptions C14_backend_closed.

(** Scripts, in general: if no path of [p] has an effect before its first mask check, a call
    with a refused token leaves everything unchanged and returns InvalidKeychainMask —
    unless the call does nothing that needs the key even with the right token, in which
    case it returns exactly what the right token returns. *)
Theorem C14_wrong_token_no_effect : forall (checksum : N -> N) p, gated p = true ->
  forall ev s tb tg,
  keychain checksum (o_k s) tb = Err EInvalidMask ->
  (exists k, keychain checksum (o_k s) tg = Ok k) ->
  wallet_eq (snd (exec checksum ev tb s p)) s /\
  (fst (exec checksum ev tb s p) = Err EInvalidMask \/
   (fst (exec checksum ev tb s p) = fst (exec checksum ev tg s p)
    /\ wallet_eq (snd (exec checksum ev tg s p)) s)).
Proof. exact wrong_token_no_effect. Qed.
Print Assumptions C14_wrong_token_no_effect.

(** Whenever the right token's run derives, signs, builds, reveals, writes, broadcasts or
    changes a setting, the wrong token's run is refused with InvalidKeychainMask. *)
Theorem C14_effect_implies_refusal : forall (checksum : N -> N) p, gated p = true ->
  forall ev s tb tg,
  keychain checksum (o_k s) tb = Err EInvalidMask ->
  (exists k, keychain checksum (o_k s) tg = Ok k) ->
  ~ wallet_eq (snd (exec checksum ev tg s p)) s ->
  exec checksum ev tb s p = (Err EInvalidMask, snd (exec checksum ev tb s p))
  /\ wallet_eq (snd (exec checksum ev tb s p)) s.
Proof. exact effect_implies_refusal. Qed.
Print Assumptions C14_effect_implies_refusal.

(** The table: every variant of every owner method that takes a token is gated … *)
Theorem C14_every_token_method_gated : forall m v, In (m, v) table -> takes_mask m = true ->
  gated (script_of m v) = true.
Proof. exact table_gated. Qed.
Print Assumptions C14_every_token_method_gated.

(** … and so is the background work of start_updater. *)
Theorem C14_updater_thread_gated : gated updater_body = true.
Proof. exact updater_body_gated. Qed.
Print Assumptions C14_updater_thread_gated.

(** Hence, for every method of the table, every variant, every environment (node up or
    down, any validation failing), every state of a wallet opened with mask [mv] and every
    token other than [mv] (absent, random, one bit off, another wallet's): *)
Theorem C14_owner_method_wrong_token : forall (checksum : N -> N),
  (forall a b, checksum a = checksum b -> a = b) ->
  forall m v, In (m, v) table -> takes_mask m = true ->
  forall ev K mv tb s,
  mv <> 0 -> tb <> Some mv -> o_k s = set_keychain checksum K (Some mv) ->
  let bad := exec checksum ev tb s (script_of m v) in
  let good := exec checksum ev (Some mv) s (script_of m v) in
  wallet_eq (snd bad) s /\
  (fst bad = Err EInvalidMask \/ (fst bad = fst good /\ wallet_eq (snd good) s)).
Proof. exact owner_wrong_token. Qed.
Print Assumptions C14_owner_method_wrong_token.

(** With the right token a masked wallet runs EVERY script exactly like the unmasked
    wallet with the same master key: same result, same writes, key uses, broadcasts,
    settings. *)
Theorem C14_right_token_equals_unmasked : forall (checksum : N -> N) p ev K mv sm su,
  o_k sm = set_keychain checksum K (Some mv) -> o_k su = set_keychain checksum K None ->
  strip sm = strip su ->
  fst (exec checksum ev (Some mv) sm p) = fst (exec checksum ev None su p) /\
  strip (snd (exec checksum ev (Some mv) sm p)) = strip (snd (exec checksum ev None su p)) /\
  o_k (snd (exec checksum ev (Some mv) sm p)) = set_keychain checksum K (Some mv) /\
  o_k (snd (exec checksum ev None su p)) = set_keychain checksum K None.
Proof. exact right_token_equals_unmasked. Qed.
Print Assumptions C14_right_token_equals_unmasked.

(** While the wallet is closed, no token-taking method does anything, and every one that
    touches the wallet at all fails (whatever the token). *)
Theorem C14_closed_wallet_nothing_runs : forall m v, In (m, v) table -> takes_mask m = true ->
  forall (checksum : N -> N) ev tok s, o_open s = false ->
  wallet_eq (snd (exec checksum ev tok s (script_of m v))) s /\
  (pure_variant m v = false -> exists e, fst (exec checksum ev tok s (script_of m v)) = Err e).
Proof. exact owner_closed. Qed.
Print Assumptions C14_closed_wallet_nothing_runs.

(** Methods without a token parameter (lifecycle, configuration, updater control).
    Full-strength statement, REFUTED by the faithful model:
      forall m v, In (m, v) table -> takes_mask m = false -> pw_guarded (script_of m v) = true
    Witness: delete_wallet removes the wallet directory with neither token nor password. *)
Theorem C14_lifecycle_refuted :
  exists m v, In (m, v) table /\ takes_mask m = false /\ pw_guarded (script_of m v) = false
              /\ forall cs ev tok s, o_db (snd (exec cs ev tok s (script_of m v))) = o_db s + 1.
Proof. exact notoken_guarded_refuted. Qed.
Print Assumptions C14_lifecycle_refuted.

(** Outside that known finding every stored write and key use of a token-less method sits
    behind the wallet password … *)
Theorem C14_lifecycle_outside_known : forall m v, In (m, v) table ->
  takes_mask m = false -> ~ Known m -> pw_guarded (script_of m v) = true.
Proof. exact notoken_guarded_outside_known. Qed.
Print Assumptions C14_lifecycle_outside_known.

(** … and with a wrong password such a call writes nothing and uses no key. *)
Theorem C14_wrong_password_no_effect : forall (checksum : N -> N) p, pw_guarded p = true ->
  forall ev tok s, e_pw ev = false ->
  o_db (snd (exec checksum ev tok s p)) = o_db s /\ o_sec (snd (exec checksum ev tok s p)) = o_sec s.
Proof. exact wrong_password_no_effect. Qed.
Print Assumptions C14_wrong_password_no_effect.

(** The table has at least one script for every method of the enumeration (the scan in
    checks/c14.py ties the enumeration to the [pub fn] list of [impl Owner]). *)
Theorem C14_table_complete : forall m, exists v, In (m, v) table.
Proof. exact table_complete. Qed.
Print Assumptions C14_table_complete.

(** Non-vacuity: the instance used by the correspondence run has a collision-free checksum;
    create_account_path on a masked wallet: right token writes, a token one bit off is
    refused and changes nothing, an existing label is reported before the mask is looked at;
    retrieve_txs without refresh never looks at the token; cancel_tx with the node down
    fails the same way for every token; everything fails on a closed wallet. *)
Example C14_checksum_instance : forall a b, id_checksum a = id_checksum b -> a = b.
Proof. exact id_checksum_inj. Qed.

Example C14_runs :
  map run_case
    [ mkCase M_create_account_path 0 true 0 true false false true [];
      mkCase M_create_account_path 0 true 3 true false false true [];
      mkCase M_create_account_path 0 true 1 true false false true [1];
      mkCase M_retrieve_txs 0 true 2 true false false true [];
      mkCase M_cancel_tx 0 true 4 true true false true [];
      mkCase M_cancel_tx 0 true 4 true false false true [];
      mkCase M_get_slatepack_secret_key 0 false 2 true false false true [];
      mkCase M_accounts 0 true 0 false false false true [] ]
  = [ [0; 1; 1]; [1; 11; 0; 0]; [1; 21; 0; 0]; [0; 0; 0]; [1; 21; 0; 0]; [1; 11; 0; 0];
      [1; 11; 0; 0]; [1; 21; 0; 0] ]%Z.
Proof. vm_compute. reflexivity. Qed.
