(** C15 — no key derivation path is ever used for two outputs.
    Statements only (proofs: theories/LedgerProofs.v). *)
From GW Require Import Ledger LedgerProofs Scan LedgerX LedgerXProofs ScanRepairProofs.

(** next_child commits the bump and returns the old index: the path it hands out was never
    recorded before (not in the output table, not promised in any context) whenever every
    recorded path lies below the counter ([Fresh]); and afterwards it lies below the counter. *)
Theorem C15_next_child_is_fresh : forall w w' k,
  Fresh w -> next_child w = (w', k) ->
  (forall m, get_out (w_outs w) k m = None)
  /\ (forall c k' m v, In c (w_ctxs w) -> In (k', m, v) (c_outs c) -> k' <> k)
  /\ key_below w' k.
Proof. exact next_child_fresh. Qed.
Print Assumptions C15_next_child_is_fresh.

(** [Fresh] holds in every reachable state: it holds initially and every operation of the
    model (receive, reserve, cancel, coinbase, refresh, initiate incl. late lock, finalize,
    account switch, expiry) preserves it; counters never decrease. Hence over any history no
    two outputs ever get the same path. *)
Theorem C15_fresh_invariant : forall ops, Fresh (run empty_wallet ops).
Proof. exact fresh_reachable. Qed.
Print Assumptions C15_fresh_invariant.

Theorem C15_counters_never_decrease : forall w op a,
  Fresh w -> lookup (w_child w) a <= lookup (w_child (fst (step w op))) a.
Proof. exact child_monotone. Qed.
Print Assumptions C15_counters_never_decrease.

(** the one exception: a coinbase re-request may name the still-unconfirmed candidate it
    replaces; any other named key gets a fresh path. *)
Theorem C15_coinbase_reuse_only_unconfirmed_candidate : forall w fees height key w' k,
  Fresh w -> coinbase w fees height key = (w', Ok k) ->
  (forall k0 m o, get_out (w_outs w) k0 m = Some o ->
     get_out (w_outs w') k0 m = Some o
     \/ (key = Some k0 /\ m = None /\ r_cb o = true /\ r_status o = Unconfirmed))
  /\ w_ctxs w' = w_ctxs w /\ w_log w' = w_log w.
Proof. exact coinbase_only_adds. Qed.
Print Assumptions C15_coinbase_reuse_only_unconfirmed_candidate.

(** every single operation preserves the invariant (the induction step of the above) *)
Theorem C15_step_preserves_fresh : forall w op,
  Fresh w -> Fresh (fst (step w op)) /\ child_le w (fst (step w op)).
Proof. exact step_fresh. Qed.
Print Assumptions C15_step_preserves_fresh.

(** non-vacuity: a history that allocates paths in two accounts; all recorded paths lie below
    the counters and are pairwise distinct. *)
Example C15_history :
  let w := run empty_wallet
    [OpCoinbase 0 1 None; OpReceive 1 5 0 None true; OpSetActive 1; OpReceive 2 7 0 (Some 0) true;
     OpCoinbase 0 2 (Some (0, 0)); OpCoinbase 0 3 (Some (0, 1))] in
  map r_key (w_outs w) = [(0, 0); (0, 1); (1, 0); (1, 1)] /\ w_child w = [(0, 2); (1, 2)].
Proof. vm_compute. split; reflexivity. Qed.

(** The invariant survives loss and recovery: in every state reachable through histories that
    also restore the wallet from its recovery phrase (a new database, then a scan), scan the
    existing wallet (with or without dropping pending transactions) and run the
    kernel-confirmation step, every recorded key — restored from the chain or not — lies below
    the next-child counter of its account path, so the next path handed out is beyond all of
    them. *)
Theorem C15_fresh_invariant_across_restore_and_scan : forall ops, Fresh (xrun empty_wallet ops).
Proof. exact xfresh_reachable. Qed.
Print Assumptions C15_fresh_invariant_across_restore_and_scan.

(** one scan, from ANY state satisfying the invariant *)
Theorem C15_scan_preserves_fresh : forall w chain del, Fresh w -> Fresh (scan_repair w chain del).
Proof. exact scan_repair_fresh. Qed.
Print Assumptions C15_scan_preserves_fresh.
