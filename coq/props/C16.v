(** C16 — scanning restores and repairs the wallet to the chain's truth, idempotently.
    Statements only (proofs: theories/ScanProofs.v). Which chain outputs belong to the seed
    (range-proof rewind) is an oracle: the list [chain] of the seed's outputs in the UTXO set. *)
From GW Require Import Scan ScanProofs ScanRepairProofs LedgerProofs LedgerX LedgerXProofs.

(** The PMMR paging loop of collect_chain_outputs, for EVERY batch size >= 1 the node may use
    and every start index: it terminates within one call per position and returns exactly the
    unspent leaves at positions start..size, in order, each once — no off-by-one at any batch
    boundary. ([data] is the node's leaf function; fuel = number of calls allowed.) *)
Theorem C16_paging_exact : forall (A : Type) (data : nat -> option A) fuel start size max acc,
  (1 <= max)%nat -> (1 <= start)%nat -> (1 <= fuel)%nat -> (size + 2 - start <= fuel)%nat ->
  collect data fuel start size max acc
  = Some (acc ++ leaves_from data (size + 1 - start) start).
Proof. exact collect_exact. Qed.
Print Assumptions C16_paging_exact.

(** Restore: scanning a wallet without output records (fresh wallet from the recovery phrase)
    yields exactly one Unspent record per output of the seed in the UTXO set — with its value,
    height, lock height (maturity), coinbase flag and PMMR index, filed under the account of
    its derivation path — and no other record. *)
Theorem C16_restore_exact : forall w chain del,
  w_outs w = [] -> NoDup (map ckey chain) ->
  let w' := scan_repair w chain del in
  (forall d, In d chain ->
     exists id, get_out (w_outs w') (co_key d) (Some (co_mmr d)) = Some (restored_rec d id))
  /\ (forall k m o, get_out (w_outs w') k m = Some o ->
        exists d id, In d chain /\ o = restored_rec d id).
Proof. exact scan_fresh_exact. Qed.
Print Assumptions C16_restore_exact.

(** ... the next path each account hands out lies beyond every path found on chain (C15) ... *)
Theorem C16_restore_child_index_beyond : forall w chain del d,
  w_outs w = [] -> NoDup (map ckey chain) -> In d chain ->
  snd (co_key d) < lookup (w_child (scan_repair w chain del)) (fst (co_key d)).
Proof. exact scan_fresh_child_beyond. Qed.
Print Assumptions C16_restore_child_index_beyond.

(** ... also when the restore was interrupted (a crash or a failing write between two of its
    commits) and is run again: from ANY wallet state a scan leaves every account's next path
    beyond every path of the seed found on chain. (Before the [fix:] of scan.rs the indices were
    restored only from the outputs restored by that very run, so the second run of an
    interrupted restore left them at 0: found by the crash enumeration of the restore.) *)
Theorem C16_scan_child_index_beyond_from_any_state : forall w chain del d,
  In d chain -> snd (co_key d) < lookup (w_child (scan_repair w chain del)) (fst (co_key d)).
Proof. exact scan_child_beyond_any. Qed.
Print Assumptions C16_scan_child_index_beyond_from_any_state.

(** ... and a second scan changes nothing. *)
Theorem C16_restore_idempotent : forall w chain del,
  w_outs w = [] -> NoDup (map ckey chain) ->
  let w' := scan_repair w chain del in
  scan_repair w' chain del = w'.
Proof. exact scan_fresh_idempotent. Qed.
Print Assumptions C16_restore_idempotent.

(** Repair, fixpoint form: a wallet in which every chain output of the seed is recorded and
    not marked Spent, whose next-child counters lie beyond every path on chain (and, when
    pending transactions are dropped, none is Locked and nothing is Unconfirmed) is left exactly
    as it is — a completed repair is stable. That a repair which
    KEEPS pending transactions reaches such a state from any wallet is C16_repair_converges
    below; for a repair that DROPS them (delete_unconfirmed) it is checked by the correspondence
    run and its second-scan oracle, not proved: the open finding C16-unconfirmed-on-chain (an
    Unconfirmed record whose commitment is on chain is dropped and re-created by the next scan)
    is a counterexample to the unrestricted statement. *)
Theorem C16_repair_partial_stable : forall w chain del,
  accidental (w_outs w) chain = [] -> missing (w_outs w) chain = [] ->
  (forall d, In d chain -> snd (co_key d) < lookup (w_child w) (fst (co_key d))) ->
  (del = true -> locked_on_chain (w_outs w) chain = []
                 /\ filter (fun o => status_eqb (r_status o) Unconfirmed) (w_outs w) = []) ->
  scan_repair w chain del = w.
Proof. exact scan_noop. Qed.
Print Assumptions C16_repair_partial_stable.

(** Repair, convergence: from ANY wallet whose table has distinct DB keys (every reachable
    state: C05_wf_reachable) — records wrongly marked Spent, outputs missing, stale records
    under the restored keys, in any combination — one scan that keeps pending transactions ends
    in a state where every chain output of the seed has a record, the record a scan looks at
    for it is not marked Spent, and a second scan changes nothing. Premise: no derivation path
    occurs twice among the seed's chain outputs (C15). *)
Theorem C16_repair_converges : forall w chain,
  WF w -> NoDup (map co_key chain) ->
  let w' := scan_repair w chain false in
  (forall d, In d chain -> exists o, find_match (w_outs w') d = Some o /\ r_status o <> Spent)
  /\ scan_repair w' chain false = w'.
Proof. exact scan_repairs_any_wallet. Qed.
Print Assumptions C16_repair_converges.

(** The premise of the convergence theorem holds in every state reachable through any history
    of wallet operations that also loses and restores the wallet (a new database, then a scan),
    scans it (with or without dropping pending transactions) and runs the kernel-confirmation
    step of update_wallet_state. *)
Theorem C16_table_wellformed_in_every_reachable_state : forall ops, WF (xrun empty_wallet ops).
Proof. exact xwf_reachable. Qed.
Print Assumptions C16_table_wellformed_in_every_reachable_state.

(** non-vacuity: paging 7 positions (leaves at 2, 3, 5, 7) with batches of 1, 2 and 1000;
    restoring two accounts' outputs that appear on chain out of derivation order. *)
Example C16_paging_example :
  let data := fun p => match p with 2 => Some 20 | 3 => Some 30 | 5 => Some 50 | 7 => Some 70 | _ => None end%nat in
  collect data 9 1 7 1 [] = Some [20; 30; 50; 70]%nat
  /\ collect data 9 1 7 2 [] = Some [20; 30; 50; 70]%nat
  /\ collect data 9 3 7 1000 [] = Some [30; 50; 70]%nat.
Proof. vm_compute. repeat split; reflexivity. Qed.

Example C16_restore_example :
  let chain := [mkCO (0, 1) 7 4 4 false 10; mkCO (1, 3) 60 5 8 true 12; mkCO (0, 0) 5 6 6 false 15] in
  let w := scan_repair empty_wallet chain false in
  map (fun o => (r_key o, r_value o, r_status o, r_root o)) (w_outs w)
  = [((0, 0), 5, Unspent, 0); ((0, 1), 7, Unspent, 0); ((1, 3), 60, Unspent, 1)]
  /\ w_child w = [(0, 2); (1, 4)].
Proof. vm_compute. split; reflexivity. Qed.

(** non-vacuity of the convergence theorem: a wallet that marked an on-chain output Spent and
    lost another one; one scan repairs both, the second scan is the identity. *)
Example C16_repair_example :
  let chain := [mkCO (0, 0) 5 6 6 false 15; mkCO (0, 1) 7 4 4 false 10] in
  let w := wallet_of [mkO 0 (0, 0) None 5 Spent 6 6 false None] [] [(0, 1)] [] [] 0 in
  WF w /\ NoDup (map co_key chain)
  /\ map (fun o => (r_key o, r_mmr o, r_status o)) (w_outs (scan_repair w chain false))
     = [((0, 0), None, Unspent); ((0, 1), Some 10, Unspent)]
  /\ scan_repair (scan_repair w chain false) chain false = scan_repair w chain false.
Proof.
  vm_compute. split; [repeat constructor; intros []|]. split; [|split; reflexivity].
  repeat constructor; cbn; intuition discriminate.
Qed.
