(** C17 — expired slates are refused and expired pending transactions are released.
    Statements only (proofs: theories/LedgerProofs.v, theories/ExpireProofs.v). *)
From GW Require Import Ledger LedgerProofs HeldProofs ExpireProofs.

(** The TTL test, for all heights and cutoffs in N (hence all of u64): refused exactly when
    a cutoff is present (non-zero) and the wallet's last observed height has reached it. *)
Theorem C17_check_ttl : forall w ttl,
  check_ttl w ttl = Err EExpired <-> (ttl <> 0 /\ ttl <= lookup (w_confh w) (w_active w)).
Proof. exact check_ttl_spec. Qed.
Print Assumptions C17_check_ttl.

(** receive: an expired slate is refused before anything is written. *)
Theorem C17_receive_expired_no_effect : forall w s a ttl d c,
  ttl <> 0 -> ttl <= lookup (w_confh w) (w_active w) ->
  receive w s a ttl d c = (w, Err EExpired).
Proof. exact receive_expired. Qed.
Print Assumptions C17_receive_expired_no_effect.

(** finalize: an expired reply is refused before anything is written (the context stays). *)
Theorem C17_finalize_expired_no_effect : forall w s ttl tip so c,
  ttl <> 0 -> ttl <= lookup (w_confh w) (w_active w) ->
  fst (finalize w s ttl tip so c) = w /\ is_ok (snd (finalize w s ttl tip so c)) = false.
Proof. exact finalize_expired. Qed.
Print Assumptions C17_finalize_expired_no_effect.

(** paying an invoice: an expired invoice slate is refused before the refresh, the selection
    or any write. *)
Theorem C17_process_invoice_expired_no_effect : forall w s ttl src p tip pr km,
  ttl <> 0 -> ttl <= lookup (w_confh w) (w_active w) ->
  process_invoice w s ttl src p tip pr km = (w, Err EExpired).
Proof. exact process_invoice_expired. Qed.
Print Assumptions C17_process_invoice_expired_no_effect.

(** finalizing an invoice (issuer side, Invoice2 reply): refused when expired, no effect. *)
Theorem C17_finalize_invoice_expired_no_effect : forall w s ttl c,
  ttl <> 0 -> ttl <= lookup (w_confh w) (w_active w) ->
  fst (step w (OpFinalizeInvoice s ttl c)) = w
  /\ snd (step w (OpFinalizeInvoice s ttl c)) <> [0%Z].
Proof. exact finalize_invoice_expired. Qed.
Print Assumptions C17_finalize_invoice_expired_no_effect.

(** ... and when it succeeds on a reply that carries a cutoff, the issuer's entry carries one
    from then on (its own if it had one, the reply's otherwise): the expiry step then treats
    it like the payer's entry (C17_refresh_cancels_every_due_entry). *)
Theorem C17_finalize_invoice_adopts_the_cutoff : forall w s ttl c w',
  finalize_invoice w s ttl c = (w', Ok tt) -> ttl <> 0 ->
  exists t t',
    find (fun t => optN_eqb (t_slate t) (Some s) && ttype_eqb (t_type t) TReceived) (w_log w) = Some t
    /\ get_tx (w_log w') (t_parent t) (t_id t) = Some t'
    /\ t_type t' = TReceived /\ t_conf t' = t_conf t
    /\ t_ttl t' = Some (match t_ttl t with Some e => e | None => ttl end).
Proof. exact finalize_invoice_adopts_cutoff. Qed.
Print Assumptions C17_finalize_invoice_adopts_the_cutoff.

(** a slate without a cutoff, or whose cutoff lies ahead, is never refused for that reason *)
Theorem C17_not_expired_not_refused : forall w s a ttl d c,
  (ttl = 0 \/ lookup (w_confh w) (w_active w) < ttl) ->
  snd (receive w s a ttl d c) <> Err EExpired.
Proof. exact receive_not_expired_reason. Qed.
Print Assumptions C17_not_expired_not_refused.

(** the expiry step of a refresh: an outstanding entry is touched only when it carries a
    cutoff the observed tip has reached, and then what happens is exactly cancel (C05). *)
Theorem C17_expiry_acts_only_when_due : forall tip w t,
  (t_ttl t = None \/ exists e, t_ttl t = Some e /\ tip < e) -> expire_one tip w t = w.
Proof. exact expire_one_acts_only_when_expired. Qed.
Print Assumptions C17_expiry_acts_only_when_due.

Theorem C17_expiry_is_cancel : forall tip w t e,
  t_ttl t = Some e -> e <= tip -> expire_one tip w t = fst (cancel w (Some (t_id t)) None).
Proof. exact expire_one_is_cancel. Qed.
Print Assumptions C17_expiry_is_cancel.

Theorem C17_nothing_due_nothing_cancelled : forall w tip,
  (forall t, In t (w_log w) -> t_parent t = w_active w -> outstanding t = true ->
     t_ttl t = None \/ exists e, t_ttl t = Some e /\ tip < e) ->
  expire w tip = w.
Proof. exact expire_nothing_due. Qed.
Print Assumptions C17_nothing_due_nothing_cancelled.

(** non-vacuity: a pending send with cutoff 7 is released by the expiry step at tip 7,
    not at tip 6. *)
Example C17_boundary :
  let w0 := fst (step (fst (step empty_wallet (OpCoinbase 0 1 None)))
                      (OpRefresh 0 false 5 [((0, 0), None, 1)] [])) in
  let wA := fst (step w0 (OpInitSend 1 None (mkParams 1000000000 false 5 1 500 1 true 0) false)) in
  let wL := fst (step wA (OpLock 1 7 5 true)) in
  expire wL 6 = wL
  /\ map sv (w_outs (expire wL 7)) = map sv (w_outs w0)
  /\ snd (step (fst (step wL (OpRefresh 0 false 7 [((0, 0), None, 1)] []))) (OpReceive 9 5 7 None true))
     = [1%Z; 7%Z].
Proof. vm_compute. repeat split; reflexivity. Qed.

(** "... with any number of other pending transactions": in every state reachable by any
    sequence of standard-flow operations, the expiry step of a refresh at height [tip] cancels
    EVERY outstanding entry of the active account whose cutoff [tip] has reached — wherever it
    stands among the other pending entries — and no output of the account stays reserved for it
    ([due tip t]: the entry carries a cutoff e with e <= tip; [cancelled t]: the same entry with
    its type turned into the cancelled one; [expirable t]: outstanding — unconfirmed sent, received
    or reverted — and not a reverted payment, which is not pending any more: C18). *)
Theorem C17_refresh_cancels_every_due_entry : forall ops tip t,
  forallb std_op ops = true ->
  let w := run empty_wallet ops in
  In t (w_log w) -> t_parent t = w_active w -> expirable t = true -> due tip t = true ->
  get_tx (w_log (expire w tip)) (t_parent t) (t_id t) = Some (cancelled t)
  /\ forall o, In o (w_outs (expire w tip)) -> r_root o = w_active w -> r_tx o = Some (t_id t) ->
               r_status o <> Locked.
Proof. exact expire_complete_reachable. Qed.
Print Assumptions C17_refresh_cancels_every_due_entry.

(** ... and is exact: an entry of another account, an entry that is not outstanding (confirmed,
    cancelled, coinbase), one without a cutoff or whose cutoff lies ahead is left as it is. *)
Theorem C17_refresh_cancels_nothing_else : forall ops tip t,
  forallb std_op ops = true ->
  let w := run empty_wallet ops in
  In t (w_log w) ->
  (t_parent t <> w_active w \/ expirable t = false \/ due tip t = false) ->
  get_tx (w_log (expire w tip)) (t_parent t) (t_id t) = Some t.
Proof. exact expire_exact_reachable. Qed.
Print Assumptions C17_refresh_cancels_nothing_else.

(** non-vacuity: two pending sends with cutoffs 7 and 9 and a third without one; at tip 8 the
    expiry step cancels the first only, at tip 9 the first two, never the third. *)
Example C17_several_pending :
  let mine := fun w h => fst (step w (OpCoinbase 0 h None)) in
  let w0 := fst (step (mine (mine (mine empty_wallet 1) 2) 3)
                      (OpRefresh 0 false 8 [((0, 0), None, 1); ((0, 1), None, 2); ((0, 2), None, 3)] [])) in
  let send := fun w s ttl =>
    fst (step (fst (step w (OpInitSend s None (mkParams 1000000000 false 8 1 1 1 false 0) false)))
              (OpLock s ttl 6 true)) in
  let w3 := send (send (send w0 1 7) 2 9) 3 0 in
  map t_type (filter (fun t => optN_eqb (t_slate t) (Some 1) || optN_eqb (t_slate t) (Some 2)
                               || optN_eqb (t_slate t) (Some 3)) (w_log w3)) = [TSent; TSent; TSent]
  /\ map t_type (filter (fun t => match t_slate t with Some _ => true | None => false end) (w_log (expire w3 8)))
     = [TSentCancelled; TSent; TSent]
  /\ map t_type (filter (fun t => match t_slate t with Some _ => true | None => false end) (w_log (expire w3 9)))
     = [TSentCancelled; TSentCancelled; TSent].
Proof. vm_compute. repeat split; reflexivity. Qed.
