(** C18 — a reorganised-away incoming payment is found reverted, never spendable.
    Statements only (proofs: theories/LedgerProofs.v, theories/SelectProofs.v, theories/ExpireProofs.v). What the node
    reports after the reorganisation (which outputs are in its UTXO set, which kernels it no
    longer has) is an input of the model; the guard "tip not below the last confirmed height"
    is the code's own (a shorter fork is ignored), hence "longer fork". *)
From GW Require Import Ledger LedgerProofs Select SelectProofs HeldProofs ExpireProofs LedgerX LedgerXProofs.

(** Which log entries the reverted-kernel rule catches: exactly the received entries with a
    stored kernel that the node no longer has, one of whose outputs — recorded Unspent, i.e.
    previously confirmed — has vanished from the UTXO set. *)
Theorem C18_reverted_set : forall w parent qs p km id,
  existsb (N.eqb id) (reverted_ids w parent qs p km) = true <->
  exists t, In t (w_log w) /\ t_id t = id /\ t_parent t = parent /\ t_type t = TReceived
            /\ t_excess t = true /\ In id km
            /\ exists o, In o qs /\ r_tx o = Some id /\ r_status o = Unspent
                         /\ present_height p (r_key o) (r_mmr o) = None.
Proof. exact reverted_ids_spec. Qed.
Print Assumptions C18_reverted_set.

(** After the refresh every such entry is TxReverted and unconfirmed ... *)
Theorem C18_entry_becomes_reverted : forall w parent all tip p km t,
  lookup (w_confh w) parent <= tip ->
  In t (w_log (refresh_apply w parent all tip p km)) -> t_parent t = parent ->
  existsb (N.eqb (t_id t)) (reverted_ids w parent (refresh_set w parent all) p km) = true ->
  t_type t = TReverted /\ t_conf t = false.
Proof. exact refresh_marks_reverted. Qed.
Print Assumptions C18_entry_becomes_reverted.

(** ... and every queried record gets the status the rule dictates (C04_refresh_exact with
    [refreshed_status]): a vanished Unspent non-coinbase output of a reverted entry becomes
    Reverted; a vanished coinbase (orphaned block) or any other vanished Unspent/Locked output
    becomes Spent. *)
Theorem C18_output_status_after_reorg : forall p rev o,
  present_height p (r_key o) (r_mmr o) = None -> r_status o = Unspent ->
  refreshed_status p rev o
  = if negb (r_cb o) && match r_tx o with Some i => existsb (N.eqb i) rev | None => false end
    then Reverted else Spent.
Proof.
  intros p rev o Hp Hs. unfold refreshed_status. rewrite Hp, Hs. destruct (_ && _); reflexivity.
Qed.
Print Assumptions C18_output_status_after_reorg.

(** A Reverted output is never counted as spendable nor in the total, and never selected. *)
Theorem C18_reverted_not_counted : forall o h minconf,
  r_status o = Reverted -> bucket_of o h minconf = BReverted.
Proof. exact reverted_not_counted. Qed.
Print Assumptions C18_reverted_not_counted.

Theorem C18_reverted_never_selected : forall (o : out) (h minconf : N),
  eligible o h minconf = true -> o_status o <> Reverted.
Proof. intros o h mc H. apply eligible_sound in H. tauto. Qed.
Print Assumptions C18_reverted_never_selected.

(** Re-confirmation: when the transaction is mined again and a refresh finds the reverted
    output in the UTXO set, the output is Unspent again with its value, and its log entry is
    confirmed and no longer TxReverted (it is TxReceived again). *)
Theorem C18_reconfirmed : forall w parent all tip p km q id h,
  WF w -> lookup (w_confh w) parent <= tip ->
  In q (refresh_set w parent all) ->
  r_cb q = false -> (r_status q = Unconfirmed \/ r_status q = Reverted) -> r_tx q = Some id ->
  present_height p (r_key q) (r_mmr q) = Some h ->
  get_tx (w_log w) parent id <> None ->
  existsb (N.eqb id) (reverted_ids w parent (refresh_set w parent all) p km) = false ->
  let w' := refresh_apply w parent all tip p km in
  (exists o', get_out (w_outs w') (r_key q) (r_mmr q) = Some o' /\ r_status o' = Unspent
              /\ r_value o' = r_value q)
  /\ settled_at (w_log w') parent id.
Proof. exact refresh_reconfirms. Qed.
Print Assumptions C18_reconfirmed.

(** A payment reported reverted stays reported so until it is mined again: in every state
    reachable by standard-flow operations the expiry step of the wallet's periodic update leaves
    a TxReverted entry exactly as it is, whatever cutoff its slate carried (before the [fix:] the
    step cancelled it and deleted its output: when the payment was mined again the funds came
    back under a second entry) ... *)
Theorem C18_expiry_leaves_reverted_payment : forall ops tip t,
  forallb std_op ops = true ->
  let w := run empty_wallet ops in
  In t (w_log w) -> t_type t = TReverted ->
  get_tx (w_log (expire w tip)) (t_parent t) (t_id t) = Some t.
Proof. exact expire_keeps_reverted. Qed.
Print Assumptions C18_expiry_leaves_reverted_payment.

(** ... and the kernel step never marks it confirmed: a reverted payment comes back only
    through its output ([C18_reconfirmed]), so it can never end up "reverted and confirmed"
    with its output stuck Reverted (a block arriving between the output query and the kernel
    query of one refresh did that before the [fix:]). *)
Theorem C18_kernel_step_leaves_reverted_payment : forall w parent missing t,
  In t (w_log w) -> t_type t = TReverted ->
  In t (w_log (kernel_confirm w parent missing)).
Proof. exact kernel_confirm_keeps_reverted. Qed.
Print Assumptions C18_kernel_step_leaves_reverted_payment.

(** non-vacuity: receive, confirm, reorganise away (output and kernel gone), look again
    (reverted, not counted), mined again (confirmed, spendable), flip-flop once more. *)
Example C18_flip_flop :
  let w0 := fst (step empty_wallet (OpReceive 1 5000000000 0 None true)) in
  let w1 := refresh w0 0 true 3 [((0, 0), None, 3)] [] in
  let w2 := refresh w1 0 true 5 [] [0] in
  let w3 := refresh w2 0 true 7 [((0, 0), None, 7)] [] in
  let w4 := refresh w3 0 true 9 [] [0] in
  map r_status (w_outs w1) = [Unspent] /\ map t_type (w_log w1) = [TReceived]
  /\ map r_status (w_outs w2) = [Reverted] /\ map t_type (w_log w2) = [TReverted]
  /\ map t_conf (w_log w2) = [false]
  /\ i_spendable (retrieve_info w2 0 1) = 0 /\ i_total (retrieve_info w2 0 1) = 0
  /\ i_reverted (retrieve_info w2 0 1) = 5000000000
  /\ map r_status (w_outs w3) = [Unspent] /\ map t_type (w_log w3) = [TReceived]
  /\ map t_conf (w_log w3) = [true] /\ i_spendable (retrieve_info w3 0 1) = 5000000000
  /\ map r_status (w_outs w4) = [Reverted].
Proof. vm_compute. repeat split; reflexivity. Qed.
