(** C19 — transaction-log queries return exactly what was asked for.
    Statements only; proofs are in theories/QueryProofs.v. The model [retrieve_txs] /
    [owner_retrieve_txs] (theories/Query.v) is tied to libwallet's updater::retrieve_txs,
    apply_advanced_tx_list_filtering and owner::retrieve_txs by the correspondence run of
    ./check C19 (real LMDB backend, synthetic logs). [parent] is the account filter the
    caller passes ([Some active] from the owner API); [o] is the outstanding_only argument,
    which the advanced path does not read. Logs, queries, ids, amounts and instants are
    unbounded. This file's SHA-256 is pinned in /verif/pins/C19.sha256. *)
From GW Require Import Query QueryProofs.
From Coq Require Import Sorting.Sorted Sorting.Permutation.

(** Data for the non-vacuity examples: four entries, two accounts, equal creation times. *)
Definition ex_log : list entry :=
  [ mkEntry 0 0 ConfirmedCoinbase true 60 0 5%Z (Some 6%Z) None;
    mkEntry 0 1 TxSent false 10 30 7%Z None (Some 1);
    mkEntry 0 2 TxReceived true 20 0 7%Z (Some 8%Z) (Some 2);
    mkEntry 1 0 TxReceived true 5 0 4%Z (Some 9%Z) (Some 1) ].
Definition q_none : query :=
  mkQuery None None None None None None None None None None None None None None None None None None.
Definition ex_q : query :=   (* id >= 1, created no later than 7, newest first, at most 5 *)
  mkQuery (Some 1) None (Some 5) None None None None None None None None None None (Some 7%Z) None None
          (Some SCreationTimestamp) (Some Desc).

(** The code's chain of sixteen filters, sort, reversal and truncation is the
    specification: take limit (direction (stable sort by key (filter (all supplied
    criteria of the requested account)))). *)
Theorem C19_model_is_spec : forall (parent : option N) (q : query) (o : bool) (log : list entry),
  retrieve_txs None None (Some q) parent o log = spec_query parent q log.
Proof. exact retrieve_txs_eq_spec. Qed.
Print Assumptions C19_model_is_spec.
Example C19_model_is_spec_nonvacuous :
  map e_id (retrieve_txs None None (Some ex_q) (Some 0) false ex_log) = [2; 1].
Proof. reflexivity. Qed.

(** The boolean conjunction used by the specification reads as documented: every clause
    is conditional on its field being supplied, bounds are inclusive. *)
Theorem C19_criteria_reading : forall (parent : option N) (q : query) (e : entry),
  matches parent q e = true <-> Satisfies parent q e.
Proof. exact matches_iff. Qed.
Print Assumptions C19_criteria_reading.
Example C19_criteria_reading_nonvacuous :
  map (matches (Some 0) ex_q) ex_log = [false; true; true; false].
Proof. reflexivity. Qed.

(** Everything returned is an entry of the log, belongs to the requested account and
    satisfies every supplied criterion. *)
Theorem C19_sound : forall (parent : option N) (q : query) (o : bool) (log : list entry) (e : entry),
  In e (retrieve_txs None None (Some q) parent o log) -> In e log /\ Satisfies parent q e.
Proof. exact adv_sound. Qed.
Print Assumptions C19_sound.

(** Without a limit nothing that was asked for is left out ... *)
Theorem C19_complete : forall (parent : option N) (q : query) (o : bool) (log : list entry) (e : entry),
  q_limit q = None -> In e log -> Satisfies parent q e ->
  In e (retrieve_txs None None (Some q) parent o log).
Proof. exact adv_complete. Qed.
Print Assumptions C19_complete.

(** ... and the answer is exactly the matching entries, each as often as it is in the log. *)
Theorem C19_exact_unlimited : forall (parent : option N) (q : query) (o : bool) (log : list entry),
  q_limit q = None ->
  Permutation (retrieve_txs None None (Some q) parent o log) (filter (matches parent q) log).
Proof. exact adv_exact_unlimited. Qed.
Print Assumptions C19_exact_unlimited.
Example C19_exact_unlimited_nonvacuous :
  map e_id (retrieve_txs None None (Some (unlimited ex_q)) (Some 0) false ex_log) = [2; 1]
  /\ map e_id (filter (matches (Some 0) (unlimited ex_q)) ex_log) = [1; 2].
Proof. split; reflexivity. Qed.

(** With limit n the answer is the first n entries of the unlimited answer: never longer
    than n, and as long as n allows. *)
Theorem C19_limit : forall (parent : option N) (q : query) (o : bool) (log : list entry) (n : N),
  q_limit q = Some n ->
  retrieve_txs None None (Some q) parent o log
    = firstn (N.to_nat n) (retrieve_txs None None (Some (unlimited q)) parent o log)
  /\ lenN (retrieve_txs None None (Some q) parent o log) <= n
  /\ length (retrieve_txs None None (Some q) parent o log)
     = Nat.min (N.to_nat n) (length (filter (matches parent q) log)).
Proof. exact adv_limit. Qed.
Print Assumptions C19_limit.
Example C19_limit_nonvacuous :
  map e_id (retrieve_txs None None
              (Some (mkQuery None None (Some 2) None None None None None None None None None None None None None
                             None None)) (Some 0) false ex_log) = [0; 1].
Proof. reflexivity. Qed.

(** The answer is sorted by the requested field (default: id) in the requested direction
    (default: ascending); entries without a confirmation time sort before all others. *)
Theorem C19_sorted : forall (parent : option N) (q : query) (o : bool) (log : list entry),
  StronglySorted (in_order (field_of q) (order_of q)) (retrieve_txs None None (Some q) parent o log).
Proof. exact adv_sorted. Qed.
Print Assumptions C19_sorted.
Example C19_sorted_nonvacuous :
  map e_id (retrieve_txs None None
              (Some (mkQuery None None None None None None None None None None None None None None None None
                             (Some SAmountCredited) (Some Desc))) (Some 0) false ex_log) = [0; 2; 1]
  /\ map e_id (retrieve_txs None None
                 (Some (mkQuery None None None None None None None None None None None None None None None None
                                (Some SConfirmationTimestamp) None)) (Some 0) false ex_log) = [1; 0; 2].
Proof. split; reflexivity. Qed.

(** Entries of equal sort key keep their log order (ascending) or its reverse (descending). *)
Theorem C19_stable : forall (parent : option N) (q : query) (o : bool) (log : list entry) (k : skey),
  q_limit q = None ->
  filter (fun e => skey_eqb (sort_key (field_of q) e) k) (retrieve_txs None None (Some q) parent o log)
  = direction (order_of q)
      (filter (fun e => skey_eqb (sort_key (field_of q) e) k) (filter (matches parent q) log)).
Proof. exact adv_stable. Qed.
Print Assumptions C19_stable.

(** Omitted criteria do not filter: a query that supplies no criterion (flags omitted or
    false, bounds omitted) returns every entry of the requested account ... *)
Theorem C19_omitted_do_not_filter :
  forall (parent : option N) (q : query) (o : bool) (log : list entry) (e : entry),
  no_criteria q -> q_limit q = None ->
  (In e (retrieve_txs None None (Some q) parent o log)
   <-> In e log /\ (forall k, parent = Some k -> e_parent e = k)).
Proof. exact adv_no_criteria. Qed.
Print Assumptions C19_omitted_do_not_filter.
Example C19_omitted_do_not_filter_nonvacuous :
  no_criteria q_none
  /\ map e_id (retrieve_txs None None (Some q_none) (Some 0) false ex_log) = [0; 1; 2]
  /\ length (retrieve_txs None None (Some q_none) None false ex_log) = 4%nat.
Proof. unfold no_criteria, flag_off. cbn. intuition. Qed.

(** ... and, field by field, omitting (or switching off) criteria never removes an entry
    from the answer. *)
Theorem C19_omitting_enlarges :
  forall (parent : option N) (q : query) (o : bool) (log : list entry) (q' : query) (e : entry),
  weaker q' q -> q_limit q' = None ->
  In e (retrieve_txs None None (Some q) parent o log) ->
  In e (retrieve_txs None None (Some q') parent o log).
Proof. exact adv_weaker. Qed.
Print Assumptions C19_omitting_enlarges.

(** Look-ups by log id / slate id (query arguments, if given as well, are ignored): exactly
    the matching entries of the active account, with multiplicities, oldest first. *)
Theorem C19_lookup_by_id : forall (acct i : N) (qa : option query) (log : list entry) (e : entry),
  In e (retrieve_txs (Some i) None qa (Some acct) false log)
  <-> In e log /\ e_parent e = acct /\ e_id e = i.
Proof. exact lookup_by_id. Qed.
Print Assumptions C19_lookup_by_id.
Example C19_lookup_by_id_nonvacuous :
  map e_parent (retrieve_txs (Some 0) None (Some ex_q) (Some 1) false ex_log) = [1].
Proof. reflexivity. Qed.

Theorem C19_lookup_by_slate : forall (acct s : N) (qa : option query) (log : list entry) (e : entry),
  In e (retrieve_txs None (Some s) qa (Some acct) false log)
  <-> In e log /\ e_parent e = acct /\ e_slate e = Some s.
Proof. exact lookup_by_slate. Qed.
Print Assumptions C19_lookup_by_slate.
Example C19_lookup_by_slate_nonvacuous :
  map e_id (retrieve_txs None (Some 1) None (Some 0) false ex_log) = [1].
Proof. reflexivity. Qed.

Theorem C19_lookup_counts : forall (acct i s : N) (qa : option query) (log : list entry),
  Permutation (retrieve_txs (Some i) None qa (Some acct) false log)
              (filter (fun e => (e_parent e =? acct) && (e_id e =? i)) log)
  /\ Permutation (retrieve_txs None (Some s) qa (Some acct) false log)
                 (filter (fun e => (e_parent e =? acct) && opt_N_eqb (e_slate e) (Some s)) log).
Proof. exact lookup_counts. Qed.
Print Assumptions C19_lookup_counts.

(** The legacy path in general (id and/or slate id and/or outstanding-only, any account filter). *)
Theorem C19_legacy_exact :
  forall (tx_id slate : option N) (qa : option query) (parent : option N) (o : bool)
         (log : list entry) (e : entry),
  legacy_path tx_id slate qa ->
  (In e (retrieve_txs tx_id slate qa parent o log)
   <-> In e log /\ LegacySatisfies tx_id slate parent o e)
  /\ Permutation (retrieve_txs tx_id slate qa parent o log)
                 (filter (legacy_filter tx_id slate parent o) log)
  /\ StronglySorted (key_le SCreationTimestamp) (retrieve_txs tx_id slate qa parent o log).
Proof. exact legacy_all. Qed.
Print Assumptions C19_legacy_exact.

(** A query never fails, and the owner API asks for the wallet's active account. *)
Theorem C19_total :
  forall (active : N) (tx_id slate : option N) (qa : option query) (log : list entry),
  owner_retrieve_txs active tx_id slate qa log
  = Ok (retrieve_txs tx_id slate qa (Some active) false log).
Proof. exact owner_is_active_account. Qed.
Print Assumptions C19_total.
