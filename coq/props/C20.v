(** C20 — background refresh never clobbers concurrent wallet operations.
    Statements only; proofs are in theories/SchedProofs.v, the model in theories/Sched.v.

    Model: a thread is a state machine whose steps are exactly the critical sections of the
    Rust code ([wallet_lock!] acquisitions of update_wallet_state / update_txs_via_kernel /
    scan / cancel_tx; one section for an api::Owner / api::Foreign call), each followed by
    the node calls made before the next acquisition; [run m sched c] executes a schedule
    (a list of thread ids) from configuration [c] = (thread-local states, wallet + node +
    slate exchange state). [m] selects the write-back section of update_txs_via_kernel:
    [Fresh] = the code after the C20 fix commit, [Stale] = before. The model is tied to
    /repo by ./check C20: the real code runs under a cooperative scheduler on every
    schedule and must end in exactly the state (and step counts, results) the model
    predicts. This file's SHA-256 is pinned in /verif/pins/C20.sha256. *)
From GW Require Import Select Sched SchedProofs.
From Coq Require Import Permutation.

(** (1) Conflict-serializability. [trace_fp] lists, for every step of the schedule, the
    thread and the footprint (locations read, locations written) of the section it executes;
    [ordered rank T] says that whenever a step of a thread that comes later in the serial
    order [rank] runs before a step of a thread that comes earlier, the two sections are
    independent (neither writes what the other reads or writes). Then the schedule ends in
    exactly the configuration (shared state AND every thread's local state, hence every
    result) of the serial schedule [sort_by rank sched], which runs the same steps thread
    by thread. Holds for both variants of the write-back and any initial configuration. *)
Theorem C20_serializable_if_disjoint :
  forall (m : wbmode) (rank : N -> N) (sched : list N) (c : config),
    (forall a b, rank a = rank b -> a = b) ->
    ordered rank (trace_fp m sched c) ->
    run m (sort_by rank sched) c = run m sched c
    /\ serialb (sort_by rank sched) = true
    /\ Permutation sched (sort_by rank sched).
Proof. exact serializable_if_disjoint. Qed.
Print Assumptions C20_serializable_if_disjoint.

(** non-vacuity: a foreign receive landing between the refresh's first sections is ordered
    for the serial order "refresh first" (and really is interleaved); the stale-write
    witness below is not ordered for either serial order of its two wallet threads *)
Example C20_ordered_example :
  let c := start scen_recv_cpfin_state scen_recv_cpfin_threads in
  ordered (fun t => t) (trace_fp Fresh [0; 1; 0; 2] c)
  /\ sort_by (fun t => t) [0; 1; 0; 2] = [0; 0; 1; 2]
  /\ orderedb (fun t => t) (trace_fp Fresh w_stale c_recv_cancel) = false
  /\ orderedb (fun t => 2 - t) (trace_fp Fresh w_stale c_recv_cancel) = false.
Proof.
  cbv zeta. split; [apply orderedb_spec; vm_compute; reflexivity|].
  split; [reflexivity|]. split; vm_compute; reflexivity.
Qed.

(** the footprints used in (1) are sound for the model: a step changes nothing outside its
    write set, and its effect on the thread and on its write set is a function of its read
    set alone *)
Theorem C20_footprints_sound :
  forall (m : wbmode) (l : local) (s s' : state),
    (forall x, memL x (snd (fp l)) = false -> eq_on x (snd (step m l s)) s)
    /\ ((forall x, memL x (fst (fp l)) = true -> eq_on x s s') ->
        fst (step m l s) = fst (step m l s')
        /\ forall x, memL x (snd (fp l)) = true ->
                     eq_on x (snd (step m l s)) (snd (step m l s'))).
Proof. exact footprints_sound. Qed.
Print Assumptions C20_footprints_sound.

(** (2) No deadlock: with the single non-re-entrant wallet lock made explicit (a thread
    acquires it, its section runs, it releases it; a section is a function and cannot
    acquire), every reachable lock configuration is either finished (lock free, every
    thread done) or can take a step. *)
Theorem C20_no_deadlock :
  forall (m : wbmode) (c0 : config) (lc : lconfig),
    lreach m c0 lc ->
    (lk_holder lc = None /\ alive (lk_cfg lc) = []) \/ exists lc', lstep m lc lc'.
Proof. exact no_deadlock. Qed.
Print Assumptions C20_no_deadlock.

Example C20_no_deadlock_example :
  lreach Fresh c_recv_cancel (mkL (Some 1) c_recv_cancel)
  /\ alive c_recv_cancel = [0; 1; 2].
Proof.
  split; [|vm_compute; reflexivity].
  eapply lreachS; [apply lreach0|]. apply Acquire. vm_compute. reflexivity.
Qed.

(** (3a) The unrestricted statement is FALSE for the code before the fix: in the scenario
    "receiver; refresh || cancel_tx || counterparty finalizes, block mined" there is a
    schedule with one preemption and none of the recorded shapes after which the entry that
    cancel_tx (returning Ok) had cancelled is TxReceived and confirmed again, and whose
    final observation (wallet state the property names + operation results) is reached by
    no serial execution (zero preemptions, environment events anywhere). *)
Theorem C20_stale_writeback_refuted :
  exists sched,
    valid_sched Stale 1 None c_recv_cancel sched
    /\ known (trace Stale sched c_recv_cancel) = false
    /\ clobbered (run Stale sched c_recv_cancel) = true
    /\ forall sched', valid_sched Stale 0 None c_recv_cancel sched' -> (length sched' <= 200)%nat ->
                      obs_eqb (obs (run Stale sched c_recv_cancel))
                              (obs (run Stale sched' c_recv_cancel)) = false.
Proof. exact stale_writeback_refuted. Qed.
Print Assumptions C20_stale_writeback_refuted.

(** after the fix the same schedule is serializable *)
Example C20_fixed_witness_ok :
  valid_sched Fresh 1 None c_recv_cancel w_stale
  /\ clobbered (run Fresh w_stale c_recv_cancel) = false
  /\ exists sched', valid_sched Fresh 0 None c_recv_cancel sched'
                    /\ obs_eqb (obs (run Fresh w_stale c_recv_cancel))
                               (obs (run Fresh sched' c_recv_cancel)) = true.
Proof. exact fresh_same_schedule_ok. Qed.

(** (3b) After the fix, for ANY thread state and ANY wallet state, the write-back section
    changes nothing but the log, and in the log nothing but the confirmation flag of an
    entry that is outstanding in the CURRENT log: the recorded effects of an operation
    that completed are never overwritten with stale data by this section. *)
Theorem C20_fresh_writeback_safe :
  forall (l : local) (s : state),
    l_pc l = P_U7 ->
    let s' := snd (step Fresh l s) in
    st_outs s' = st_outs s /\ st_ctxs s' = st_ctxs s /\ st_child s' = st_child s
    /\ forall id,
        find_entry id (st_log s') = find_entry id (st_log s)
        \/ exists cur, find_entry id (st_log s) = Some cur /\ outstanding cur = true
                       /\ find_entry id (st_log s') = Some (set_conf cur true).
Proof. exact fresh_writeback_safe. Qed.
Print Assumptions C20_fresh_writeback_safe.

(** (3c) The unrestricted statement for the code after the fix, on the scenario instances
    [bounded_scenarios] (initial states captured from the real wallets): every complete
    schedule within the scenario's preemption bound (unbounded where the other threads are
    single sections) either has one of the recorded shapes [known] (open findings: two
    overlapping runs of the refresh body) or ends in the observation of a serial execution. *)
Theorem C20_unrestricted_bounded :
  forall c0 b, In (c0, b) bounded_scenarios ->
  forall sched, valid_sched Fresh b None c0 sched -> (length sched <= 200)%nat ->
    known (trace Fresh sched c0) = true
    \/ exists sched', valid_sched Fresh 0 None c0 sched'
                      /\ obs_eqb (obs (run Fresh sched c0)) (obs (run Fresh sched' c0)) = true.
Proof. exact bounded_unrestricted. Qed.
Print Assumptions C20_unrestricted_bounded.

(** (3d) Each recorded shape is a genuine violation in the model (so the exclusion in (3c)
    is not vacuous, and the shapes stay tied to real non-serializable schedules). *)
Theorem C20_known_genuine :
  (valid_sched Fresh 2 None c_send_nochange_cancel w_K1
   /\ known_K1 (trace Fresh w_K1 c_send_nochange_cancel) = true
   /\ forall s', valid_sched Fresh 0 None c_send_nochange_cancel s' -> (length s' <= 200)%nat ->
        obs_eqb (obs (run Fresh w_K1 c_send_nochange_cancel))
                (obs (run Fresh s' c_send_nochange_cancel)) = false)
  /\ (valid_sched Fresh 2 None c_send_nochange_cancel w_K2
      /\ known_K2 (trace Fresh w_K2 c_send_nochange_cancel) = true
      /\ forall s', valid_sched Fresh 0 None c_send_nochange_cancel s' -> (length s' <= 200)%nat ->
           obs_eqb (obs (run Fresh w_K2 c_send_nochange_cancel))
                   (obs (run Fresh s' c_send_nochange_cancel)) = false)
  /\ (valid_sched Fresh 1 None c_restore_two_refresh w_K3
      /\ known_K3 (trace Fresh w_K3 c_restore_two_refresh) = true
      /\ forall s', valid_sched Fresh 0 None c_restore_two_refresh s' -> (length s' <= 200)%nat ->
           obs_eqb (obs (run Fresh w_K3 c_restore_two_refresh))
                   (obs (run Fresh s' c_restore_two_refresh)) = false).
Proof. exact known_genuine. Qed.
Print Assumptions C20_known_genuine.
