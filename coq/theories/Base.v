(** Base definitions shared by every model: the three-valued result type, the error
    and panic classes (their numbers are the wire format of the correspondence
    harness, see harness/src/lib.rs [err_class]), u64 helpers on [N]. No proofs about
    the models live here (only small arithmetic facts). *)
From Coq Require Export List NArith ZArith Lia Bool.
Export ListNotations.
#[global] Open Scope N_scope.

Arguments N.add : simpl never.
Arguments N.sub : simpl never.
Arguments N.mul : simpl never.
Arguments N.div : simpl never.
Arguments N.modulo : simpl never.
Arguments N.eqb : simpl never.
Arguments N.ltb : simpl never.
Arguments N.leb : simpl never.
Arguments N.min : simpl never.
Arguments N.max : simpl never.
Arguments N.pow : simpl never.

Inductive err :=
| ENotEnoughFunds | EGeneric | EFee | ESlateState | EAlreadyReceived | EWasCancelled
| EExpired | ENoContext | ENotFound | ENotCancellable | EInvalidMask | ENoKeychain
| EDeser | EBadArmor | EBadCheck | EPaymentProof | ECrypto | EIO | ENode | EOutOfFuel
| EOther.

Inductive panic :=
| PDivZero | PRemZero | PAddOverflow | PSubOverflow | PMulOverflow | PSliceOOB
| PUnwrap | PUnreachable | PIndexOOB.

Inductive result (A : Type) :=
| Ok (a : A) | Err (e : err) | Panic (p : panic).
Arguments Ok {A} a.
Arguments Err {A} e.
Arguments Panic {A} p.

Definition bind {A B} (r : result A) (f : A -> result B) : result B :=
  match r with Ok a => f a | Err e => Err e | Panic p => Panic p end.
Notation "'let*' x ':=' r 'in' k" := (bind r (fun x => k))
  (at level 200, x pattern, r at level 100, k at level 200).

Definition is_panic {A} (r : result A) : bool :=
  match r with Panic _ => true | _ => false end.
Definition is_ok {A} (r : result A) : bool :=
  match r with Ok _ => true | _ => false end.

Definition err_code (e : err) : Z :=
  match e with
  | ENotEnoughFunds => 1 | EGeneric => 2 | EFee => 3 | ESlateState => 4
  | EAlreadyReceived => 5 | EWasCancelled => 6 | EExpired => 7 | ENoContext => 8
  | ENotFound => 9 | ENotCancellable => 10 | EInvalidMask => 11 | ENoKeychain => 12
  | EDeser => 13 | EBadArmor => 14 | EBadCheck => 15 | EPaymentProof => 16
  | ECrypto => 17 | EIO => 18 | ENode => 19 | EOutOfFuel => 20 | EOther => 21
  end%Z.

(** u64 *)
Definition U64MAX : N := 18446744073709551615.
Definition u64 (n : N) : Prop := n <= U64MAX.
Definition sat_add (a b : N) : N := N.min (a + b) U64MAX.
Definition sat_mul (a b : N) : N := N.min (a * b) U64MAX.
Definition checked_add (a b : N) : option N :=
  if a + b <=? U64MAX then Some (a + b) else None.
Definition checked_sub (a b : N) : option N :=
  if b <=? a then Some (a - b) else None.

(** [u64_mul]: plain [*] on u64 — overflow is a panic in a build with overflow checks
    (the harness build); the theorems that use it carry the hypotheses that exclude it. *)
Definition u64_mul (a b : N) : result N :=
  if a * b <=? U64MAX then Ok (a * b) else Panic PMulOverflow.

Definition opt_to_res {A} (o : option A) (e : err) : result A :=
  match o with Some a => Ok a | None => Err e end.

(** list helpers *)
Fixpoint sumN (l : list N) : N :=
  match l with [] => 0 | x :: r => x + sumN r end.

Definition lenN {A} (l : list A) : N := N.of_nat (length l).

Fixpoint first_some {A B} (f : A -> option B) (l : list A) : option B :=
  match l with
  | [] => None
  | a :: r => match f a with Some b => Some b | None => first_some f r end
  end.

Lemma sumN_app l1 l2 : sumN (l1 ++ l2) = sumN l1 + sumN l2.
Proof. induction l1 as [|x l1 IH]; cbn [sumN app]; lia. Qed.

Lemma sumN_repeat x n : sumN (repeat x n) = N.of_nat n * x.
Proof. induction n as [|n IH]; cbn [sumN repeat]; lia. Qed.
