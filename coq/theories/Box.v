(** Box — encrypted slatepacks (libwallet/src/slatepack/types.rs [try_encrypt_payload] /
    [try_decrypt_payload], packer.rs [create_slatepack] / [deser_slatepack], api_impl/owner.rs
    [create_slatepack_message] / [slate_from_slatepack_message] / [decode_slatepack_message]).

    age (X25519 recipients, ChaCha20-Poly1305 STREAM payload, HMAC'd header) enters as an
    IDEAL multi-recipient box: [seal X r m] is the ciphertext produced for the recipient list
    [X] with randomness [r] (file key, ephemeral secrets, nonce) and [open k c] is everything
    [try_decrypt_payload] does with the key up to [read_to_end]: SHA-512 of the ed25519
    secret, x25519 identity, [Decryptor::new], recipients-type dispatch, [decrypt],
    [read_to_end]; [None] stands for any of its errors. The ed25519 -> x25519 conversion of
    an address ([SlatepackAddress::to_age_pubkey_str]) is the function [conv]. What is
    assumed about them is the predicate [ideal_box] / [conv_injective] below; it appears as
    an explicit premise of every theorem (coq/props/C10.v). Addresses are their canonical
    bech32 texts (as in CodecSlatepack.v), the slate is the payload byte string handed to
    [create_slatepack] (its own encoding is C08's subject).

    The plain armored path is CodecArmor.v's [armor_decode] / [armor_encode], imported. *)
From GW Require Import Base CodecBase CodecArmor CodecSlatepack.

Section Box.

Variable key : Type.                                  (* ed25519 secret keys *)
Variable pub : key -> bytes.                          (* the key's slatepack address *)
Variable conv : bytes -> bytes.                       (* address -> age x25519 recipient *)
Variable rnd : Type.
Variable seal : list bytes -> rnd -> bytes -> bytes.
Variable open : key -> bytes -> option bytes.

(** The ideal-box assumption: a sealed message opens to the plaintext under exactly the keys
    whose converted address is in the recipient list, and nothing that was not produced by
    [seal] opens under any key (integrity of header MAC and payload AEAD). *)
Definition ideal_box : Prop :=
  (forall k X r m, open k (seal X r m) = Some m <-> In (conv (pub k)) X)
  /\ (forall k X r m, ~ In (conv (pub k)) X -> open k (seal X r m) = None)
  /\ (forall k c m, open k c = Some m -> exists X r, c = seal X r m).

Definition conv_injective : Prop := forall a b, conv a = conv b -> a = b.

Variable addr_parse : bytes -> option bytes.          (* bech32 + ed25519 point check *)
Variable b58_enc : bytes -> bytes.
Variable b58_dec : bytes -> option bytes.
Variable sha4 : bytes -> bytes.                       (* first 4 bytes of SHA-256(SHA-256 x) *)
Variable json_sp : bytes -> option slatepack.         (* serde_json fallback of deser_slatepack *)
Variable max_size : N.

(** [Slatepack::try_encrypt_payload]: nothing happens without recipients; otherwise the
    sender moves into the encrypted metadata, the clear sender becomes [None], the payload
    becomes the box over [metadata ‖ payload] and the mode becomes 1. [meta_rcpts] is
    [encrypted_meta.recipients] (filled by [add_recipient] only; [create_slatepack] leaves it
    empty). The address conversions cannot fail on a [SlatepackAddress] value (it holds a
    decompressible ed25519 point and its text is at most 90 characters). *)
Definition try_encrypt_payload (sp : slatepack) (meta_rcpts : list bytes)
           (R : list bytes) (r : rnd) : slatepack :=
  match R with
  | [] => sp
  | _ :: _ =>
    let meta := mkEncmeta (sp_sender sp) meta_rcpts in
    mkSlatepack (sp_major sp) (sp_minor sp) 1 None
                (seal (map conv R) r (pre_encrypt meta (sp_payload sp)))
  end.

(** [Slatepack::try_decrypt_payload]: returns the slatepack and [encrypted_meta.recipients].
    Mode 0 or no key: unchanged. Otherwise every age failure is an error; the decrypted bytes
    go through [post_decrypt] (CodecSlatepack.v); the sender is REPLACED by the metadata's. *)
Definition try_decrypt_payload (dec_key : option key) (sp : slatepack)
  : result (slatepack * list bytes) :=
  if sp_mode sp =? 0 then Ok (sp, []) else
  match dec_key with
  | None => Ok (sp, [])
  | Some k =>
    match open k (sp_payload sp) with
    | None => Err ECrypto
    | Some dec =>
      match post_decrypt addr_parse true dec with
      | Ok mp => Ok (mkSlatepack (sp_major sp) (sp_minor sp) 0 (em_sender (fst mp)) (snd mp),
                     em_recipients (fst mp))
      | Err e => Err e
      | Panic p => Panic p
      end
    end
  end.

(** [Slatepacker::create_slatepack] after the slate has been serialised to [s] *)
Definition create_slatepack (sender : option bytes) (R : list bytes) (r : rnd) (s : bytes)
  : slatepack :=
  try_encrypt_payload (mkSlatepack 1 0 0 sender s) [] R r.

Definition pack_bin (sender : option bytes) (R : list bytes) (r : rnd) (s : bytes) : bytes :=
  enc_slatepack_bin (create_slatepack sender R r s).

(** [owner::create_slatepack_message]: the armored text *)
Definition pack (sender : option bytes) (R : list bytes) (r : rnd) (s : bytes) : bytes :=
  armor_encode b58_enc sha4 (pack_bin sender R r s).

(** [Slatepacker::deser_slatepack(data, decrypt)] with the packer's [dec_key] *)
Definition deser (decrypt : bool) (dec_key : option key) (msg : bytes)
  : result (slatepack * list bytes) :=
  match deser_slatepack addr_parse true b58_dec sha4 json_sp max_size msg with
  | Ok sp => if decrypt then try_decrypt_payload dec_key sp else Ok (sp, [])
  | Err e => Err e
  | Panic p => Panic p
  end.

(** what a holder of [dec_key] gets out of a message: payload and sender *)
Definition unpack (dec_key : option key) (msg : bytes) : result (bytes * option bytes) :=
  match deser true dec_key msg with
  | Ok (sp, _) => Ok (sp_payload sp, sp_sender sp)
  | Err e => Err e
  | Panic p => Panic p
  end.

(** [owner::slate_from_slatepack_message]: with no index the message is read without a key;
    otherwise the keys of the given derivation indices are tried in order, an error moves on
    to the next key, the first success goes to [get_slate] (whose result is final). *)
Section Api.
Variable slate : Type.
Variable get_slate : bytes -> result slate.

Fixpoint try_keys (ks : list key) (msg : bytes) : result slate :=
  match ks with
  | [] => Err ECrypto
  | k :: rest =>
    match deser true (Some k) msg with
    | Ok (sp, _) => get_slate (sp_payload sp)
    | Err _ => try_keys rest msg
    | Panic p => Panic p
    end
  end.

Definition slate_from_slatepack_message (ks : list key) (msg : bytes) : result slate :=
  match ks with
  | [] => match deser true None msg with
          | Ok (sp, _) => get_slate (sp_payload sp)
          | Err e => Err e
          | Panic p => Panic p
          end
  | _ :: _ => try_keys ks msg
  end.
End Api.

(** [owner::decode_slatepack_message]: as above but returns the slatepack, and falls back to
    the undecrypted slatepack when no key works *)
Fixpoint decode_keys (ks : list key) (msg : bytes) : result (slatepack * list bytes) :=
  match ks with
  | [] => deser false None msg
  | k :: rest =>
    match deser true (Some k) msg with
    | Ok r => Ok r
    | Err _ => decode_keys rest msg
    | Panic p => Panic p
    end
  end.
Definition decode_slatepack_message := decode_keys.

End Box.

(** The clear part of an encrypted binary slatepack: version 1.0, mode 1, no optional-field
    flag, zero optional bytes, then the payload length. It is a function of the length of
    the box only. *)
Definition ENC_CLEAR_HEADER : bytes := [1; 0; 1; 0; 0; 0; 0; 0; 0].
Definition clear_part (box_len : N) : bytes := ENC_CLEAR_HEADER ++ w_u64 box_len.

(** contiguous occurrence of [needle] in [hay] *)
Definition infix (needle hay : bytes) : Prop := exists pre post, hay = pre ++ needle ++ post.

(** shape of an accepted armored text: header up to the first period, payload up to the
    second, footer up to the third period or the end *)
Definition nodot (l : bytes) : bool := forallb (fun c => negb (c =? DOT)) l.
Definition clean (l : bytes) : bytes := filter (fun b => negb (is_ws b)) l.
Definition dot_or_end (l : bytes) : Prop := l = [] \/ exists r, l = DOT :: r.

(** the base58/check stage of [SlatepackArmor::decode] on the cleaned payload *)
Definition check_stage (b58_dec : bytes -> option bytes) (sha4 : bytes -> bytes)
           (cl : bytes) : result bytes :=
  match b58_dec cl with
  | None => Err EDeser
  | Some dec =>
    if (length dec <? 4)%nat then Err EDeser
    else if bytes_eqb (firstn 4 dec) (sha4 (skipn 4 dec)) then Ok (skipn 4 dec)
         else Err EBadCheck
  end.

(** ------------------------------------------------------------------------------
    Evaluation entry point of the C10 correspondence run (not part of any theorem).

    The run instantiates the box with the ideal prediction for the one message of a case:
    the randomness IS the ciphertext the real age produced ([seal_run _ r _ = r]); that byte
    string [C] opens to the plaintext [m] the model computed under exactly the keys whose
    address is among the recipients, and every other byte string opens to nothing. Keys are
    indices into the table [pubs] of wallet addresses, [conv] is the identity (the harness
    checks that the real conversion is injective on the table). *)
Definition edit := (N * N * N)%type.     (* kind (0 change, 1 drop, 2 insert, 3 transpose), position, value *)

Definition apply_edit (e : edit) (l : bytes) : bytes :=
  let '(k, p, v) := e in
  let i := N.to_nat p in
  match k with
  | 0 => firstn i l ++ v :: skipn (S i) l
  | 1 => firstn i l ++ skipn (S i) l
  | 2 => firstn i l ++ v :: skipn i l
  | _ => match skipn i l with
         | a :: b :: r => firstn i l ++ b :: a :: r
         | _ => l
         end
  end.

Definition Nseq (n : nat) : list N := map N.of_nat (seq 0 n).

(** the single-byte edits of a binary slatepack, in the harness's order: at every position
    the changed values (all 255 in the clear part of [hdr] bytes, three bit patterns in the
    box), the drop and an insertion; finally an appended byte. For long boxes only every
    [stride]-th box position is edited. *)
Fixpoint bin_edits_from (hdr stride pos : N) (l : bytes) : list edit :=
  match l with
  | [] => [(2, pos, 65)]
  | b :: r =>
    (if pos <? hdr
     then map (fun j => (0, pos, (b + 1 + j) mod 256)) (Nseq 255) ++ [(1, pos, 0); (2, pos, 65)]
     else if pos mod stride =? 0
          then [(0, pos, N.lxor b 1); (0, pos, N.lxor b 128); (0, pos, N.lxor b 85);
                (1, pos, 0); (2, pos, 65)]
          else [])
      ++ bin_edits_from hdr stride (pos + 1) r
  end.

Record rcase := mkCase {
  rc_sender : option bytes;
  rc_rcpts : list bytes;                 (* recipient addresses; [] = plain message *)
  rc_slate : list N;                     (* packed: the binary slate handed to create_slatepack *)
  rc_box : list N;                       (* packed: the payload field of the real message *)
  rc_pubs : list bytes;                  (* key table *)
  rc_ek : N;                             (* the key used for the edits *)
  rc_armor : list N;                     (* packed: the real armored text *)
  rc_bin : list N;                       (* packed: its base58 decoding minus the check *)
  rc_plain : list N;                     (* packed: what a recipient's age identity decrypts *)
  rc_keys : list (N * N * N * N);        (* key, verdict of deser, of slate_from_.., of decode_.. *)
  rc_multi : list (list N * N * N);      (* key list, verdict of slate_from_.., of decode_.. *)
  rc_bin_stride : N;
  rc_bin_n : N;                          (* number of binary edits the harness ran *)
  rc_bin_exc : list (N * N);             (* binary edits whose verdict is not "rejected" *)
  rc_armor_edits : list (N * N * N * N)  (* kind, position, value, verdict *)
}.

(** bytes packed as hexadecimal numerals with a leading 1 nibble, in chunks (CodecRun.v) *)
Fixpoint unpk_aux (fuel : nat) (n : N) (acc : bytes) : bytes :=
  match fuel with
  | O => acc
  | S f => if n <=? 1 then acc else unpk_aux f (N.shiftr n 8) (N.land n 255 :: acc)
  end.
Definition unpk (l : list N) : bytes :=
  concat (map (fun n => unpk_aux (N.to_nat (N.size n)) n []) l).

Definition opt_bytes_eqb (a b : option bytes) : bool :=
  match a, b with
  | Some x, Some y => bytes_eqb x y
  | None, None => true
  | _, _ => false
  end.

(** verdict classes shared with the harness: 0 accepted with the original payload and
    sender, 1 rejected, 2 panic, 3 accepted with something else, 4 (decode only) returned
    still sealed: mode 1, no sender, payload = the box *)
Definition verdict (s : bytes) (sender : option bytes) (r : result (slatepack * list bytes)) : N :=
  match r with
  | Ok (sp, _) => if bytes_eqb (sp_payload sp) s && opt_bytes_eqb (sp_sender sp) sender
                     && (sp_mode sp =? 0) then 0 else 3
  | Err _ => 1
  | Panic _ => 2
  end.
Definition verdict_sealed (s box : bytes) (sender : option bytes)
           (r : result (slatepack * list bytes)) : N :=
  match r with
  | Ok (sp, _) =>
    if (sp_mode sp =? 1) && bytes_eqb (sp_payload sp) box
       && opt_bytes_eqb (sp_sender sp) None then 4
    else verdict s sender r
  | _ => verdict s sender r
  end.
Definition verdict_unit (r : result unit) : N :=
  match r with Ok _ => 0 | Err _ => 1 | Panic _ => 2 end.

Definition RUN_MAX_SIZE : N := 226 * 32 + 30.   (* AutomatedTesting chain *)

Fixpoint index_from {A} (i : N) (l : list A) : list (N * A) :=
  match l with [] => [] | x :: r => (i, x) :: index_from (i + 1) r end.

Fixpoint pairs_eqb (a b : list (N * N)) : bool :=
  match a, b with
  | [], [] => true
  | (x, y) :: a', (x', y') :: b' => (x =? x') && (y =? y') && pairs_eqb a' b'
  | _, _ => false
  end.

Definition check_msg (c : rcase) : list Z :=
  let sender := rc_sender c in
  let R := rc_rcpts c in
  let s := unpk (rc_slate c) in
  let C := unpk (rc_box c) in
  let pubs := rc_pubs c in
  let pub_run := fun k : N => nth (N.to_nat k) pubs [] in
  let m := pre_encrypt (mkEncmeta sender []) s in
  let open_run := fun (k : N) (x : bytes) =>
                    if bytes_eqb x C
                    then (if existsb (bytes_eqb (pub_run k)) R then Some m else None)
                    else None in
  let seal_run := fun (_ : list bytes) (r : bytes) (_ : bytes) => r in
  let ap := fun a : bytes => if existsb (bytes_eqb a) pubs then Some a else None in
  let js := fun _ : bytes => @None slatepack in
  let dsp := deser_slatepack ap true b58_decode_impl sha256d4_impl js RUN_MAX_SIZE in
  let dec := fun (k : option N) (spr : result slatepack) =>
               match spr with
               | Ok sp => try_decrypt_payload N open_run ap k sp
               | Err e => Err e
               | Panic p => Panic p
               end in
  let gs := fun p : bytes => if bytes_eqb p s then Ok tt else Err EDeser in
  (* what slate_from_slatepack_message / decode_slatepack_message do, on a message that has
     been through deser_slatepack once *)
  let from_keys :=
      fix go (ks : list N) (spr : result slatepack) : result unit :=
        match ks with
        | [] => Err ECrypto
        | k :: rest => match dec (Some k) spr with
                       | Ok (sp, _) => gs (sp_payload sp)
                       | Err _ => go rest spr
                       | Panic p => Panic p
                       end
        end in
  let decode_keys_run :=
      fix go (ks : list N) (spr : result slatepack) : result (slatepack * list bytes) :=
        match ks with
        | [] => match spr with Ok sp => Ok (sp, []) | Err e => Err e | Panic p => Panic p end
        | k :: rest => match dec (Some k) spr with
                       | Ok r => Ok r
                       | Err _ => go rest spr
                       | Panic p => Panic p
                       end
        end in
  let bin := pack_bin id bytes seal_run sender R C s in
  let e_text := unpk (rc_armor c) in
  let e_bin := unpk (rc_bin c) in
  (* the armored text is read once: when it decodes to the harness's binary (which is then
     compared with the model's) and both pass deser_slatepack's size window and header test
     the same way, deser_slatepack of the text is deser_slatepack of that binary *)
  let ad := armor_decode b58_decode_impl sha256d4_impl e_text in
  let armored_ok := match ad with Ok d => bytes_eqb d e_bin | _ => false end in
  let in_window := fun x : bytes => (MIN_SIZE <=? lenN x) && (lenN x <=? RUN_MAX_SIZE) in
  let spr := if armored_ok && in_window e_text && in_window e_bin
                && bytes_eqb (firstn 15 e_text) HEADER && negb (bytes_eqb (firstn 15 e_bin) HEADER)
             then dsp e_bin else dsp e_text in
  let fl := fun (i : Z) (b : bool) => if b then [] else [i] in
  (* the text is exactly the formatted header + base58 payload + footer, and (base58 being
     injective) that payload is the encoding of check ++ binary *)
  let pl := clean (until_dot (skipn 15 e_text)) in
  fl 1%Z (armored_ok
          && bytes_eqb (format_from 0 (HEADER ++ pl) ++ FOOTER ++ [10]) e_text
          && (if lenN bin <? 400
              then bytes_eqb (armor_encode b58_encode_impl sha256d4_impl bin) e_text else true))
  ++ fl 2%Z (bytes_eqb bin (unpk (rc_bin c)))
  ++ (match R with [] => [] | _ => fl 3%Z (bytes_eqb m (unpk (rc_plain c))) end)
  ++ (match R with [] => [] | _ => fl 4%Z (bytes_eqb bin (clear_part (lenN C) ++ C)) end)
  ++ concat (map (fun kv : N * N * N * N =>
                    let '(k, v1, v2, v3) := kv in
                    let m1 := verdict s sender (dec (Some k) spr) in
                    let m2 := verdict_unit (from_keys [k] spr) in
                    let m3 := verdict_sealed s C sender (decode_keys_run [k] spr) in
                    (if m1 =? v1 then [] else [10%Z; Z.of_N k; Z.of_N m1])
                    ++ (if m2 =? v2 then [] else [11%Z; Z.of_N k; Z.of_N m2])
                    ++ (if m3 =? v3 then [] else [12%Z; Z.of_N k; Z.of_N m3]))
                 (rc_keys c))
  ++ concat (map (fun kv : list N * N * N =>
                    let '(ks, v2, v3) := kv in
                    let m2 := match ks with
                              | [] => verdict_unit (match dec None spr with
                                                    | Ok (sp, _) => gs (sp_payload sp)
                                                    | Err e => Err e
                                                    | Panic p => Panic p
                                                    end)
                              | _ => verdict_unit (from_keys ks spr)
                              end in
                    let m3 := verdict_sealed s C sender (decode_keys_run ks spr) in
                    (if m2 =? v2 then [] else [13%Z; Z.of_N (lenN ks); Z.of_N m2])
                    ++ (if m3 =? v3 then [] else [14%Z; Z.of_N (lenN ks); Z.of_N m3]))
                 (rc_multi c))
  ++ (if rc_bin_n c =? 0 then [] else
        let edits := bin_edits_from 17 (rc_bin_stride c) 0 bin in
        let vs := map (fun e => verdict s sender (dec (Some (rc_ek c)) (dsp (apply_edit e bin)))) edits in
        let exc := filter (fun iv : N * N => negb (snd iv =? 1)) (index_from 0 vs) in
        (if lenN edits =? rc_bin_n c then [] else [21%Z; Z.of_N (lenN edits)])
        ++ (if pairs_eqb exc (rc_bin_exc c) then []
            else 20%Z :: concat (map (fun iv : N * N => [Z.of_N (fst iv); Z.of_N (snd iv)])
                                     (firstn 12 exc))))
  ++ concat (map (fun ie : N * (N * N * N * N) =>
                    let '(i, (k, p, v, ex)) := ie in
                    let mv := verdict s sender
                                      (dec (Some (rc_ek c)) (dsp (apply_edit (k, p, v) e_text))) in
                    if mv =? ex then [] else [30%Z; Z.of_N i; Z.of_N mv])
                 (index_from 0 (rc_armor_edits c))).
