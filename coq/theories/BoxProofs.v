(** Proofs about the encrypted-slatepack model (Box.v) and the armor check (CodecArmor.v):
    round trip for recipients, rejection for everybody else, the clear form of an encrypted
    message, tamper evidence of the box, the shape and check of every accepted armored text,
    and a concrete box satisfying [ideal_box] (the hypotheses are consistent). *)
From GW Require Import Base CodecBase CodecBaseProofs CodecArmor CodecArmorProofs
     CodecSlatepack CodecSlatepackProofs Box.
From Coq Require Import ZifyBool ZifyN ZifyNat.

(** ------------------------------------------------------------------ small list facts *)
Lemma bytes_eqb_eq a : forall b, bytes_eqb a b = true -> a = b.
Proof.
  induction a as [|x a IH]; intros [|y b] H; cbn in H; try discriminate; [reflexivity|].
  apply andb_true_iff in H as [Hx Hr]. apply N.eqb_eq in Hx. subst y. f_equal. apply IH, Hr.
Qed.

Lemma existsb_bytes_In a l : existsb (bytes_eqb a) l = true <-> In a l.
Proof.
  rewrite existsb_exists. split.
  - intros (x & Hin & He). apply bytes_eqb_eq in He. subst x. exact Hin.
  - intros Hin. exists a. split; [exact Hin|apply bytes_eqb_refl].
Qed.

Lemma bytes_in_dec (a : bytes) (l : list bytes) : {In a l} + {~ In a l}.
Proof. apply in_dec, list_eq_dec, N.eq_dec. Qed.

(** ------------------------------------------------------------------ the armored path *)
Lemma until_dot_nodot bs : nodot (until_dot bs) = true.
Proof.
  induction bs as [|b r IH]; cbn [until_dot]; [reflexivity|].
  destruct (b =? DOT) eqn:E; [reflexivity|]. cbn [nodot forallb]. rewrite E. exact IH.
Qed.

Lemma until_dot_split bs : exists rest, bs = until_dot bs ++ rest /\ dot_or_end rest.
Proof.
  induction bs as [|b r (rest & Hr & Hd)]; cbn [until_dot].
  - exists []. split; [reflexivity|left; reflexivity].
  - destruct (b =? DOT) eqn:E.
    + apply N.eqb_eq in E. subst b. exists (DOT :: r). split; [reflexivity|right; eauto].
    + exists rest. split; [cbn [app]; f_equal; exact Hr|exact Hd].
Qed.

Lemma until_dot_self f : nodot f = true -> until_dot f = f.
Proof.
  induction f as [|b r IH]; cbn [nodot forallb until_dot]; intros H; [reflexivity|].
  apply andb_true_iff in H as [Hb Hr]. apply negb_true_iff in Hb. rewrite Hb. f_equal. apply IH, Hr.
Qed.

Lemma until_dot_pre f rest : nodot f = true -> dot_or_end rest -> until_dot (f ++ rest) = f.
Proof.
  intros Hf [->|(r & ->)].
  - rewrite app_nil_r. apply until_dot_self, Hf.
  - apply until_dot_app, Hf.
Qed.

Lemma skipn_app_exact {A} (a b : list A) n : n = length a -> skipn n (a ++ b) = b.
Proof. intros ->. rewrite skipn_app, Nat.sub_diag, skipn_all, skipn_O. reflexivity. Qed.

(** [SlatepackArmor::decode] on a text of the shape header . payload . footer [. anything]:
    framing checks, then the base58/check stage on the payload without whitespace *)
Lemma armor_shape b58_dec sha4 h pl f rest :
  nodot h = true -> nodot pl = true -> nodot f = true -> dot_or_end rest ->
  armor_decode b58_dec sha4 (h ++ DOT :: pl ++ DOT :: f ++ rest)
  = if framing_ok HEADER_WORD h
    then if framing_ok FOOTER_WORD f then check_stage b58_dec sha4 (clean pl) else Err EBadArmor
    else Err EBadArmor.
Proof.
  intros Hh Hpl Hf Hrest. unfold armor_decode, armor_decode_gen.
  rewrite (until_dot_app h _ Hh).
  destruct (framing_ok HEADER_WORD h); cbn [negb]; [|reflexivity].
  assert (Hlen : length (h ++ DOT :: pl ++ DOT :: f ++ rest)
                 = (S (length h) + length pl + 1 + length (f ++ rest))%nat).
  { rewrite app_length. cbn [length]. rewrite app_length. cbn [length]. lia. }
  rewrite Hlen.
  replace (S (length h) + length pl + 1 + length (f ++ rest) <? S (length h))%nat with false
    by (symmetry; apply Nat.ltb_ge; lia).
  assert (Hs1 : skipn (S (length h)) (h ++ DOT :: pl ++ DOT :: f ++ rest) = pl ++ DOT :: f ++ rest).
  { change (h ++ DOT :: pl ++ DOT :: f ++ rest) with (h ++ [DOT] ++ (pl ++ DOT :: f ++ rest)).
    rewrite app_assoc. apply skipn_app_exact. rewrite app_length. cbn [length]. lia. }
  rewrite Hs1, (until_dot_app pl _ Hpl).
  replace (S (length h) + length pl + 1 + length (f ++ rest) <? S (length h) + length pl + 1)%nat
    with false by (symmetry; apply Nat.ltb_ge; lia).
  assert (Hs2 : skipn (S (length h) + length pl + 1) (h ++ DOT :: pl ++ DOT :: f ++ rest) = f ++ rest).
  { replace (h ++ DOT :: pl ++ DOT :: f ++ rest) with ((h ++ [DOT] ++ pl ++ [DOT]) ++ f ++ rest)
      by (rewrite <- !app_assoc; reflexivity).
    apply skipn_app_exact. rewrite !app_length. cbn [length]. lia. }
  rewrite Hs2, (until_dot_pre f rest Hf Hrest).
  destruct (framing_ok FOOTER_WORD f); cbn [negb]; reflexivity.
Qed.

(** every accepted text has that shape, with both framings valid *)
Lemma armor_accept_shape b58_dec sha4 m p :
  armor_decode b58_dec sha4 m = Ok p ->
  exists h pl f rest,
    m = h ++ DOT :: pl ++ DOT :: f ++ rest
    /\ nodot h = true /\ nodot pl = true /\ nodot f = true /\ dot_or_end rest
    /\ framing_ok HEADER_WORD h = true /\ framing_ok FOOTER_WORD f = true
    /\ check_stage b58_dec sha4 (clean pl) = Ok p.
Proof.
  intros H. pose proof H as H0. unfold armor_decode, armor_decode_gen in H.
  destruct (framing_ok HEADER_WORD (until_dot m)) eqn:Fh; cbn [negb] in H; [|discriminate].
  destruct (length m <? S (length (until_dot m)))%nat eqn:E1; [discriminate|].
  apply Nat.ltb_ge in E1.
  destruct (until_dot_split m) as (r1 & Hm & Hd1).
  destruct Hd1 as [->|(m2 & ->)].
  { exfalso. rewrite app_nil_r in Hm. rewrite <- Hm in E1. lia. }
  set (h := until_dot m) in *.
  assert (Hsk : skipn (S (length h)) m = m2).
  { rewrite Hm. change (h ++ DOT :: m2) with (h ++ [DOT] ++ m2). rewrite app_assoc.
    apply skipn_app_exact. rewrite app_length. cbn [length]. lia. }
  rewrite Hsk in H.
  destruct (length m <? S (length h) + length (until_dot m2) + 1)%nat eqn:E2; [discriminate|].
  apply Nat.ltb_ge in E2.
  destruct (until_dot_split m2) as (r2 & Hm2 & Hd2).
  destruct Hd2 as [->|(m3 & ->)].
  { exfalso. rewrite app_nil_r in Hm2. rewrite Hm, app_length in E2. cbn [length] in E2.
    rewrite <- Hm2 in E2. lia. }
  set (pl := until_dot m2) in *.
  assert (Hsk2 : skipn (S (length h) + length pl + 1) m = m3).
  { rewrite Hm, Hm2.
    replace (h ++ DOT :: pl ++ DOT :: m3) with ((h ++ [DOT] ++ pl ++ [DOT]) ++ m3)
      by (rewrite <- !app_assoc; reflexivity).
    apply skipn_app_exact. rewrite !app_length. cbn [length]. lia. }
  rewrite Hsk2 in H.
  destruct (framing_ok FOOTER_WORD (until_dot m3)) eqn:Ff; cbn [negb] in H; [|discriminate].
  destruct (until_dot_split m3) as (rest & Hm3 & Hd3).
  exists h, pl, (until_dot m3), rest.
  split; [rewrite Hm at 1; rewrite Hm2 at 1; rewrite Hm3 at 1; reflexivity|].
  split; [apply until_dot_nodot|]. split; [apply until_dot_nodot|]. split; [apply until_dot_nodot|].
  split; [exact Hd3|]. split; [exact Fh|]. split; [exact Ff|].
  unfold check_stage, clean. exact H.
Qed.

Lemma check_stage_ok b58_dec sha4 cl p :
  check_stage b58_dec sha4 cl = Ok p ->
  exists dec, b58_dec cl = Some dec /\ (4 <= length dec)%nat
              /\ firstn 4 dec = sha4 p /\ p = skipn 4 dec.
Proof.
  unfold check_stage. destruct (b58_dec cl) as [dec|]; [|discriminate].
  destruct (length dec <? 4)%nat eqn:E; [discriminate|]. apply Nat.ltb_ge in E.
  destruct (bytes_eqb (firstn 4 dec) (sha4 (skipn 4 dec))) eqn:Eb; [|discriminate].
  intros Hp. injection Hp as <-. apply bytes_eqb_eq in Eb. exists dec. auto.
Qed.

(** An accepted armored text carries a base58 string whose first four bytes are the check of
    the rest, and the rest is what is returned. *)
Theorem armor_accept_check b58_dec sha4 m p :
  armor_decode b58_dec sha4 m = Ok p ->
  exists h pl f rest dec,
    m = h ++ DOT :: pl ++ DOT :: f ++ rest
    /\ nodot h = true /\ nodot pl = true /\ nodot f = true /\ dot_or_end rest
    /\ framing_ok HEADER_WORD h = true /\ framing_ok FOOTER_WORD f = true
    /\ b58_dec (clean pl) = Some dec /\ (4 <= length dec)%nat
    /\ firstn 4 dec = sha4 p /\ p = skipn 4 dec.
Proof.
  intros H. destruct (armor_accept_shape _ _ _ _ H) as (h & pl & f & rest & Hm & A & B & C & D & E & F & G).
  destruct (check_stage_ok _ _ _ _ G) as (dec & G1 & G2 & G3 & G4).
  exists h, pl, f, rest, dec. repeat (split; [assumption|]). assumption.
Qed.

(** An accepted text that does NOT yield the armored data carries a different byte string
    whose own 4-byte check matches: accepting an altered text needs a match of the truncated
    double hash on other content. *)
Theorem armor_altered_needs_match b58_dec sha4 data m' p' :
  (forall x, length (sha4 x) = 4%nat) ->
  armor_decode b58_dec sha4 m' = Ok p' -> p' <> data ->
  exists dec', (4 <= length dec')%nat /\ dec' <> sha4 data ++ data
               /\ firstn 4 dec' = sha4 (skipn 4 dec') /\ p' = skipn 4 dec'.
Proof.
  intros Hsha H Hne.
  destruct (armor_accept_check _ _ _ _ H) as (h & pl & f & rest & dec & _ & _ & _ & _ & _ & _ & _ & _ & L & Ck & Hp).
  exists dec. split; [exact L|]. split.
  - intros ->. apply Hne. rewrite Hp.
    rewrite skipn_app, Hsha, Nat.sub_diag, skipn_O, skipn_all2 by (rewrite Hsha; lia). reflexivity.
  - split; [rewrite <- Hp; exact Ck|exact Hp].
Qed.

(** the result depends on the text only through the two framings and the payload without
    whitespace: edits that add, drop or move whitespace are accepted with the same bytes *)
Theorem armor_whitespace_only b58_dec sha4 h1 pl1 f1 r1 h2 pl2 f2 r2 :
  nodot h1 = true -> nodot pl1 = true -> nodot f1 = true -> dot_or_end r1 ->
  nodot h2 = true -> nodot pl2 = true -> nodot f2 = true -> dot_or_end r2 ->
  framing_ok HEADER_WORD h1 = true -> framing_ok FOOTER_WORD f1 = true ->
  framing_ok HEADER_WORD h2 = true -> framing_ok FOOTER_WORD f2 = true ->
  clean pl1 = clean pl2 ->
  armor_decode b58_dec sha4 (h1 ++ DOT :: pl1 ++ DOT :: f1 ++ r1)
  = armor_decode b58_dec sha4 (h2 ++ DOT :: pl2 ++ DOT :: f2 ++ r2).
Proof.
  intros A1 B1 C1 D1 A2 B2 C2 D2 E1 F1 E2 F2 Hc.
  rewrite !armor_shape by assumption. rewrite E1, F1, E2, F2, Hc. reflexivity.
Qed.

Theorem armor_bad_framing b58_dec sha4 h pl f rest :
  nodot h = true -> nodot pl = true -> nodot f = true -> dot_or_end rest ->
  framing_ok HEADER_WORD h = false \/ framing_ok FOOTER_WORD f = false ->
  armor_decode b58_dec sha4 (h ++ DOT :: pl ++ DOT :: f ++ rest) = Err EBadArmor.
Proof.
  intros A B C D [E|E]; rewrite armor_shape by assumption; rewrite E; [reflexivity|].
  destruct (framing_ok HEADER_WORD h); reflexivity.
Qed.

(** a text with fewer than two periods is never accepted *)
Theorem armor_needs_two_periods b58_dec sha4 m p :
  armor_decode b58_dec sha4 m = Ok p -> (2 <= length (filter (fun c => (c =? DOT)%N) m))%nat.
Proof.
  intros H. destruct (armor_accept_shape _ _ _ _ H) as (h & pl & f & rest & -> & _).
  rewrite filter_app. cbn [filter]. rewrite N.eqb_refl, filter_app. cbn [filter]. rewrite N.eqb_refl.
  rewrite app_length. cbn [length]. rewrite app_length. cbn [length]. lia.
Qed.

(** ------------------------------------------------------------------ the box *)
Lemma clear_part_length n : length (clear_part n) = 17%nat.
Proof. unfold clear_part, w_u64. rewrite app_length, be_enc_length. reflexivity. Qed.

(** nothing longer than 17 bytes (an address text has 60+ characters, a slate 100+ bytes)
    occurs in the clear part, whatever the sender and the slate are *)
Theorem clear_part_small needle n : infix needle (clear_part n) -> (length needle <= 17)%nat.
Proof.
  intros (pre & post & H). apply (f_equal (@length N)) in H.
  rewrite clear_part_length, !app_length in H. lia.
Qed.

Section BoxProofs.

Variable key : Type.
Variable pub : key -> bytes.
Variable conv : bytes -> bytes.
Variable rnd : Type.
Variable seal : list bytes -> rnd -> bytes -> bytes.
Variable open : key -> bytes -> option bytes.
Variable addr_parse : bytes -> option bytes.
Variable b58_enc : bytes -> bytes.
Variable b58_dec : bytes -> option bytes.
Variable sha4 : bytes -> bytes.
Variable json_sp : bytes -> option slatepack.
Variable max_size : N.

Notation IDEAL := (ideal_box key pub conv rnd seal open).
Notation create := (create_slatepack conv rnd seal).
Notation PACK := (pack conv rnd seal b58_enc sha4).
Notation PACK_BIN := (pack_bin conv rnd seal).
Notation DECRYPT := (try_decrypt_payload key open addr_parse).
Notation DESER := (deser key open addr_parse b58_dec sha4 json_sp max_size).
Notation UNPACK := (unpack key open addr_parse b58_dec sha4 json_sp max_size).

(** the base58 / check hypotheses of the armor round trip (as in C08) *)
Definition armor_codec : Prop :=
  (forall x, b58_dec (b58_enc x) = Some x)
  /\ (forall x, forallb plain_char (b58_enc x) = true)
  /\ (forall x, length (sha4 x) = 4%nat).

(** the box of the message built from these arguments *)
Definition box_of (sender : option bytes) (R : list bytes) (r : rnd) (s : bytes) : bytes :=
  seal (map conv R) r (pre_encrypt (mkEncmeta sender []) s).

(** a message the wallet can build and any wallet reads back: canonical sender address, the
    payload field within [read_fixed_bytes]'s limit, the text within [max_size] *)
Definition wf_msg (sender : option bytes) (R : list bytes) (r : rnd) (s : bytes) : Prop :=
  (forall a, sender = Some a -> wf_addr addr_parse a)
  /\ lenN (sp_payload (create sender R r s)) <= MAX_READ
  /\ lenN (PACK sender R r s) <= max_size.

Lemma create_plain sender r s : create sender [] r s = mkSlatepack 1 0 0 sender s.
Proof. reflexivity. Qed.

Lemma create_enc sender R r s : R <> [] ->
  create sender R r s = mkSlatepack 1 0 1 None (box_of sender R r s).
Proof. destruct R; [congruence|reflexivity]. Qed.

(** The clear form: an encrypted binary slatepack is the constant header, the length of the
    box, and the box. *)
Theorem clear_form sender R r s : R <> [] ->
  PACK_BIN sender R r s = clear_part (lenN (box_of sender R r s)) ++ box_of sender R r s.
Proof.
  intros HR. unfold pack_bin. rewrite create_enc by exact HR. reflexivity.
Qed.

Lemma wf_create sender R r s : wf_msg sender R r s -> wf_slatepack addr_parse (create sender R r s).
Proof.
  intros (Hs & Hp & _). destruct R as [|a R].
  - split; [cbn; lia|split; [exact Hs|exact Hp]].
  - split; [cbn; lia|split; [cbn; discriminate|exact Hp]].
Qed.

(** any well-formed slatepack comes back from its armored text *)
Lemma deser_armored sp :
  armor_codec -> wf_slatepack addr_parse sp ->
  lenN (armor_encode b58_enc sha4 (enc_slatepack_bin sp)) <= max_size ->
  deser_slatepack addr_parse true b58_dec sha4 json_sp max_size
                  (armor_encode b58_enc sha4 (enc_slatepack_bin sp)) = Ok sp.
Proof.
  intros (Hinv & Halpha & Hsha) Hwf Hmax. set (text := armor_encode _ _ _) in *.
  unfold deser_slatepack.
  assert (Htext : text = HEADER ++ (format_from 15 (b58_enc (sha4 (enc_slatepack_bin sp) ++ enc_slatepack_bin sp))
                                    ++ FOOTER ++ [10])).
  { unfold text, armor_encode. rewrite format_header, <- app_assoc. reflexivity. }
  assert (Hmin : MIN_SIZE <= lenN text).
  { rewrite Htext. unfold lenN. rewrite app_length. unfold MIN_SIZE. cbn [length HEADER HEADER_WORD app]. lia. }
  replace (lenN text <? MIN_SIZE) with false by (symmetry; apply N.ltb_ge; exact Hmin).
  replace (max_size <? lenN text) with false by (symmetry; apply N.ltb_ge; exact Hmax).
  cbn [orb].
  assert (Hh : firstn 15 text = HEADER) by (rewrite Htext; reflexivity).
  rewrite Hh, bytes_eqb_refl.
  unfold text. rewrite (armor_roundtrip true b58_enc b58_dec sha4 _ Hinv Halpha Hsha).
  pose proof (slatepack_bin_roundtrip addr_parse true sp [] Hwf) as Hrt. rewrite app_nil_r in Hrt.
  rewrite Hrt. reflexivity.
Qed.

Lemma deser_pack sender R r s :
  armor_codec -> wf_msg sender R r s ->
  deser_slatepack addr_parse true b58_dec sha4 json_sp max_size (PACK sender R r s)
  = Ok (create sender R r s).
Proof.
  intros Hc Hwf. unfold pack, pack_bin. apply deser_armored; [exact Hc|apply wf_create, Hwf|].
  destruct Hwf as (_ & _ & H). exact H.
Qed.

Lemma wf_meta sender : (forall a, sender = Some a -> wf_addr addr_parse a) ->
  wf_encmeta addr_parse (mkEncmeta sender []).
Proof. intros H. split; [exact H|split; [constructor|cbn; lia]]. Qed.

Lemma in_conv a R : In a R -> In (conv a) (map conv R).
Proof. apply in_map. Qed.

Lemma not_in_conv a R : conv_injective conv -> ~ In a R -> ~ In (conv a) (map conv R).
Proof.
  intros Hinj Hn Hin. apply in_map_iff in Hin as (b & Hb & Hin). apply Hinj in Hb. subst b. exact (Hn Hin).
Qed.

(** decrypting the created slatepack *)
Lemma decrypt_recipient k sender R r s :
  IDEAL -> (forall a, sender = Some a -> wf_addr addr_parse a) -> R <> [] -> In (pub k) R ->
  DECRYPT (Some k) (create sender R r s) = Ok (mkSlatepack 1 0 0 sender s, []).
Proof.
  intros (H1 & _ & _) Hs HR Hin. rewrite create_enc by exact HR.
  unfold try_decrypt_payload. cbn [sp_mode sp_payload sp_major sp_minor].
  change (1 =? 0) with false. cbv iota. unfold box_of.
  rewrite (proj2 (H1 k (map conv R) r _) (in_conv _ _ Hin)).
  rewrite (post_decrypt_roundtrip addr_parse true _ s (wf_meta sender Hs)). reflexivity.
Qed.

Lemma decrypt_other k sender R r s :
  IDEAL -> conv_injective conv -> R <> [] -> ~ In (pub k) R ->
  DECRYPT (Some k) (create sender R r s) = Err ECrypto.
Proof.
  intros (_ & H2 & _) Hinj HR Hn. rewrite create_enc by exact HR.
  unfold try_decrypt_payload. cbn [sp_mode sp_payload].
  change (1 =? 0) with false. cbv iota. unfold box_of.
  rewrite (H2 k (map conv R) r _ (not_in_conv _ _ Hinj Hn)). reflexivity.
Qed.

Lemma decrypt_plain ko sp : sp_mode sp = 0 -> DECRYPT ko sp = Ok (sp, []).
Proof. intros H. unfold try_decrypt_payload. rewrite H. reflexivity. Qed.

Lemma deser_recipient k sender R r s :
  IDEAL -> armor_codec -> wf_msg sender R r s -> R <> [] -> In (pub k) R ->
  DESER true (Some k) (PACK sender R r s) = Ok (mkSlatepack 1 0 0 sender s, []).
Proof.
  intros Hi Hc Hwf HR Hin. unfold deser. rewrite deser_pack by assumption.
  apply decrypt_recipient; try assumption. destruct Hwf as (H & _). exact H.
Qed.

Lemma deser_other k sender R r s :
  IDEAL -> conv_injective conv -> armor_codec -> wf_msg sender R r s -> R <> [] -> ~ In (pub k) R ->
  DESER true (Some k) (PACK sender R r s) = Err ECrypto.
Proof.
  intros Hi Hinj Hc Hwf HR Hn. unfold deser. rewrite deser_pack by assumption.
  apply decrypt_other; assumption.
Qed.

Lemma deser_plain ko sender r s :
  armor_codec -> wf_msg sender [] r s ->
  DESER true ko (PACK sender [] r s) = Ok (mkSlatepack 1 0 0 sender s, []).
Proof.
  intros Hc Hwf. unfold deser. rewrite deser_pack by assumption. rewrite create_plain.
  apply decrypt_plain. reflexivity.
Qed.

(** Every recipient recovers the payload and the sender. *)
Theorem unpack_recipient k sender R r s :
  IDEAL -> armor_codec -> wf_msg sender R r s -> R <> [] -> In (pub k) R ->
  UNPACK (Some k) (PACK sender R r s) = Ok (s, sender).
Proof. intros. unfold unpack. rewrite deser_recipient by assumption. reflexivity. Qed.

(** No other key does. *)
Theorem unpack_other k sender R r s :
  IDEAL -> conv_injective conv -> armor_codec -> wf_msg sender R r s -> R <> [] -> ~ In (pub k) R ->
  UNPACK (Some k) (PACK sender R r s) = Err ECrypto.
Proof. intros. unfold unpack. rewrite deser_other by assumption. reflexivity. Qed.

(** Without a key the reader gets the sealed slatepack: no sender, payload = the box. *)
Theorem unpack_nokey sender R r s :
  armor_codec -> wf_msg sender R r s -> R <> [] ->
  DESER true None (PACK sender R r s) = Ok (mkSlatepack 1 0 1 None (box_of sender R r s), []).
Proof.
  intros Hc Hwf HR. unfold deser. rewrite deser_pack by assumption. rewrite create_enc by exact HR.
  reflexivity.
Qed.

(** a plain message is read by everybody *)
Theorem unpack_plain ko sender r s :
  armor_codec -> wf_msg sender [] r s -> UNPACK ko (PACK sender [] r s) = Ok (s, sender).
Proof. intros. unfold unpack. rewrite deser_plain by assumption. reflexivity. Qed.

(** Tamper evidence: a mode-1 slatepack whose payload was not produced by [seal] is an error
    under every key. *)
Theorem tampered_box_rejected k sp :
  IDEAL -> sp_mode sp <> 0 -> (forall X r m, sp_payload sp <> seal X r m) ->
  DECRYPT (Some k) sp = Err ECrypto.
Proof.
  intros (_ & _ & H3) Hm Hne. unfold try_decrypt_payload.
  apply N.eqb_neq in Hm. rewrite Hm.
  destruct (open k (sp_payload sp)) as [dec|] eqn:E; [|reflexivity].
  exfalso. destruct (H3 _ _ _ E) as (X & r & Hc). exact (Hne X r dec Hc).
Qed.

(** the same through the whole reader: the armored encrypted slatepack with a modified box *)
Theorem tampered_message_rejected k major minor c' :
  IDEAL -> armor_codec -> lenN c' <= MAX_READ ->
  (forall X r m, c' <> seal X r m) ->
  let sp := mkSlatepack major minor 1 None c' in
  lenN (armor_encode b58_enc sha4 (enc_slatepack_bin sp)) <= max_size ->
  UNPACK (Some k) (armor_encode b58_enc sha4 (enc_slatepack_bin sp)) = Err ECrypto.
Proof.
  intros Hi Hc Hl Hne sp Hmax. unfold unpack, deser.
  rewrite deser_armored; [|exact Hc| |exact Hmax].
  - rewrite tampered_box_rejected; [reflexivity|exact Hi|cbn; discriminate|exact Hne].
  - split; [cbn; lia|split; [cbn; discriminate|exact Hl]].
Qed.

(** Whatever is accepted as an encrypted slatepack is genuine: its payload is a box sealed
    to a recipient list containing the reader, and the returned sender and payload are the
    metadata and payload inside that box. *)
Theorem accept_genuine k sp sp' rc :
  IDEAL -> sp_mode sp <> 0 -> DECRYPT (Some k) sp = Ok (sp', rc) ->
  exists X r m, sp_payload sp = seal X r m /\ In (conv (pub k)) X
                /\ post_decrypt addr_parse true m = Ok (mkEncmeta (sp_sender sp') rc, sp_payload sp')
                /\ sp_mode sp' = 0.
Proof.
  intros (H1 & _ & H3) Hm H. unfold try_decrypt_payload in H.
  apply N.eqb_neq in Hm. rewrite Hm in H.
  destruct (open k (sp_payload sp)) as [dec|] eqn:E; [|discriminate].
  destruct (H3 _ _ _ E) as (X & r & Hc).
  exists X, r, dec. split; [exact Hc|]. split; [apply (H1 k X r dec); rewrite <- Hc; exact E|].
  destruct (post_decrypt addr_parse true dec) as [[[sd rcs] pl]|e|p]; try discriminate.
  cbn [fst snd em_sender em_recipients] in H. injection H as <- <-. split; reflexivity.
Qed.

(** [slate_from_slatepack_message] with a list of keys *)
Section Api.
Variable slate : Type.
Variable get_slate : bytes -> result slate.
Notation TRY := (try_keys key open addr_parse b58_dec sha4 json_sp max_size slate get_slate).
Notation FROM := (slate_from_slatepack_message key open addr_parse b58_dec sha4 json_sp max_size slate get_slate).

Lemma try_keys_none ks sender R r s :
  IDEAL -> conv_injective conv -> armor_codec -> wf_msg sender R r s -> R <> [] ->
  (forall k, In k ks -> ~ In (pub k) R) ->
  TRY ks (PACK sender R r s) = Err ECrypto.
Proof.
  intros Hi Hinj Hc Hwf HR. induction ks as [|k ks IH]; intros Hn; [reflexivity|].
  cbn [try_keys]. rewrite deser_other; try assumption; [|apply Hn; left; reflexivity].
  apply IH. intros k' Hk'. apply Hn. right. exact Hk'.
Qed.

Lemma try_keys_some ks sender R r s :
  IDEAL -> conv_injective conv -> armor_codec -> wf_msg sender R r s -> R <> [] ->
  (exists k, In k ks /\ In (pub k) R) ->
  TRY ks (PACK sender R r s) = get_slate s.
Proof.
  intros Hi Hinj Hc Hwf HR. induction ks as [|k ks IH]; intros (k0 & Hin & Hr); [destruct Hin|].
  cbn [try_keys]. destruct (bytes_in_dec (pub k) R) as [Hy|Hn].
  - rewrite deser_recipient by assumption. reflexivity.
  - rewrite deser_other by assumption. apply IH. exists k0. split; [|exact Hr].
    destruct Hin as [->|Hin]; [contradiction|exact Hin].
Qed.

(** the wallet API: some listed key is a recipient's <-> the slate comes out *)
Theorem api_recipients_only ks sender R r s :
  IDEAL -> conv_injective conv -> armor_codec -> wf_msg sender R r s -> R <> [] -> ks <> [] ->
  ((exists k, In k ks /\ In (pub k) R) -> FROM ks (PACK sender R r s) = get_slate s)
  /\ ((forall k, In k ks -> ~ In (pub k) R) -> FROM ks (PACK sender R r s) = Err ECrypto).
Proof.
  intros Hi Hinj Hc Hwf HR Hks. destruct ks as [|k ks]; [congruence|].
  split; intros H; unfold slate_from_slatepack_message.
  - apply try_keys_some; assumption.
  - apply try_keys_none; assumption.
Qed.
End Api.

(** [decode_slatepack_message] with keys that are not recipients': the caller gets the
    sealed slatepack — mode 1, no sender, the box *)
Theorem decode_other_sealed ks sender R r s :
  IDEAL -> conv_injective conv -> armor_codec -> wf_msg sender R r s -> R <> [] ->
  (forall k, In k ks -> ~ In (pub k) R) ->
  decode_slatepack_message key open addr_parse b58_dec sha4 json_sp max_size ks (PACK sender R r s)
  = Ok (mkSlatepack 1 0 1 None (box_of sender R r s), []).
Proof.
  intros Hi Hinj Hc Hwf HR. unfold decode_slatepack_message.
  induction ks as [|k ks IH]; intros Hn; cbn [decode_keys].
  - unfold deser. rewrite deser_pack by assumption. rewrite create_enc by exact HR. reflexivity.
  - rewrite deser_other; try assumption; [|apply Hn; left; reflexivity].
    apply IH. intros k' Hk'. apply Hn. right. exact Hk'.
Qed.

End BoxProofs.

(** ------------------------------------------------------------------ a concrete ideal box
    (the hypotheses are satisfiable): keys are numbers, the address of [k] is [[k]], the
    conversion is the identity, the ciphertext spells out randomness, recipients, message *)
Definition toy_pub (k : N) : bytes := [k].
Definition toy_conv (a : bytes) : bytes := a.
Definition toy_item (a : bytes) : bytes := lenN a :: a.
Definition toy_seal (X : list bytes) (r : N) (m : bytes) : bytes :=
  r :: lenN X :: concat (map toy_item X) ++ m.

Fixpoint toy_items (n : nat) (bs : bytes) : option (list bytes * bytes) :=
  match n with
  | O => Some ([], bs)
  | S n' =>
    match bs with
    | [] => None
    | l :: r =>
      if (N.to_nat l <=? length r)%nat
      then match toy_items n' (skipn (N.to_nat l) r) with
           | Some (xs, rest) => Some (firstn (N.to_nat l) r :: xs, rest)
           | None => None
           end
      else None
    end
  end.

Definition toy_open (k : N) (c : bytes) : option bytes :=
  match c with
  | _ :: n :: rest =>
    match toy_items (N.to_nat n) rest with
    | Some (X, m) => if existsb (bytes_eqb (toy_pub k)) X then Some m else None
    | None => None
    end
  | _ => None
  end.

Lemma toy_items_complete X m :
  toy_items (length X) (concat (map toy_item X) ++ m) = Some (X, m).
Proof.
  induction X as [|a X IH]; [reflexivity|].
  cbn [length map concat toy_items]. unfold toy_item at 1. cbn [app]. rewrite <- app_assoc.
  unfold lenN. rewrite Nat2N.id.
  replace (length a <=? length (a ++ concat (map toy_item X) ++ m))%nat with true
    by (symmetry; apply Nat.leb_le; rewrite app_length; lia).
  rewrite skipn_app_exact by reflexivity. rewrite IH.
  rewrite firstn_app, Nat.sub_diag, firstn_all, firstn_O, app_nil_r. reflexivity.
Qed.

Lemma toy_items_sound n : forall bs X m,
  toy_items n bs = Some (X, m) -> bs = concat (map toy_item X) ++ m /\ length X = n.
Proof.
  induction n as [|n IH]; intros bs X m H; cbn [toy_items] in H.
  - injection H as <- <-. split; reflexivity.
  - destruct bs as [|l r]; [discriminate|].
    destruct (N.to_nat l <=? length r)%nat eqn:E; [|discriminate]. apply Nat.leb_le in E.
    destruct (toy_items n (skipn (N.to_nat l) r)) as [[xs rest]|] eqn:Er; [|discriminate].
    injection H as <- <-. destruct (IH _ _ _ Er) as (Hs & Hl).
    split; [|cbn [length]; lia].
    cbn [map concat]. unfold toy_item at 1. unfold lenN.
    rewrite firstn_length, Nat.min_l by exact E. rewrite N2Nat.id. cbn [app]. f_equal.
    rewrite <- app_assoc, <- Hs. symmetry. apply firstn_skipn.
Qed.

Lemma toy_open_seal k X r m :
  toy_open k (toy_seal X r m) = if existsb (bytes_eqb (toy_pub k)) X then Some m else None.
Proof.
  unfold toy_open, toy_seal, lenN. rewrite Nat2N.id, toy_items_complete. reflexivity.
Qed.

Theorem toy_ideal : ideal_box N toy_pub toy_conv N toy_seal toy_open.
Proof.
  split; [|split].
  - intros k X r m. rewrite toy_open_seal. unfold toy_conv.
    destruct (existsb (bytes_eqb (toy_pub k)) X) eqn:E.
    + apply existsb_bytes_In in E. split; auto.
    + split; [discriminate|]. intros Hin. apply existsb_bytes_In in Hin. congruence.
  - intros k X r m Hn. rewrite toy_open_seal. unfold toy_conv in Hn.
    destruct (existsb (bytes_eqb (toy_pub k)) X) eqn:E; [|reflexivity].
    apply existsb_bytes_In in E. contradiction.
  - intros k c m H. unfold toy_open in H.
    destruct c as [|r [|n rest]]; try discriminate.
    destruct (toy_items (N.to_nat n) rest) as [[X m']|] eqn:E; [|discriminate].
    destruct (existsb (bytes_eqb (toy_pub k)) X); [|discriminate]. injection H as ->.
    destruct (toy_items_sound _ _ _ _ E) as (Hs & Hl).
    exists X, r. unfold toy_seal, lenN. rewrite Hl, N2Nat.id, Hs. reflexivity.
Qed.

Lemma toy_conv_injective : conv_injective toy_conv.
Proof. intros a b H. exact H. Qed.

(** a base58 stand-in with the three properties the armor round trip needs *)
Definition toy_b58_enc (x : bytes) : bytes := map (fun b => b + 100) x.
Definition toy_b58_dec (x : bytes) : option bytes := Some (map (fun b => b - 100) x).
Definition toy_sha4 (x : bytes) : bytes := [sumN x mod 256; lenN x mod 256; 7; 9].

Lemma toy_codec : armor_codec toy_b58_enc toy_b58_dec toy_sha4.
Proof.
  split; [|split].
  - intros x. unfold toy_b58_dec, toy_b58_enc. rewrite map_map. f_equal.
    induction x as [|b x IH]; cbn [map]; [reflexivity|]. f_equal; [lia|exact IH].
  - intros x. induction x as [|b x IH]; cbn [toy_b58_enc map forallb]; [reflexivity|].
    apply andb_true_iff. split; [|exact IH].
    unfold plain_char, is_ws, DOT.
    repeat match goal with |- context [?a =? ?c] => replace (a =? c) with false by (symmetry; apply N.eqb_neq; lia) end.
    reflexivity.
  - reflexivity.
Qed.

(** the clear form in one statement (props/C10.v) *)
Lemma c10_clear_form :
  forall (conv : bytes -> bytes) (rnd : Type) (seal : list bytes -> rnd -> bytes -> bytes)
         (b58_enc : bytes -> bytes) (sha4 : bytes -> bytes)
         (sender : option bytes) (R : list bytes) (r : rnd) (s : bytes),
    R <> [] ->
    let box := seal (map conv R) r (pre_encrypt (mkEncmeta sender []) s) in
    sp_sender (create_slatepack conv rnd seal sender R r s) = None
    /\ sp_mode (create_slatepack conv rnd seal sender R r s) = 1
    /\ sp_payload (create_slatepack conv rnd seal sender R r s) = box
    /\ pack_bin conv rnd seal sender R r s = clear_part (lenN box) ++ box
    /\ pack conv rnd seal b58_enc sha4 sender R r s
       = armor_encode b58_enc sha4 (clear_part (lenN box) ++ box)
    /\ (forall needle, infix needle (clear_part (lenN box)) -> (length needle <= 17)%nat).
Proof.
  intros conv rnd seal b58_enc sha4 sender R r s HR box.
  pose proof (create_enc conv rnd seal sender R r s HR) as Hc.
  pose proof (clear_form conv rnd seal sender R r s HR) as Hf.
  fold box in Hf. unfold box_of in Hc. fold box in Hc.
  rewrite Hc. cbn [sp_sender sp_mode sp_payload].
  split; [reflexivity|]. split; [reflexivity|]. split; [reflexivity|]. split; [exact Hf|].
  split; [unfold pack; rewrite Hf; reflexivity|].
  intros needle. apply clear_part_small.
Qed.

Lemma c10_armor_framing :
  (forall b58_dec sha4 h pl f rest,
      nodot h = true -> nodot pl = true -> nodot f = true -> dot_or_end rest ->
      armor_decode b58_dec sha4 (h ++ DOT :: pl ++ DOT :: f ++ rest)
      = if framing_ok HEADER_WORD h
        then if framing_ok FOOTER_WORD f then check_stage b58_dec sha4 (clean pl) else Err EBadArmor
        else Err EBadArmor)
  /\ (forall b58_dec sha4 m p,
         armor_decode b58_dec sha4 m = Ok p -> (2 <= length (filter (fun c => (c =? DOT)%N) m))%nat).
Proof. split; [exact armor_shape|exact armor_needs_two_periods]. Qed.

Lemma toy_not_sealed : forall X r m, [77; 2; 1; 5] <> toy_seal X r m.
Proof.
  intros X r m H. unfold toy_seal in H. injection H as _ Hn Hrest.
  assert (Hl : length X = 2%nat) by (unfold lenN in Hn; lia).
  pose proof (toy_items_complete X m) as Hc. rewrite <- Hrest, Hl in Hc. vm_compute in Hc. discriminate.
Qed.

(** ------------------------------------------------------------------ down to the slate
    (with C08's binary V4 round trip): the wallet API returns the slate that was packed when
    one of the listed keys is a recipient's *)
From GW Require Import CodecSlate CodecSlateProofs.

Theorem api_slate_roundtrip
        (key : Type) (pub : key -> bytes) (conv : bytes -> bytes) (rnd : Type)
        (seal : list bytes -> rnd -> bytes -> bytes) (open : key -> bytes -> option bytes)
        (addr_parse : bytes -> option bytes) (b58_enc : bytes -> bytes)
        (b58_dec : bytes -> option bytes) (sha4 : bytes -> bytes)
        (json_sp : bytes -> option slatepack) (max_size : N)
        (valid_pk valid_ed : bytes -> bool)
        (ks : list key) (sender : option bytes) (R : list bytes) (r : rnd) (sl : slate4) :
  ideal_box key pub conv rnd seal open -> conv_injective conv ->
  armor_codec b58_enc b58_dec sha4 ->
  wf_slate4 valid_pk valid_ed sl -> ~ KnownBin sl ->
  wf_msg conv rnd seal addr_parse b58_enc sha4 max_size sender R r (enc_v4bin sl) ->
  R <> [] ->
  (exists k, In k ks /\ In (pub k) R) ->
  slate_from_slatepack_message key open addr_parse b58_dec sha4 json_sp max_size slate4
    (run_rd (dec_v4bin valid_pk valid_ed true)) ks
    (pack conv rnd seal b58_enc sha4 sender R r (enc_v4bin sl)) = Ok sl.
Proof.
  intros Hi Hinj Hc Hwf Hk Hm HR Hex.
  assert (Hks : ks <> []) by (destruct Hex as (k & Hin & _); destruct ks; [destruct Hin|discriminate]).
  destruct (api_recipients_only key pub conv rnd seal open addr_parse b58_enc b58_dec sha4 json_sp
                                max_size slate4 (run_rd (dec_v4bin valid_pk valid_ed true))
                                ks sender R r (enc_v4bin sl) Hi Hinj Hc Hm HR Hks) as (H1 & _).
  rewrite (H1 Hex). rewrite <- (app_nil_r (enc_v4bin sl)). apply c08_v4bin_roundtrip; assumption.
Qed.
