(** CodecArmor — SlatepackArmor framing (libwallet/src/slatepack/armor.rs).

    [armor_decode_gen guarded b58_dec sha4 bs] follows [SlatepackArmor::decode] line by
    line: header up to the first period, regex check, payload up to the second period,
    footer, whitespace stripping, base58, 4-byte double-SHA-256 check. Base58 and SHA-256
    are parameters (external libraries); the theorems quantify over them, the correspondence
    run instantiates them with the executable [b58_decode_impl] / [sha256d4_impl] below.
    [guarded = false] is the code before the repair (slices without bounds checks). *)
From GW Require Import Base CodecBase.

Definition DOT : N := 46.
Definition is_ws (b : N) : bool :=
  (b =? 62) || (b =? 10) || (b =? 13) || (b =? 9) || (b =? 32).

(* "BEGINSLATEPACK", "ENDSLATEPACK" *)
Definition HEADER_WORD : bytes := [66; 69; 71; 73; 78; 83; 76; 65; 84; 69; 80; 65; 67; 75].
Definition FOOTER_WORD : bytes := [69; 78; 68; 83; 76; 65; 84; 69; 80; 65; 67; 75].
(* HEADER = "BEGINSLATEPACK." ; FOOTER = ". ENDSLATEPACK." *)
Definition HEADER : bytes := HEADER_WORD ++ [DOT].
Definition FOOTER : bytes := [DOT; 32] ++ FOOTER_WORD ++ [DOT].

(** [iter().take_while(|b| b != '.')] *)
Fixpoint until_dot (bs : bytes) : bytes :=
  match bs with
  | [] => []
  | b :: r => if b =? DOT then [] else b :: until_dot r
  end.

Fixpoint drop_ws (bs : bytes) : bytes :=
  match bs with
  | b :: r => if is_ws b then drop_ws r else bs
  | [] => []
  end.

Fixpoint strip_prefix (p bs : bytes) : option bytes :=
  match p, bs with
  | [], _ => Some bs
  | a :: p', b :: bs' => if a =? b then strip_prefix p' bs' else None
  | _ :: _, [] => None
  end.

(** the regexes [^[>\n\r\t ]*WORD[>\n\r\t ]*$]; a match is ASCII, so the preceding
    [str::from_utf8] cannot fail on a matching header (both failures are errors) *)
Definition framing_ok (word h : bytes) : bool :=
  match strip_prefix word (drop_ws h) with
  | Some r => forallb is_ws r
  | None => false
  end.

Definition armor_decode_gen (guarded : bool)
           (b58_dec : bytes -> option bytes) (sha4 : bytes -> bytes)
           (bs : bytes) : result bytes :=
  let header := until_dot bs in
  if negb (framing_ok HEADER_WORD header) then Err EBadArmor else
  let header_len := S (length header) in
  (* armor_bytes[header_len..] *)
  if (length bs <? header_len)%nat
  then (if guarded then Err EBadArmor else Panic PSliceOOB) else
  let payload := until_dot (skipn header_len bs) in
  let consumed := (header_len + length payload + 1)%nat in
  (* armor_bytes[consumed_bytes..] *)
  if (length bs <? consumed)%nat
  then (if guarded then Err EBadArmor else Panic PSliceOOB) else
  let footer := until_dot (skipn consumed bs) in
  if negb (framing_ok FOOTER_WORD footer) then Err EBadArmor else
  let clean := filter (fun b => negb (is_ws b)) payload in
  match b58_dec clean with
  | None => Err EDeser
  | Some dec =>
    (* base_decode[0..4], base_decode[4..] *)
    if (length dec <? 4)%nat
    then (if guarded then Err EDeser else Panic PSliceOOB) else
    if bytes_eqb (firstn 4 dec) (sha4 (skipn 4 dec)) then Ok (skipn 4 dec)
    else Err EBadCheck
  end.

Definition armor_decode := armor_decode_gen true.
Definition armor_decode_orig := armor_decode_gen false.

(** Recorded finding C09-F1 (open): the external base58 decoder is quadratic in the payload
    length, so the time of [armor_decode] is not linear in the input although every step of
    the model is; the check recognises exactly this input class (armored, longer than 64 kB)
    when its timing oracle fires. *)
Definition known_quadratic_armor (bs : bytes) : bool :=
  bytes_eqb (firstn 15 bs) (HEADER_WORD ++ [DOT]) && (65536 <? lenN bs).

(** [format_slatepack]: a space before every 15th character, a newline before every
    3000th, counted from the start of the header *)
Fixpoint format_from (i : N) (cs : bytes) : bytes :=
  match cs with
  | [] => []
  | c :: r =>
    (if negb (i =? 0) && (i mod 15 =? 0)
     then [if i mod 3000 =? 0 then 10 else 32] else [])
      ++ c :: format_from (i + 1) r
  end.

Definition armor_encode (b58_enc : bytes -> bytes) (sha4 : bytes -> bytes)
           (data : bytes) : bytes :=
  format_from 0 (HEADER ++ b58_enc (sha4 data ++ data)) ++ FOOTER ++ [10].

(** ------------------------------------------------------------------------------
    Executable base58 (bs58 0.3.1 [decode], Bitcoin alphabet) and SHA-256, used only to
    run the model on the harness cases (the theorems do not depend on them). *)
Definition B58_ALPHABET : bytes :=
  [49; 50; 51; 52; 53; 54; 55; 56; 57; 65; 66; 67; 68; 69; 70; 71; 72; 74; 75; 76; 77; 78;
   80; 81; 82; 83; 84; 85; 86; 87; 88; 89; 90; 97; 98; 99; 100; 101; 102; 103; 104; 105;
   106; 107; 109; 110; 111; 112; 113; 114; 115; 116; 117; 118; 119; 120; 121; 122].

Fixpoint index_of (c : N) (l : bytes) (i : N) : option N :=
  match l with
  | [] => None
  | x :: r => if x =? c then Some i else index_of c r (i + 1)
  end.
Definition b58_digit (c : N) : option N := index_of c B58_ALPHABET 0.

Fixpoint b58_num (cs : bytes) (acc : N) : option N :=
  match cs with
  | [] => Some acc
  | c :: r => match b58_digit c with
              | None => None
              | Some d => b58_num r (acc * 58 + d)
              end
  end.

Fixpoint leading (z : N) (cs : bytes) : nat :=
  match cs with
  | c :: r => if c =? z then S (leading z r) else O
  | [] => O
  end.

Fixpoint n_to_bytes_aux (fuel : nat) (n : N) (acc : bytes) : bytes :=
  match fuel with
  | O => acc
  | S f => if n =? 0 then acc
           else n_to_bytes_aux f (N.shiftr n 8) (N.land n 255 :: acc)
  end.
Definition n_to_bytes (n : N) : bytes := n_to_bytes_aux (N.to_nat (N.size n)) n [].

Definition b58_decode_impl (cs : bytes) : option bytes :=
  match b58_num cs 0 with
  | None => None
  | Some n => Some (repeat 0 (leading 49 cs) ++ n_to_bytes n)
  end.

(* base58 encoding: leading zero bytes become '1', the rest is the base-58 rendering *)
Fixpoint b58_digits (fuel : nat) (n : N) (acc : bytes) : bytes :=
  match fuel with
  | O => acc
  | S f => if n =? 0 then acc
           else b58_digits f (n / 58) (nth (N.to_nat (n mod 58)) B58_ALPHABET 0 :: acc)
  end.
Definition b58_encode_impl (bs : bytes) : bytes :=
  let n := be bs in
  repeat 49 (leading 0 bs) ++ b58_digits (N.to_nat (N.size n)) n [].

(** SHA-256 on byte lists, 32-bit words as [N] *)
Definition M32 : N := 4294967295.
Definition add32 (a b : N) : N := N.land (a + b) M32.
Definition rotr (x n : N) : N := N.lor (N.shiftr x n) (N.land (N.shiftl x (32 - n)) M32).
Definition bsig0 x := N.lxor (N.lxor (rotr x 2) (rotr x 13)) (rotr x 22).
Definition bsig1 x := N.lxor (N.lxor (rotr x 6) (rotr x 11)) (rotr x 25).
Definition ssig0 x := N.lxor (N.lxor (rotr x 7) (rotr x 18)) (N.shiftr x 3).
Definition ssig1 x := N.lxor (N.lxor (rotr x 17) (rotr x 19)) (N.shiftr x 10).
Definition ch x y z := N.lxor (N.land x y) (N.land (N.lxor x M32) z).
Definition maj x y z := N.lxor (N.lxor (N.land x y) (N.land x z)) (N.land y z).

Definition K256 : list N :=
  [1116352408; 1899447441; 3049323471; 3921009573; 961987163; 1508970993; 2453635748;
   2870763221; 3624381080; 310598401; 607225278; 1426881987; 1925078388; 2162078206;
   2614888103; 3248222580; 3835390401; 4022224774; 264347078; 604807628; 770255983;
   1249150122; 1555081692; 1996064986; 2554220882; 2821834349; 2952996808; 3210313671;
   3336571891; 3584528711; 113926993; 338241895; 666307205; 773529912; 1294757372;
   1396182291; 1695183700; 1986661051; 2177026350; 2456956037; 2730485921; 2820302411;
   3259730800; 3345764771; 3516065817; 3600352804; 4094571909; 275423344; 430227734;
   506948616; 659060556; 883997877; 958139571; 1322822218; 1537002063; 1747873779;
   1955562222; 2024104815; 2227730452; 2361852424; 2428436474; 2756734187; 3204031479;
   3329325298].
Definition H256 : list N :=
  [1779033703; 3144134277; 1013904242; 2773480762; 1359893119; 2600822924; 528734635;
   1541459225].

(* message schedule; [w] holds the words computed so far, most recent first *)
Fixpoint sched (n : nat) (w : list N) : list N :=
  match n with
  | O => w
  | S n' =>
    let x := add32 (add32 (ssig1 (nth 1 w 0)) (nth 6 w 0))
                   (add32 (ssig0 (nth 14 w 0)) (nth 15 w 0)) in
    sched n' (x :: w)
  end.

Definition st8 := (N * N * N * N * N * N * N * N)%type.
Definition round (s : st8) (kw : N * N) : st8 :=
  let '(a, b, c, d, e, f, g, h) := s in
  let '(k, w) := kw in
  let t1 := add32 (add32 (add32 h (bsig1 e)) (add32 (ch e f g) k)) w in
  let t2 := add32 (bsig0 a) (maj a b c) in
  (add32 t1 t2, a, b, c, add32 d t1, e, f, g).

Fixpoint words_of (bs : bytes) (fuel : nat) : list N :=
  match fuel with
  | O => []
  | S f => match bs with
           | a :: b :: c :: d :: r => be [a; b; c; d] :: words_of r f
           | _ => []
           end
  end.

Definition compress (hs : list N) (block : bytes) : list N :=
  let w16 := words_of block 16 in
  let w := rev (sched 48 (rev w16)) in
  match hs with
  | [a; b; c; d; e; f; g; h] =>
    let '(a', b', c', d', e', f', g', h') :=
        fold_left round (combine K256 w) (a, b, c, d, e, f, g, h) in
    [add32 a a'; add32 b b'; add32 c c'; add32 d d'; add32 e e'; add32 f f'; add32 g g';
     add32 h h']
  | _ => hs
  end.

Fixpoint blocks (fuel : nat) (hs : list N) (bs : bytes) : list N :=
  match fuel with
  | O => hs
  | S f => match bs with
           | [] => hs
           | _ => blocks f (compress hs (firstn 64 bs)) (skipn 64 bs)
           end
  end.

Definition sha_pad (bs : bytes) : bytes :=
  let l := length bs in
  let zeros := ((64 - ((l + 9) mod 64)) mod 64)%nat in
  bs ++ [128] ++ repeat 0 zeros ++ be_enc 8 (N.of_nat l * 8).

Definition sha256 (bs : bytes) : bytes :=
  let p := sha_pad bs in
  concat (map (be_enc 4) (blocks (S (length p / 64))%nat H256 p)).

Definition sha256d4_impl (bs : bytes) : bytes := firstn 4 (sha256 (sha256 bs)).
