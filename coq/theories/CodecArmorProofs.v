(** Proofs about the armor model: totality of the repaired decoder, the panics of the
    unrepaired one, and the round trip through [armor_encode]. *)
From GW Require Import Base CodecBase CodecBaseProofs CodecArmor.

Lemma filter_len_le {A} (f : A -> bool) (l : list A) : (length (filter f l) <= length l)%nat.
Proof. induction l as [|x l IH]; cbn; [lia|]. destruct (f x); cbn; lia. Qed.

Lemma armor_decode_total b58_dec sha4 bs p : armor_decode b58_dec sha4 bs <> Panic p.
Proof.
  unfold armor_decode, armor_decode_gen.
  repeat match goal with
         | |- (if ?c then _ else _) <> _ => destruct c
         | |- (match ?x with _ => _ end) <> _ => destruct x
         end; discriminate.
Qed.

(** the decoder never returns the loop-fuel error either (it has no fuelled loop) *)
Lemma armor_decode_no_fuel b58_dec sha4 bs : armor_decode b58_dec sha4 bs <> Err EOutOfFuel.
Proof.
  unfold armor_decode, armor_decode_gen.
  repeat match goal with
         | |- (if ?c then _ else _) <> _ => destruct c
         | |- (match ?x with _ => _ end) <> _ => destruct x
         end; discriminate.
Qed.

(** the output is never longer than the base58 payload it came from: [skipn 4] of what the
    external base58 decoder returned *)
Lemma armor_decode_output b58_dec sha4 bs out :
  armor_decode b58_dec sha4 bs = Ok out ->
  exists clean dec, b58_dec clean = Some dec /\ out = skipn 4 dec
                    /\ (length clean <= length bs)%nat.
Proof.
  unfold armor_decode, armor_decode_gen.
  destruct (negb (framing_ok HEADER_WORD (until_dot bs))); [discriminate|].
  destruct (length bs <? S (length (until_dot bs)))%nat eqn:E1; [discriminate|].
  set (pl := until_dot (skipn (S (length (until_dot bs))) bs)).
  destruct (length bs <? S (length (until_dot bs)) + length pl + 1)%nat eqn:E2; [discriminate|].
  destruct (negb _); [discriminate|].
  destruct (b58_dec (filter (fun b => negb (is_ws b)) pl)) as [dec|] eqn:Ed; [|discriminate].
  destruct (length dec <? 4)%nat; [discriminate|].
  destruct (bytes_eqb _ _); [|discriminate].
  intros H. injection H as <-. exists (filter (fun b => negb (is_ws b)) pl), dec.
  split; [exact Ed|split; [reflexivity|]].
  apply Nat.ltb_ge in E2.
  pose proof (filter_len_le (fun b => negb (is_ws b)) pl). lia.
Qed.

(** witnesses of the panics of the code before the repair (armor.rs lines 78, 86, 102) *)
Definition W_HEADER_ONLY : bytes := HEADER_WORD.                         (* "BEGINSLATEPACK" *)
Definition W_NO_SECOND_DOT : bytes := HEADER.                            (* "BEGINSLATEPACK." *)
Definition W_SHORT_PAYLOAD : bytes := HEADER ++ [32; 49; 49] ++ FOOTER.  (* "BEGINSLATEPACK. 11. ENDSLATEPACK." *)

Lemma armor_decode_orig_refuted :
  (forall b58_dec sha4, armor_decode_orig b58_dec sha4 W_HEADER_ONLY = Panic PSliceOOB)
  /\ (forall b58_dec sha4, armor_decode_orig b58_dec sha4 W_NO_SECOND_DOT = Panic PSliceOOB)
  /\ armor_decode_orig b58_decode_impl sha256d4_impl W_SHORT_PAYLOAD = Panic PSliceOOB.
Proof. split; [|split]; intros; vm_compute; reflexivity. Qed.

(** ------------------------------------------------------------------ round trip (C08) *)
Definition plain_char (c : N) : bool := negb (is_ws c) && negb (c =? DOT).

Lemma bytes_eqb_refl a : bytes_eqb a a = true.
Proof. induction a as [|x a IH]; cbn; [reflexivity|]. rewrite N.eqb_refl, IH. reflexivity. Qed.

Lemma until_dot_app a r : forallb (fun c => negb (c =? DOT)) a = true ->
  until_dot (a ++ DOT :: r) = a.
Proof.
  induction a as [|x a IH]; cbn [forallb app until_dot]; intros H.
  - rewrite N.eqb_refl. reflexivity.
  - apply andb_true_iff in H as [Hx Ha]. apply negb_true_iff in Hx. rewrite Hx, IH by exact Ha. reflexivity.
Qed.

Lemma format_from_nodot i cs : forallb plain_char cs = true ->
  forallb (fun c => negb (c =? DOT)) (format_from i cs) = true.
Proof.
  revert i. induction cs as [|c cs IH]; intros i H; cbn [format_from forallb]; [reflexivity|].
  cbn [forallb] in H. apply andb_true_iff in H as [Hc Hcs].
  unfold plain_char in Hc. apply andb_true_iff in Hc as [_ Hd].
  rewrite forallb_app. cbn [forallb]. rewrite Hd, IH by exact Hcs.
  destruct (negb (i =? 0) && (i mod 15 =? 0)); [|reflexivity].
  destruct (i mod 3000 =? 0); reflexivity.
Qed.

Lemma format_from_clean i cs : forallb plain_char cs = true ->
  filter (fun b => negb (is_ws b)) (format_from i cs) = cs.
Proof.
  revert i. induction cs as [|c cs IH]; intros i H; cbn [format_from]; [reflexivity|].
  cbn [forallb] in H. apply andb_true_iff in H as [Hc Hcs].
  unfold plain_char in Hc. apply andb_true_iff in Hc as [Hw _].
  rewrite filter_app. cbn [filter]. rewrite Hw, IH by exact Hcs.
  destruct (negb (i =? 0) && (i mod 15 =? 0)); [|reflexivity].
  destruct (i mod 3000 =? 0); reflexivity.
Qed.

Lemma format_header P : format_from 0 (HEADER ++ P) = HEADER ++ format_from 15 P.
Proof. reflexivity. Qed.

(** Whatever base58 codec and 4-byte hash are plugged in, provided decoding inverts encoding,
    the encoder's alphabet has no period and no armor whitespace, and the check has 4
    bytes: the armored text decodes to the bytes that were armored. *)
Theorem armor_roundtrip g b58_enc b58_dec sha4 data :
  (forall x, b58_dec (b58_enc x) = Some x) ->
  (forall x, forallb plain_char (b58_enc x) = true) ->
  (forall x, length (sha4 x) = 4%nat) ->
  armor_decode_gen g b58_dec sha4 (armor_encode b58_enc sha4 data) = Ok data.
Proof.
  intros Hinv Halpha Hsha. unfold armor_encode. rewrite format_header.
  set (P := b58_enc (sha4 data ++ data)).
  set (F := format_from 15 P).
  assert (HF : forallb (fun c => negb (c =? DOT)) F = true) by (apply format_from_nodot, Halpha).
  unfold armor_decode_gen.
  (* header *)
  assert (Hh : until_dot ((HEADER ++ F) ++ FOOTER ++ [10]) = HEADER_WORD).
  { unfold HEADER. rewrite <- !app_assoc. apply until_dot_app. reflexivity. }
  rewrite Hh. change (negb (framing_ok HEADER_WORD HEADER_WORD)) with false. cbv iota.
  change (S (length HEADER_WORD)) with 15%nat.
  assert (Hlen : length ((HEADER ++ F) ++ FOOTER ++ [10]) = (15 + length F + 16)%nat).
  { rewrite !app_length. reflexivity. }
  rewrite Hlen.
  replace (15 + length F + 16 <? 15)%nat with false by (symmetry; apply Nat.ltb_ge; lia).
  (* payload *)
  assert (Hs1 : skipn 15 ((HEADER ++ F) ++ FOOTER ++ [10]) = F ++ FOOTER ++ [10]).
  { rewrite <- app_assoc. reflexivity. }
  rewrite Hs1.
  assert (Hp : until_dot (F ++ FOOTER ++ [10]) = F).
  { unfold FOOTER. cbn [app]. apply until_dot_app. exact HF. }
  rewrite Hp.
  replace (15 + length F + 16 <? 15 + length F + 1)%nat with false by (symmetry; apply Nat.ltb_ge; lia).
  (* footer *)
  assert (Hs2 : skipn (15 + length F + 1) ((HEADER ++ F) ++ FOOTER ++ [10])
                = [32] ++ FOOTER_WORD ++ [DOT; 10]).
  { replace (15 + length F + 1)%nat with (length (HEADER ++ F ++ [DOT]))
      by (rewrite !app_length; cbn; lia).
    replace ((HEADER ++ F) ++ FOOTER ++ [10]) with ((HEADER ++ F ++ [DOT]) ++ [32] ++ FOOTER_WORD ++ [DOT; 10]).
    - rewrite skipn_app, Nat.sub_diag, skipn_all, skipn_O. reflexivity.
    - unfold FOOTER. rewrite <- !app_assoc. reflexivity. }
  rewrite Hs2.
  change (negb (framing_ok FOOTER_WORD (until_dot ([32] ++ FOOTER_WORD ++ [DOT; 10])))) with false.
  cbv iota.
  (* payload decoding *)
  unfold F. rewrite format_from_clean by apply Halpha.
  unfold P. rewrite Hinv.
  replace (length (sha4 data ++ data) <? 4)%nat with false
    by (symmetry; apply Nat.ltb_ge; rewrite app_length, Hsha; lia).
  rewrite firstn_app, Hsha, Nat.sub_diag, firstn_O, app_nil_r.
  rewrite firstn_all2 by (rewrite Hsha; lia).
  rewrite skipn_app, Hsha, Nat.sub_diag, skipn_O.
  rewrite skipn_all2 by (rewrite Hsha; lia). rewrite app_nil_l.
  rewrite bytes_eqb_refl. reflexivity.
Qed.
