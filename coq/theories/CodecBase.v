(** CodecBase — byte readers and writers shared by the codec models (C08, C09).

    Models grin_core's [ser] layer as the wallet uses it (grin_core-5.3.3/src/ser.rs,
    [BinReader] over a [Cursor]): big-endian integers, [read_fixed_bytes] with its
    100_000 limit, [read_bytes_len_prefix], and the loop shapes of the wallet's readers.
    A reader is a function from the remaining input to a three-valued result carrying the
    decoded value and the rest of the input. Bytes are [N] (the models never rely on a
    byte being below 256, so every theorem holds for all lists). No proofs here. *)
From GW Require Import Base.

Definition bytes := list N.

Definition rd (A : Type) := bytes -> result (A * bytes).

Definition rret {A} (a : A) : rd A := fun bs => Ok (a, bs).
Definition rfail {A} (e : err) : rd A := fun _ => Err e.
Definition rpanic {A} (p : panic) : rd A := fun _ => Panic p.
Definition rbind {A B} (m : rd A) (f : A -> rd B) : rd B :=
  fun bs => match m bs with
            | Ok (a, r) => f a r
            | Err e => Err e
            | Panic p => Panic p
            end.
Notation "'do*' x '<-' m ';' k" := (rbind m (fun x => k))
  (at level 200, x pattern, m at level 100, k at level 200).

(** A guard that the repaired code checks and the original code did not: with
    [guarded = true] a failing guard is the error the repair returns, with [false] it is
    the panic the original code ran into. The models are parameterised by this flag so
    that the unrepaired behaviour stays available for the [_refuted] witnesses. *)
Definition guard (guarded : bool) (ok : bool) (e : err) (p : panic) : rd unit :=
  fun bs => if ok then Ok (tt, bs) else if guarded then Err e else Panic p.

(** [read_exact] of [n] bytes *)
Definition take (n : nat) : rd bytes :=
  fun bs => if (n <=? length bs)%nat then Ok (firstn n bs, skipn n bs) else Err EDeser.

Definition read_u8 : rd N :=
  fun bs => match bs with [] => Err EDeser | b :: r => Ok (b, r) end.

(** big-endian value of a byte list *)
Definition be (l : bytes) : N := fold_left (fun a b => a * 256 + b) l 0.

Definition read_be (k : nat) : rd N := do* l <- take k; rret (be l).
Definition read_u16 := read_be 2.
Definition read_u32 := read_be 4.
Definition read_u64 := read_be 8.

(** [Reader::read_fixed_bytes]: refuses more than 100_000 bytes before allocating *)
Definition MAX_READ : N := 100000.
Definition read_fixed (len : N) : rd bytes :=
  if MAX_READ <? len then rfail EDeser else take (N.to_nat len).

Definition read_bytes_len_prefix : rd bytes := do* len <- read_u64; read_fixed len.

(** [while n > 0 { read_u8()?; n -= 1 }] — the result of the loop; it stops at the end of
    the input, so it runs at most [min n |input|] + 1 times *)
Definition skip_n (k : N) : rd unit :=
  fun bs => if k <=? lenN bs then Ok (tt, skipn (N.to_nat k) bs) else Err EDeser.

(** [for _ in 0..count { item }] with explicit fuel: one unit per iteration. The decoders
    start every loop with fuel [S |remaining input|]; the theorems show it never runs out
    (every successful iteration consumes at least one byte), which bounds the number of
    iterations by the input length whatever count the input announces. *)
Fixpoint rd_many {A} (item : rd A) (fuel : nat) (count : N) : rd (list A) :=
  fun bs =>
    if count =? 0 then Ok ([], bs)
    else match fuel with
         | O => Err EOutOfFuel
         | S f =>
           match item bs with
           | Ok (x, r) =>
             match rd_many item f (count - 1) r with
             | Ok (xs, r') => Ok (x :: xs, r')
             | Err e => Err e
             | Panic p => Panic p
             end
           | Err e => Err e
           | Panic p => Panic p
           end
         end.
Definition rd_count {A} (item : rd A) (count : N) : rd (list A) :=
  fun bs => rd_many item (S (length bs)) count bs.

(** writers *)
Fixpoint be_enc (k : nat) (n : N) : bytes :=
  match k with
  | O => []
  | S k' => be_enc k' (n / 256) ++ [n mod 256]
  end.

Definition w_u8 (n : N) : bytes := [n].
Definition w_u16 := be_enc 2.
Definition w_u32 := be_enc 4.
Definition w_u64 := be_enc 8.
Definition w_bytes (b : bytes) : bytes := w_u64 (lenN b) ++ b.

(** equality on byte lists *)
Fixpoint bytes_eqb (a b : bytes) : bool :=
  match a, b with
  | [], [] => true
  | x :: a', y :: b' => (x =? y) && bytes_eqb a' b'
  | _, _ => false
  end.

(** run a reader on a whole input, dropping the unread rest (what [byte_ser::from_bytes]
    does: trailing bytes are not an error) *)
Definition run_rd {A} (d : rd A) (bs : bytes) : result A :=
  match d bs with Ok (a, _) => Ok a | Err e => Err e | Panic p => Panic p end.

(** hex text to bytes (used by the generated case files only) *)
From Coq Require Ascii String.
Definition hexval (c : Ascii.ascii) : N :=
  let n := Ascii.N_of_ascii c in
  if n <? 58 then n - 48 else n - 87.
Fixpoint hx (s : String.string) : bytes :=
  match s with
  | String.String a (String.String b r) => (hexval a * 16 + hexval b) :: hx r
  | _ => []
  end.
