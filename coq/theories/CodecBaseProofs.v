(** Proof infrastructure for the codec models: the compositional predicate [ok] ("never
    panics, never runs out of loop fuel, never returns more input than it was given") and
    its strict form [okS] ("... and consumes at least one byte on success"), round-trip
    lemmas for the integer and byte-string primitives. *)
From GW Require Import Base CodecBase.
From Coq Require Import ZifyBool ZifyN ZifyNat.
Ltac Zify.zify_post_hook ::= Z.div_mod_to_equations.

Definition ok {A} (d : rd A) : Prop :=
  forall bs, match d bs with
             | Ok (_, r) => (length r <= length bs)%nat
             | Err e => e <> EOutOfFuel
             | Panic _ => False
             end.
Definition okS {A} (d : rd A) : Prop :=
  forall bs, match d bs with
             | Ok (_, r) => (length r < length bs)%nat
             | Err e => e <> EOutOfFuel
             | Panic _ => False
             end.

Lemma okS_ok {A} (d : rd A) : okS d -> ok d.
Proof. intros H bs. specialize (H bs). destruct (d bs) as [[v r]|e|p]; auto. lia. Qed.

Lemma ok_ret {A} (a : A) : ok (rret a).
Proof. intros bs. cbn. lia. Qed.

Lemma ok_fail {A} e : e <> EOutOfFuel -> ok (@rfail A e).
Proof. intros H bs. exact H. Qed.

Lemma ok_bind {A B} (m : rd A) (f : A -> rd B) :
  ok m -> (forall x, ok (f x)) -> ok (rbind m f).
Proof.
  intros Hm Hf bs. unfold rbind. specialize (Hm bs).
  destruct (m bs) as [[a r]|e|p]; auto.
  specialize (Hf a r). destruct (f a r) as [[b r']|e|p]; auto. lia.
Qed.

Lemma okS_bind_l {A B} (m : rd A) (f : A -> rd B) :
  okS m -> (forall x, ok (f x)) -> okS (rbind m f).
Proof.
  intros Hm Hf bs. unfold rbind. specialize (Hm bs).
  destruct (m bs) as [[a r]|e|p]; auto.
  specialize (Hf a r). destruct (f a r) as [[b r']|e|p]; auto. lia.
Qed.

Lemma okS_bind_r {A B} (m : rd A) (f : A -> rd B) :
  ok m -> (forall x, okS (f x)) -> okS (rbind m f).
Proof.
  intros Hm Hf bs. unfold rbind. specialize (Hm bs).
  destruct (m bs) as [[a r]|e|p]; auto.
  specialize (Hf a r). destruct (f a r) as [[b r']|e|p]; auto. lia.
Qed.

Lemma ok_guard e p ok_cond : e <> EOutOfFuel -> ok (guard true ok_cond e p).
Proof. intros H bs. unfold guard. destruct ok_cond; cbn; auto. Qed.

Lemma take_spec n bs :
  take n bs = if (n <=? length bs)%nat then Ok (firstn n bs, skipn n bs) else Err EDeser.
Proof. reflexivity. Qed.

Lemma ok_take n : ok (take n).
Proof.
  intros bs. unfold take. destruct (n <=? length bs)%nat eqn:E; [|discriminate].
  rewrite skipn_length. lia.
Qed.

Lemma okS_take n : (0 < n)%nat -> okS (take n).
Proof.
  intros Hn bs. unfold take. destruct (n <=? length bs)%nat eqn:E; [|discriminate].
  rewrite skipn_length. apply Nat.leb_le in E. lia.
Qed.

Lemma okS_read_u8 : okS read_u8.
Proof. intros [|b r]; cbn; [discriminate|lia]. Qed.

Lemma ok_read_be k : ok (read_be k).
Proof. apply ok_bind; [apply ok_take|intros; apply ok_ret]. Qed.
Lemma okS_read_be k : (0 < k)%nat -> okS (read_be k).
Proof. intros H. apply okS_bind_l; [apply okS_take; exact H|intros; apply ok_ret]. Qed.

Lemma ok_read_fixed len : ok (read_fixed len).
Proof.
  unfold read_fixed. destruct (MAX_READ <? len); [apply ok_fail; discriminate|apply ok_take].
Qed.
Lemma okS_read_fixed len : 0 < len -> okS (read_fixed len).
Proof.
  intros H. unfold read_fixed. destruct (MAX_READ <? len).
  - intros bs. cbn. discriminate.
  - apply okS_take. lia.
Qed.

Lemma ok_read_bytes_len_prefix : ok read_bytes_len_prefix.
Proof. apply ok_bind; [apply ok_read_be|intros; apply ok_read_fixed]. Qed.
Lemma okS_read_bytes_len_prefix : okS read_bytes_len_prefix.
Proof. apply okS_bind_l; [apply okS_read_be; lia|intros; apply ok_read_fixed]. Qed.

Lemma ok_skip_n k : ok (skip_n k).
Proof.
  intros bs. unfold skip_n. destruct (k <=? lenN bs); [|discriminate].
  rewrite skipn_length. lia.
Qed.

(** loops: with fuel above the remaining length and items that consume, never out of fuel *)
Lemma rd_many_ok {A} (item : rd A) :
  okS item ->
  forall fuel count bs, (length bs < fuel)%nat ->
    match rd_many item fuel count bs with
    | Ok (_, r) => (length r <= length bs)%nat
    | Err e => e <> EOutOfFuel
    | Panic _ => False
    end.
Proof.
  intros Hi fuel. induction fuel as [|f IH]; intros count bs Hf; [lia|].
  cbn [rd_many]. destruct (count =? 0); [lia|].
  specialize (Hi bs). destruct (item bs) as [[x r]|e|p]; auto.
  specialize (IH (count - 1) r ltac:(lia)).
  destruct (rd_many item f (count - 1) r) as [[xs r']|e|p]; auto. lia.
Qed.

Lemma ok_rd_count {A} (item : rd A) count : okS item -> ok (rd_count item count).
Proof. intros Hi bs. unfold rd_count. apply rd_many_ok; [exact Hi|lia]. Qed.

(** consequences used by the property statements *)
Lemma ok_no_panic {A} (d : rd A) : ok d -> forall bs p, d bs <> Panic p.
Proof. intros H bs p E. specialize (H bs). rewrite E in H. exact H. Qed.
Lemma ok_no_fuel {A} (d : rd A) : ok d -> forall bs, d bs <> Err EOutOfFuel.
Proof. intros H bs E. specialize (H bs). rewrite E in H. congruence. Qed.
Lemma ok_suffix_len {A} (d : rd A) :
  ok d -> forall bs v r, d bs = Ok (v, r) -> (length r <= length bs)%nat.
Proof. intros H bs v r E. specialize (H bs). rewrite E in H. exact H. Qed.

Lemma run_rd_no_panic {A} (d : rd A) : ok d -> forall bs p, run_rd d bs <> Panic p.
Proof.
  intros H bs p. unfold run_rd. specialize (H bs).
  destruct (d bs) as [[v r]|e|q]; [discriminate|discriminate|contradiction].
Qed.
Lemma run_rd_no_fuel {A} (d : rd A) : ok d -> forall bs, run_rd d bs <> Err EOutOfFuel.
Proof.
  intros H bs. unfold run_rd. specialize (H bs).
  destruct (d bs) as [[v r]|e|q]; [discriminate|congruence|contradiction].
Qed.

(** allocation: [read_fixed] is the only primitive whose length comes from the input *)
Lemma read_fixed_refuses len bs : MAX_READ < len -> read_fixed len bs = Err EDeser.
Proof. intros H. unfold read_fixed. apply N.ltb_lt in H. rewrite H. reflexivity. Qed.

Lemma read_fixed_len len bs v r :
  read_fixed len bs = Ok (v, r) -> lenN v = len /\ len <= MAX_READ /\ bs = v ++ r.
Proof.
  unfold read_fixed. destruct (MAX_READ <? len) eqn:E; [discriminate|].
  unfold take. destruct (N.to_nat len <=? length bs)%nat eqn:E2; [|discriminate].
  intros H. injection H as <- <-. apply Nat.leb_le in E2. apply N.ltb_ge in E.
  split; [|split; [exact E|symmetry; apply firstn_skipn]].
  unfold lenN. rewrite firstn_length. lia.
Qed.

(** ------------------------------------------------------------------ round trips *)
Lemma take_app n (a b : bytes) : length a = n -> take n (a ++ b) = Ok (a, b).
Proof.
  intros H. unfold take. rewrite app_length.
  replace (n <=? length a + length b)%nat with true by (symmetry; apply Nat.leb_le; lia).
  subst n. rewrite firstn_app, Nat.sub_diag, firstn_all, firstn_O, app_nil_r.
  rewrite skipn_app, Nat.sub_diag, skipn_all, skipn_O. reflexivity.
Qed.

Lemma be_app l x : be (l ++ [x]) = be l * 256 + x.
Proof. unfold be. rewrite fold_left_app. reflexivity. Qed.

Lemma be_enc_length k n : length (be_enc k n) = k.
Proof.
  revert n. induction k as [|k IH]; intros n; cbn [be_enc]; [reflexivity|].
  rewrite app_length, IH. cbn. lia.
Qed.

Lemma be_be_enc k n : n < 256 ^ N.of_nat k -> be (be_enc k n) = n.
Proof.
  revert n. induction k as [|k IH]; intros n H.
  - cbn in *. change (256 ^ 0) with 1 in H. cbn. unfold be. cbn. lia.
  - cbn [be_enc]. rewrite be_app, IH.
    + pose proof (N.div_mod n 256 ltac:(lia)). lia.
    + rewrite Nat2N.inj_succ, N.pow_succ_r' in H.
      apply N.div_lt_upper_bound; lia.
Qed.

Lemma read_be_enc k n tail : n < 256 ^ N.of_nat k -> read_be k (be_enc k n ++ tail) = Ok (n, tail).
Proof.
  intros H. unfold read_be, rbind. rewrite take_app by apply be_enc_length.
  unfold rret. rewrite be_be_enc by exact H. reflexivity.
Qed.

Lemma read_u8_w n tail : read_u8 (w_u8 n ++ tail) = Ok (n, tail).
Proof. reflexivity. Qed.
Lemma read_u16_w n tail : n < 65536 -> read_u16 (w_u16 n ++ tail) = Ok (n, tail).
Proof. intros H. apply read_be_enc. exact H. Qed.
Lemma read_u32_w n tail : n < 4294967296 -> read_u32 (w_u32 n ++ tail) = Ok (n, tail).
Proof. intros H. apply read_be_enc. exact H. Qed.
Lemma read_u64_w n tail : n <= U64MAX -> read_u64 (w_u64 n ++ tail) = Ok (n, tail).
Proof. intros H. apply read_be_enc. unfold U64MAX in H. change (256 ^ N.of_nat 8) with 18446744073709551616. lia. Qed.

Lemma read_fixed_app len (a tail : bytes) :
  lenN a = len -> len <= MAX_READ -> read_fixed len (a ++ tail) = Ok (a, tail).
Proof.
  intros Hl Hm. unfold read_fixed. replace (MAX_READ <? len) with false by (symmetry; apply N.ltb_ge; exact Hm).
  apply take_app. unfold lenN in Hl. lia.
Qed.

Lemma read_bytes_w (b tail : bytes) :
  lenN b <= MAX_READ -> read_bytes_len_prefix (w_bytes b ++ tail) = Ok (b, tail).
Proof.
  intros H. unfold read_bytes_len_prefix, w_bytes, rbind. rewrite <- app_assoc.
  rewrite read_u64_w by (unfold MAX_READ, U64MAX in *; lia).
  apply read_fixed_app; [reflexivity|exact H].
Qed.

Lemma skip_n_zero bs : skip_n 0 bs = Ok (tt, bs).
Proof.
  unfold skip_n. destruct (0 <=? lenN bs) eqn:E; [reflexivity|].
  apply N.leb_gt in E. lia.
Qed.

(** a loop reads back what [concat (map w)] wrote, if each item does and writes >= 1 byte *)
Lemma rd_many_concat {A} (item : rd A) (w : A -> bytes) (P : A -> Prop) :
  (forall x tail, P x -> item (w x ++ tail) = Ok (x, tail)) ->
  forall (xs : list A) tail fuel,
    Forall P xs -> (length xs <= fuel)%nat ->
    rd_many item fuel (lenN xs) (concat (map w xs) ++ tail) = Ok (xs, tail).
Proof.
  intros Hrt xs. induction xs as [|x xs IH]; intros tail fuel HP Hf.
  - destruct fuel; reflexivity.
  - destruct fuel as [|f]; [cbn in Hf; lia|].
    cbn [rd_many]. replace (lenN (x :: xs) =? 0) with false
      by (symmetry; apply N.eqb_neq; unfold lenN; cbn [length]; lia).
    cbn [map concat]. rewrite <- app_assoc. inversion HP as [|? ? Hx Hxs]; subst.
    rewrite (Hrt x _ Hx).
    replace (lenN (x :: xs) - 1) with (lenN xs) by (unfold lenN; cbn [length]; lia).
    rewrite IH; [reflexivity|exact Hxs|cbn in Hf; lia].
Qed.

Lemma concat_length_ge {A} (w : A -> bytes) (xs : list A) :
  (forall x, (1 <= length (w x))%nat) -> (length xs <= length (concat (map w xs)))%nat.
Proof.
  intros H. induction xs as [|x xs IH]; cbn; [lia|].
  rewrite app_length. specialize (H x). lia.
Qed.

Lemma rd_count_concat {A} (item : rd A) (w : A -> bytes) (P : A -> Prop) :
  (forall x tail, P x -> item (w x ++ tail) = Ok (x, tail)) ->
  (forall x, (1 <= length (w x))%nat) ->
  forall (xs : list A) tail,
    Forall P xs ->
    rd_count item (lenN xs) (concat (map w xs) ++ tail) = Ok (xs, tail).
Proof.
  intros Hrt Hlen xs tail HP. unfold rd_count. apply (rd_many_concat item w P Hrt); [exact HP|].
  rewrite app_length. pose proof (concat_length_ge w xs Hlen). lia.
Qed.
