(** CodecRun — evaluation entry point of the C08/C09 correspondence runs: dispatches a
    harness case (decoder id, parameter, input bytes, external-validity tables computed by
    the harness with the real libraries) to the models and renders the canonical result.
    Not part of any theorem. *)
From GW Require Import Base CodecBase CodecArmor CodecSlatepack CodecSlate.

Record xt := mkX {
  x_pk : N;                                  (* bit i: input[i..i+33] is a valid secp256k1 key *)
  x_ed : N;                                  (* bit i: input[i..i+32] is a valid ed25519 key *)
  x_addrs : list (bytes * bytes);            (* address text -> canonical text *)
  x_json : list (bytes * option slatepack);  (* serde_json's answer for the JSON fallback *)
  x_edv : bool                               (* helper cases: first 32 bytes are a valid ed25519 key *)
}.
Definition x0 := mkX 0 0 [] [] false.

Fixpoint win_lookup (mask : N) (i : N) (w : bytes) (n : nat) (input : bytes) : bool :=
  match input with
  | [] => false
  | _ :: r =>
    if N.testbit mask i && bytes_eqb (firstn n input) w then true
    else win_lookup mask (i + 1) w n r
  end.

Fixpoint assoc_b {A} (k : bytes) (l : list (bytes * A)) : option A :=
  match l with
  | [] => None
  | (k', v) :: r => if bytes_eqb k k' then Some v else assoc_b k r
  end.

Definition max_size_of (chain : N) : N :=
  if chain =? 1 then 39976 * 32 + 30 else 226 * 32 + 30.

Definition run_case (c : N * N * bytes * xt) : list Z :=
  let '(d, p, input, x) := c in
  let valid_pk := fun w => win_lookup (x_pk x) 0 w 33 input in
  let valid_ed := fun w => win_lookup (x_ed x) 0 w 32 input in
  let addr_parse := fun s => assoc_b s (x_addrs x) in
  let json_sp := fun q => match assoc_b q (x_json x) with Some o => o | None => None end in
  match d with
  | 1 => canon_result CodecSlatepack.cbytes (armor_decode b58_decode_impl sha256d4_impl input)
  | 2 => canon_result canon_sp (run_rd (dec_slatepack_bin addr_parse true) input)
  | 4 => canon_result canon_v4 (run_rd (dec_v4bin valid_pk valid_ed true) input)
  | 5 => canon_result canon_sp
           (deser_slatepack addr_parse true b58_decode_impl sha256d4_impl json_sp
                            (max_size_of p) input)
  | 6 => if p =? 1 then canon_result (fun _ : unit => []) (age_header_dispatch true false)
         else canon_result canon_meta (post_decrypt addr_parse true input)
  | 7 => canon_result CodecSlatepack.cbytes (helper true (fun _ => x_edv x) p input)
  | _ => [9%Z]
  end.

(** the same cases on the models of the code before the repair *)
Definition run_case_orig (c : N * N * bytes * xt) : list Z :=
  let '(d, p, input, x) := c in
  let valid_pk := fun w => win_lookup (x_pk x) 0 w 33 input in
  let valid_ed := fun w => win_lookup (x_ed x) 0 w 32 input in
  let addr_parse := fun s => assoc_b s (x_addrs x) in
  let json_sp := fun q => match assoc_b q (x_json x) with Some o => o | None => None end in
  match d with
  | 1 => canon_result CodecSlatepack.cbytes (armor_decode_orig b58_decode_impl sha256d4_impl input)
  | 2 => canon_result canon_sp (run_rd (dec_slatepack_bin addr_parse false) input)
  | 4 => canon_result canon_v4 (run_rd (dec_v4bin valid_pk valid_ed false) input)
  | 5 => canon_result canon_sp
           (deser_slatepack addr_parse false b58_decode_impl sha256d4_impl json_sp
                            (max_size_of p) input)
  | 6 => if p =? 1 then canon_result (fun _ : unit => []) (age_header_dispatch false false)
         else canon_result canon_meta (post_decrypt addr_parse false input)
  | 7 => canon_result CodecSlatepack.cbytes (helper false (fun _ => x_edv x) p input)
  | _ => [9%Z]
  end.
