(** CodecRun — evaluation entry point of the C08/C09 correspondence runs: dispatches a
    harness case (decoder id, parameter, input bytes, external-validity tables computed by
    the harness with the real libraries) to the models and renders the canonical result.
    Not part of any theorem. *)
From GW Require Import Base CodecBase CodecArmor CodecSlatepack CodecSlate.

Record xt := mkX {
  x_pk : N;                                  (* bit i: input[i..i+33] is a valid secp256k1 key *)
  x_ed : N;                                  (* bit i: input[i..i+32] is a valid ed25519 key *)
  x_addrs : list (bytes * bytes);            (* address text -> canonical text *)
  x_json : list (bytes * option slatepack);  (* serde_json's answer for the JSON fallback *)
  x_edv : bool                               (* helper cases: first 32 bytes are a valid ed25519 key *)
}.
Definition x0 := mkX 0 0 [] [] false.

Fixpoint win_lookup (mask : N) (w : bytes) (n : nat) (input : bytes) : bool :=
  match input with
  | [] => false
  | _ :: r =>
    if N.odd mask && bytes_eqb (firstn n input) w then true
    else win_lookup (N.div2 mask) w n r
  end.

(** byte strings travel as one hexadecimal numeral with a leading 1 nibble (cheap to parse) *)
Fixpoint unpack_aux (fuel : nat) (n : N) (acc : bytes) : bytes :=
  match fuel with
  | O => acc
  | S f => if n <=? 1 then acc
           else unpack_aux f (N.shiftr n 8) (N.land n 255 :: acc)
  end.
Definition unpack1 (n : N) : bytes := unpack_aux (N.to_nat (N.size n)) n [].
(** long strings come in chunks (deep numerals overflow the parser's stack) *)
Definition unpack (l : list N) : bytes := concat (map unpack1 l).

(** expected results travel the same way: a number below 255 is one byte, anything else is
    255 followed by 8 big-endian bytes *)
Fixpoint enc_nums (l : list Z) : bytes :=
  match l with
  | [] => []
  | z :: r => let n := Z.to_N z in
              if n <? 255 then n :: enc_nums r else 255 :: be_enc 8 n ++ enc_nums r
  end.

Fixpoint assoc_b {A} (k : bytes) (l : list (bytes * A)) : option A :=
  match l with
  | [] => None
  | (k', v) :: r => if bytes_eqb k k' then Some v else assoc_b k r
  end.

Definition max_size_of (chain : N) : N :=
  if chain =? 1 then 39976 * 32 + 30 else 226 * 32 + 30.

Definition run_case (c : N * N * bytes * xt) : list Z :=
  let '(d, p, input, x) := c in
  let valid_pk := fun w => win_lookup (x_pk x) w 33 input in
  let valid_ed := fun w => win_lookup (x_ed x) w 32 input in
  let addr_parse := fun s => assoc_b s (x_addrs x) in
  let json_sp := fun q => match assoc_b q (x_json x) with Some o => o | None => None end in
  match d with
  | 1 => canon_result CodecSlatepack.cbytes (armor_decode b58_decode_impl sha256d4_impl input)
  | 2 => canon_result canon_sp (run_rd (dec_slatepack_bin addr_parse true) input)
  | 4 => canon_result canon_v4 (run_rd (dec_v4bin valid_pk valid_ed true) input)
  | 5 => canon_result canon_sp
           (deser_slatepack addr_parse true b58_decode_impl sha256d4_impl json_sp
                            (max_size_of p) input)
  | 6 => if p =? 1 then canon_result (fun _ : unit => []) (age_header_dispatch true false)
         else canon_result canon_meta (post_decrypt addr_parse true input)
  | 7 => canon_result CodecSlatepack.cbytes (helper true (fun _ => x_edv x) p input)
  | _ => [9%Z]
  end.

(** the same cases on the models of the code before the repair *)
Definition run_case_orig (c : N * N * bytes * xt) : list Z :=
  let '(d, p, input, x) := c in
  let valid_pk := fun w => win_lookup (x_pk x) w 33 input in
  let valid_ed := fun w => win_lookup (x_ed x) w 32 input in
  let addr_parse := fun s => assoc_b s (x_addrs x) in
  let json_sp := fun q => match assoc_b q (x_json x) with Some o => o | None => None end in
  match d with
  | 1 => canon_result CodecSlatepack.cbytes (armor_decode_orig b58_decode_impl sha256d4_impl input)
  | 2 => canon_result canon_sp (run_rd (dec_slatepack_bin addr_parse false) input)
  | 4 => canon_result canon_v4 (run_rd (dec_v4bin valid_pk valid_ed false) input)
  | 5 => canon_result canon_sp
           (deser_slatepack addr_parse false b58_decode_impl sha256d4_impl json_sp
                            (max_size_of p) input)
  | 6 => if p =? 1 then canon_result (fun _ : unit => []) (age_header_dispatch false false)
         else canon_result canon_meta (post_decrypt addr_parse false input)
  | 7 => canon_result CodecSlatepack.cbytes (helper false (fun _ => x_edv x) p input)
  | _ => [9%Z]
  end.

(** compare inside Coq: [] when the model's result equals the implementation's (packed in
    [expected]), otherwise 7 followed by the model's result *)
Definition check_case (ce : (N * N * list N * xt) * list N) : list Z :=
  let '((d, p, input, x), expected) := ce in
  let m := run_case (d, p, unpack input, x) in
  if bytes_eqb (enc_nums m) (unpack expected) then [] else 7%Z :: m.
Definition check_case_orig (ce : (N * N * list N * xt) * list N) : list Z :=
  let '((d, p, input, x), expected) := ce in
  let m := run_case_orig (d, p, unpack input, x) in
  if bytes_eqb (enc_nums m) (unpack expected) then [] else 7%Z :: m.
Definition ub := unpack.

(** ------------------------------------------------------------------ C08 *)
Definition eqn (l : list Z) (e : list N) : bool := bytes_eqb (enc_nums l) (unpack e).
Definition flag (i : Z) (b : bool) : list Z := if b then [] else [i].
(** an empty expectation stands for "the default" (keeps the case files small) *)
Definition eqn_same (l : list Z) (e : list N) (dflt : list Z) : bool :=
  match e with
  | [] => bytes_eqb (enc_nums l) (enc_nums dflt)
  | _ => eqn l e
  end.
Definition all_true : bytes -> bool := fun _ => true.

Definition coptn (o : option N) : list Z :=
  match o with Some v => [1%Z; CodecSlate.cz v] | None => [0%Z] end.
Definition coptraw (o : option bytes) : list Z :=
  match o with Some b => 1%Z :: CodecSlate.craw b | None => [0%Z] end.
Definition coptbytes (o : option bytes) : list Z :=
  match o with Some b => 1%Z :: CodecSlate.cbytes b | None => [0%Z] end.

(** layout of the harness's [fields_of_json] *)
Definition canon_fields (j : jslate) : list Z :=
  [CodecSlate.cz (j_ver j); CodecSlate.cz (j_bhv j)] ++ CodecSlate.craw (j_id j)
  ++ [CodecSlate.cz (j_sta j)] ++ coptbytes (j_off j)
  ++ coptn (j_num_parts j) ++ coptn (j_amt j) ++ coptn (j_fee j) ++ coptn (j_feat j) ++ coptn (j_ttl j)
  ++ CodecSlate.cz (lenN (j_sigs j))
     :: concat (map (fun g => CodecSlate.craw (j_xs g) ++ CodecSlate.craw (j_nonce g) ++ coptraw (j_part g))
                    (j_sigs j))
  ++ (match j_coms j with
      | None => [0%Z]
      | Some cs => 1%Z :: CodecSlate.cz (lenN cs)
                   :: concat (map (fun c => coptn (j_f c) ++ CodecSlate.craw (j_c c) ++ coptbytes (j_p c)) cs)
      end)
  ++ (match j_proof j with
      | None => [0%Z]
      | Some p => 1%Z :: CodecSlate.craw (j_saddr p) ++ CodecSlate.craw (j_raddr p) ++ coptraw (j_rsig p)
      end)
  ++ coptn (j_feat_args j).

Definition canon_kernel (sl : slate) : list Z :=
  match sl_tx sl with
  | None => []
  | Some t => match tx_kernel t with
              | KPlain => [0%Z; 0%Z]
              | KHeightLocked l => [2%Z; CodecSlate.cz l]
              | KNoRecentDuplicate r => [3%Z; CodecSlate.cz r]
              end
  end.

(** V4 slate case: [] when the model agrees with the implementation on
    1 the binary encoding (byte for byte), 2 its decoding, 3 the JSON field map,
    4 the JSON decoding, 5 Slate<->V4, 6 the reconstructed kernel *)
Definition check_v4 (c : slate4 * list N * list N * list N * list N * list N * list N) : list Z :=
  let '(s, e_bin, e_bin_dec, e_fields, e_json_dec, e_conv, e_kernel) := c in
  let bin := enc_v4bin s in
  flag 1 (bytes_eqb bin (unpack e_bin))
  ++ flag 2 (eqn_same (canon_result canon_v4 (run_rd (dec_v4bin all_true all_true true) bin)) e_bin_dec
                      (0%Z :: canon_v4 s))
  ++ flag 3 (eqn (canon_fields (to_fields s)) e_fields)
  ++ flag 4 (eqn_same (canon_result canon_v4 (of_fields true all_true all_true all_true (to_fields s))) e_json_dec
                      (0%Z :: canon_v4 s))
  ++ flag 5 (eqn_same (canon_v4 (v4_of_slate (slate_of_v4 s))) e_conv (canon_v4 s))
  ++ flag 6 (eqn (canon_kernel (slate_of_v4 s)) e_kernel).

Definition ap_id : bytes -> option bytes := fun s => Some s.

(** slatepack case: 1 binary encoding, 2 its decoding, 3 armor text, 4 armor decoding *)
Definition check_sp (c : slatepack * list N * list N * list N * list N) : list Z :=
  let '(sp, e_bin, e_bin_dec, e_armor, e_armor_dec) := c in
  let bin := enc_slatepack_bin sp in
  flag 1 (bytes_eqb bin (unpack e_bin))
  ++ flag 2 (eqn (canon_result canon_sp (run_rd (dec_slatepack_bin ap_id true) bin)) e_bin_dec)
  ++ flag 3 (bytes_eqb (armor_encode b58_encode_impl sha256d4_impl bin) (unpack e_armor))
  ++ flag 4 (eqn (canon_result CodecSlatepack.cbytes
                               (armor_decode b58_decode_impl sha256d4_impl
                                             (armor_encode b58_encode_impl sha256d4_impl bin)))
                 e_armor_dec).

(** encrypted metadata case: 1 the plaintext handed to age, 2 what decryption returns *)
Definition check_meta (c : encmeta * list N * list N * list N) : list Z :=
  let '(m, payload, e_plain, e_dec) := c in
  let plain := pre_encrypt m (unpack payload) in
  flag 1 (bytes_eqb plain (unpack e_plain))
  ++ flag 2 (eqn (canon_result canon_meta (post_decrypt ap_id true plain)) e_dec).
