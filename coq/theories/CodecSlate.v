(** CodecSlate — the binary V4 slate (libwallet/src/slate_versions/v4_bin.rs), the
    hex/base64 -> fixed-size helpers of slate_versions/ser.rs, the V4 JSON form at the
    level of field maps, and the Slate <-> SlateV4 conversion (libwallet/src/slate.rs).

    Curve-point validity is external: [valid_pk] stands for
    [secp256k1 PublicKey::from_slice] on 33 bytes, [valid_ed] for
    [ed25519_dalek::PublicKey::from_bytes] on 32 bytes. The ed25519 *signature* check of
    ed25519 1.5.3 is the concrete bit test [edsig_ok]. [guarded = false] is the code before
    the repair. *)
From GW Require Import Base CodecBase.

Record sigdata := mkSig { sg_xs : bytes; sg_nonce : bytes; sg_part : option bytes }.
Record comdata := mkCom { cm_f : N; cm_c : bytes; cm_p : option bytes }.
Record proofdata := mkProof { pf_saddr : bytes; pf_raddr : bytes; pf_rsig : option bytes }.

Record slate4 := mkSlate4 {
  s_ver : N;
  s_bhv : N;
  s_id : bytes;
  s_sta : N;
  s_off : bytes;
  s_num_parts : N;
  s_amt : N;
  s_fee : N;
  s_feat : N;
  s_ttl : N;
  s_sigs : list sigdata;
  s_coms : option (list comdata);
  s_proof : option proofdata;
  s_feat_args : option N
}.

Definition FEE_MASK40 : N := 1099511627775.          (* FeeFields::FEE_MASK = 2^40 - 1 *)
Definition fee_of (raw : N) : N := N.land raw FEE_MASK40.   (* FeeFields::fee() *)
Definition MAX_PROOF_SIZE : N := 675.

(** ed25519 1.5.3 [Signature::from_bytes]: 64 bytes, the three top bits of the last one clear *)
Definition edsig_ok (b : bytes) : bool :=
  (length b =? 64)%nat && (N.land (nth 63 b 0) 224 =? 0).

Section WithKeys.
Variable valid_pk : bytes -> bool.
Variable valid_ed : bytes -> bool.

(** ---- readers *)
Definition read_state : rd N :=
  do* b <- read_u8; rret (if b <=? 6 then b else 0).

Definition read_pubkey : rd bytes :=
  do* b <- read_fixed 33;
  if valid_pk b then rret b else rfail EDeser.

Definition testb (status : N) (i : N) : bool := N.testbit status i.

Definition read_opt_fields : rd (N * N * N * N * N) :=
  do* status <- read_u8;
  do* num_parts <- (if testb status 0 then read_u8 else rret 2);
  do* amt <- (if testb status 1 then read_u64 else rret 0);
  do* fee <- (if testb status 2 then read_u64 else rret 0);
  do* feat <- (if testb status 3 then read_u8 else rret 0);
  do* ttl <- (if testb status 4 then read_u64 else rret 0);
  rret (num_parts, amt, fee, feat, ttl).

Definition read_sig : rd sigdata :=
  do* has_part <- read_u8;
  do* xs <- read_pubkey;
  do* nonce <- read_pubkey;
  do* part <- (if has_part =? 1 then do* s <- read_fixed 64; rret (Some s) else rret None);
  rret (mkSig xs nonce part).

Definition read_sigs : rd (list sigdata) :=
  do* n <- read_u8; rd_count read_sig n.

(** grin_core [RangeProof::read]: u64 length, [min(len, 675)] bytes, zero padded to 675 *)
Definition read_rangeproof : rd bytes :=
  do* len <- read_u64;
  do* p <- read_fixed (N.min len MAX_PROOF_SIZE);
  rret (p ++ repeat 0 (675 - length p)%nat).

Definition read_com : rd comdata :=
  do* is_output <- read_u8;
  do* f <- read_u8;
  if 1 <? f then rfail EDeser else
  do* c <- read_fixed 33;
  do* p <- (if is_output =? 1 then do* x <- read_rangeproof; rret (Some x) else rret None);
  rret (mkCom f c p).

Definition read_coms : rd (list comdata) :=
  do* n <- read_u16; rd_count read_com n.

(** ProofWrap::read; the two [unwrap]s on keys and the one on the signature *)
Definition read_proof (guarded : bool) : rd proofdata :=
  do* saddr <- read_fixed 32;
  do* _ <- guard guarded (valid_ed saddr) EDeser PUnwrap;
  do* raddr <- read_fixed 32;
  do* _ <- guard guarded (valid_ed raddr) EDeser PUnwrap;
  do* has_sig <- read_u8;
  do* rsig <- (if has_sig =? 0 then rret None
               else do* s <- read_fixed 64;
                    do* _ <- guard guarded (edsig_ok s) EDeser PUnwrap;
                    rret (Some s));
  rret (mkProof saddr raddr rsig).

Definition read_opt_structs (guarded : bool) : rd (option (list comdata) * option proofdata) :=
  do* status <- read_u8;
  do* coms <- (if testb status 0 then do* c <- read_coms; rret (Some c) else rret None);
  do* proof <- (if testb status 1 then do* p <- read_proof guarded; rret (Some p) else rret None);
  rret (coms, proof).

Definition dec_v4bin (guarded : bool) : rd slate4 :=
  do* ver <- read_u16;
  do* bhv <- read_u16;
  do* id <- read_fixed 16;
  do* sta <- read_state;
  do* off <- read_fixed 32;
  do* opts <- read_opt_fields;
  let '(num_parts, amt, fee, feat, ttl) := opts in
  do* sigs <- read_sigs;
  do* os <- read_opt_structs guarded;
  do* feat_args <- (if feat =? 2 then do* l <- read_u64; rret (Some l) else rret None);
  rret (mkSlate4 ver bhv id sta off num_parts amt fee feat ttl sigs (fst os) (snd os) feat_args).

End WithKeys.

(** ---- writers *)
Definition b2n (b : bool) : N := if b then 1 else 0.

Definition enc_opt_fields (s : slate4) : bytes :=
  let st := b2n (negb (s_num_parts s =? 2))
            + 2 * b2n (0 <? s_amt s)
            + 4 * b2n (0 <? fee_of (s_fee s))
            + 8 * b2n (0 <? s_feat s)
            + 16 * b2n (0 <? s_ttl s) in
  w_u8 st
  ++ (if negb (s_num_parts s =? 2) then w_u8 (s_num_parts s) else [])
  ++ (if 0 <? s_amt s then w_u64 (s_amt s) else [])
  ++ (if 0 <? fee_of (s_fee s) then w_u64 (s_fee s) else [])
  ++ (if 0 <? s_feat s then w_u8 (s_feat s) else [])
  ++ (if 0 <? s_ttl s then w_u64 (s_ttl s) else []).

Definition enc_sig (g : sigdata) : bytes :=
  w_u8 (match sg_part g with Some _ => 1 | None => 0 end)
  ++ sg_xs g ++ sg_nonce g
  ++ (match sg_part g with Some p => p | None => [] end).

(** [OutputFeatures::from(o.f)]: 1 is Coinbase, everything else Plain *)
Definition enc_com (c : comdata) : bytes :=
  w_u8 (match cm_p c with Some _ => 1 | None => 0 end)
  ++ w_u8 (if cm_f c =? 1 then 1 else 0)
  ++ cm_c c
  ++ (match cm_p c with Some p => w_bytes p | None => [] end).

Definition enc_proof (p : proofdata) : bytes :=
  pf_saddr p ++ pf_raddr p
  ++ (match pf_rsig p with Some s => w_u8 1 ++ s | None => w_u8 0 end).

Definition enc_opt_structs (s : slate4) : bytes :=
  w_u8 (b2n (match s_coms s with Some _ => true | None => false end)
        + 2 * b2n (match s_proof s with Some _ => true | None => false end))
  ++ (match s_coms s with
      | Some cs => w_u16 (lenN cs mod 65536) ++ concat (map enc_com cs)
      | None => []
      end)
  ++ (match s_proof s with Some p => enc_proof p | None => [] end).

Definition enc_v4bin (s : slate4) : bytes :=
  w_u16 (s_ver s) ++ w_u16 (s_bhv s) ++ s_id s ++ w_u8 (s_sta s) ++ s_off s
  ++ enc_opt_fields s
  ++ w_u8 (lenN (s_sigs s) mod 256) ++ concat (map enc_sig (s_sigs s))
  ++ enc_opt_structs s
  ++ (if s_feat s =? 2
      then w_u64 (match s_feat_args s with Some l => l | None => 0 end)
      else []).

(** ---- hex/base64 -> fixed size helpers of slate_versions/ser.rs, after the text layer.
    [b] is what [from_hex] / [base64::decode] returned. Kinds:
    1 dalek_xpubkey_serde, 2 option_dalek_pubkey_base64, 3 option_dalek_pubkey_serde,
    4 option_xdalek_pubkey_serde, 5 dalek_sig_serde, 6 option_dalek_sig_serde,
    7 option_dalek_sig_base64, 8 uuid_base64, 9 dalek_pubkey_serde, 10 dalek_pubkey_base64,
    11 dalek_seckey_serde, 12 bytes_from_base64, 13 option_rangeproof_hex. *)
Definition prefix_n (guarded : bool) (n : nat) (b : bytes) : result bytes :=
  (* b.copy_from_slice(&bytes[0..n]) *)
  if (length b <? n)%nat then (if guarded then Err EDeser else Panic PSliceOOB)
  else Ok (firstn n b).

Definition helper (guarded : bool) (valid_ed : bytes -> bool) (k : N) (b : bytes)
  : result bytes :=
  match k with
  | 1 | 4 => prefix_n guarded 32 b
  | 8 => prefix_n guarded 16 b
  | 2 | 3 =>
    let* p := prefix_n guarded 32 b in
    if valid_ed p then Ok p else Err EDeser
  | 5 | 6 | 7 =>
    let* p := prefix_n guarded 64 b in
    (* DalekSignature::try_from([u8; 64]) resolved to the infallible, panicking From *)
    if edsig_ok p then Ok p else if guarded then Err EDeser else Panic PUnwrap
  | 9 | 10 =>
    if (length b =? 32)%nat && valid_ed b then Ok b else Err EDeser
  | 11 => if (length b =? 32)%nat then Ok b else Err EDeser
  | 12 => Ok b
  | 13 =>
    (* secp RangeProof's serde visitor indexes a 675 byte array without a bound *)
    if lenN b <=? MAX_PROOF_SIZE then Ok b
    else if guarded then Err EDeser else Panic PIndexOOB
  | _ => Err EOther
  end.

(** ---- canonical projection (layout of the harness's [canon_v4]) *)
Definition cz (n : N) : Z := Z.of_N n.
Definition craw (b : bytes) : list Z := map cz b.
Definition cbytes (b : bytes) : list Z := cz (lenN b) :: map cz b.

Definition canon_sig (g : sigdata) : list Z :=
  craw (sg_xs g) ++ craw (sg_nonce g)
  ++ (match sg_part g with Some p => 1%Z :: craw p | None => [0%Z] end).
Definition canon_com (c : comdata) : list Z :=
  cz (cm_f c) :: craw (cm_c c)
  ++ (match cm_p c with Some p => 1%Z :: cbytes p | None => [0%Z] end).

Definition canon_v4 (s : slate4) : list Z :=
  [cz (s_ver s); cz (s_bhv s)] ++ craw (s_id s) ++ [cz (s_sta s)] ++ craw (s_off s)
  ++ [cz (s_num_parts s); cz (s_amt s); cz (s_fee s); cz (s_feat s); cz (s_ttl s)]
  ++ cz (lenN (s_sigs s)) :: concat (map canon_sig (s_sigs s))
  ++ (match s_coms s with
      | None => [0%Z]
      | Some cs => 1%Z :: cz (lenN cs) :: concat (map canon_com cs)
      end)
  ++ (match s_proof s with
      | None => [0%Z]
      | Some p => 1%Z :: craw (pf_saddr p) ++ craw (pf_raddr p)
                  ++ (match pf_rsig p with Some g => 1%Z :: craw g | None => [0%Z] end)
      end)
  ++ (match s_feat_args s with None => [0%Z] | Some l => [1%Z; cz l] end).

(** ------------------------------------------------------------------------------------
    V4 JSON at the level of field maps: which keys are present and what their decoded
    byte strings / integers are (serde_json's text layer, hex/base64 text, the uuid and
    "S1".."I3" labels and the compact form of secp signatures are external and trusted).
    [to_fields] follows the [skip_serializing_if] rules of slate_versions/v4.rs,
    [of_fields] the [default] rules and the fixed-size conversions. *)
Record jsig := mkJSig { j_xs : bytes; j_nonce : bytes; j_part : option bytes }.
Record jcom := mkJCom { j_f : option N; j_c : bytes; j_p : option bytes }.
Record jproof := mkJProof { j_saddr : bytes; j_raddr : bytes; j_rsig : option bytes }.
Record jslate := mkJSlate {
  j_ver : N; j_bhv : N; j_id : bytes; j_sta : N;
  j_off : option bytes; j_num_parts : option N; j_amt : option N; j_fee : option N;
  j_feat : option N; j_ttl : option N;
  j_sigs : list jsig; j_coms : option (list jcom); j_proof : option jproof;
  j_feat_args : option N
}.

Definition omit_if (skip : bool) (v : N) : option N := if skip then None else Some v.
Definition all_zero (b : bytes) : bool := forallb (fun x => x =? 0) b.

Definition to_fields (s : slate4) : jslate :=
  mkJSlate (s_ver s) (s_bhv s) (s_id s) (s_sta s)
    (if all_zero (s_off s) then None else Some (s_off s))       (* offset_is_zero *)
    (omit_if (s_num_parts s =? 2) (s_num_parts s))              (* num_parts_is_2 *)
    (omit_if (s_amt s =? 0) (s_amt s))                          (* u64_is_blank *)
    (omit_if (s_fee s =? 0) (s_fee s))                          (* fee_is_zero: the raw value *)
    (omit_if (s_feat s =? 0) (s_feat s))                        (* u8_is_blank *)
    (omit_if (s_ttl s =? 0) (s_ttl s))
    (map (fun g => mkJSig (sg_xs g) (sg_nonce g) (sg_part g)) (s_sigs s))
    (option_map (map (fun c => mkJCom (omit_if (cm_f c =? 0) (cm_f c)) (cm_c c) (cm_p c))) (s_coms s))
    (option_map (fun p => mkJProof (pf_saddr p) (pf_raddr p) (pf_rsig p)) (s_proof s))
    (s_feat_args s).

(** [BlindingFactor::from_slice] / [Commitment::from_vec]: first n bytes, zero padded *)
Definition pad_to (n : nat) (b : bytes) : bytes := firstn n b ++ repeat 0 (n - length b)%nat.
Definition dflt (d : N) (o : option N) : N := match o with Some v => v | None => d end.

Fixpoint map_res {A B} (f : A -> result B) (l : list A) : result (list B) :=
  match l with
  | [] => Ok []
  | x :: r => let* y := f x in let* ys := map_res f r in Ok (y :: ys)
  end.

Section JsonDecode.
Variable guarded : bool.
Variable valid_pk : bytes -> bool.
Variable valid_ed : bytes -> bool.
Variable valid_sig : bytes -> bool.   (* secp Signature::from_compact accepts the 64 bytes *)

Definition of_jsig (j : jsig) : result sigdata :=
  if negb ((length (j_xs j) =? 33)%nat && valid_pk (j_xs j)) then Err EDeser else
  if negb ((length (j_nonce j) =? 33)%nat && valid_pk (j_nonce j)) then Err EDeser else
  match j_part j with
  | None => Ok (mkSig (j_xs j) (j_nonce j) None)
  | Some b =>
    (* grin_core option_sig_serde checks the length itself *)
    if (length b <? 64)%nat then Err EDeser else
    if valid_sig (firstn 64 b) then Ok (mkSig (j_xs j) (j_nonce j) (Some (firstn 64 b)))
    else Err EDeser
  end.

Definition of_jcom (j : jcom) : result comdata :=
  let* p := match j_p j with
            | None => Ok None
            | Some b => let* x := helper guarded valid_ed 13 b in Ok (Some x)
            end in
  Ok (mkCom (dflt 0 (j_f j)) (pad_to 33 (j_c j)) p).

Definition of_jproof (j : jproof) : result proofdata :=
  let* sa := helper guarded valid_ed 9 (j_saddr j) in
  let* ra := helper guarded valid_ed 9 (j_raddr j) in
  let* sg := match j_rsig j with
             | None => Ok None
             | Some b => let* x := helper guarded valid_ed 6 b in Ok (Some x)
             end in
  Ok (mkProof sa ra sg).

Definition of_fields (j : jslate) : result slate4 :=
  if 6 <? j_sta j then Err EDeser else
  let* sigs := map_res of_jsig (j_sigs j) in
  let* coms := match j_coms j with
               | None => Ok None
               | Some l => let* x := map_res of_jcom l in Ok (Some x)
               end in
  let* proof := match j_proof j with
                | None => Ok None
                | Some p => let* x := of_jproof p in Ok (Some x)
                end in
  Ok (mkSlate4 (j_ver j) (j_bhv j) (j_id j) (j_sta j)
               (match j_off j with Some b => pad_to 32 b | None => repeat 0 32 end)
               (dflt 2 (j_num_parts j)) (dflt 0 (j_amt j)) (dflt 0 (j_fee j))
               (dflt 0 (j_feat j)) (dflt 0 (j_ttl j))
               sigs coms proof (j_feat_args j)).

End JsonDecode.

(** ------------------------------------------------------------------------------------
    Slate <-> SlateV4 (libwallet/src/slate.rs): the internal slate keeps the transaction
    (inputs, outputs, one kernel, offset) where V4 keeps the commitment list. Kernel excess
    and signature are recomputed with secp256k1 and are left out. *)
Inductive kfeat := KPlain | KHeightLocked (lock : N) | KNoRecentDuplicate (rel : N).
Record txdata := mkTx {
  tx_inputs : list comdata;     (* features, commitment; no proof *)
  tx_outputs : list comdata;    (* features, commitment, proof *)
  tx_kernel : kfeat;
  tx_kernel_fee : N;
  tx_offset : bytes
}.
Record slate := mkSlate {
  sl_v4 : slate4;               (* every field V4 carries except coms *)
  sl_tx : option txdata
}.

Definition is_output (c : comdata) : bool := match cm_p c with Some _ => true | None => false end.

(** [tx_from_slate_v4]: feat 1 (not 2) is mapped to HeightLocked, everything else to Plain *)
Definition kernel_of_v4 (s : slate4) : kfeat :=
  if s_feat s =? 1 then KHeightLocked (match s_feat_args s with Some l => l | None => 0 end)
  else KPlain.

(** the kernel the wallet itself builds for its slate ([Slate::kernel_features]): plain,
    height locked (feat 2) or no-recent-duplicate (feat 3) with the argument *)
Definition wallet_kernel (s : slate4) : option kfeat :=
  match s_feat s, s_feat_args s with
  | 0, _ => Some KPlain
  | 2, Some l => Some (KHeightLocked l)
  | 3, Some l => Some (KNoRecentDuplicate l)
  | _, _ => None
  end.

(** [OutputFeaturesV4 -> OutputFeatures -> OutputFeaturesV4]: 1 stays, everything else is 0 *)
Definition norm_f (c : comdata) : comdata := mkCom (if cm_f c =? 1 then 1 else 0) (cm_c c) (cm_p c).

Definition slate_of_v4 (s : slate4) : slate :=
  mkSlate s
    (match s_coms s with
     | None => None
     | Some cs => Some (mkTx (map norm_f (filter (fun c => negb (is_output c)) cs))
                             (map norm_f (filter is_output cs))
                             (kernel_of_v4 s) (s_fee s) (s_off s))
     end).

Definition set_coms (s : slate4) (c : option (list comdata)) : slate4 :=
  mkSlate4 (s_ver s) (s_bhv s) (s_id s) (s_sta s) (s_off s) (s_num_parts s) (s_amt s) (s_fee s)
           (s_feat s) (s_ttl s) (s_sigs s) c (s_proof s) (s_feat_args s).

Definition set_feat_args (s : slate4) (a : option N) : slate4 :=
  mkSlate4 (s_ver s) (s_bhv s) (s_id s) (s_sta s) (s_off s) (s_num_parts s) (s_amt s) (s_fee s)
           (s_feat s) (s_ttl s) (s_sigs s) (s_coms s) (s_proof s) a.

Definition v4_of_slate (sl : slate) : slate4 :=
  set_coms (sl_v4 sl)
           (match sl_tx sl with
            | None => None
            | Some t => Some (tx_inputs t ++ tx_outputs t)
            end).
