(** Proofs about the V4 slate models: totality and loop bound of the repaired binary
    reader and of the hex/base64 helpers, the panics of the unrepaired code, the binary
    round trip on well-formed slates and the recorded wire-format findings. *)
From GW Require Import Base CodecBase CodecBaseProofs CodecArmor CodecArmorProofs CodecSlatepack
     CodecSlatepackProofs CodecSlate.

Section WithKeys.
Variable valid_pk : bytes -> bool.
Variable valid_ed : bytes -> bool.

Lemma okS_read_pubkey : okS (read_pubkey valid_pk).
Proof.
  unfold read_pubkey. apply okS_bind_l; [apply okS_read_fixed; reflexivity|intros b].
  ok_auto.
Qed.

Lemma okS_read_sig : okS (read_sig valid_pk).
Proof.
  unfold read_sig. apply okS_bind_l; [apply okS_read_u8|intros h].
  ok_auto; apply okS_ok, okS_read_pubkey.
Qed.

Lemma ok_read_rangeproof : ok read_rangeproof.
Proof. unfold read_rangeproof. ok_auto. Qed.

Lemma okS_read_com : okS read_com.
Proof.
  unfold read_com. apply okS_bind_l; [apply okS_read_u8|intros h].
  ok_auto. all: apply ok_read_rangeproof.
Qed.

Lemma ok_read_proof : ok (read_proof valid_ed true).
Proof. unfold read_proof. ok_auto. Qed.

Lemma ok_dec_v4bin : ok (dec_v4bin valid_pk valid_ed true).
Proof.
  unfold dec_v4bin, read_state, read_opt_fields, read_sigs, read_opt_structs, read_coms.
  ok_auto.
  all: try (apply ok_rd_count; first [apply okS_read_sig|apply okS_read_com]).
  all: try apply ok_read_proof.
Qed.

End WithKeys.

Lemma prefix_n_total n b p : prefix_n true n b <> Panic p.
Proof. unfold prefix_n. destruct (_ <? _)%nat; discriminate. Qed.

Lemma helper_total valid_ed k b p : helper true valid_ed k b <> Panic p.
Proof.
  unfold helper.
  repeat match goal with
         | |- (match ?x with _ => _ end) <> _ =>
           match x with
           | prefix_n _ _ _ => let E := fresh in
                               pose proof (prefix_n_total) as E;
                               destruct x eqn:?; [| |exfalso; eapply E; eassumption]
           | _ => destruct x
           end
         | |- bind ?x _ <> _ => unfold bind
         | |- (if ?c then _ else _) <> _ => destruct c
         end; try discriminate; try apply prefix_n_total.
Qed.

(** what a helper returns is never longer than what the text layer handed it *)
Lemma helper_output valid_ed k b out :
  helper true valid_ed k b = Ok out -> (length out <= length b)%nat.
Proof.
  assert (P : forall n o, prefix_n true n b = Ok o -> (length o <= length b)%nat).
  { intros n o. unfold prefix_n. destruct (_ <? _)%nat; [discriminate|].
    intros H. injection H as <-. rewrite firstn_length. lia. }
  unfold helper.
  repeat match goal with
         | |- (match ?x with _ => _ end) = _ -> _ =>
           match x with
           | prefix_n _ _ _ => destruct x eqn:?; cbn [bind]
           | _ => destruct x
           end
         | |- bind ?x _ = _ -> _ => unfold bind
         | |- (if ?c then _ else _) = _ -> _ => destruct c
         end; try discriminate;
  intros H; inversion H; subst; eauto.
Qed.

(** ---- the code before the repair panics *)
Definition VK0 : bytes -> bool := fun _ => false.
(* a minimal slate whose payment proof carries an invalid sender key:
   ver 4, bhv 3, 16-byte id, state 1, 32-byte offset, no optional fields, no sigs,
   opt structs = proof only, 32 bytes *)
Definition W_V4_BAD_PROOF : bytes :=
  [0; 4; 0; 3] ++ repeat 0 16 ++ [1] ++ repeat 0 32 ++ [0] ++ [0] ++ [2] ++ repeat 0 32.

Lemma slate_orig_refuted :
  run_rd (dec_v4bin VK0 VK0 false) W_V4_BAD_PROOF = Panic PUnwrap
  /\ helper false VK0 6 (repeat 0 63) = Panic PSliceOOB          (* short rsig *)
  /\ helper false VK0 5 (repeat 255 64) = Panic PUnwrap          (* invalid signature bytes *)
  /\ helper false VK0 8 [] = Panic PSliceOOB                      (* uuid_base64 "" *)
  /\ helper false VK0 13 (repeat 0 676) = Panic PIndexOOB.       (* range proof of 676 bytes *)
Proof. repeat split; vm_compute; reflexivity. Qed.

(** ---- the C09 statements (props/C09.v) *)
Lemma c09_slatepack_bin_total :
  forall (addr_parse : bytes -> option bytes) (bs : bytes) (p : panic),
    run_rd (dec_slatepack_bin addr_parse true) bs <> Panic p.
Proof. intros a. apply run_rd_no_panic. apply ok_dec_slatepack_bin. Qed.

Lemma c09_encmeta_total :
  forall (addr_parse : bytes -> option bytes) (bs : bytes) (p : panic),
    run_rd (dec_encmeta addr_parse true) bs <> Panic p.
Proof. intros a. apply run_rd_no_panic. apply ok_dec_encmeta. Qed.

Lemma c09_post_decrypt_total :
  forall (addr_parse : bytes -> option bytes) (decrypted : bytes) (p : panic),
    post_decrypt addr_parse true decrypted <> Panic p
    /\ forall is_recipients_type, age_header_dispatch true is_recipients_type <> Panic p.
Proof. intros a d p. split; [apply post_decrypt_total|intros b; apply age_header_total]. Qed.

Lemma c09_v4bin_total :
  forall (valid_pk valid_ed : bytes -> bool) (bs : bytes) (p : panic),
    run_rd (dec_v4bin valid_pk valid_ed true) bs <> Panic p.
Proof. intros vp ve. apply run_rd_no_panic. apply ok_dec_v4bin. Qed.

Lemma c09_loops_bounded :
  forall (valid_pk valid_ed : bytes -> bool) (addr_parse : bytes -> option bytes) (bs : bytes),
    run_rd (dec_v4bin valid_pk valid_ed true) bs <> Err EOutOfFuel
    /\ run_rd (dec_encmeta addr_parse true) bs <> Err EOutOfFuel
    /\ run_rd (dec_slatepack_bin addr_parse true) bs <> Err EOutOfFuel
    /\ post_decrypt addr_parse true bs <> Err EOutOfFuel
    /\ (forall v r, dec_v4bin valid_pk valid_ed true bs = Ok (v, r) -> (length r <= length bs)%nat)
    /\ (forall v r, dec_slatepack_bin addr_parse true bs = Ok (v, r) -> (length r <= length bs)%nat).
Proof.
  intros vp ve ap bs. repeat split.
  - apply run_rd_no_fuel, ok_dec_v4bin.
  - apply run_rd_no_fuel, ok_dec_encmeta.
  - apply run_rd_no_fuel, ok_dec_slatepack_bin.
  - apply post_decrypt_no_fuel.
  - apply ok_suffix_len, ok_dec_v4bin.
  - apply ok_suffix_len, ok_dec_slatepack_bin.
Qed.

Lemma c09_alloc_bounded :
  (forall len bs, MAX_READ < len -> read_fixed len bs = Err EDeser)
  /\ (forall len bs v r, read_fixed len bs = Ok (v, r) ->
                         lenN v = len /\ len <= MAX_READ /\ bs = v ++ r)
  /\ (forall addr_parse b58_dec sha4 json_sp max_size bs sp,
         deser_slatepack addr_parse true b58_dec sha4 json_sp max_size bs = Ok sp ->
         MIN_SIZE <= lenN bs <= max_size)
  /\ (forall valid_ed k b out, helper true valid_ed k b = Ok out -> (length out <= length b)%nat)
  /\ (forall b58_dec sha4 bs out,
         armor_decode b58_dec sha4 bs = Ok out ->
         exists clean dec, b58_dec clean = Some dec /\ out = skipn 4 dec
                           /\ (length clean <= length bs)%nat).
Proof.
  repeat split.
  - apply read_fixed_refuses; assumption.
  - eapply read_fixed_len; eassumption.
  - eapply read_fixed_len; eassumption.
  - eapply read_fixed_len; eassumption.
  - eapply deser_slatepack_bounds; eassumption.
  - eapply deser_slatepack_bounds; eassumption.
  - apply helper_output.
  - apply armor_decode_output.
Qed.

Lemma c09_unrepaired_refuted :
  ((forall b58_dec sha4, armor_decode_orig b58_dec sha4 W_HEADER_ONLY = Panic PSliceOOB)
   /\ (forall b58_dec sha4, armor_decode_orig b58_dec sha4 W_NO_SECOND_DOT = Panic PSliceOOB)
   /\ armor_decode_orig b58_decode_impl sha256d4_impl W_SHORT_PAYLOAD = Panic PSliceOOB)
  /\ (run_rd (dec_slatepack_bin AP0 false) W_SPBIN_UNDERFLOW = Panic PSubOverflow
      /\ run_rd (dec_encmeta AP0 false) W_META_UNDERFLOW = Panic PSubOverflow
      /\ post_decrypt AP0 false [1; 2; 3] = Panic PSliceOOB
      /\ post_decrypt AP0 false [0; 0; 0; 9; 0; 0] = Panic PIndexOOB
      /\ age_header_dispatch false false = Panic PUnreachable)
  /\ (run_rd (dec_v4bin VK0 VK0 false) W_V4_BAD_PROOF = Panic PUnwrap
      /\ helper false VK0 6 (repeat 0 63) = Panic PSliceOOB
      /\ helper false VK0 5 (repeat 255 64) = Panic PUnwrap
      /\ helper false VK0 8 [] = Panic PSliceOOB
      /\ helper false VK0 13 (repeat 0 676) = Panic PIndexOOB).
Proof.
  split; [exact armor_decode_orig_refuted|split; [exact slatepack_orig_refuted|exact slate_orig_refuted]].
Qed.

(** ------------------------------------------------------------------ binary round trip (C08) *)
Section RoundTrip.
Variable valid_pk : bytes -> bool.
Variable valid_ed : bytes -> bool.

Definition wf_sig (g : sigdata) : Prop :=
  lenN (sg_xs g) = 33 /\ valid_pk (sg_xs g) = true
  /\ lenN (sg_nonce g) = 33 /\ valid_pk (sg_nonce g) = true
  /\ (forall p, sg_part g = Some p -> lenN p = 64).

Definition wf_com (c : comdata) : Prop :=
  cm_f c <= 1 /\ lenN (cm_c c) = 33
  /\ (forall p, cm_p c = Some p -> lenN p = 675).

Definition wf_proof (p : proofdata) : Prop :=
  lenN (pf_saddr p) = 32 /\ valid_ed (pf_saddr p) = true
  /\ lenN (pf_raddr p) = 32 /\ valid_ed (pf_raddr p) = true
  /\ (forall s, pf_rsig p = Some s -> edsig_ok s = true).

(** The wire-format facts under which the binary form does NOT carry the slate (recorded as
    open findings): kernel feature arguments are written iff [feat = 2], and the fee is
    written iff its 40-bit fee part is non-zero. *)
Definition KnownBin (s : slate4) : Prop :=
  (s_feat s <> 2 /\ s_feat_args s <> None)
  \/ (s_feat s = 2 /\ s_feat_args s = None)
  \/ (s_fee s <> 0 /\ fee_of (s_fee s) = 0).

Definition known_bin (s : slate4) : bool :=
  (negb (s_feat s =? 2) && match s_feat_args s with Some _ => true | None => false end)
  || ((s_feat s =? 2) && match s_feat_args s with Some _ => false | None => true end)
  || (negb (s_fee s =? 0) && (fee_of (s_fee s) =? 0)).

(** well-formedness derived from the code: field widths, [len as u8] / [len as u16] counts,
    fixed-size keys, signatures and proofs, output feature byte, state byte *)
Definition wf_slate4 (s : slate4) : Prop :=
  s_ver s < 65536 /\ s_bhv s < 65536 /\ lenN (s_id s) = 16 /\ s_sta s <= 6
  /\ lenN (s_off s) = 32 /\ s_num_parts s < 256 /\ s_amt s <= U64MAX /\ s_fee s <= U64MAX
  /\ s_feat s < 256 /\ s_ttl s <= U64MAX
  /\ lenN (s_sigs s) < 256 /\ Forall wf_sig (s_sigs s)
  /\ (forall cs, s_coms s = Some cs -> lenN cs < 65536 /\ Forall wf_com cs)
  /\ (forall p, s_proof s = Some p -> wf_proof p)
  /\ (forall l, s_feat_args s = Some l -> l <= U64MAX).

Lemma known_bin_spec s : known_bin s = true <-> KnownBin s.
Proof.
  unfold known_bin, KnownBin. rewrite !orb_true_iff, !andb_true_iff, !negb_true_iff, !N.eqb_neq, !N.eqb_eq.
  destruct (s_feat_args s); intuition congruence.
Qed.

Lemma read_pubkey_w b tail :
  lenN b = 33 -> valid_pk b = true -> read_pubkey valid_pk (b ++ tail) = Ok (b, tail).
Proof.
  intros Hl Hv. unfold read_pubkey. rb. rewrite read_fixed_app by (unfold MAX_READ; auto; lia).
  rewrite Hv. reflexivity.
Qed.

Lemma read_sig_w g tail : wf_sig g -> read_sig valid_pk (enc_sig g ++ tail) = Ok (g, tail).
Proof.
  intros (Hx & Hvx & Hn & Hvn & Hp). destruct g as [xs nonce part]. cbn [sg_xs sg_nonce sg_part] in *.
  unfold read_sig, enc_sig. cbn [sg_xs sg_nonce sg_part]. repeat rewrite <- app_assoc.
  rb. rewrite read_u8_w. rb. rewrite read_pubkey_w by assumption.
  rb. rewrite read_pubkey_w by assumption.
  destruct part as [p|].
  - change (1 =? 1) with true. rb. rb.
    rewrite read_fixed_app by (unfold MAX_READ; rewrite ?(Hp p eq_refl); auto; lia). reflexivity.
  - change (0 =? 1) with false. rb. rewrite app_nil_l. reflexivity.
Qed.

Lemma enc_sig_nonempty g : (1 <= length (enc_sig g))%nat.
Proof. unfold enc_sig, w_u8. cbn. lia. Qed.

Lemma read_rangeproof_w p tail : lenN p = 675 -> read_rangeproof (w_bytes p ++ tail) = Ok (p, tail).
Proof.
  intros H. unfold read_rangeproof, w_bytes. rewrite <- app_assoc.
  rb. rewrite read_u64_w by (unfold U64MAX; lia). rewrite H.
  change (N.min 675 MAX_PROOF_SIZE) with 675.
  rb. rewrite read_fixed_app by (unfold MAX_READ; auto; lia).
  unfold rret. replace (length p) with 675%nat by (unfold lenN in H; lia).
  rewrite Nat.sub_diag. cbn [repeat]. rewrite app_nil_r. reflexivity.
Qed.

Lemma read_com_w c tail : wf_com c -> read_com (enc_com c ++ tail) = Ok (c, tail).
Proof.
  intros (Hf & Hc & Hp). destruct c as [f cc p]. cbn [cm_f cm_c cm_p] in *.
  unfold read_com, enc_com. cbn [cm_f cm_c cm_p]. repeat rewrite <- app_assoc.
  assert (Hff : (if f =? 1 then 1 else 0) = f).
  { destruct (f =? 1) eqn:E; [apply N.eqb_eq in E; lia|apply N.eqb_neq in E; lia]. }
  rewrite Hff.
  rb. rewrite read_u8_w. rb. rewrite read_u8_w.
  replace (1 <? f) with false by (symmetry; apply N.ltb_ge; exact Hf).
  rb. rewrite read_fixed_app by (unfold MAX_READ; auto; lia).
  destruct p as [pp|].
  - change (1 =? 1) with true. rb. rb. rewrite read_rangeproof_w by (apply Hp; reflexivity). reflexivity.
  - change (0 =? 1) with false. rb. rewrite app_nil_l. reflexivity.
Qed.

Lemma enc_com_nonempty c : (1 <= length (enc_com c))%nat.
Proof. unfold enc_com, w_u8. cbn. lia. Qed.

Lemma guard_true g e p bs : guard g true e p bs = Ok (tt, bs).
Proof. reflexivity. Qed.

Lemma read_proof_w g p tail : wf_proof p -> read_proof valid_ed g (enc_proof p ++ tail) = Ok (p, tail).
Proof.
  intros (Hs & Hvs & Hr & Hvr & Hsig). destruct p as [saddr raddr rsig]. cbn [pf_saddr pf_raddr pf_rsig] in *.
  unfold read_proof, enc_proof. cbn [pf_saddr pf_raddr pf_rsig]. repeat rewrite <- app_assoc.
  rb. rewrite read_fixed_app by (unfold MAX_READ; auto; lia). rb. rewrite Hvs, guard_true.
  rb. rewrite read_fixed_app by (unfold MAX_READ; auto; lia). rb. rewrite Hvr, guard_true.
  destruct rsig as [s|].
  - pose proof (Hsig s eq_refl) as Hok. rewrite <- app_assoc. rb. rewrite read_u8_w.
    change (1 =? 0) with false. rb. rb.
    assert (Hl : lenN s = 64).
    { unfold edsig_ok in Hok. apply andb_true_iff in Hok as [Hl _]. apply Nat.eqb_eq in Hl. unfold lenN. lia. }
    rewrite read_fixed_app by (unfold MAX_READ; auto; lia).
    rb. rewrite Hok, guard_true. reflexivity.
  - rb. rewrite read_u8_w. change (0 =? 0) with true. rb. reflexivity.
Qed.

Lemma status_bits (a b c d e : bool) :
  let st := b2n a + 2 * b2n b + 4 * b2n c + 8 * b2n d + 16 * b2n e in
  testb st 0 = a /\ testb st 1 = b /\ testb st 2 = c /\ testb st 3 = d /\ testb st 4 = e.
Proof. destruct a, b, c, d, e; vm_compute; repeat split; reflexivity. Qed.

Lemma struct_bits (a b : bool) :
  testb (b2n a + 2 * b2n b) 0 = a /\ testb (b2n a + 2 * b2n b) 1 = b.
Proof. destruct a, b; vm_compute; split; reflexivity. Qed.

Lemma read_opt_fields_w s tail :
  wf_slate4 s -> (s_fee s <> 0 -> fee_of (s_fee s) <> 0) ->
  read_opt_fields (enc_opt_fields s ++ tail)
  = Ok ((s_num_parts s, s_amt s, s_fee s, s_feat s, s_ttl s), tail).
Proof.
  intros (_ & _ & _ & _ & _ & Hnp & Hamt & Hfee & Hfeat & Httl & _) Hk.
  unfold read_opt_fields, enc_opt_fields.
  destruct (status_bits (negb (s_num_parts s =? 2)) (0 <? s_amt s) (0 <? fee_of (s_fee s))
                        (0 <? s_feat s) (0 <? s_ttl s)) as (B0 & B1 & B2 & B3 & B4).
  cbv zeta in B0, B1, B2, B3, B4.
  repeat rewrite <- app_assoc. rb. rewrite read_u8_w. rewrite B0, B1, B2, B3, B4.
  destruct (s_num_parts s =? 2) eqn:E0; cbn [negb].
  all: destruct (0 <? s_amt s) eqn:E1.
  all: destruct (0 <? fee_of (s_fee s)) eqn:E2.
  all: destruct (0 <? s_feat s) eqn:E3.
  all: destruct (0 <? s_ttl s) eqn:E4.
  all: repeat rewrite app_nil_l.
  all: repeat (rb; first [rewrite read_u8_w | rewrite read_u64_w by assumption | unfold rret at 1]).
  all: try apply N.eqb_eq in E0; try apply N.ltb_ge in E1; try apply N.ltb_ge in E2;
       try apply N.ltb_ge in E3; try apply N.ltb_ge in E4.
  all: unfold rret; f_equal; f_equal; repeat f_equal; try lia.
  all: destruct (N.eq_dec (s_fee s) 0) as [Z|NZ]; [lia|specialize (Hk NZ); lia].
Qed.

Theorem v4bin_roundtrip g s tail :
  wf_slate4 s -> ~ KnownBin s ->
  dec_v4bin valid_pk valid_ed g (enc_v4bin s ++ tail) = Ok (s, tail).
Proof.
  intros Hwf Hk. pose proof Hwf as (Hver & Hbhv & Hid & Hsta & Hoff & Hnp & Hamt & Hfee & Hfeat & Httl
                                    & Hns & Hsigs & Hcoms & Hproof & Hargs).
  assert (Hfee0 : s_fee s <> 0 -> fee_of (s_fee s) <> 0).
  { intros NZ Z. apply Hk. right. right. split; assumption. }
  unfold dec_v4bin, enc_v4bin. repeat rewrite <- app_assoc.
  rb. rewrite read_u16_w by exact Hver. rb. rewrite read_u16_w by exact Hbhv.
  rb. rewrite read_fixed_app by (unfold MAX_READ; auto; lia).
  rb. unfold read_state. rb. rewrite read_u8_w. unfold rret at 1.
  replace (s_sta s <=? 6) with true by (symmetry; apply N.leb_le; exact Hsta).
  rb. rewrite read_fixed_app by (unfold MAX_READ; auto; lia).
  rb. rewrite read_opt_fields_w by assumption.
  (* sigs *)
  rb. unfold read_sigs. rb. rewrite read_u8_w. rewrite N.mod_small by exact Hns.
  rewrite (rd_count_concat (read_sig valid_pk) enc_sig wf_sig read_sig_w enc_sig_nonempty) by exact Hsigs.
  (* optional structs *)
  rb. unfold read_opt_structs, enc_opt_structs.
  destruct (struct_bits (match s_coms s with Some _ => true | None => false end)
                        (match s_proof s with Some _ => true | None => false end)) as (C0 & C1).
  repeat rewrite <- app_assoc. rb. rewrite read_u8_w. rewrite C0, C1.
  assert (Hend : forall tl,
    (do* feat_args <- (if s_feat s =? 2 then do* l <- read_u64; rret (Some l) else rret None);
     rret (mkSlate4 (s_ver s) (s_bhv s) (s_id s) (s_sta s) (s_off s) (s_num_parts s) (s_amt s)
                    (s_fee s) (s_feat s) (s_ttl s) (s_sigs s) (s_coms s) (s_proof s) feat_args))
      ((if s_feat s =? 2 then w_u64 (match s_feat_args s with Some l => l | None => 0 end) else []) ++ tl)
    = Ok (s, tl)).
  { intros tl. destruct (s_feat s =? 2) eqn:E2.
    - apply N.eqb_eq in E2. destruct (s_feat_args s) as [l|] eqn:EA.
      + rb. rb. rewrite read_u64_w by (apply Hargs; reflexivity). unfold rret.
        destruct s; cbn in *; subst; reflexivity.
      + exfalso. apply Hk. right. left. split; assumption.
    - apply N.eqb_neq in E2. destruct (s_feat_args s) as [l|] eqn:EA.
      + exfalso. apply Hk. left. split; [exact E2|congruence].
      + rb. unfold rret. rewrite app_nil_l. destruct s; cbn in *; subst; reflexivity. }
  destruct (s_coms s) as [cs|] eqn:EC; destruct (s_proof s) as [pr|] eqn:EP.
  - destruct (Hcoms cs eq_refl) as [Hnc Hcs]. pose proof (Hproof pr eq_refl) as Hpr.
    rb. rb. unfold read_coms. repeat rewrite <- app_assoc. rb.
    rewrite N.mod_small by exact Hnc. rewrite read_u16_w by exact Hnc.
    rewrite (rd_count_concat read_com enc_com wf_com read_com_w enc_com_nonempty) by exact Hcs.
    unfold rret at 1. rb. rb. rewrite read_proof_w by exact Hpr. unfold rret at 1. unfold rret at 1.
    cbn [fst snd]. apply Hend.
  - destruct (Hcoms cs eq_refl) as [Hnc Hcs].
    rb. rb. unfold read_coms. repeat rewrite <- app_assoc. rb.
    rewrite N.mod_small by exact Hnc. rewrite read_u16_w by exact Hnc.
    rewrite (rd_count_concat read_com enc_com wf_com read_com_w enc_com_nonempty) by exact Hcs.
    unfold rret at 1. rb. unfold rret at 1. unfold rret at 1.
    cbn [fst snd]. rewrite app_nil_l. apply Hend.
  - pose proof (Hproof pr eq_refl) as Hpr.
    rb. unfold rret at 1. rewrite app_nil_l. rb. rb. rewrite read_proof_w by exact Hpr.
    unfold rret at 1. unfold rret at 1. cbn [fst snd]. apply Hend.
  - rb. unfold rret at 1. rb. unfold rret at 1. unfold rret at 1.
    cbn [fst snd]. rewrite !app_nil_l. apply Hend.
Qed.

End RoundTrip.

(** ------------------------------------------------------------------ JSON field maps (C08) *)
Lemma pad_to_exact n b : length b = n -> pad_to n b = b.
Proof.
  intros H. unfold pad_to. rewrite firstn_all2 by lia. rewrite H, Nat.sub_diag. cbn. apply app_nil_r.
Qed.

Lemma all_zero_repeat b : all_zero b = true -> b = repeat 0 (length b).
Proof.
  induction b as [|x b IH]; cbn; [reflexivity|]. intros H. apply andb_true_iff in H as [Hx Hb].
  apply N.eqb_eq in Hx. subst x. f_equal. apply IH, Hb.
Qed.

Lemma dflt_omit d v : dflt d (omit_if (v =? d) v) = v.
Proof. unfold omit_if. destruct (v =? d) eqn:E; cbn; [apply N.eqb_eq in E; congruence|reflexivity]. Qed.

Section JsonRoundTrip.
Variable valid_pk : bytes -> bool.
Variable valid_ed : bytes -> bool.
Variable valid_sig : bytes -> bool.

Definition wfj_sig (g : sigdata) : Prop :=
  length (sg_xs g) = 33%nat /\ valid_pk (sg_xs g) = true
  /\ length (sg_nonce g) = 33%nat /\ valid_pk (sg_nonce g) = true
  /\ (forall p, sg_part g = Some p -> length p = 64%nat /\ valid_sig p = true).
Definition wfj_com (c : comdata) : Prop :=
  length (cm_c c) = 33%nat /\ (forall p, cm_p c = Some p -> lenN p <= MAX_PROOF_SIZE).
Definition wfj_proof (p : proofdata) : Prop :=
  length (pf_saddr p) = 32%nat /\ valid_ed (pf_saddr p) = true
  /\ length (pf_raddr p) = 32%nat /\ valid_ed (pf_raddr p) = true
  /\ (forall s, pf_rsig p = Some s -> edsig_ok s = true).
Definition wf_json (s : slate4) : Prop :=
  s_sta s <= 6 /\ length (s_off s) = 32%nat
  /\ Forall wfj_sig (s_sigs s)
  /\ (forall cs, s_coms s = Some cs -> Forall wfj_com cs)
  /\ (forall p, s_proof s = Some p -> wfj_proof p).

Lemma of_jsig_rt sg : wfj_sig sg ->
  of_jsig valid_pk valid_sig (mkJSig (sg_xs sg) (sg_nonce sg) (sg_part sg)) = Ok sg.
Proof.
  intros (Hx & Hvx & Hn & Hvn & Hp). destruct sg as [xs nonce part]. cbn [sg_xs sg_nonce sg_part] in *.
  unfold of_jsig. cbn [j_xs j_nonce j_part]. rewrite Hx, Hn, Hvx, Hvn. cbn [Nat.eqb andb negb].
  replace (33 =? 33)%nat with true by reflexivity. cbn [andb negb].
  destruct part as [p|]; [|reflexivity].
  destruct (Hp p eq_refl) as [Hl Hv]. rewrite Hl. replace (64 <? 64)%nat with false by reflexivity.
  rewrite firstn_all2 by lia. rewrite Hv. reflexivity.
Qed.

Lemma of_jcom_rt g c : wfj_com c ->
  of_jcom g valid_ed (mkJCom (omit_if (cm_f c =? 0) (cm_f c)) (cm_c c) (cm_p c)) = Ok c.
Proof.
  intros (Hc & Hp). destruct c as [f cc p]. cbn [cm_f cm_c cm_p] in *.
  unfold of_jcom. cbn [j_f j_c j_p]. rewrite dflt_omit, pad_to_exact by exact Hc.
  destruct p as [pp|]; [|reflexivity].
  pose proof (Hp pp eq_refl) as Hl. unfold helper.
  replace (lenN pp <=? MAX_PROOF_SIZE) with true by (symmetry; apply N.leb_le; exact Hl).
  reflexivity.
Qed.

Lemma of_jproof_rt g p : wfj_proof p ->
  of_jproof g valid_ed (mkJProof (pf_saddr p) (pf_raddr p) (pf_rsig p)) = Ok p.
Proof.
  intros (Hs & Hvs & Hr & Hvr & Hsig). destruct p as [sa ra sg]. cbn [pf_saddr pf_raddr pf_rsig] in *.
  unfold of_jproof. cbn [j_saddr j_raddr j_rsig]. unfold helper at 1 2.
  rewrite Hs, Hr, Hvs, Hvr. replace (32 =? 32)%nat with true by reflexivity. cbn [andb bind].
  destruct sg as [s|]; [|reflexivity].
  pose proof (Hsig s eq_refl) as Hok. unfold helper, prefix_n.
  assert (Hl : length s = 64%nat).
  { unfold edsig_ok in Hok. apply andb_true_iff in Hok as [Hl _]. apply Nat.eqb_eq in Hl. exact Hl. }
  rewrite Hl. replace (64 <? 64)%nat with false by reflexivity. cbn [bind].
  rewrite firstn_all2 by lia. rewrite Hok. reflexivity.
Qed.

Lemma map_res_rt {A B} (f : A -> result B) (h : B -> A) (P : B -> Prop) (l : list B) :
  (forall x, P x -> f (h x) = Ok x) -> Forall P l -> map_res f (map h l) = Ok l.
Proof.
  intros Hf. induction 1 as [|x l Hx _ IH]; cbn [map map_res]; [reflexivity|].
  rewrite (Hf x Hx). cbn [bind]. rewrite IH. reflexivity.
Qed.

Theorem json_roundtrip g s : wf_json s -> of_fields g valid_pk valid_ed valid_sig (to_fields s) = Ok s.
Proof.
  intros (Hsta & Hoff & Hsigs & Hcoms & Hproof).
  unfold of_fields, to_fields. cbn [j_ver j_bhv j_id j_sta j_off j_num_parts j_amt j_fee j_feat j_ttl
                                     j_sigs j_coms j_proof j_feat_args].
  replace (6 <? s_sta s) with false by (symmetry; apply N.ltb_ge; exact Hsta).
  rewrite (map_res_rt (of_jsig valid_pk valid_sig) _ wfj_sig (s_sigs s) of_jsig_rt Hsigs).
  cbn [bind].
  assert (Hc : match option_map (map (fun c => mkJCom (omit_if (cm_f c =? 0) (cm_f c)) (cm_c c) (cm_p c))) (s_coms s) with
               | None => Ok None
               | Some l => let* x := map_res (of_jcom g valid_ed) l in Ok (Some x)
               end = Ok (s_coms s)).
  { destruct (s_coms s) as [cs|] eqn:E; cbn [option_map]; [|reflexivity].
    rewrite (map_res_rt (of_jcom g valid_ed) _ wfj_com cs (of_jcom_rt g) (Hcoms cs eq_refl)). reflexivity. }
  rewrite Hc. cbn [bind].
  assert (Hp : match option_map (fun p => mkJProof (pf_saddr p) (pf_raddr p) (pf_rsig p)) (s_proof s) with
               | None => Ok None
               | Some p => let* x := of_jproof g valid_ed p in Ok (Some x)
               end = Ok (s_proof s)).
  { destruct (s_proof s) as [p|] eqn:E; cbn [option_map]; [|reflexivity].
    rewrite (of_jproof_rt g p (Hproof p eq_refl)). reflexivity. }
  rewrite Hp. cbn [bind].
  rewrite !dflt_omit.
  assert (Ho : match (if all_zero (s_off s) then None else Some (s_off s)) with
               | Some b => pad_to 32 b
               | None => repeat 0 32
               end = s_off s).
  { destruct (all_zero (s_off s)) eqn:E.
    - apply all_zero_repeat in E. rewrite Hoff in E. symmetry. exact E.
    - apply pad_to_exact, Hoff. }
  rewrite Ho. destruct s; reflexivity.
Qed.

End JsonRoundTrip.

(** ------------------------------------------------------------------ Slate <-> SlateV4 (C08) *)
Definition wf_coms_order (s : slate4) : Prop :=
  forall cs, s_coms s = Some cs ->
             cs = filter (fun c => negb (is_output c)) cs ++ filter is_output cs
             /\ Forall (fun c => cm_f c <= 1) cs.

Lemma norm_f_id c : cm_f c <= 1 -> norm_f c = c.
Proof.
  intros H. destruct c as [f cc p]. unfold norm_f. cbn [cm_f cm_c cm_p] in *.
  destruct (f =? 1) eqn:E; [apply N.eqb_eq in E|apply N.eqb_neq in E]; f_equal; lia.
Qed.

Lemma map_norm_f_id l : Forall (fun c => cm_f c <= 1) l -> map norm_f l = l.
Proof. induction 1 as [|c l Hc _ IH]; cbn; [reflexivity|]. rewrite norm_f_id, IH by exact Hc. reflexivity. Qed.

Lemma Forall_filter {A} (P : A -> Prop) f (l : list A) : Forall P l -> Forall P (filter f l).
Proof. induction 1 as [|x l Hx _ IH]; cbn; [constructor|]. destruct (f x); [constructor|]; assumption. Qed.

(** V4 -> Slate -> V4 is the identity when the commitment list has inputs first (the order
    [From<&Slate>] emits) and feature bytes 0/1 *)
Theorem conv_v4_roundtrip s : wf_coms_order s -> v4_of_slate (slate_of_v4 s) = s.
Proof.
  intros H. unfold v4_of_slate, slate_of_v4, set_coms. cbn [sl_v4 sl_tx].
  destruct s as [ver bhv id sta off np amt fee feat ttl sigs coms proof fa]. cbn [s_coms] in *.
  destruct coms as [cs|]; cbn [s_ver s_bhv s_id s_sta s_off s_num_parts s_amt s_fee s_feat s_ttl s_sigs s_proof s_feat_args tx_inputs tx_outputs]; [|reflexivity].
  destruct (H cs eq_refl) as [Hord Hf].
  rewrite !map_norm_f_id by (apply Forall_filter, Hf). rewrite <- Hord. reflexivity.
Qed.

(** a slate as the wallet holds it: the V4-carried fields, and a transaction whose inputs
    carry no proof, whose outputs do, whose kernel is the one the wallet builds for the
    slate's kernel features, fee and offset *)
Definition wf_wallet_slate (sl : slate) : Prop :=
  match sl_tx sl with
  | None => s_coms (sl_v4 sl) = None
  | Some t =>
    s_coms (sl_v4 sl) = Some (tx_inputs t ++ tx_outputs t)
    /\ Forall (fun c => is_output c = false /\ cm_f c <= 1) (tx_inputs t)
    /\ Forall (fun c => is_output c = true /\ cm_f c <= 1) (tx_outputs t)
    /\ wallet_kernel (sl_v4 sl) = Some (tx_kernel t)
    /\ tx_kernel_fee t = s_fee (sl_v4 sl) /\ tx_offset t = s_off (sl_v4 sl)
  end.

(** the reconstruction maps kernel features 2 and 3 to a plain kernel *)
Definition KnownConv (sl : slate) : Prop :=
  sl_tx sl <> None /\ s_feat (sl_v4 sl) <> 0.

Lemma filter_app_split (l1 l2 : list comdata) :
  Forall (fun c => is_output c = false) l1 -> Forall (fun c => is_output c = true) l2 ->
  filter (fun c => negb (is_output c)) (l1 ++ l2) = l1 /\ filter is_output (l1 ++ l2) = l2.
Proof.
  intros H1 H2. rewrite !filter_app. split.
  - replace (filter (fun c => negb (is_output c)) l2) with (@nil comdata).
    + rewrite app_nil_r. induction H1 as [|c l Hc _ IH]; cbn; [reflexivity|]. rewrite Hc. cbn. f_equal. exact IH.
    + induction H2 as [|c l Hc _ IH]; cbn; [reflexivity|]. rewrite Hc. cbn. exact IH.
  - replace (filter is_output l1) with (@nil comdata).
    + cbn. induction H2 as [|c l Hc _ IH]; cbn; [reflexivity|]. rewrite Hc. f_equal. exact IH.
    + induction H1 as [|c l Hc _ IH]; cbn; [reflexivity|]. rewrite Hc. exact IH.
Qed.

Lemma Forall_and_l {A} (P Q : A -> Prop) l : Forall (fun x => P x /\ Q x) l -> Forall P l /\ Forall Q l.
Proof. induction 1 as [|x l [Hp Hq] _ [IH1 IH2]]; split; constructor; assumption. Qed.

Theorem conv_slate_roundtrip sl :
  wf_wallet_slate sl -> ~ KnownConv sl -> slate_of_v4 (v4_of_slate sl) = sl.
Proof.
  intros Hwf Hk. destruct sl as [s tx]. unfold wf_wallet_slate, KnownConv in *. cbn [sl_v4 sl_tx] in *.
  destruct s as [ver bhv id sta off np amt fee feat ttl sigs coms proof fa].
  cbn [s_coms s_feat s_fee s_off s_feat_args] in *.
  unfold slate_of_v4, v4_of_slate, set_coms. cbn [sl_v4 sl_tx s_ver s_bhv s_id s_sta s_off s_num_parts s_amt s_fee s_feat s_ttl s_sigs s_proof s_feat_args s_coms].
  destruct tx as [t|].
  - destruct Hwf as (Hc & Hi & Ho & Hker & Hfee & Hoff). subst coms.
    apply Forall_and_l in Hi as [Hi1 Hi2]. apply Forall_and_l in Ho as [Ho1 Ho2].
    destruct (filter_app_split _ _ Hi1 Ho1) as [F1 F2]. rewrite F1, F2.
    rewrite !map_norm_f_id by assumption.
    assert (Hfeat : feat = 0).
    { destruct (N.eq_dec feat 0) as [Z|NZ]; [exact Z|]. exfalso. apply Hk. split; [discriminate|exact NZ]. }
    subst feat. unfold wallet_kernel in Hker. cbn [s_feat s_feat_args] in Hker. injection Hker as Hker.
    unfold kernel_of_v4. cbn [s_feat]. change (0 =? 1) with false. cbv iota.
    destruct t as [ti to tk tf toff]. cbn [tx_inputs tx_outputs tx_kernel tx_kernel_fee tx_offset] in *.
    subst. reflexivity.
  - subst coms. reflexivity.
Qed.

(** ---- witnesses of the recorded wire-format findings *)
Definition S_BASE : slate4 :=
  mkSlate4 4 3 (repeat 7 16) 1 (repeat 9 32) 2 5 7 0 0 [] None None None.
Definition S_NRD : slate4 :=         (* NRD kernel (feat 3) with its relative height argument *)
  mkSlate4 4 3 (repeat 7 16) 1 (repeat 9 32) 2 5 7 3 0 [] None None (Some 1440).
Definition S_FEE_SHIFT : slate4 :=   (* fee field with shift 1 and fee part 0 *)
  mkSlate4 4 3 (repeat 7 16) 1 (repeat 9 32) 2 5 1099511627776 0 0 [] None None None.
Definition S_HL_NOARGS : slate4 :=   (* feat 2 without arguments *)
  mkSlate4 4 3 (repeat 7 16) 1 (repeat 9 32) 2 5 7 2 0 [] None None None.

Lemma known_bin_refuted :
  (wf_slate4 VK0 VK0 S_NRD /\ KnownBin S_NRD
   /\ run_rd (dec_v4bin VK0 VK0 true) (enc_v4bin S_NRD) = Ok (set_feat_args S_NRD None))
  /\ (wf_slate4 VK0 VK0 S_FEE_SHIFT /\ KnownBin S_FEE_SHIFT
      /\ exists s', run_rd (dec_v4bin VK0 VK0 true) (enc_v4bin S_FEE_SHIFT) = Ok s' /\ s_fee s' = 0)
  /\ (wf_slate4 VK0 VK0 S_HL_NOARGS /\ KnownBin S_HL_NOARGS
      /\ run_rd (dec_v4bin VK0 VK0 true) (enc_v4bin S_HL_NOARGS) = Ok (set_feat_args S_HL_NOARGS (Some 0))).
Proof.
  assert (W : forall s, s_sigs s = [] -> s_coms s = None -> s_proof s = None ->
                        s_ver s < 65536 -> s_bhv s < 65536 -> lenN (s_id s) = 16 -> s_sta s <= 6 ->
                        lenN (s_off s) = 32 -> s_num_parts s < 256 -> s_amt s <= U64MAX ->
                        s_fee s <= U64MAX -> s_feat s < 256 -> s_ttl s <= U64MAX ->
                        (forall l, s_feat_args s = Some l -> l <= U64MAX) -> wf_slate4 VK0 VK0 s).
  { intros s Hs Hc Hp. intros. unfold wf_slate4. rewrite Hs, Hc, Hp.
    repeat split; try assumption; try (unfold lenN; cbn; lia); try constructor; try discriminate. }
  assert (W1 : wf_slate4 VK0 VK0 S_NRD).
  { apply W; try reflexivity; cbn; try (unfold U64MAX; lia); try lia.
    intros l H. injection H as <-. unfold U64MAX. lia. }
  assert (W2 : wf_slate4 VK0 VK0 S_FEE_SHIFT).
  { apply W; try reflexivity; cbn; try (unfold U64MAX; lia); try lia. discriminate. }
  assert (W3 : wf_slate4 VK0 VK0 S_HL_NOARGS).
  { apply W; try reflexivity; cbn; try (unfold U64MAX; lia); try lia. discriminate. }
  split; [|split].
  - split; [exact W1|split].
    + left. split; [cbn; lia|discriminate].
    + vm_compute. reflexivity.
  - split; [exact W2|split].
    + right. right. split; [cbn; lia|vm_compute; reflexivity].
    + eexists. split; [vm_compute; reflexivity|reflexivity].
  - split; [exact W3|split].
    + right. left. split; reflexivity.
    + vm_compute. reflexivity.
Qed.

(** JSON keeps all three (it tests the raw fee value and writes feat_args whenever present) *)
Lemma known_bin_json_keeps :
  of_fields true VK0 VK0 VK0 (to_fields S_NRD) = Ok S_NRD
  /\ of_fields true VK0 VK0 VK0 (to_fields S_FEE_SHIFT) = Ok S_FEE_SHIFT
  /\ of_fields true VK0 VK0 VK0 (to_fields S_HL_NOARGS) = Ok S_HL_NOARGS.
Proof. repeat split; vm_compute; reflexivity. Qed.

(** a height-locked slate as the wallet holds it comes back with a plain kernel *)
Definition SL_HEIGHT_LOCKED : slate :=
  let s := mkSlate4 4 3 (repeat 7 16) 1 (repeat 9 32) 2 5 7 2 0 []
                    (Some [mkCom 0 (repeat 8 33) None; mkCom 0 (repeat 9 33) (Some (repeat 1 675))])
                    None (Some 100) in
  mkSlate s (Some (mkTx [mkCom 0 (repeat 8 33) None] [mkCom 0 (repeat 9 33) (Some (repeat 1 675))]
                        (KHeightLocked 100) 7 (repeat 9 32))).
Definition SL_FEAT1 : slate4 :=
  mkSlate4 4 3 (repeat 7 16) 1 (repeat 9 32) 2 5 7 1 0 [] (Some []) None (Some 100).

Lemma known_conv_refuted :
  wf_wallet_slate SL_HEIGHT_LOCKED /\ KnownConv SL_HEIGHT_LOCKED
  /\ option_map tx_kernel (sl_tx (slate_of_v4 (v4_of_slate SL_HEIGHT_LOCKED))) = Some KPlain
  /\ slate_of_v4 (v4_of_slate SL_HEIGHT_LOCKED) <> SL_HEIGHT_LOCKED
  /\ option_map tx_kernel (sl_tx (slate_of_v4 SL_FEAT1)) = Some (KHeightLocked 100).
Proof.
  split; [|split; [|split; [|split]]].
  - unfold wf_wallet_slate, SL_HEIGHT_LOCKED. cbn [sl_tx sl_v4 s_coms tx_inputs tx_outputs app].
    split; [reflexivity|]. split; [|split; [|split; [|split]]].
    + constructor; [|constructor]. split; [reflexivity|cbn; lia].
    + constructor; [|constructor]. split; [reflexivity|cbn; lia].
    + reflexivity.
    + reflexivity.
    + reflexivity.
  - split; [discriminate|cbn; lia].
  - vm_compute. reflexivity.
  - intros H. apply (f_equal (fun sl => option_map tx_kernel (sl_tx sl))) in H. vm_compute in H. discriminate.
  - vm_compute. reflexivity.
Qed.

(** ------------------------------------------------------------------ the C08 statements *)
Lemma run_rd_of {A} (d : rd A) bs v : d (bs ++ []) = Ok (v, []) -> run_rd d bs = Ok v.
Proof. rewrite app_nil_r. unfold run_rd. intros ->. reflexivity. Qed.

Lemma c08_v4bin_roundtrip :
  forall (valid_pk valid_ed : bytes -> bool) (s : slate4) (trailing : bytes),
    wf_slate4 valid_pk valid_ed s -> ~ KnownBin s ->
    run_rd (dec_v4bin valid_pk valid_ed true) (enc_v4bin s ++ trailing) = Ok s.
Proof.
  intros vp ve s tr Hwf Hk. unfold run_rd. rewrite (v4bin_roundtrip vp ve true s tr Hwf Hk). reflexivity.
Qed.

Lemma c08_slatepack_roundtrip :
  forall (addr_parse : bytes -> option bytes) (sp : slatepack) (trailing : bytes),
    wf_slatepack addr_parse sp ->
    run_rd (dec_slatepack_bin addr_parse true) (enc_slatepack_bin sp ++ trailing) = Ok sp.
Proof.
  intros ap sp tr Hwf. unfold run_rd. rewrite (slatepack_bin_roundtrip ap true sp tr Hwf). reflexivity.
Qed.

Lemma c08_address_roundtrip :
  forall (addr_parse : bytes -> option bytes) (a trailing : bytes),
    wf_addr addr_parse a -> read_addr addr_parse (write_addr a ++ trailing) = Ok (a, trailing).
Proof. intros. apply read_addr_w. assumption. Qed.

Lemma c08_encmeta_roundtrip :
  forall (addr_parse : bytes -> option bytes) (m : encmeta) (payload : bytes),
    wf_encmeta addr_parse m ->
    post_decrypt addr_parse true (pre_encrypt m payload) = Ok (m, payload).
Proof. intros. apply post_decrypt_roundtrip. assumption. Qed.

Lemma c08_armor_roundtrip :
  forall (b58_enc : bytes -> bytes) (b58_dec : bytes -> option bytes) (sha4 : bytes -> bytes)
         (data : bytes),
    (forall x, b58_dec (b58_enc x) = Some x) ->
    (forall x, forallb plain_char (b58_enc x) = true) ->
    (forall x, length (sha4 x) = 4%nat) ->
    armor_decode b58_dec sha4 (armor_encode b58_enc sha4 data) = Ok data.
Proof. intros. apply armor_roundtrip; assumption. Qed.

(** the whole stack: slate -> binary slate -> slatepack payload -> binary slatepack -> armor
    text -> [deser_slatepack] -> payload -> slate *)
Lemma c08_stack_roundtrip :
  forall (valid_pk valid_ed : bytes -> bool) (addr_parse : bytes -> option bytes)
         (b58_enc : bytes -> bytes) (b58_dec : bytes -> option bytes) (sha4 : bytes -> bytes)
         (json_sp : bytes -> option slatepack) (max_size : N)
         (s : slate4) (sender : option bytes),
    (forall x, b58_dec (b58_enc x) = Some x) ->
    (forall x, forallb plain_char (b58_enc x) = true) ->
    (forall x, length (sha4 x) = 4%nat) ->
    wf_slate4 valid_pk valid_ed s -> ~ KnownBin s ->
    (forall a, sender = Some a -> wf_addr addr_parse a) ->
    lenN (enc_v4bin s) <= MAX_READ ->
    let sp := mkSlatepack 1 0 0 sender (enc_v4bin s) in
    let text := armor_encode b58_enc sha4 (enc_slatepack_bin sp) in
    lenN text <= max_size ->
    exists sp', deser_slatepack addr_parse true b58_dec sha4 json_sp max_size text = Ok sp'
                /\ sp' = sp
                /\ run_rd (dec_v4bin valid_pk valid_ed true) (sp_payload sp') = Ok s.
Proof.
  intros vp ve ap b58e b58d sha js mx s sender Hinv Halpha Hsha Hwf Hk Hsender Hpl sp text Hmax.
  exists sp. split; [|split; [reflexivity|]].
  - unfold deser_slatepack.
    assert (Htext : text = HEADER ++ (format_from 15 (b58e (sha (enc_slatepack_bin sp) ++ enc_slatepack_bin sp))
                                      ++ FOOTER ++ [10])).
    { unfold text, armor_encode. rewrite format_header, <- app_assoc. reflexivity. }
    assert (Hmin : MIN_SIZE <= lenN text).
    { rewrite Htext. unfold lenN. rewrite app_length. unfold MIN_SIZE. cbn [length HEADER HEADER_WORD app]. lia. }
    replace (lenN text <? MIN_SIZE) with false by (symmetry; apply N.ltb_ge; exact Hmin).
    replace (mx <? lenN text) with false by (symmetry; apply N.ltb_ge; exact Hmax).
    cbn [orb].
    assert (Hh : firstn 15 text = HEADER) by (rewrite Htext; reflexivity).
    rewrite Hh, bytes_eqb_refl.
    unfold text. rewrite (armor_roundtrip true b58e b58d sha _ Hinv Halpha Hsha).
    pose proof (slatepack_bin_roundtrip ap true sp [] ) as Hrt. rewrite app_nil_r in Hrt.
    rewrite Hrt; [reflexivity|].
    unfold wf_slatepack, sp. cbn [sp_mode sp_sender sp_payload]. split; [lia|split; [exact Hsender|exact Hpl]].
  - unfold sp. cbn [sp_payload]. rewrite <- (app_nil_r (enc_v4bin s)).
    apply c08_v4bin_roundtrip; assumption.
Qed.

Lemma c08_json_roundtrip :
  forall (valid_pk valid_ed valid_sig : bytes -> bool) (s : slate4),
    wf_json valid_pk valid_ed valid_sig s ->
    of_fields true valid_pk valid_ed valid_sig (to_fields s) = Ok s.
Proof. intros. apply json_roundtrip. assumption. Qed.

(** all encodings of one slate decode to equal slates *)
Lemma c08_encodings_agree :
  forall (valid_pk valid_ed valid_sig : bytes -> bool) (s : slate4),
    wf_slate4 valid_pk valid_ed s -> wf_json valid_pk valid_ed valid_sig s -> ~ KnownBin s ->
    run_rd (dec_v4bin valid_pk valid_ed true) (enc_v4bin s)
    = of_fields true valid_pk valid_ed valid_sig (to_fields s).
Proof.
  intros vp ve vs s Hb Hj Hk. rewrite json_roundtrip by exact Hj.
  rewrite <- (app_nil_r (enc_v4bin s)). apply c08_v4bin_roundtrip; assumption.
Qed.

Lemma c08_conversion :
  (forall s, wf_coms_order s -> v4_of_slate (slate_of_v4 s) = s)
  /\ (forall sl, wf_wallet_slate sl -> ~ KnownConv sl -> slate_of_v4 (v4_of_slate sl) = sl).
Proof. split; [exact conv_v4_roundtrip|exact conv_slate_roundtrip]. Qed.
