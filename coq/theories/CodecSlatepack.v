(** CodecSlatepack — SlatepackBin, SlatepackEncMetadataBin, the binary form of a
    SlatepackAddress, post-decryption parsing and the [deser_slatepack] dispatcher
    (libwallet/src/slatepack/{types.rs,address.rs,packer.rs}).

    A slatepack address travels as [u8 n ‖ n bytes bech32 text]; bech32 and the ed25519
    point check are external, so the address parser is a parameter
    [addr_parse : bytes -> option bytes] ("this text parses; its canonical re-encoding is
    ..."). The model's address value is that canonical text. [guarded = false] is the code
    before the repair (unsigned [-=], [decrypted[0..4]], [split_off], [unreachable!]). *)
From GW Require Import Base CodecBase CodecArmor.

Record slatepack := mkSlatepack {
  sp_major : N;
  sp_minor : N;
  sp_mode : N;
  sp_sender : option bytes;
  sp_payload : bytes
}.

Record encmeta := mkEncmeta {
  em_sender : option bytes;
  em_recipients : list bytes
}.

Section WithAddr.
Variable addr_parse : bytes -> option bytes.

(** SlatepackAddress::read: length byte, text, utf8 + bech32 + key check *)
Definition read_addr : rd bytes :=
  do* n <- read_u8;
  do* s <- read_fixed n;
  match addr_parse s with
  | Some a => rret a
  | None => rfail EDeser
  end.

(** [addr.encoded_len()]: canonical text plus the length byte *)
Definition addr_len (a : bytes) : N := lenN a + 1.

(** [x -= len] on u32: overflow check of the harness build / [checked_sub] of the repair *)
Definition sub_u32 (guarded : bool) (x len : N) : rd N :=
  do* _ <- guard guarded (len <=? x) EDeser PSubOverflow;
  rret (x - len).

Definition write_addr (a : bytes) : bytes := w_u8 (lenN a) ++ a.

(** SlatepackBin *)
Definition dec_slatepack_bin (guarded : bool) : rd slatepack :=
  do* major <- read_u8;
  do* minor <- read_u8;
  do* mode <- read_u8;
  if 1 <? mode then rfail EDeser else
  do* flags <- read_u16;
  do* to_payload <- read_u32;
  do* sr <- (if N.odd flags
             then do* a <- read_addr;
                  do* rest <- sub_u32 guarded to_payload (addr_len a);
                  rret (Some a, rest)
             else rret (None, to_payload));
  let '(sender, rest) := sr in
  do* _ <- skip_n rest;
  do* payload <- read_bytes_len_prefix;
  rret (mkSlatepack major minor mode sender payload).

Definition opt_fields_len (sp : slatepack) : N :=
  match sp_sender sp with Some a => addr_len a | None => 0 end.

Definition enc_slatepack_bin (sp : slatepack) : bytes :=
  w_u8 (sp_major sp) ++ w_u8 (sp_minor sp) ++ w_u8 (sp_mode sp)
  ++ w_u16 (match sp_sender sp with Some _ => 1 | None => 0 end)
  ++ w_u32 (opt_fields_len sp)
  ++ (match sp_sender sp with Some a => write_addr a | None => [] end)
  ++ w_bytes (sp_payload sp).

(** SlatepackEncMetadataBin: recipients loop with the running byte budget *)
Fixpoint read_recipients (guarded : bool) (fuel : nat) (count : N) (remaining : N)
  : rd (list bytes * N) :=
  fun bs =>
    if count =? 0 then Ok (([], remaining), bs)
    else match fuel with
         | O => Err EOutOfFuel
         | S f =>
           (do* a <- read_addr;
            do* rem' <- sub_u32 guarded remaining (addr_len a);
            do* r <- read_recipients guarded f (count - 1) rem';
            rret (a :: fst r, snd r)) bs
         end.

Definition dec_encmeta (guarded : bool) : rd encmeta :=
  do* len <- read_u32;
  do* flags <- read_u16;
  do* rem0 <- sub_u32 guarded len 2;
  do* sr <- (if N.odd flags
             then do* a <- read_addr;
                  do* rest <- sub_u32 guarded rem0 (addr_len a);
                  rret (Some a, rest)
             else rret (None, rem0));
  let '(sender, rem1) := sr in
  do* rr <- (if N.testbit flags 1
             then do* count <- read_u16;
                  do* rem2 <- sub_u32 guarded rem1 2;
                  (fun bs => read_recipients guarded (S (length bs)) count rem2 bs)
             else rret ([], rem1));
  let '(recipients, rem3) := rr in
  do* _ <- skip_n rem3;
  rret (mkEncmeta sender recipients).

Definition encmeta_len (m : encmeta) : N :=
  2 + (match em_sender m with Some a => addr_len a | None => 0 end)
  + (match em_recipients m with
     | [] => 0
     | _ => 2 + sumN (map addr_len (em_recipients m))
     end).

Definition enc_encmeta (m : encmeta) : bytes :=
  w_u32 (encmeta_len m)
  ++ w_u16 ((match em_sender m with Some _ => 1 | None => 0 end)
            + (match em_recipients m with [] => 0 | _ => 2 end))
  ++ (match em_sender m with Some a => write_addr a | None => [] end)
  ++ (match em_recipients m with
      | [] => []
      | _ => w_u16 (lenN (em_recipients m)) ++ concat (map write_addr (em_recipients m))
      end).

(** the tail of [try_decrypt_payload]: [decrypted] is what age returned *)
Definition post_decrypt (guarded : bool) (decrypted : bytes) : result (encmeta * bytes) :=
  (* len_bytes.copy_from_slice(&decrypted[0..4]) *)
  if (length decrypted <? 4)%nat
  then (if guarded then Err EDeser else Panic PSliceOOB) else
  let meta_len := be (firstn 4 decrypted) in
  (* decrypted.split_off(meta_len + 4) *)
  if lenN decrypted <? meta_len + 4
  then (if guarded then Err EDeser else Panic PIndexOOB) else
  let cut := N.to_nat (meta_len + 4) in
  match dec_encmeta guarded (firstn cut decrypted) with
  | Ok (m, _) => Ok (m, skipn cut decrypted)
  | Err e => Err e
  | Panic p => Panic p
  end.

(** what [try_encrypt_payload] hands to age *)
Definition pre_encrypt (m : encmeta) (payload : bytes) : bytes := enc_encmeta m ++ payload.

(** the age header class seen by [try_decrypt_payload]: a recipients-type file goes on
    to decryption, anything else hit [unreachable!()] before the repair *)
Definition age_header_dispatch (guarded : bool) (is_recipients_type : bool) : result unit :=
  if is_recipients_type then Ok tt
  else if guarded then Err ECrypto else Panic PUnreachable.

(** [Slatepacker::deser_slatepack] without the decryption step. [max_size] depends on the
    chain type ((max_tx_weight * 32) + 15 + 15); [json_sp] is serde_json's reading of a
    JSON slatepack (external). *)
Definition MIN_SIZE : N := 15.

Definition deser_slatepack (guarded : bool)
           (b58_dec : bytes -> option bytes) (sha4 : bytes -> bytes)
           (json_sp : bytes -> option slatepack)
           (max_size : N) (bs : bytes) : result slatepack :=
  let n := lenN bs in
  if (n <? MIN_SIZE) || (max_size <? n) then Err EDeser else
  (* &data[..HEADER.len()] is in bounds: n >= 15 *)
  let test_header := firstn 15 bs in
  match (if bytes_eqb test_header HEADER
         then armor_decode_gen guarded b58_dec sha4 bs else Ok bs) with
  | Err e => Err e
  | Panic p => Panic p
  | Ok data =>
    match dec_slatepack_bin guarded data with
    | Ok (sp, _) => Ok sp
    | Panic p => Panic p
    | Err _ => match json_sp data with
               | Some sp => Ok sp
               | None => Err EDeser
               end
    end
  end.

End WithAddr.

(** canonical projections (the layout of the harness's [canon_sp] / [canon_sp_meta]) *)
Definition cz (n : N) : Z := Z.of_N n.
Definition cbytes (b : bytes) : list Z := cz (lenN b) :: map cz b.
Definition copt_bytes (o : option bytes) : list Z :=
  match o with Some b => 1%Z :: cbytes b | None => [0%Z] end.

Definition canon_sp (sp : slatepack) : list Z :=
  [cz (sp_major sp); cz (sp_minor sp); cz (sp_mode sp)]
  ++ copt_bytes (sp_sender sp) ++ cbytes (sp_payload sp).

Definition canon_meta (mp : encmeta * bytes) : list Z :=
  copt_bytes (em_sender (fst mp))
  ++ cz (lenN (em_recipients (fst mp))) :: concat (map cbytes (em_recipients (fst mp)))
  ++ cbytes (snd mp).

Definition canon_result {A} (c : A -> list Z) (r : result A) : list Z :=
  match r with
  | Ok a => 0%Z :: c a
  | Err EOutOfFuel => [3%Z]
  | Err _ => [1%Z]
  | Panic _ => [2%Z]
  end.
