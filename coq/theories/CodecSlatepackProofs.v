(** Proofs about the slatepack models: totality / loop bound of the repaired readers, the
    panics of the unrepaired ones, and the encode/decode round trips. *)
From GW Require Import Base CodecBase CodecBaseProofs CodecArmor CodecArmorProofs CodecSlatepack.

Ltac ok_step :=
  first
    [ apply ok_ret
    | apply ok_fail; discriminate
    | apply ok_guard; discriminate
    | apply ok_take
    | apply ok_read_be
    | apply ok_read_fixed
    | apply ok_read_bytes_len_prefix
    | apply ok_skip_n
    | apply okS_ok; apply okS_read_u8
    | apply ok_bind; [|intros ?]
    | match goal with
      | |- ok (if ?c then _ else _) => destruct c
      | |- ok (match ?x with _ => _ end) => destruct x
      end ].
Ltac ok_auto := repeat ok_step.

Section WithAddr.
Variable addr_parse : bytes -> option bytes.

Lemma okS_read_addr : okS (read_addr addr_parse).
Proof.
  unfold read_addr. apply okS_bind_l; [apply okS_read_u8|intros n].
  ok_auto.
Qed.

Lemma ok_sub_u32 x len : ok (sub_u32 true x len).
Proof. unfold sub_u32. ok_auto. Qed.

Lemma ok_dec_slatepack_bin : ok (dec_slatepack_bin addr_parse true).
Proof.
  unfold dec_slatepack_bin. ok_auto; try apply okS_ok, okS_read_addr; try apply ok_sub_u32.
Qed.

Lemma read_recipients_ok fuel : forall count rem bs, (length bs < fuel)%nat ->
  match read_recipients addr_parse true fuel count rem bs with
  | Ok (_, r) => (length r <= length bs)%nat
  | Err e => e <> EOutOfFuel
  | Panic _ => False
  end.
Proof.
  induction fuel as [|f IH]; intros count rem bs Hf; [lia|].
  cbn [read_recipients]. destruct (count =? 0); [lia|].
  unfold rbind at 1. pose proof (okS_read_addr bs) as Ha.
  destruct (read_addr addr_parse bs) as [[a r]|e|p]; auto.
  unfold rbind at 1. pose proof (ok_sub_u32 rem (addr_len a) r) as Hs.
  destruct (sub_u32 true rem (addr_len a) r) as [[rem' r1]|e|p]; auto.
  unfold rbind at 1. specialize (IH (count - 1) rem' r1 ltac:(lia)).
  destruct (read_recipients addr_parse true f (count - 1) rem' r1) as [[[l rr] r2]|e|p]; auto.
  cbn. lia.
Qed.

Lemma ok_dec_encmeta : ok (dec_encmeta addr_parse true).
Proof.
  unfold dec_encmeta. ok_auto; try apply okS_ok, okS_read_addr; try apply ok_sub_u32.
  all: intros bs; apply read_recipients_ok; lia.
Qed.

Lemma post_decrypt_total bs p : post_decrypt addr_parse true bs <> Panic p.
Proof.
  unfold post_decrypt.
  destruct (length bs <? 4)%nat; [discriminate|].
  destruct (lenN bs <? _); [discriminate|].
  pose proof (ok_dec_encmeta (firstn (N.to_nat (be (firstn 4 bs) + 4)) bs)) as H.
  destruct (dec_encmeta addr_parse true _) as [[m r]|e|q]; [discriminate|discriminate|contradiction].
Qed.

Lemma post_decrypt_no_fuel bs : post_decrypt addr_parse true bs <> Err EOutOfFuel.
Proof.
  unfold post_decrypt.
  destruct (length bs <? 4)%nat; [discriminate|].
  destruct (lenN bs <? _); [discriminate|].
  pose proof (ok_dec_encmeta (firstn (N.to_nat (be (firstn 4 bs) + 4)) bs)) as H.
  destruct (dec_encmeta addr_parse true _) as [[m r]|e|q]; [discriminate|congruence|contradiction].
Qed.

Lemma deser_slatepack_total b58_dec sha4 json_sp max_size bs p :
  deser_slatepack addr_parse true b58_dec sha4 json_sp max_size bs <> Panic p.
Proof.
  unfold deser_slatepack.
  destruct (_ || _); [discriminate|].
  destruct (bytes_eqb _ _).
  - pose proof (armor_decode_total b58_dec sha4 bs) as Ha. unfold armor_decode in Ha.
    destruct (armor_decode_gen true b58_dec sha4 bs) as [data|e|q]; [|discriminate|exfalso; eapply Ha; reflexivity].
    pose proof (ok_dec_slatepack_bin data) as H.
    destruct (dec_slatepack_bin addr_parse true data) as [[sp r]|e|q]; [discriminate| |contradiction].
    destruct (json_sp data); discriminate.
  - pose proof (ok_dec_slatepack_bin bs) as H.
    destruct (dec_slatepack_bin addr_parse true bs) as [[sp r]|e|q]; [discriminate| |contradiction].
    destruct (json_sp bs); discriminate.
Qed.

(** too short or too long inputs are refused before anything is sliced or decoded *)
Lemma deser_slatepack_bounds b58_dec sha4 json_sp max_size bs sp :
  deser_slatepack addr_parse true b58_dec sha4 json_sp max_size bs = Ok sp ->
  MIN_SIZE <= lenN bs <= max_size.
Proof.
  unfold deser_slatepack.
  destruct (lenN bs <? MIN_SIZE) eqn:E1; [discriminate|].
  destruct (max_size <? lenN bs) eqn:E2; [discriminate|].
  intros _. apply N.ltb_ge in E1. apply N.ltb_ge in E2. lia.
Qed.

End WithAddr.

Lemma age_header_total b p : age_header_dispatch true b <> Panic p.
Proof. destruct b; discriminate. Qed.

(** ---- the code before the repair panics (types.rs: `-=` on u32, decrypted[0..4],
    split_off, unreachable!) *)
Definition AP0 : bytes -> option bytes := fun s => Some s.
(* version 1.0, mode 0, flags 1 (sender), opt_len 0, address "ab": 3 > 0 *)
Definition W_SPBIN_UNDERFLOW : bytes := [1; 0; 0; 0; 1; 0; 0; 0; 0; 2; 97; 98].
(* metadata length 0, flags 0: 0 - 2 *)
Definition W_META_UNDERFLOW : bytes := [0; 0; 0; 0; 0; 0].

Lemma slatepack_orig_refuted :
  run_rd (dec_slatepack_bin AP0 false) W_SPBIN_UNDERFLOW = Panic PSubOverflow
  /\ run_rd (dec_encmeta AP0 false) W_META_UNDERFLOW = Panic PSubOverflow
  /\ post_decrypt AP0 false [1; 2; 3] = Panic PSliceOOB
  /\ post_decrypt AP0 false [0; 0; 0; 9; 0; 0] = Panic PIndexOOB
  /\ age_header_dispatch false false = Panic PUnreachable.
Proof. repeat split; vm_compute; reflexivity. Qed.

(** ------------------------------------------------------------------ round trips (C08) *)
Ltac rb := unfold rbind at 1.

Section RoundTrip.
Variable addr_parse : bytes -> option bytes.

(** a canonical address: it parses to itself and its text fits the length byte *)
Definition wf_addr (a : bytes) : Prop := addr_parse a = Some a /\ lenN a <= 255.

Definition wf_slatepack (sp : slatepack) : Prop :=
  sp_mode sp <= 1
  /\ (forall a, sp_sender sp = Some a -> wf_addr a)
  /\ lenN (sp_payload sp) <= MAX_READ.

Definition wf_encmeta (m : encmeta) : Prop :=
  (forall a, em_sender m = Some a -> wf_addr a)
  /\ Forall wf_addr (em_recipients m)
  /\ lenN (em_recipients m) < 65536.

Lemma read_addr_w a tail : wf_addr a -> read_addr addr_parse (write_addr a ++ tail) = Ok (a, tail).
Proof.
  intros [Hp Hl]. unfold read_addr, write_addr. rewrite <- app_assoc.
  rb. rewrite read_u8_w. rb.
  rewrite read_fixed_app by (unfold MAX_READ; auto; lia). rewrite Hp. reflexivity.
Qed.

Lemma sub_u32_ok g x len bs : len <= x -> sub_u32 g x len bs = Ok (x - len, bs).
Proof.
  intros H. unfold sub_u32, rbind, guard. apply N.leb_le in H. rewrite H. reflexivity.
Qed.

Lemma addr_len_small a : wf_addr a -> addr_len a <= 256.
Proof. intros [_ H]. unfold addr_len. lia. Qed.

Theorem slatepack_bin_roundtrip g sp tail :
  wf_slatepack sp ->
  dec_slatepack_bin addr_parse g (enc_slatepack_bin sp ++ tail) = Ok (sp, tail).
Proof.
  intros (Hmode & Hs & Hp). destruct sp as [major minor mode sender payload].
  cbn [sp_major sp_minor sp_mode sp_sender sp_payload] in *.
  unfold dec_slatepack_bin, enc_slatepack_bin, opt_fields_len. cbn [sp_major sp_minor sp_mode sp_sender sp_payload].
  repeat rewrite <- app_assoc.
  rb. rewrite read_u8_w. rb. rewrite read_u8_w. rb. rewrite read_u8_w.
  replace (1 <? mode) with false by (symmetry; apply N.ltb_ge; exact Hmode).
  destruct sender as [a|].
  - pose proof (Hs a eq_refl) as Ha. pose proof (addr_len_small a Ha) as Hl.
    rb. rewrite read_u16_w by lia. rb. rewrite read_u32_w by lia.
    change (N.odd 1) with true. rb. rb. rewrite read_addr_w by exact Ha.
    rb. rewrite sub_u32_ok by lia. unfold rret at 1. rewrite N.sub_diag.
    rb. rewrite skip_n_zero. rb. rewrite read_bytes_w by exact Hp. reflexivity.
  - rb. rewrite read_u16_w by lia. rb. rewrite read_u32_w by lia.
    change (N.odd 0) with false. rb. unfold rret at 1.
    rb. rewrite skip_n_zero. rb. rewrite app_nil_l, read_bytes_w by exact Hp. reflexivity.
Qed.

Lemma read_recipients_w g rs : forall fuel rem tail,
  Forall wf_addr rs -> (length rs <= fuel)%nat -> sumN (map addr_len rs) <= rem ->
  read_recipients addr_parse g fuel (lenN rs) rem (concat (map write_addr rs) ++ tail)
  = Ok ((rs, rem - sumN (map addr_len rs)), tail).
Proof.
  induction rs as [|a rs IH]; intros fuel rem tail HF Hfuel Hsum.
  - cbn [map sumN]. rewrite N.sub_0_r. destruct fuel; reflexivity.
  - destruct fuel as [|f]; [cbn in Hfuel; lia|].
    inversion HF as [|? ? Ha Hrs]; subst. cbn [map sumN concat] in *.
    cbn [read_recipients].
    replace (lenN (a :: rs) =? 0) with false
      by (symmetry; apply N.eqb_neq; unfold lenN; cbn [length]; lia).
    rewrite <- app_assoc. rb. rewrite read_addr_w by exact Ha.
    rb. rewrite sub_u32_ok by lia.
    replace (lenN (a :: rs) - 1) with (lenN rs) by (unfold lenN; cbn [length]; lia).
    rb. rewrite IH; [|exact Hrs|cbn in Hfuel; lia|lia].
    unfold rret. cbn [fst snd]. f_equal. f_equal. f_equal. lia.
Qed.

Lemma sum_addr_len_bound rs : Forall wf_addr rs -> sumN (map addr_len rs) <= 256 * lenN rs.
Proof.
  induction 1 as [|a rs Ha _ IH]; cbn [map sumN]; [unfold lenN; cbn; lia|].
  pose proof (addr_len_small a Ha). unfold lenN in *. cbn [length]. lia.
Qed.

Lemma write_addr_nonempty a : (1 <= length (write_addr a))%nat.
Proof. unfold write_addr, w_u8. cbn. lia. Qed.

Theorem encmeta_roundtrip g m tail :
  wf_encmeta m -> dec_encmeta addr_parse g (enc_encmeta m ++ tail) = Ok (m, tail).
Proof.
  intros (Hs & Hr & Hn). destruct m as [sender rs]. cbn [em_sender em_recipients] in *.
  pose proof (sum_addr_len_bound rs Hr) as Hsum.
  unfold dec_encmeta, enc_encmeta, encmeta_len. cbn [em_sender em_recipients].
  assert (Hsl : (match sender with Some a => addr_len a | None => 0 end) <= 256).
  { destruct sender as [a|]; [apply addr_len_small, Hs; reflexivity|lia]. }
  repeat rewrite <- app_assoc.
  rb. rewrite read_u32_w by (destruct rs; lia).
  rb. rewrite read_u16_w by (destruct sender, rs; lia).
  rb. rewrite sub_u32_ok by lia.
  destruct sender as [a|]; destruct rs as [|r0 rs'].
  - pose proof (Hs a eq_refl) as Ha.
    change (N.odd (1 + 0)) with true. rb. rb. rewrite read_addr_w by exact Ha.
    rb. rewrite sub_u32_ok by lia. unfold rret at 1.
    change (N.testbit (1 + 0) 1) with false. rb. unfold rret at 1.
    rb. replace (2 + addr_len a + 0 - 2 - addr_len a) with 0 by lia.
    rewrite app_nil_l, skip_n_zero. reflexivity.
  - pose proof (Hs a eq_refl) as Ha. set (rs := r0 :: rs') in *.
    change (N.odd (1 + 2)) with true. rb. rb. rewrite read_addr_w by exact Ha.
    rb. rewrite sub_u32_ok by lia. unfold rret at 1.
    change (N.testbit (1 + 2) 1) with true. rb. rewrite <- app_assoc. rb.
    rewrite read_u16_w by exact Hn. rb. rewrite sub_u32_ok by lia.
    rewrite read_recipients_w; [|exact Hr| |lia].
    2:{ rewrite app_length. pose proof (concat_length_ge write_addr rs write_addr_nonempty). lia. }
    rb. replace (_ - sumN (map addr_len rs)) with 0 by lia.
    rewrite skip_n_zero. reflexivity.
  - change (N.odd (0 + 0)) with false. rb. unfold rret at 1.
    change (N.testbit (0 + 0) 1) with false. rb. unfold rret at 1.
    rb. replace (2 + 0 + 0 - 2) with 0 by lia.
    rewrite !app_nil_l, skip_n_zero. reflexivity.
  - set (rs := r0 :: rs') in *.
    change (N.odd (0 + 2)) with false. rb. unfold rret at 1.
    change (N.testbit (0 + 2) 1) with true. rb. rewrite app_nil_l, <- app_assoc. rb.
    rewrite read_u16_w by exact Hn. rb. rewrite sub_u32_ok by lia.
    rewrite read_recipients_w; [|exact Hr| |lia].
    2:{ rewrite app_length. pose proof (concat_length_ge write_addr rs write_addr_nonempty). lia. }
    rb. replace (_ - sumN (map addr_len rs)) with 0 by lia.
    rewrite skip_n_zero. reflexivity.
Qed.

Lemma concat_write_addr_length rs :
  N.of_nat (length (concat (map write_addr rs))) = sumN (map addr_len rs).
Proof.
  induction rs as [|a rs IH]; cbn [map concat sumN]; [reflexivity|].
  rewrite app_length, Nat2N.inj_add, IH. unfold write_addr, addr_len, w_u8, lenN. cbn [length app]. lia.
Qed.

Lemma enc_encmeta_length m : lenN (enc_encmeta m) = encmeta_len m + 4.
Proof.
  destruct m as [sender rs]. unfold enc_encmeta, encmeta_len, lenN. cbn [em_sender em_recipients].
  rewrite !app_length, !Nat2N.inj_add. unfold w_u32, w_u16. rewrite !be_enc_length.
  destruct sender as [a|]; destruct rs as [|r0 rs'].
  - unfold write_addr, addr_len, w_u8, lenN. rewrite app_length. cbn [length]. lia.
  - rewrite app_length, Nat2N.inj_add. unfold w_u16. rewrite be_enc_length, concat_write_addr_length.
    unfold write_addr, addr_len, w_u8, lenN. rewrite app_length. cbn [length]. lia.
  - cbn [length]. lia.
  - rewrite app_length, Nat2N.inj_add. unfold w_u16. rewrite be_enc_length, concat_write_addr_length.
    cbn [length]. lia.
Qed.

(** what the wallet encrypts decrypts back to the same metadata and payload *)
Theorem post_decrypt_roundtrip g m payload :
  wf_encmeta m -> post_decrypt addr_parse g (pre_encrypt m payload) = Ok (m, payload).
Proof.
  intros Hwf. pose proof Hwf as (Hs & Hr & Hn).
  pose proof (enc_encmeta_length m) as Hlen.
  pose proof (sum_addr_len_bound _ Hr) as Hsum.
  assert (Hsl : (match em_sender m with Some a => addr_len a | None => 0 end) <= 256).
  { destruct (em_sender m) as [a|] eqn:E; [apply addr_len_small, Hs; reflexivity|lia]. }
  assert (Hml : encmeta_len m < 4294967296).
  { unfold encmeta_len. destruct (em_recipients m); lia. }
  unfold post_decrypt, pre_encrypt.
  assert (H4 : firstn 4 (enc_encmeta m ++ payload) = w_u32 (encmeta_len m)).
  { assert (Hl4 : length (w_u32 (encmeta_len m)) = 4%nat) by apply be_enc_length.
    unfold enc_encmeta. rewrite <- app_assoc. rewrite firstn_app, Hl4.
    change (4 - 4)%nat with 0%nat. rewrite firstn_O, app_nil_r.
    apply firstn_all2. rewrite Hl4. lia. }
  replace (length (enc_encmeta m ++ payload) <? 4)%nat with false.
  2:{ symmetry. apply Nat.ltb_ge. rewrite app_length. unfold lenN in Hlen. lia. }
  rewrite H4. unfold w_u32. rewrite be_be_enc by exact Hml.
  replace (lenN (enc_encmeta m ++ payload) <? encmeta_len m + 4) with false.
  2:{ symmetry. apply N.ltb_ge. unfold lenN in *. rewrite app_length. lia. }
  assert (Hcut : N.to_nat (encmeta_len m + 4) = length (enc_encmeta m)) by (unfold lenN in Hlen; lia).
  rewrite Hcut, firstn_app, Nat.sub_diag, firstn_all, firstn_O, app_nil_r.
  rewrite skipn_app, Nat.sub_diag, skipn_all, skipn_O, app_nil_l.
  pose proof (encmeta_roundtrip g m [] Hwf) as Hrt. rewrite app_nil_r in Hrt. rewrite Hrt.
  reflexivity.
Qed.

End RoundTrip.
