(** Idealised cryptography used by the protocol-level models (Proto.v, PayProof.v).

    What is idealised, once and for all (see design.d/C02.md, design.d/C11.md):
    - scalars live in [Z] (the real code works modulo the group order; none of the
      implications proved needs a field);
    - a group element s*G (public key, public nonce) is represented by its discrete
      logarithm [s]; two group elements are equal iff their logarithms are;
    - a Pedersen commitment v*H + b*G is the pair [(v, b)], so equality of commitments is
      equality of pairs: binding, and the independence of G and H, are assumed, not proved;
    - a range proof is a token naming the commitment it was made for; it verifies exactly
      for that commitment and only when 0 <= v < 2^64 (soundness assumed);
    - Schnorr (aggsig) verification is the corresponding ring equation, the challenge hash
      is an uninterpreted function (a [Section] variable);
    - ed25519 signatures are ideal: what verifies is exactly what the key holder signed
      ([ideal_sig], a [Section] hypothesis of the theorems that use it).
    No proofs in this file. *)
From GW Require Export Base.

Fixpoint sumZ (l : list Z) : Z :=
  match l with [] => 0%Z | x :: r => (x + sumZ r)%Z end.

(** Pedersen commitments *)
Record commit := Cm { c_v : Z; c_b : Z }.

Definition commit_eqb (a b : commit) : bool :=
  (c_v a =? c_v b)%Z && (c_b a =? c_b b)%Z.

(** Commitment::from_pubkey: a public key x*G read as a commitment to zero *)
Definition commit_of_key (x : Z) : commit := Cm 0 x.

Definition sum_v (l : list commit) : Z := sumZ (map c_v l).
Definition sum_b (l : list commit) : Z := sumZ (map c_b l).

(** Range proofs *)
Definition RANGE : Z := 18446744073709551616.  (* 2^64 *)
Record rproof := RP { rp_for : option commit }.   (* None: bytes that are no proof at all *)
Definition rp_create (c : commit) : rproof := RP (Some c).
Definition rp_verify (c : commit) (p : rproof) : bool :=
  match rp_for p with
  | Some c' => commit_eqb c c' && (0 <=? c_v c)%Z && (c_v c <? RANGE)%Z
  | None => false
  end.

(** Schnorr signatures as used by secp256k1-zkp aggsig. A signature carries the public
    nonce it was made with ([sg_r], as a discrete log) and the scalar [sg_s]. *)
Record sig := Sig { sg_r : Z; sg_s : Z }.

Section Schnorr.
  Variable msg : Type.
  (** e = H(R_total, P_total, m) *)
  Variable chal : Z -> Z -> msg -> Z.

  (** aggsig::calculate_partial_sig *)
  Definition sign_partial (x k rsum psum : Z) (m : msg) : sig :=
    Sig k (k + chal rsum psum m * x)%Z.
  (** aggsig::verify_partial_sig: s*G - e*P_i has the x coordinate stored in the signature,
      e computed from the nonce SUM and the key SUM *)
  Definition verify_partial (sg : sig) (rsum p_i psum : Z) (m : msg) : bool :=
    (sg_s sg =? sg_r sg + chal rsum psum m * p_i)%Z.
  (** aggsig::add_signatures *)
  Definition add_signatures (sgs : list sig) (rsum : Z) : sig :=
    Sig rsum (sumZ (map sg_s sgs)).
  (** aggsig::verify_completed_sig / TxKernel::verify: e from the signature's own nonce *)
  Definition verify_single (sg : sig) (p ptot : Z) (m : msg) : bool :=
    (sg_s sg =? sg_r sg + chal (sg_r sg) ptot m * p)%Z.
End Schnorr.

(** Ideal ed25519 *)
Section Ed25519.
  Variables sk pk emsg esig : Type.
  Variable pub : sk -> pk.
  Variable sign : sk -> emsg -> esig.
  Variable verify : pk -> emsg -> esig -> bool.

  (** exactly the signatures made with the matching secret key verify; a signature
      determines the message it was made over and the key pair that made it; a public
      key determines its secret key *)
  Definition ideal_sig : Prop :=
    (forall p m s, verify p m s = true <-> exists k, p = pub k /\ s = sign k m)
    /\ (forall k k' m m', sign k m = sign k' m' -> k = k' /\ m = m')
    /\ (forall k k', pub k = pub k' -> k = k').
End Ed25519.
