(** Persistent-effect refinement of the bookkeeping model: every operation of Ledger.v as the
    ordered list of its atomic persistent effects — one LMDB batch commit each (ECommit), or a
    stored-transaction file write (EFile) — with the wallet state after each effect. A crash
    between two effects leaves exactly one of these prefix states on disk (LMDB commits are
    atomic; a file write may additionally be partial, which only affects [w_files]).
    No proofs here. The C06 harness records the real effect sequence through the backend hook
    and compares kinds and per-commit snapshots with [op_effects]. *)
From GW Require Export Ledger.

Inductive eff := ECommit | EFile.
Definition eff_code (e : eff) : Z := match e with ECommit => 0 | EFile => 1 end%Z.

(** alloc_change as individual next_child commits *)
Fixpoint alloc_steps (w : wallet) (n : nat) : list (eff * wallet) * wallet :=
  match n with
  | O => ([], w)
  | S n' => let '(w1, _) := next_child w in
            let '(l, w2) := alloc_steps w1 n' in
            ((ECommit, w1) :: l, w2)
  end.

Definition op_effects (w : wallet) (o : op) : list (eff * wallet) :=
  match o with
  | OpReceive s a t d c =>
    match receive w s a t d c with
    | (w', Ok _) =>
      let '(w1, _) := next_child w in
      (* key-index bump; then — once the slate's signature data is accepted — output + log entry *)
      [(ECommit, w1); (ECommit, w')]
    | (w', Err ECrypto) => [(ECommit, w')]          (* the key-index bump only *)
    | _ => []
    end
  | OpLock s t tip h =>
    match lock_tx w s t tip h with
    | (w', Ok _) => [(ECommit, with_files w' (w_files w)); (EFile, w')]
    | _ => []
    end
  | OpCancel i s =>
    match cancel w i s with
    | (w', Ok _) => [(ECommit, w')]
    | _ => []
    end
  | OpCoinbase f h k =>
    match coinbase w f h k with
    | (w', Ok _) =>
      if lookup (w_child w') (w_active w) =? lookup (w_child w) (w_active w)
      then [(ECommit, w')]                                         (* candidate replaced *)
      else [(ECommit, fst (next_child w)); (ECommit, w')]
    | _ => []
    end
  | OpRefresh p a t pr km =>
    (* apply_api_outputs commits once (nothing if the node is behind), clean-up always commits *)
    let w1 := refresh_apply w p a t pr km in
    (if t <? lookup (w_confh w) p then [] else [(ECommit, w1)])
    ++ (if t <? 50 then [] else [(ECommit, refresh w p a t pr km)])
  | OpInitSend s src p late =>
    match init_send w s src p late with
    | (w', Ok _) =>
      let n := N.to_nat (lookup (w_child w') (w_active w) - lookup (w_child w) (w_active w)) in
      fst (alloc_steps w n) ++ [(ECommit, w')]
    | (w', _) =>
      (* a failure after the change keys were drawn cannot happen in init_send *)
      []
    end
  | OpFinalize s t tip so co =>
    match get_ctx w s with
    | Some c =>
      match c_late c, finalize w s t tip so co with
      | None, (w', Ok _) =>
        (* stored transaction, log entry update, context removal *)
        [(EFile, with_ctxs (with_log w (w_log w)) (w_ctxs w));
         (ECommit, with_ctxs w' (w_ctxs w)); (ECommit, w')]
      | _, _ => []
      end
    | None => []
    end
  | OpIssueInvoice s a tip d =>
    match issue_invoice w s a tip d with
    | (w', Ok _) =>
      let '(w1, _) := next_child w in
      [(ECommit, w1); (ECommit, with_ctxs w' (w_ctxs w)); (ECommit, w')]
    | _ => []
    end
  | OpFinalizeInvoice s t c =>
    match step w (OpFinalizeInvoice s t c) with
    | (w', [0%Z]) => [(EFile, w); (ECommit, with_ctxs w' (w_ctxs w)); (ECommit, w')]
    | _ => []
    end
  | _ => []
  end.

(** kinds and per-effect projections, for the correspondence run *)
Definition effects_trace (w : wallet) (o : op) : list (list (list (list Z))) :=
  map (fun ew => [[eff_code (fst ew)]] :: project (snd ew)) (op_effects w o).

(** the effects of a sequence of operations run one after the other (an API call such as
    init_send_tx = refresh; select and save) *)
Fixpoint effects_seq (w : wallet) (os : list op) : list (list (list (list Z))) :=
  match os with
  | [] => []
  | o :: r => effects_trace w o ++ effects_seq (fst (step w o)) r
  end.

(** run a prefix history, then expand the operations of the enumerated API call *)
Definition effects_after (c : list op * list op) : list (list (list (list Z))) :=
  effects_seq (run empty_wallet (fst c)) (snd c).
