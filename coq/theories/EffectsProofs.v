(** Proofs about the persistent-effect refinement (Effects.v): the effect list of an operation
    ends in the operation's result; a reservation is one single database commit; at every
    crash point every recorded key lies below its account's counter. *)
From GW Require Import Effects LedgerProofs.
From Coq Require Import ZifyBool ZifyN ZifyNat.

Definition last_state (l : list (eff * wallet)) (w : wallet) : wallet := snd (last l (ECommit, w)).

Lemma last_app_single {A} (l : list A) (x d : A) : last (l ++ [x]) d = x.
Proof. apply last_last. Qed.

(** reservation (owner::tx_lock_outputs): all-or-nothing. Either nothing is written, or ONE
    batch commit writes the locked inputs, the change outputs and the log entry together, and
    the only later effect is the stored-transaction file. *)
Theorem lock_is_one_commit w s t tip h :
  op_effects w (OpLock s t tip h) = []
  \/ exists w', lock_tx w s t tip h = (w', Ok tt)
       /\ op_effects w (OpLock s t tip h) = [(ECommit, with_files w' (w_files w)); (EFile, w')]
       /\ w_outs (with_files w' (w_files w)) = w_outs w' /\ w_log (with_files w' (w_files w)) = w_log w'
       /\ w_ctxs (with_files w' (w_files w)) = w_ctxs w'.
Proof.
  cbn [op_effects]. destruct (lock_tx w s t tip h) as [w' [[]|e|q]]; [right|left; reflexivity|left; reflexivity].
  exists w'. repeat split.
Qed.

(** cancel: one commit. *)
Theorem cancel_is_one_commit w i s :
  op_effects w (OpCancel i s) = [] \/ exists w', cancel w i s = (w', Ok tt) /\ op_effects w (OpCancel i s) = [(ECommit, w')].
Proof.
  cbn [op_effects]. destruct (cancel w i s) as [w' [[]|e|q]]; [right; eauto|left; reflexivity|left; reflexivity].
Qed.

(** the effect list ends in the operation's result (for the operations it expands) *)
Theorem effects_end_in_result w o :
  op_effects w o <> [] ->
  match o with
  | OpRefresh _ _ _ _ _ | OpReceive _ _ _ _ _ | OpLock _ _ _ _ | OpCancel _ _ | OpCoinbase _ _ _
  | OpInitSend _ _ _ _ | OpIssueInvoice _ _ _ _ | OpFinalizeInvoice _ _ _ | OpFinalize _ _ _ _ _ =>
    last_state (op_effects w o) w = fst (step w o)
  | _ => True
  end.
Proof.
  destruct o; cbn [op_effects step]; intros Hne; try exact I.
  - (* receive *)
    destruct (receive w slate amount ttl dest crypto_ok) as [w' r] eqn:E.
    destruct r as [[]|e|q]; try (exfalso; apply Hne; destruct e; reflexivity); try (exfalso; now apply Hne).
    + destruct (next_child w) as [w1 k]. destruct crypto_ok; reflexivity.
    + destruct e; try (exfalso; now apply Hne). destruct (next_child w) as [w1 k]. destruct crypto_ok; reflexivity.
  - destruct (lock_tx w slate ttl tip has_tx) as [w' [[]|e|q]]; try (exfalso; now apply Hne). reflexivity.
  - destruct (cancel w id slate) as [w' [[]|e|q]]; try (exfalso; now apply Hne). reflexivity.
  - destruct (coinbase w fees height key) as [w' [k|e|q]]; try (exfalso; now apply Hne).
    destruct (_ =? _); reflexivity.
  - (* refresh *)
    unfold last_state. destruct (tip <? lookup (w_confh w) parent) eqn:E1; destruct (tip <? 50) eqn:E2; cbn [app].
    + exfalso. now apply Hne.
    + reflexivity.
    + cbn [last snd fst]. unfold refresh, clean_old_unconfirmed. now rewrite E2.
    + reflexivity.
  - destruct (init_send w slate src p late) as [w' [[a f]|e|q]]; try (exfalso; now apply Hne).
    unfold last_state. now rewrite last_app_single.
  - destruct (get_ctx w slate) as [c|]; [|exfalso; now apply Hne].
    destruct (c_late c); [exfalso; now apply Hne|].
    destruct (finalize w slate ttl tip state_ok crypto_ok) as [w' [[]|e|q]]; try (exfalso; now apply Hne). reflexivity.
  - destruct (issue_invoice w slate amount tip dest) as [w' [[]|e|q]]; try (exfalso; now apply Hne).
    destruct (next_child w) as [w1 k]. reflexivity.
  - destruct (match get_ctx w slate with Some _ => _ | None => _ end) as [w' rc] eqn:E.
    destruct rc as [|z [|z2 r]]; try (exfalso; now apply Hne).
    + destruct z; try (exfalso; now apply Hne). reflexivity.
    + destruct z; exfalso; now apply Hne.
Qed.

(* ------------------------------------------------------------------ keys at every crash point *)

Lemma next_child_state_fresh w : Fresh w -> Fresh (fst (next_child w)).
Proof.
  intros Hf. destruct (next_child w) as [w1 k] eqn:En. cbn [fst].
  assert (Hle : child_le w w1) by (intros x; eapply child_mono_next; eauto).
  apply next_child_spec in En as (_ & _ & _ & Ho & _ & Hc & _).
  eapply fresh_child_le; eauto.
Qed.

Lemma alloc_steps_fresh : forall n w, Fresh w ->
  Forall (fun ew => Fresh (snd ew)) (fst (alloc_steps w n)).
Proof.
  induction n as [|n IH]; intros w Hf; cbn [alloc_steps]; [constructor|].
  pose proof (next_child_state_fresh w Hf) as H1.
  destruct (next_child w) as [w1 k]. cbn [fst] in H1.
  specialize (IH w1 H1). destruct (alloc_steps w1 n) as [l w2]. cbn [fst] in *.
  constructor; [exact H1|exact IH].
Qed.

(** C06/C15 (crash half): for the operations that hand out derivation paths — receive,
    build_coinbase, init_send, issue_invoice — at EVERY crash point (every prefix of the effect
    list) every key recorded in the output table or promised in a context lies below its
    account's next-child counter: the index bump is committed before the path is used, so a
    crash can never make the wallet hand the same path out again. *)
Ltac solve_forall := repeat first [apply Forall_nil | apply Forall_cons; [cbn [snd]; assumption|]].

Theorem keys_fresh_at_every_crash_point w o :
  Fresh w ->
  match o with
  | OpReceive _ _ _ _ _ | OpCoinbase _ _ _ | OpInitSend _ _ _ _ | OpIssueInvoice _ _ _ _
  | OpLock _ _ _ _ | OpCancel _ _ =>
    Forall (fun ew => Fresh (snd ew)) (op_effects w o)
  | _ => True
  end.
Proof.
  intros Hf. destruct o; try exact I; cbn [op_effects].
  - pose proof (receive_fresh w slate amount ttl dest crypto_ok Hf) as [Hr _].
    destruct (receive w slate amount ttl dest crypto_ok) as [w' r]. cbn [fst] in Hr.
    pose proof (next_child_state_fresh w Hf) as H1.
    destruct r as [[]|e|q]; try apply Forall_nil.
    + destruct (next_child w) as [w1 k]. cbn [fst] in H1.
      destruct crypto_ok; cbn [app]; solve_forall.
    + destruct e; try apply Forall_nil. destruct (next_child w) as [w1 k]. cbn [fst] in H1.
      destruct crypto_ok; cbn [app]; solve_forall.
  - destruct (lock_tx_cases w slate ttl tip has_tx) as [E|E]; rewrite E; [|apply Forall_nil].
    pose proof (lock_fresh w slate ttl tip Hf) as [Hl _].
    destruct (lock w slate ttl tip) as [w' [[]|e|q]]; try apply Forall_nil. cbn [fst] in Hl.
    assert (Hl2 : Fresh (with_files w' (w_files w))) by (destruct Hl as [A B]; split; [exact A|exact B]).
    solve_forall.
  - pose proof (cancel_fresh w id slate Hf) as [Hc _].
    destruct (cancel w id slate) as [w' [[]|e|q]]; try apply Forall_nil. cbn [fst] in Hc. solve_forall.
  - pose proof (coinbase_fresh w fees height key Hf) as [Hc _].
    destruct (coinbase w fees height key) as [w' [k|e|q]]; try apply Forall_nil. cbn [fst] in Hc.
    pose proof (next_child_state_fresh w Hf) as H1.
    destruct (_ =? _); solve_forall.
  - pose proof (init_send_fresh w slate src p late Hf) as [Hi _].
    destruct (init_send w slate src p late) as [w' [[a f]|e|q]]; try apply Forall_nil. cbn [fst] in Hi.
    apply Forall_app. split; [apply alloc_steps_fresh; exact Hf|solve_forall].
  - pose proof (issue_invoice_fresh w slate amount tip dest Hf) as [Hi Hle].
    destruct (issue_invoice w slate amount tip dest) as [w' [[]|e|q]]; try apply Forall_nil. cbn [fst] in Hi, Hle.
    pose proof (next_child_state_fresh w Hf) as H1. destruct (next_child w) as [w1 k]. cbn [fst] in H1.
    assert (Hmid : Fresh (with_ctxs w' (w_ctxs w))).
    { destruct Hi as [A B]. destruct Hf as [_ Hfc]. split; [exact A|].
      intros c0 k0 m v Hin1 Hin2. cbn [w_ctxs with_ctxs] in Hin1.
      unfold key_below. cbn [w_child with_ctxs]. eapply N.lt_le_trans; [eapply Hfc; eauto|apply Hle]. }
    solve_forall.
Qed.
