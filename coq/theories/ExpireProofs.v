(** C17, the positive half at the level of a whole expiry step: whatever else is pending in the
    account, the TTL step of a refresh cancels EVERY outstanding entry of the active account
    whose cutoff the observed tip has reached, releases the outputs reserved for it, and leaves
    every other log entry exactly as it was. (The real step-5 loop aborted at the first entry
    that an earlier step of the same update had already settled, leaving later expired entries
    uncancelled: found by the directed expiry episode of the ledger harness, [fix:] in /repo.) *)
From GW Require Import Ledger LedgerProofs HeldProofs.
From Coq Require Import Sorted ZifyBool ZifyN ZifyNat.

Definition due (tip : N) (t : trec) : bool :=
  match t_ttl t with Some e => e <=? tip | None => false end.
Definition cancelled (t : trec) : trec := set_ttype t (cancelled_type (t_type t)).
Definition listed (l : list trec) (p i : N) : bool := existsb (fun t => tkey_eqb t p i) l.
(** what the expiry step over the list [l] makes of a log entry *)
Definition after (tip : N) (l : list trec) (t0 : trec) : trec :=
  if listed l (t_parent t0) (t_id t0) && due tip t0 then cancelled t0 else t0.

Definition tkey (t : trec) : N * N := (t_parent t, t_id t).

Lemma cancelled_key t : t_parent (cancelled t) = t_parent t /\ t_id (cancelled t) = t_id t.
Proof. apply set_ttype_key. Qed.
Lemma cancelled_ttl t : t_ttl (cancelled t) = t_ttl t.
Proof. destruct t; reflexivity. Qed.
Lemma due_cancelled tip t : due tip (cancelled t) = due tip t.
Proof. unfold due. now rewrite cancelled_ttl. Qed.

Lemma sorted_same_key l a b :
  StronglySorted tlt l -> In a l -> In b l -> t_parent a = t_parent b -> t_id a = t_id b -> a = b.
Proof.
  intros Hs Ha Hb Hp Hi.
  pose proof (sorted_get_tx l a Hs Ha) as Ga. pose proof (sorted_get_tx l b Hs Hb) as Gb.
  rewrite Hp, Hi in Ga. congruence.
Qed.

Lemma listed_in l p i : listed l p i = true <-> exists t, In t l /\ t_parent t = p /\ t_id t = i.
Proof.
  unfold listed. rewrite existsb_exists. split; intros (t & A & B); exists t; split; auto; now apply tkey_eqb_iff.
Qed.

Lemma listed_not l p i :
  ~ In (p, i) (map tkey l) -> listed l p i = false.
Proof.
  intros H. destruct (listed l p i) eqn:E; [|reflexivity]. exfalso. apply H.
  apply listed_in in E as (t & A & B & C). apply in_map_iff. exists t. split; [|exact A].
  unfold tkey. congruence.
Qed.

(** one iteration on an entry that is in the log, outstanding, of the active account *)
Lemma expire_one_spec tip w t :
  LogSorted w -> In t (w_log w) -> t_parent t = w_active w -> outstanding t = true ->
  w_active (expire_one tip w t) = w_active w
  /\ w_log (expire_one tip w t) = (if due tip t then save_tx (w_log w) (cancelled t) else w_log w)
  /\ w_outs (expire_one tip w t)
     = (if due tip t then cancel_outputs (w_outs w) (w_active w) (t_id t) else w_outs w).
Proof.
  intros Hs Hin Hp Ho. unfold expire_one, due.
  destruct (t_ttl t) as [e|]; [|auto]. destruct (e <=? tip); [|auto].
  pose proof (retrieve_by_id_sorted w t Hs Hin) as Hr. rewrite Hp in Hr.
  unfold outstanding in Ho. apply andb_true_iff in Ho as [Hc Hty].
  assert (Hconf : t_conf t = false) by (destruct (t_conf t); [discriminate|reflexivity]).
  assert (Htype : t_type t = TSent \/ t_type t = TReceived \/ t_type t = TReverted).
  { destruct (t_type t); cbn in Hty; try discriminate; auto. }
  rewrite (cancel_of_unique w (Some (t_id t)) None t Hr Htype Hconf). cbn. auto.
Qed.

(** the log after the expiry fold, entry by entry *)
Lemma expire_fold_log tip : forall l w,
  WF w -> LogSorted w -> NoDup (map tkey l) ->
  (forall t, In t l -> In t (w_log w) /\ t_parent t = w_active w /\ outstanding t = true) ->
  let w' := fold_left (expire_one tip) l w in
  WF w' /\ LogSorted w' /\ w_active w' = w_active w
  /\ forall p i, get_tx (w_log w') p i = option_map (after tip l) (get_tx (w_log w) p i).
Proof.
  induction l as [|t r IH]; intros w Hwf Hs Hnd Hall; cbn [fold_left].
  - repeat split; try assumption. intros p i. destruct (get_tx (w_log w) p i); reflexivity.
  - inversion Hnd as [|? ? Hnot Hnd']; subst.
    destruct (Hall t (or_introl eq_refl)) as (Hin & Hp & Ho).
    destruct (expire_one_spec tip w t Hs Hin Hp Ho) as (A1 & A2 & _).
    set (w1 := expire_one tip w t) in *.
    assert (Hwf1 : WF w1).
    { unfold w1, expire_one. destruct (t_ttl t); [|exact Hwf]. destruct (_ <=? _); [|exact Hwf].
      pose proof (step_wf w (OpCancel (Some (t_id t)) None) Hwf) as Hw. cbn [step] in Hw.
      destruct (cancel w (Some (t_id t)) None); exact Hw. }
    assert (Hs1 : LogSorted w1).
    { unfold LogSorted. rewrite A2. destruct (due tip t); [apply sorted_save_tx|]; exact Hs. }
    (* the log after this one iteration *)
    assert (H1 : forall p i, get_tx (w_log w1) p i = option_map (after tip [t]) (get_tx (w_log w) p i)).
    { intros p i. rewrite A2. destruct (due tip t) eqn:Ed.
      - rewrite get_save_tx. destruct (cancelled_key t) as [K1 K2].
        destruct (tkey_eqb (cancelled t) p i) eqn:E.
        + apply tkey_eqb_iff in E as [E1 E2]. rewrite K1 in E1. rewrite K2 in E2. subst p i.
          rewrite (sorted_get_tx _ t Hs Hin). cbn [option_map]. unfold after, listed. cbn [existsb].
          assert (tkey_eqb t (t_parent t) (t_id t) = true) by (apply tkey_eqb_iff; auto).
          rewrite H, Ed. reflexivity.
        + destruct (get_tx (w_log w) p i) as [t0|] eqn:G; [|reflexivity]. cbn [option_map].
          apply get_tx_in in G as (_ & G1 & G2). unfold after, listed. cbn [existsb].
          assert (tkey_eqb t (t_parent t0) (t_id t0) = false).
          { apply tkey_eqb_false. intros [B1 B2]. apply tkey_eqb_false in E. apply E.
            rewrite K1, K2. split; congruence. }
          rewrite H. reflexivity.
      - destruct (get_tx (w_log w) p i) as [t0|] eqn:G; [|reflexivity]. cbn [option_map].
        pose proof (get_tx_in _ _ _ _ G) as (G0 & G1 & G2). unfold after, listed. cbn [existsb].
        destruct (tkey_eqb t (t_parent t0) (t_id t0)) eqn:E; [|reflexivity].
        apply tkey_eqb_iff in E as [E1 E2].
        assert (t = t0) by (apply (sorted_same_key (w_log w)); assumption). subst t0.
        rewrite Ed. reflexivity. }
    (* the remaining entries are still there, untouched *)
    assert (Hall1 : forall t', In t' r -> In t' (w_log w1) /\ t_parent t' = w_active w1 /\ outstanding t' = true).
    { intros t' Hin'. destruct (Hall t' (or_intror Hin')) as (B1 & B2 & B3).
      split; [|split; [congruence|exact B3]].
      pose proof (H1 (t_parent t') (t_id t')) as G. rewrite (sorted_get_tx _ t' Hs B1) in G.
      cbn [option_map] in G. unfold after, listed in G. cbn [existsb] in G.
      assert (tkey_eqb t (t_parent t') (t_id t') = false).
      { apply tkey_eqb_false. intros [C1 C2]. apply Hnot. apply in_map_iff. exists t'.
        split; [unfold tkey; congruence|exact Hin']. }
      rewrite H in G. cbn in G. apply get_tx_in in G as [G _]. exact G. }
    destruct (IH w1 Hwf1 Hs1 Hnd' Hall1) as (C1 & C2 & C3 & C4).
    split; [exact C1|]. split; [exact C2|]. split; [congruence|].
    intros p i. rewrite C4, H1. destruct (get_tx (w_log w) p i) as [t0|] eqn:G; [|reflexivity].
    cbn [option_map]. f_equal.
    pose proof (get_tx_in _ _ _ _ G) as (G0 & G1 & G2).
    unfold after at 2 3. unfold listed. cbn [existsb]. fold (listed r (t_parent t0) (t_id t0)).
    destruct (tkey_eqb t (t_parent t0) (t_id t0)) eqn:E.
    + apply tkey_eqb_iff in E as [E1 E2].
      assert (Hl : listed r (t_parent t0) (t_id t0) = false).
      { apply listed_not. rewrite <- E1, <- E2. exact Hnot. }
      cbn [orb andb]. destruct (due tip t0) eqn:Ed.
      * unfold after. destruct (cancelled_key t0) as [K1 K2]. rewrite K1, K2, Hl. reflexivity.
      * unfold after. rewrite Hl. reflexivity.
    + cbn [orb andb]. reflexivity.
Qed.

Lemma sorted_nodup_keys l : StronglySorted tlt l -> NoDup (map tkey l).
Proof.
  induction 1 as [|a l Hs IH Hall]; cbn [map]; constructor; [|exact IH].
  intros Hin. apply in_map_iff in Hin as (b & Hk & Hb). rewrite Forall_forall in Hall.
  specialize (Hall b Hb). unfold tkey in Hk. inversion Hk. unfold tlt in Hall. lia.
Qed.

Lemma nodup_map_filter {A B} (f : A -> B) (g : A -> bool) l :
  NoDup (map f l) -> NoDup (map f (filter g l)).
Proof.
  induction l as [|a r IH]; cbn [map filter]; intros H; [constructor|].
  inversion H as [|? ? Hn Hr]; subst. destruct (g a); [|now apply IH].
  cbn [map]. constructor; [|now apply IH]. intros Hin. apply Hn.
  apply in_map_iff in Hin as (b & Hb & Hin). apply filter_In in Hin as [Hin _].
  apply in_map_iff. exists b. auto.
Qed.

Definition expiry_list (w : wallet) : list trec :=
  filter (fun t => (t_parent t =? w_active w) && expirable t) (w_log w).

Lemma expire_log w tip :
  WF w -> LogSorted w ->
  WF (expire w tip) /\ LogSorted (expire w tip) /\ w_active (expire w tip) = w_active w
  /\ forall p i, get_tx (w_log (expire w tip)) p i
                 = option_map (after tip (expiry_list w)) (get_tx (w_log w) p i).
Proof.
  intros Hwf Hs. unfold expire. fold (expiry_list w). apply expire_fold_log; try assumption.
  - unfold expiry_list. apply nodup_map_filter. now apply sorted_nodup_keys.
  - intros t Hin. unfold expiry_list in Hin. apply filter_In in Hin as [H1 H2].
    apply andb_true_iff in H2 as [H2 H3]. split; [exact H1|]. split; [lia|].
    unfold expirable in H3. apply andb_true_iff in H3 as [H3 _]. exact H3.
Qed.

(** every outstanding entry of the active account whose cutoff has been reached is cancelled,
    however many other transactions are pending *)
Theorem expire_cancels_every_due_entry w tip t :
  WF w -> LogSorted w -> In t (w_log w) -> t_parent t = w_active w -> expirable t = true ->
  due tip t = true ->
  get_tx (w_log (expire w tip)) (t_parent t) (t_id t) = Some (cancelled t).
Proof.
  intros Hwf Hs Hin Hp Ho Hd. destruct (expire_log w tip Hwf Hs) as (_ & _ & _ & H).
  rewrite H, (sorted_get_tx _ t Hs Hin). cbn [option_map]. unfold after.
  assert (Hl : listed (expiry_list w) (t_parent t) (t_id t) = true).
  { apply listed_in. exists t. split; [|auto]. unfold expiry_list. apply filter_In. split; [exact Hin|].
    rewrite Ho. apply andb_true_iff. split; [lia|reflexivity]. }
  now rewrite Hl, Hd.
Qed.

(** ... and no other entry is touched: not one of another account, not one that is not
    outstanding, not one without a cutoff or whose cutoff lies ahead *)
Theorem expire_touches_nothing_else w tip t :
  WF w -> LogSorted w -> In t (w_log w) ->
  (t_parent t <> w_active w \/ expirable t = false \/ due tip t = false) ->
  get_tx (w_log (expire w tip)) (t_parent t) (t_id t) = Some t.
Proof.
  intros Hwf Hs Hin Hwhy. destruct (expire_log w tip Hwf Hs) as (_ & _ & _ & H).
  rewrite H, (sorted_get_tx _ t Hs Hin). cbn [option_map]. unfold after.
  destruct (due tip t) eqn:Ed; [|now rewrite andb_false_r].
  assert (Hl : listed (expiry_list w) (t_parent t) (t_id t) = false).
  { destruct (listed (expiry_list w) (t_parent t) (t_id t)) eqn:E; [|reflexivity]. exfalso.
    apply listed_in in E as (t' & A & B & C). unfold expiry_list in A. apply filter_In in A as [A1 A2].
    assert (t' = t) by (apply (sorted_same_key (w_log w)); assumption). subst t'.
    apply andb_true_iff in A2 as [A2 A3]. destruct Hwhy as [W|[W|W]]; [lia|congruence|congruence]. }
  now rewrite Hl.
Qed.

(* ------------------------------------------------------------------ the reserved outputs *)
Lemma cancel_fold_in parent id : forall l acc o,
  In o (fold_left (cancel_one parent id) l acc) -> In o acc \/ r_status o = Unspent.
Proof.
  induction l as [|x r IH]; intros acc o Hin; cbn [fold_left] in Hin; [now left|].
  destruct (IH _ _ Hin) as [H|H]; [|now right]. unfold cancel_one in H.
  destruct (cancel_cond parent id x); [|now left].
  destruct (r_status x); try (now left).
  - left. now apply in_del_out in H.
  - apply in_save_out in H as [->|H]; [right; destruct x; reflexivity|now left].
  - left. now apply in_del_out in H.
Qed.

(** a cancel never turns anything Locked *)
Lemma cancel_outputs_no_new_locked outs parent id o :
  In o (cancel_outputs outs parent id) -> r_status o = Locked -> In o outs.
Proof.
  intros Hin Hl. unfold cancel_outputs in Hin. destruct (cancel_fold_in _ _ _ _ _ Hin) as [H|H]; [exact H|congruence].
Qed.

(** ... and releases everything reserved for the cancelled entry *)
Lemma cancel_outputs_releases outs parent id o :
  NoDup (map okey outs) -> NoDup (map okey (cancel_outputs outs parent id)) ->
  In o (cancel_outputs outs parent id) -> r_root o = parent -> r_tx o = Some id -> r_status o <> Locked.
Proof.
  intros Hn Hn' Hin Hr Ht Hl.
  pose proof (get_out_of_in _ _ Hn' Hin) as G. rewrite cancel_outputs_get in G by exact Hn.
  destruct (get_out outs (r_key o) (r_mmr o)) as [o0|]; [|discriminate].
  unfold cancelled_rec in G. destruct (cancel_cond parent id o0) eqn:Ec.
  - destruct (r_status o0) eqn:Es; inversion G; subst o; try congruence.
    destruct o0; cbn in *. discriminate.
  - inversion G; subst o0. unfold cancel_cond in Ec. rewrite Hr, Ht, Hl, N.eqb_refl in Ec.
    cbn [optN_eqb status_eqb negb andb] in Ec. rewrite N.eqb_refl in Ec. discriminate.
Qed.

Lemma expire_fold_outs tip a id : forall l w,
  WF w -> LogSorted w -> NoDup (map tkey l) ->
  (forall t, In t l -> In t (w_log w) /\ t_parent t = w_active w /\ outstanding t = true) ->
  w_active w = a ->
  ((forall o, In o (w_outs w) -> r_root o = a -> r_tx o = Some id -> r_status o <> Locked)
   \/ exists t, In t l /\ t_id t = id /\ due tip t = true) ->
  forall o, In o (w_outs (fold_left (expire_one tip) l w)) -> r_root o = a -> r_tx o = Some id ->
            r_status o <> Locked.
Proof.
  induction l as [|t r IH]; intros w Hwf Hs Hnd Hall Ha Hcase; cbn [fold_left].
  - destruct Hcase as [H|(t & [] & _)]. exact H.
  - subst a. inversion Hnd as [|? ? Hnot Hnd']; subst.
    destruct (Hall t (or_introl eq_refl)) as (Hin & Hp & Ho).
    destruct (expire_one_spec tip w t Hs Hin Hp Ho) as (A1 & A2 & A3).
    (* everything the induction hypothesis needs about the state after this iteration *)
    pose proof (expire_fold_log tip [t] w Hwf Hs) as Hone. cbn [fold_left map] in Hone.
    assert (Hnd1 : NoDup [tkey t]) by (constructor; [intros []|constructor]).
    assert (Hall0 : forall t', In t' [t] -> In t' (w_log w) /\ t_parent t' = w_active w /\ outstanding t' = true).
    { intros t' [<-|[]]. auto. }
    destruct (Hone Hnd1 Hall0) as (Hwf1 & Hs1 & Hact1 & Hlog1).
    set (w1 := expire_one tip w t) in *.
    assert (Hall1 : forall t', In t' r -> In t' (w_log w1) /\ t_parent t' = w_active w1 /\ outstanding t' = true).
    { intros t' Hin'. destruct (Hall t' (or_intror Hin')) as (B1 & B2 & B3).
      split; [|split; [congruence|exact B3]].
      pose proof (Hlog1 (t_parent t') (t_id t')) as G. rewrite (sorted_get_tx _ t' Hs B1) in G.
      cbn [option_map] in G. unfold after, listed in G. cbn [existsb] in G.
      assert (tkey_eqb t (t_parent t') (t_id t') = false).
      { apply tkey_eqb_false. intros [C1 C2]. apply Hnot. apply in_map_iff. exists t'.
        split; [unfold tkey; congruence|exact Hin']. }
      rewrite H in G. cbn in G. apply get_tx_in in G as [G _]. exact G. }
    apply (IH w1 Hwf1 Hs1 Hnd' Hall1); [exact Hact1|].
    (* either the entry is still to come, or its outputs are released by now *)
    destruct Hcase as [Hrel|(t' & [<-|Hin'] & Hid & Hd)].
    + left. intros o Hin0 Hr Ht Hl. rewrite A3 in Hin0. destruct (due tip t).
      * apply (Hrel o); auto. now apply (cancel_outputs_no_new_locked _ _ _ _ Hin0).
      * now apply (Hrel o).
    + left. intros o Hin0 Hr Ht. rewrite A3, Hd in Hin0. rewrite Hid in Hin0.
      apply (cancel_outputs_releases (w_outs w) (w_active w) id); auto.
      unfold WF in Hwf1. rewrite A3, Hd, Hid in Hwf1. exact Hwf1.
    + right. exists t'. auto.
Qed.

(** no output of the account stays reserved for an entry the expiry step has cancelled *)
Theorem expire_releases_reserved_outputs w tip t :
  WF w -> LogSorted w -> In t (w_log w) -> t_parent t = w_active w -> expirable t = true ->
  due tip t = true ->
  forall o, In o (w_outs (expire w tip)) -> r_root o = w_active w -> r_tx o = Some (t_id t) ->
            r_status o <> Locked.
Proof.
  intros Hwf Hs Hin Hp Ho Hd. unfold expire. fold (expiry_list w).
  apply (expire_fold_outs tip (w_active w) (t_id t)); try assumption; try reflexivity.
  - unfold expiry_list. apply nodup_map_filter. now apply sorted_nodup_keys.
  - intros t' Hin'. unfold expiry_list in Hin'. apply filter_In in Hin' as [H1 H2].
    apply andb_true_iff in H2 as [H2 H3]. split; [exact H1|]. split; [lia|].
    unfold expirable in H3. apply andb_true_iff in H3 as [H3 _]. exact H3.
  - right. exists t. split; [|auto]. unfold expiry_list. apply filter_In. split; [exact Hin|].
    rewrite Ho. apply andb_true_iff. split; [lia|reflexivity].
Qed.

(* ------------------------------------------------------------------ in every reachable state *)
Theorem expire_complete_reachable : forall ops tip t,
  forallb std_op ops = true ->
  let w := run empty_wallet ops in
  In t (w_log w) -> t_parent t = w_active w -> expirable t = true -> due tip t = true ->
  get_tx (w_log (expire w tip)) (t_parent t) (t_id t) = Some (cancelled t)
  /\ forall o, In o (w_outs (expire w tip)) -> r_root o = w_active w -> r_tx o = Some (t_id t) ->
               r_status o <> Locked.
Proof.
  intros ops tip t Hops w Hin Hp Ho Hd.
  destruct (inv_reachable ops Hops) as (_ & Hwf & Hc). fold w in Hwf, Hc.
  split.
  - apply expire_cancels_every_due_entry; try assumption. apply (core_sorted _ Hc).
  - apply expire_releases_reserved_outputs; try assumption. apply (core_sorted _ Hc).
Qed.

Theorem expire_exact_reachable : forall ops tip t,
  forallb std_op ops = true ->
  let w := run empty_wallet ops in
  In t (w_log w) ->
  (t_parent t <> w_active w \/ expirable t = false \/ due tip t = false) ->
  get_tx (w_log (expire w tip)) (t_parent t) (t_id t) = Some t.
Proof.
  intros ops tip t Hops w Hin Hwhy.
  destruct (inv_reachable ops Hops) as (_ & Hwf & Hc). fold w in Hwf, Hc.
  apply expire_touches_nothing_else; try assumption. apply (core_sorted _ Hc).
Qed.

(** C18: the expiry step leaves a reverted payment alone, whatever its cutoff *)
Theorem expire_keeps_reverted : forall ops tip t,
  forallb std_op ops = true ->
  let w := run empty_wallet ops in
  In t (w_log w) -> t_type t = TReverted ->
  get_tx (w_log (expire w tip)) (t_parent t) (t_id t) = Some t.
Proof.
  intros ops tip t Hops w Hin Hty. apply expire_exact_reachable; [exact Hops|exact Hin|].
  right. left. unfold expirable. rewrite Hty. cbn. now rewrite andb_false_r.
Qed.
