(** C07 at history level: any sequence of foreign-API requests that contains no validly
    counter-signed reply leaves every existing output record as it is (apart from a coinbase
    candidate its caller names), consumes no context, and never lowers the spendable figure. *)
From GW Require Import Ledger LedgerProofs HeldProofs.
From Coq Require Import ZifyBool ZifyN ZifyNat.

(** what the foreign listener can be asked: receive_tx, build_coinbase, and finalize_tx /
    the invoice finalisation with a reply whose signature data does not verify *)
Definition foreign_op (o : op) : bool :=
  match o with
  | OpReceive _ _ _ _ _ => true
  | OpCoinbase _ _ _ => true
  | OpFinalize _ _ _ _ crypto_ok => negb crypto_ok
  | OpFinalizeInvoice _ _ crypto_ok => negb crypto_ok
  | _ => false
  end.

(** no pending transaction is late-locked (the known finding C07-late-lock is about those) *)
Definition NoLate (w : wallet) : Prop := forall c, In c (w_ctxs w) -> c_late c = None.

Definition candb (o : orec) : bool := r_cb o && status_eqb (r_status o) Unconfirmed.

Lemma foreign_step w o :
  Fresh w -> NoLate w -> foreign_op o = true ->
  (forall k m r, get_out (w_outs w) k m = Some r -> candb r = false ->
     get_out (w_outs (fst (step w o))) k m = Some r)
  /\ w_ctxs (fst (step w o)) = w_ctxs w
  /\ w_confh (fst (step w o)) = w_confh w /\ w_active (fst (step w o)) = w_active w.
Proof.
  intros Hf Hnl Hfo. destruct o; cbn [foreign_op] in Hfo; try discriminate; cbn [step].
  - (* receive *)
    destruct (receive w slate amount ttl dest crypto_ok) as [w' r] eqn:E. cbn [fst].
    destruct (receive_only_adds _ _ _ _ _ _ _ _ Hf E) as (A & B & _).
    split; [intros k m r0 Hg _; apply A; exact Hg|]. split; [exact B|].
    unfold receive in E. destruct (check_ttl w ttl) as [[]|e|q]; try (inversion E; subst; auto).
    destruct (existsb _ _); [inversion E; subst; auto|].
    destruct (next_child w) as [w1 key] eqn:En.
    apply next_child_spec in En as (_ & _ & _ & _ & _ & _ & _ & C1 & C2).
    destruct crypto_ok; cbn [negb] in E; [|inversion E; subst; auto].
    match type of E with context [next_log_id w1 ?p] => destruct (next_log_id w1 p) as [w2 id] eqn:El end.
    inversion E; subst; clear E. cbn [w_confh w_active with_log with_outs].
    apply next_log_id_spec in El as (_ & _ & _ & _ & _ & D1 & D2). split; congruence.
  - (* build_coinbase *)
    destruct (coinbase w fees height key) as [w' r] eqn:E. cbn [fst].
    assert (Hok : exists k, r = Ok k).
    { unfold coinbase in E. destruct (match key with Some k0 => _ | None => None end);
        [|destruct (next_child w)]; inversion E; eauto. }
    destruct Hok as (k & ->).
    destruct (coinbase_only_adds _ _ _ _ _ _ Hf E) as (A & B & _).
    split.
    + intros k0 m r0 Hg Hc. destruct (A k0 m r0 Hg) as [H|(_ & _ & H1 & H2)]; [exact H|].
      unfold candb in Hc. rewrite H1, H2 in Hc. discriminate.
    + split; [exact B|]. unfold coinbase in E.
      destruct (match key with Some k0 => _ | None => None end).
      * inversion E; subst. cbn. auto.
      * destruct (next_child w) as [w1 k1] eqn:En. inversion E; subst. cbn.
        apply next_child_spec in En as (_ & _ & _ & _ & _ & _ & _ & C1 & C2). split; congruence.
  - (* finalize with a reply that does not verify *)
    assert (crypto_ok = false) by (destruct crypto_ok; [discriminate|reflexivity]). subst crypto_ok.
    destruct (get_ctx w slate) as [c|] eqn:Ec.
    + pose proof (finalize_invalid_reply_no_effect w slate ttl tip state_ok c Ec (Hnl c (get_ctx_in _ _ _ Ec))) as [H _].
      rewrite H. cbn [fst]. auto.
    + rewrite (finalize_unknown_slate _ _ _ _ _ _ Ec). cbn [fst]. auto.
  - (* invoice finalisation with a reply that does not verify *)
    assert (crypto_ok = false) by (destruct crypto_ok; [discriminate|reflexivity]). subst crypto_ok.
    destruct (get_ctx w slate); cbn [fst]; [|auto].
    destruct (check_ttl w ttl) as [[]|e|q]; cbn [fst]; auto.
Qed.

Theorem foreign_history : forall ops w,
  Fresh w -> NoLate w -> forallb foreign_op ops = true ->
  (forall k m r, get_out (w_outs w) k m = Some r -> candb r = false ->
     get_out (w_outs (run w ops)) k m = Some r)
  /\ w_ctxs (run w ops) = w_ctxs w
  /\ w_confh (run w ops) = w_confh w /\ w_active (run w ops) = w_active w.
Proof.
  induction ops as [|o r IH]; intros w Hf Hnl Hall; [cbn [run fold_left]; auto|].
  change (run w (o :: r)) with (run (fst (step w o)) r).
  cbn [forallb] in Hall. apply andb_true_iff in Hall as [H1 H2].
  destruct (foreign_step w o Hf Hnl H1) as (A & B & C & D).
  assert (Hf' : Fresh (fst (step w o))) by (apply step_fresh; exact Hf).
  assert (Hnl' : NoLate (fst (step w o))) by (unfold NoLate; rewrite B; exact Hnl).
  destruct (IH _ Hf' Hnl' H2) as (A' & B' & C' & D').
  split; [|split; [congruence|split; congruence]].
  intros k m r0 Hg Hc. apply A'; [apply A; assumption|exact Hc].
Qed.

(* ------------------------------------------------------------------ the spendable figure *)
(** the spendable bucket only ever counts Unspent records; what a foreign request adds or
    replaces is Unconfirmed *)
Lemma bucket_spendable_unspent o h mc : bucket_of o h mc = BSpendable -> r_status o = Unspent.
Proof. unfold bucket_of. destruct (r_status o); try discriminate; auto. destruct (r_cb o); [discriminate|destruct (mc =? 0); discriminate]. Qed.

(** every record counted as spendable before is still there, unchanged, afterwards: the
    spendable sum over the old table is a sum over records of the new table *)
Theorem foreign_history_keeps_spendable : forall ops w k m r,
  Fresh w -> NoLate w -> forallb foreign_op ops = true ->
  get_out (w_outs w) k m = Some r ->
  bucket_of r (lookup (w_confh w) (w_active w)) 1 = BSpendable ->
  get_out (w_outs (run w ops)) k m = Some r
  /\ bucket_of r (lookup (w_confh (run w ops)) (w_active (run w ops))) 1 = BSpendable.
Proof.
  intros ops w k m r Hf Hnl Hall Hg Hb.
  destruct (foreign_history ops w Hf Hnl Hall) as (A & _ & C & D).
  assert (Hc : candb r = false).
  { unfold candb. rewrite (bucket_spendable_unspent _ _ _ Hb). now rewrite andb_false_r. }
  split; [apply A; assumption|]. rewrite C, D. exact Hb.
Qed.

(** a receive that is refused — expired, already received, or for its signature data — writes no
    output, no log entry and no context (at most the key index has moved on) *)
Theorem refused_receive_writes_nothing w s a t d c :
  is_ok (snd (receive w s a t d c)) = false ->
  let w' := fst (receive w s a t d c) in
  w_outs w' = w_outs w /\ w_log w' = w_log w /\ w_ctxs w' = w_ctxs w.
Proof.
  unfold receive.
  destruct (check_ttl w t) as [[]|e|q]; cbn [fst snd]; try (intros _; repeat split; reflexivity).
  destruct (existsb _ _); cbn [fst snd]; [intros _; repeat split; reflexivity|].
  destruct (next_child w) as [w1 key] eqn:En.
  apply next_child_spec in En as (_ & _ & _ & Ho & Hl & Hc & _).
  destruct c; cbn [negb].
  - match goal with |- context [next_log_id w1 ?p] => destruct (next_log_id w1 p) as [w2 id] end.
    cbn [fst snd is_ok]. discriminate.
  - cbn [fst snd]. intros _. repeat split; assumption.
Qed.
