(** C13 — the owner-API V3 envelope gate (controller/src/controller.rs,
    [OwnerAPIHandlerV3::call_api]) as a state machine. Model only, no proofs.

    Reading of the code that is modelled (line numbers of controller.rs):
    - 604  [parse_body]: a body that is not JSON ends the request with an HTTP 500.
    - 605  [is_init_secure_api val]: [val["method"] == "init_secure_api"].
    - 608-621 otherwise: no session key -> error value -32001 (check_encryption_started);
           the method is not "encrypted_request_v3" (the [fix:] 3c97f05; [as_env] = None), or
           [serde_json::from_value::<EncryptedRequest>] fails -> -32002;
           [EncryptedBody::decrypt] under the CURRENT key fails (base64, nonce, AES-256-GCM
           tag, utf-8, JSON) -> -32002; otherwise [val] := the decrypted JSON value.
    - 623-626 [is_init_secure_api]/[is_open_wallet] are re-evaluated on the inner value and
           [OwnerRpc::handle_request] runs on it.
    - 627-654 a reply: [check_error_response] (result.Err -> error object); when the request
           came in an envelope the reply is sealed under the key held at that moment (the
           one that authenticated the request); if the inner value was init_secure_api and
           the reply carries result.Ok (a string) the handler's key := Owner.shared_key;
           if it was open_wallet and the foreign API runs in-process, the handler's
           keychain mask := the returned token.
    - 655-659 no reply (notifications only): the constant plaintext [[]].

    Everything that is not the gate is a field of [sys]: the AEAD ([seal]/[unseal]), the
    JSON-level tests and the inner JSON-RPC dispatcher [handle] (which may set
    Owner.shared_key, second component of its result). The theorems (GateProofs.v) hold for
    every [sys] meeting [ideal]; [csys] below is the executable instance that the
    correspondence run of ./check C13 compares with the real handler. *)
From GW Require Import Base.

Record sys := mkSys {
  skey : Type; snonce : Type; sjson : Type; scipher : Type;
  swallet : Type; sentropy : Type; smask : Type;
  seal : skey -> snonce -> sjson -> scipher;           (* EncryptedBody::from_json *)
  unseal : skey -> scipher -> option sjson;            (* EncryptedBody::decrypt *)
  is_init : sjson -> bool;                             (* OwnerV3Helpers::is_init_secure_api *)
  is_open : sjson -> bool;                             (* OwnerV3Helpers::is_open_wallet *)
  as_env : sjson -> option scipher;                    (* from_value::<EncryptedRequest> -> params *)
  intercept : sjson -> sjson;                          (* check_error_response *)
  ok_str : sjson -> bool;                              (* val["result"]["Ok"].as_str().is_some() *)
  mask_of : sjson -> option smask;                     (* update_mask's reading of result.Ok *)
  nonce_of : sentropy -> snonce;                       (* thread_rng() nonce of the reply *)
  (* OwnerRpc::handle_request on api::Owner: new wallet state, Owner.shared_key if it was
     set, the reply (None = MaybeReply::DontReply) *)
  handle : sentropy -> swallet -> sjson -> swallet * option skey * option sjson
}.

Section Gate.
  Variable S : sys.

  Record gstate := mkG {
    g_key : option (skey S);      (* OwnerAPIHandlerV3.shared_key *)
    g_okey : option (skey S);     (* Owner.shared_key *)
    g_mask : option (smask S);    (* OwnerAPIHandlerV3.keychain_mask *)
    g_w : swallet S;              (* everything behind the Owner API *)
    g_rf : bool                   (* running_foreign *)
  }.

  Inductive reply :=
  | RHttpError                    (* create_error_response: status 500, text *)
  | RGateError (code : Z)         (* EncryptionErrorResponse in clear *)
  | RPlain (v : sjson S)          (* the dispatcher's reply in clear *)
  | RSealed (c : scipher S)       (* EncryptedResponse *)
  | REmptyBatch.                  (* [] *)

  Definition or_else {A} (a b : option A) : option A :=
    match a with Some _ => a | None => b end.

  (** lines 623-660: [v] is the value handed to the dispatcher, [sealk] the key under which
      the request was opened (None: the request came in clear). Third component of the
      result: the value on which the dispatcher was invoked. *)
  Definition run_inner (s : gstate) (e : sentropy S) (v : sjson S) (sealk : option (skey S))
    : gstate * reply * option (sjson S) :=
    let '(w', newk, rep) := handle S e (g_w s) v in
    let okey' := or_else newk (g_okey s) in
    match rep with
    | None => (mkG (g_key s) okey' (g_mask s) w' (g_rf s), REmptyBatch, Some v)
    | Some r =>
      let ui := intercept S r in
      let mask' := if is_open S v && g_rf s then or_else (mask_of S r) (g_mask s) else g_mask s in
      let out := match sealk with
                 | Some k => RSealed (seal S k (nonce_of S e) ui)
                 | None => RPlain r
                 end in
      let key' := if is_init S v && ok_str S ui then okey' else g_key s in
      (mkG key' okey' mask' w' (g_rf s), out, Some v)
    end.

  (** One POST. [body = None]: the body is not JSON. *)
  Definition step (s : gstate) (e : sentropy S) (body : option (sjson S))
    : gstate * reply * option (sjson S) :=
    match body with
    | None => (s, RHttpError, None)
    | Some b =>
      if is_init S b then run_inner s e b None
      else match g_key s with
           | None => (s, RGateError (-32001)%Z, None)
           | Some k =>
             match as_env S b with
             | None => (s, RGateError (-32002)%Z, None)
             | Some c =>
               match unseal S k c with
               | None => (s, RGateError (-32002)%Z, None)
               | Some v => run_inner s e v (Some k)
               end
             end
           end
    end.

  (** A request history: each POST with the randomness the server draws while serving it. *)
  Definition event := (sentropy S * option (sjson S))%type.

  Record tstep := mkT {
    t_pre : gstate; t_ev : event; t_post : gstate; t_reply : reply; t_inv : option (sjson S)
  }.

  Fixpoint trace (s : gstate) (evs : list event) : list tstep :=
    match evs with
    | [] => []
    | (e, b) :: r =>
      let '(s', rp, inv) := step s e b in
      mkT s (e, b) s' rp inv :: trace s' r
    end.

  Fixpoint run (s : gstate) (evs : list event) : gstate :=
    match evs with
    | [] => s
    | (e, b) :: r => run (fst (fst (step s e b))) r
    end.

  Definition replies (s : gstate) (evs : list event) : list reply := map t_reply (trace s evs).

  (** Vocabulary of the statements. *)
  Definition is_error (r : reply) : Prop := r = RHttpError \/ exists c, r = RGateError c.

  (** [b] is an envelope whose ciphertext was produced by sealing [v] under the key the
      handler holds in state [s]. *)
  Definition authentic (s : gstate) (b v : sjson S) : Prop :=
    exists k n, g_key s = Some k /\ is_init S b = false /\ as_env S b = Some (seal S k n v).

  Definition plain_init (b v : sjson S) : Prop := b = v /\ is_init S b = true.

  Definition rejected (s : gstate) (ev : event) : Prop := snd (step s (fst ev) (snd ev)) = None.

  (** The idealisation of AES-256-GCM and the two facts about the dispatcher on which the
      gate relies. *)
  Record ideal : Prop := mkIdeal {
    (* decrypt (encrypt v) = v *)
    unseal_seal : forall k n v, unseal S k (seal S k n v) = Some v;
    (* authenticity: whatever opens under k was sealed under k *)
    unseal_auth : forall k c v, unseal S k c = Some v -> exists n, c = seal S k n v;
    (* a ciphertext made under one key is not one made under another key *)
    seal_key_inj : forall k n v k' n' v', seal S k n v = seal S k' n' v' -> k = k';
    (* both tests read the same "method" string *)
    init_not_open : forall v, is_init S v = true -> is_open S v = false;
    (* a JSON value whose method is init_secure_api can only run the ECDH exchange, which
       touches nothing behind the API but Owner.shared_key *)
    init_pure : forall e w v, is_init S v = true -> fst (fst (handle S e w v)) = w
  }.
End Gate.

Arguments mkG {S}. Arguments g_key {S}. Arguments g_okey {S}. Arguments g_mask {S}.
Arguments g_w {S}. Arguments g_rf {S}.
Arguments RHttpError {S}. Arguments RGateError {S}. Arguments RPlain {S}.
Arguments RSealed {S}. Arguments REmptyBatch {S}.
Arguments run_inner {S}. Arguments step {S}. Arguments trace {S}. Arguments run {S}.
Arguments replies {S}. Arguments is_error {S}. Arguments authentic {S}.
Arguments plain_init {S}. Arguments rejected {S}.
Arguments t_pre {S}. Arguments t_ev {S}. Arguments t_post {S}. Arguments t_reply {S}.
Arguments t_inv {S}. Arguments mkT {S}.

(** * The executable instance compared with the real handler

    Keys are named by where they were generated: (number of the POST, position of the
    init_secure_api call inside it) — a fresh ECDH secret per exchange, idealised as "never
    equal to an earlier one". A client key that the server never issued is (0, _).
    Ciphertexts are symbolic: [(true, k, n, v)] is [v] sealed under [k] with nonce [n];
    [(false, _, _, _)] is any byte string that is no such ciphertext (bit flipped in body,
    tag or the 12 nonce bytes, truncated, bad base64/hex, short nonce). *)
Inductive meth := MInit | MOpen | MClose | MCreate | MAccounts | MTxs | MUnknown.

Definition ckey := (N * N)%type.

Inductive cj :=
| JCall (m : meth) (good notif : bool)     (* {"method": m, "params": good or bad[, "id"]} *)
| JEnv (sealed : bool) (k : ckey) (n : N) (p : cj)  (* method encrypted_request_v3 and parses as EncryptedRequest *)
| JBatch (l : list cj)                     (* JSON array *)
| JJunk (obj : bool)                       (* any other JSON value; obj: it still parses as a
                                              jsonrpc_core::Call (an invalid one) *)
| JRes (ok : bool) (nk : option ckey)      (* JSON-RPC response; nk: key agreed by init *)
| JResBatch (l : list cj).

Definition ccipher := (bool * ckey * N * cj)%type.

Definition keq (a b : ckey) : bool := (fst a =? fst b) && (snd a =? snd b).

Definition cseal (k : ckey) (n : N) (v : cj) : ccipher := (true, k, n, v).
Definition cunseal (k : ckey) (c : ccipher) : option cj :=
  let '(ok, k', _, v) := c in if ok && keq k k' then Some v else None.

Definition c_is_init (v : cj) : bool := match v with JCall MInit _ _ => true | _ => false end.
Definition c_is_open (v : cj) : bool := match v with JCall MOpen _ _ => true | _ => false end.
Definition c_as_env (v : cj) : option ccipher :=
  match v with JEnv ok k n p => Some (ok, k, n, p) | _ => None end.
Definition c_ok_str (v : cj) : bool := match v with JRes true (Some _) => true | _ => false end.
Definition c_mask_of (v : cj) : option unit := match v with JRes true _ => Some tt | _ => None end.

(** What stands behind the API in the correspondence run: one wallet directory that is open
    or closed, whether the client holds the token of the current opening (open_wallet over
    V3 always creates a fresh mask and returns it in the reply — a notification gets no
    reply), and the number of accounts created. *)
Record cw := mkW { w_open : bool; w_tok : bool; w_accts : N }.

Definition is_obj (v : cj) : bool :=
  match v with JCall _ _ _ | JEnv _ _ _ _ | JJunk true | JRes _ _ => true | _ => false end.

(** One JSON-RPC call object (jsonrpc_core::Call) at position [pos] of POST number [e].
    Third state component: what the client will know about the token after this POST, if an
    open_wallet ran in it. The requests of one POST are written before any of its replies is
    read, so from an open_wallet on, the token they carry is stale for the rest of the POST. *)
Definition cst := (cw * option ckey * option bool)%type.

Definition call1 (e pos : N) (st : cst) (v : cj) : cst * option cj :=
  let '(w, nk, pt) := st in
  match v with
  | JCall m good notif =>
    let rep (b : bool) (k : option ckey) := if notif then None else Some (JRes b k) in
    match m with
    | MInit => if good then ((w, Some (e, pos), pt), rep true (Some (e, pos))) else (st, rep false None)
    | MOpen => if good then ((mkW true false (w_accts w), nk, Some (negb notif)), rep true None)
               else (st, rep false None)
    | MClose => if good then ((mkW false (w_tok w) (w_accts w), nk, pt), rep true None)
                else (st, rep false None)
    | MCreate => if good && w_open w && w_tok w
                 then ((mkW true true (w_accts w + 1), nk, pt), rep true None)
                 else (st, rep false None)
    | MAccounts => (st, rep (good && w_open w && w_tok w) None)
    | MTxs => (st, rep (good && w_open w) None)
    | MUnknown => (st, rep false None)
    end
  | _ => (st, Some (JRes false None))   (* method not found / invalid request *)
  end.

Fixpoint calls (e pos : N) (st : cst) (l : list cj) : cst * list cj :=
  match l with
  | [] => (st, [])
  | v :: r =>
    let '(st', rep) := call1 e pos st v in
    let '(st'', reps) := calls e (pos + 1) st' r in
    (st'', match rep with Some x => x :: reps | None => reps end)
  end.

Definition settle (st : cst) : cw * option ckey :=
  let '(w, nk, pt) := st in
  (match pt with Some b => mkW (w_open w) b (w_accts w) | None => w end, nk).

Definition chandle (e : N) (w : cw) (v : cj) : cw * option ckey * option cj :=
  match v with
  | JBatch l =>
    if forallb is_obj l then
      let '(st, reps) := calls e 0 (w, None, None) l in
      (settle st, match reps with [] => None | _ => Some (JResBatch reps) end)
    else (w, None, Some (JRes false None))            (* -32700 Parse error *)
  | JJunk false | JResBatch _ => (w, None, Some (JRes false None))
  | _ => let '(st, rep) := call1 e 0 (w, None, None) v in (settle st, rep)
  end.

Definition csys : sys :=
  mkSys ckey N cj ccipher cw N unit
        cseal cunseal c_is_init c_is_open c_as_env (fun v => v) c_ok_str c_mask_of
        (fun e => e) chandle.

(** A session of the correspondence run: POSTs are numbered from 1. *)
Fixpoint number {A} (i : N) (l : list A) : list (N * A) :=
  match l with [] => [] | a :: r => (i, a) :: number (i + 1) r end.

Record ccase := mkCase {
  c_rf : bool; c_open : bool; c_tok : bool; c_accts : N; c_steps : list (option cj)
}.

Definition cinit (rf : bool) (w : cw) : gstate csys := @mkG csys None None None w rf.

Definition klabel (k : ckey) : Z := Z.of_N (fst k * 1000 + snd k + 1).

Definition shape1 (v : cj) : Z :=
  match v with JRes true _ => 1 | JRes false _ => 2 | _ => 9 end%Z.
Definition shape (v : cj) : list Z :=
  match v with
  | JResBatch l => 3%Z :: Z.of_nat (length l) :: map shape1 l
  | _ => [shape1 v]
  end.

Definition enc_reply (r : @reply csys) : list Z :=
  match r with
  | RHttpError => [0]
  | RGateError c => [1; - c]
  | RPlain v => 2 :: shape v
  | RSealed (true, k, _, v) => 3 :: klabel k :: shape v
  | RSealed _ => [3; -1]
  | REmptyBatch => [4]
  end%Z.

Definition b2z (b : bool) : Z := if b then 1%Z else 0%Z.

Definition enc_state (s : gstate csys) : list Z :=
  [ match g_key s with Some k => klabel k | None => 0%Z end;
    b2z (w_open (g_w s));
    if w_open (g_w s) then Z.of_N (w_accts (g_w s)) else 0%Z;
    match g_mask s with Some _ => 1%Z | None => 0%Z end ].

Definition run_case (c : ccase) : list (list Z) :=
  map (fun t => enc_reply (t_reply t) ++ enc_state (t_post t))
      (trace (cinit (c_rf c) (mkW (c_open c) (c_tok c) (c_accts c))) (number 1 (c_steps c))).

(** Key currently held by the handler after each POST of a session (for the rotation
    theorem). *)
Definition keys_after (rf : bool) (w : cw) (reqs : list (option cj)) : list (option ckey) :=
  map (fun t => g_key (t_post t)) (trace (cinit rf w) (number 1 reqs)).
