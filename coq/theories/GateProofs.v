(** Proofs about the V3 envelope gate (model: Gate.v). Statements used by props/C13.v. *)
From GW Require Import Base Gate.

Section GateProofs.
  Variable S : sys.
  Hypothesis HI : ideal S.

  Lemma run_inner_inv (s : gstate S) e v sk : snd (run_inner s e v sk) = Some v.
  Proof.
    unfold run_inner. destruct (handle S e (g_w s) v) as [[w' nk] [r|]]; reflexivity.
  Qed.

  Lemma step_none (s : gstate S) e : step s e None = (s, RHttpError, None).
  Proof. reflexivity. Qed.

  (** The dispatcher runs on [v] iff the POST is a clear-text init_secure_api value [v] or an
      envelope holding [v] sealed under the key the handler holds right now. *)
  Theorem gate_invoked_iff : forall (s : gstate S) e b s' r inv,
    step s e b = (s', r, inv) ->
    forall v, inv = Some v <->
              exists bv, b = Some bv /\ (plain_init bv v \/ authentic s bv v).
  Proof.
    intros s e b s' r inv Hs v. destruct b as [bv|].
    2:{ rewrite step_none in Hs. inversion Hs; subst. split.
        - discriminate.
        - intros [bv [Hb _]]. discriminate. }
    unfold step in Hs. destruct (is_init S bv) eqn:Hi.
    - pose proof (run_inner_inv s e bv None) as Hinv. rewrite Hs in Hinv. cbn in Hinv. subst inv.
      split.
      + intros Hv. inversion Hv; subst. exists v. split; [reflexivity|]. left. split; auto.
      + intros [bv' [Hb [[Hp _]|[k [n [_ [Hni _]]]]]]]; inversion Hb; subst.
        * reflexivity.
        * congruence.
    - destruct (g_key s) as [k|] eqn:Hk.
      2:{ inversion Hs; subst. split; [discriminate|].
          intros [bv' [Hb [[_ Hp]|[k [n [Hk' _]]]]]]; inversion Hb; subst; congruence. }
      destruct (as_env S bv) as [c|] eqn:He.
      2:{ inversion Hs; subst. split; [discriminate|].
          intros [bv' [Hb [[_ Hp]|[k' [n [_ [_ He']]]]]]]; inversion Hb; subst; congruence. }
      destruct (unseal S k c) as [v0|] eqn:Hu.
      + pose proof (run_inner_inv s e v0 (Some k)) as Hinv. rewrite Hs in Hinv. cbn in Hinv.
        subst inv. split.
        * intros Hv. inversion Hv; subst. exists bv. split; [reflexivity|]. right.
          destruct (unseal_auth S HI _ _ _ Hu) as [n Hc]. exists k, n. subst c. auto.
        * intros [bv' [Hb [[_ Hp]|[k' [n [Hk' [_ He']]]]]]]; inversion Hb; subst; [congruence|].
          rewrite He in He'. inversion He'; subst. rewrite Hk in Hk'. inversion Hk'; subst.
          rewrite (unseal_seal S HI) in Hu. congruence.
      + inversion Hs; subst. split; [discriminate|].
        intros [bv' [Hb [[_ Hp]|[k' [n [Hk' [_ He']]]]]]]; inversion Hb; subst; [congruence|].
        rewrite He in He'. inversion He'; subst. rewrite Hk in Hk'. inversion Hk'; subst.
        rewrite (unseal_seal S HI) in Hu. discriminate.
  Qed.

  (** When the dispatcher is not invoked the reply is an error and nothing changed: not the
      key, not the mask, not the wallet. *)
  Theorem gate_rejects : forall (s : gstate S) e b s' r,
    step s e b = (s', r, None) -> s' = s /\ is_error r.
  Proof.
    intros s e b s' r Hs. destruct b as [bv|].
    2:{ rewrite step_none in Hs. inversion Hs; subst. split; [reflexivity|left; reflexivity]. }
    unfold step in Hs. destruct (is_init S bv).
    { pose proof (run_inner_inv s e bv None) as Hinv. rewrite Hs in Hinv. discriminate. }
    destruct (g_key s) as [k|].
    2:{ inversion Hs; subst. split; [reflexivity|right; eauto]. }
    destruct (as_env S bv) as [c|].
    2:{ inversion Hs; subst. split; [reflexivity|right; eauto]. }
    destruct (unseal S k c) as [v0|].
    { pose proof (run_inner_inv s e v0 (Some k)) as Hinv. rewrite Hs in Hinv. discriminate. }
    inversion Hs; subst. split; [reflexivity|right; eauto].
  Qed.

  (** A request that came in an envelope is answered under the key that opened it (or by the
      constant empty batch when it held notifications only). *)
  Theorem gate_reply_sealed : forall (s : gstate S) e bv s' r v,
    step s e (Some bv) = (s', r, Some v) -> is_init S bv = false ->
    exists k, g_key s = Some k /\
              (r = REmptyBatch \/ exists rep, r = RSealed (seal S k (nonce_of S e) rep)).
  Proof.
    intros s e bv s' r v Hs Hi. unfold step in Hs. rewrite Hi in Hs.
    destruct (g_key s) as [k|]; [|discriminate].
    destruct (as_env S bv) as [c|]; [|discriminate].
    destruct (unseal S k c) as [v0|]; [|discriminate].
    exists k. split; [reflexivity|]. unfold run_inner in Hs.
    destruct (handle S e (g_w s) v0) as [[w' nk] [rp|]]; inversion Hs; subst.
    - right. eauto.
    - left. reflexivity.
  Qed.

  (** The clear-text key exchange touches neither the wallet nor the stored mask and the
      only thing it can hand out is the dispatcher's reply to init_secure_api. *)
  Theorem gate_plain_init : forall (s : gstate S) e bv s' r inv,
    step s e (Some bv) = (s', r, inv) -> is_init S bv = true ->
    g_w s' = g_w s /\ g_mask s' = g_mask s /\ inv = Some bv /\
    (r = REmptyBatch \/ exists rep, r = RPlain rep /\ snd (handle S e (g_w s) bv) = Some rep).
  Proof.
    intros s e bv s' r inv Hs Hi. unfold step in Hs. rewrite Hi in Hs. unfold run_inner in Hs.
    pose proof (init_pure S HI e (g_w s) bv Hi) as Hp.
    rewrite (init_not_open S HI bv Hi) in Hs.
    destruct (handle S e (g_w s) bv) as [[w' nk] [rp|]]; cbn in Hp; inversion Hs; subst; cbn.
    - repeat split; auto. right. eauto.
    - repeat split; auto.
  Qed.

  (** Wallet or stored mask differ after a POST only if it was an envelope sealed under the
      current key. *)
  Theorem gate_effect_needs_auth : forall (s : gstate S) e b s' r inv,
    step s e b = (s', r, inv) ->
    (g_w s' <> g_w s \/ g_mask s' <> g_mask s) ->
    exists bv v, b = Some bv /\ authentic s bv v.
  Proof.
    intros s e b s' r inv Hs Hd. destruct inv as [v|].
    - destruct (proj1 (gate_invoked_iff _ _ _ _ _ _ Hs v) eq_refl) as [bv [Hb [[Hp Hi]|Ha]]].
      + subst b. destruct (gate_plain_init _ _ _ _ _ _ Hs Hi) as [Hw [Hm _]].
        destruct Hd; congruence.
      + eauto.
    - destruct (gate_rejects _ _ _ _ _ Hs) as [He _]. subst s'. destruct Hd; congruence.
  Qed.

  Theorem gate_no_key_rejected : forall (s : gstate S) e bv,
    g_key s = None -> is_init S bv = false ->
    step s e (Some bv) = (s, RGateError (-32001)%Z, None).
  Proof. intros s e bv Hk Hi. unfold step. rewrite Hi, Hk. reflexivity. Qed.

  (** An envelope made under any key other than the current one is refused. *)
  Theorem gate_other_key_rejected : forall (s : gstate S) e bv k k0 n p,
    g_key s = Some k -> k0 <> k -> is_init S bv = false ->
    as_env S bv = Some (seal S k0 n p) ->
    step s e (Some bv) = (s, RGateError (-32002)%Z, None).
  Proof.
    intros s e bv k k0 n p Hk Hne Hi He. unfold step. rewrite Hi, Hk, He.
    destruct (unseal S k (seal S k0 n p)) as [v|] eqn:Hu; [|reflexivity].
    destruct (unseal_auth S HI _ _ _ Hu) as [n' Hc].
    apply (seal_key_inj S HI) in Hc. congruence.
  Qed.

  (** A tampered ciphertext (anything that is not a sealing under the current key). *)
  Theorem gate_forged_rejected : forall (s : gstate S) e bv k c,
    g_key s = Some k -> is_init S bv = false -> as_env S bv = Some c ->
    (forall n v, c <> seal S k n v) ->
    step s e (Some bv) = (s, RGateError (-32002)%Z, None).
  Proof.
    intros s e bv k c Hk Hi He Hf. unfold step. rewrite Hi, Hk, He.
    destruct (unseal S k c) as [v|] eqn:Hu; [|reflexivity].
    destruct (unseal_auth S HI _ _ _ Hu) as [n' Hc]. exfalso. exact (Hf _ _ Hc).
  Qed.

  (** ** Histories *)

  Lemma trace_app (s : gstate S) evs1 evs2 :
    trace s (evs1 ++ evs2) = trace s evs1 ++ trace (run s evs1) evs2.
  Proof.
    revert s. induction evs1 as [|[e b] r IH]; intros s; cbn [app trace run]; [reflexivity|].
    destruct (step s e b) as [[s' rp] inv] eqn:Hs. cbn [fst]. rewrite IH. reflexivity.
  Qed.

  Lemma run_app (s : gstate S) evs1 evs2 : run s (evs1 ++ evs2) = run (run s evs1) evs2.
  Proof.
    revert s. induction evs1 as [|[e b] r IH]; intros s; cbn [app run]; [reflexivity|]. apply IH.
  Qed.

  Lemma trace_steps : forall evs (s : gstate S),
    Forall (fun t => step (t_pre t) (fst (t_ev t)) (snd (t_ev t)) = (t_post t, t_reply t, t_inv t))
           (trace s evs).
  Proof.
    induction evs as [|[e b] r IH]; intros s; cbn [trace]; [constructor|].
    destruct (step s e b) as [[s' rp] inv] eqn:Hs. constructor; [exact Hs|apply IH].
  Qed.

  (** Every step of every history obeys the gate. *)
  Definition gate_ok (t : tstep S) : Prop :=
    match t_inv t with
    | None => t_post t = t_pre t /\ is_error (t_reply t)
    | Some v =>
      exists bv, snd (t_ev t) = Some bv /\
        ((plain_init bv v /\ g_w (t_post t) = g_w (t_pre t) /\ g_mask (t_post t) = g_mask (t_pre t)
          /\ (t_reply t = REmptyBatch \/ exists rep, t_reply t = RPlain rep))
         \/ (authentic (t_pre t) bv v /\
             exists k, g_key (t_pre t) = Some k /\
               (t_reply t = REmptyBatch \/
                exists rep, t_reply t = RSealed (seal S k (nonce_of S (fst (t_ev t))) rep))))
    end.

  Theorem history_gate : forall evs (s : gstate S), Forall gate_ok (trace s evs).
  Proof.
    intros evs s. eapply Forall_impl; [|apply trace_steps].
    intros [pre [e b] post rp inv]; cbn. intros Hs. unfold gate_ok; cbn.
    destruct inv as [v|].
    - destruct (proj1 (gate_invoked_iff _ _ _ _ _ _ Hs v) eq_refl) as [bv [Hb [Hp|Ha]]]; subst b.
      + exists bv. split; [reflexivity|]. left. destruct Hp as [Hbv Hi].
        destruct (gate_plain_init _ _ _ _ _ _ Hs Hi) as [Hw [Hm [_ Hr]]].
        repeat split; auto. destruct Hr as [Hr|[rep [Hr _]]]; eauto.
      + exists bv. split; [reflexivity|]. right. split; [exact Ha|].
        destruct Ha as [k [n [Hk [Hi _]]]].
        destruct (gate_reply_sealed _ _ _ _ _ _ Hs Hi) as [k' [Hk' Hr]]. eauto.
    - apply (gate_rejects _ _ _ _ _ Hs).
  Qed.

  Theorem history_effect_needs_auth : forall evs (s : gstate S),
    Forall (fun t => (g_w (t_post t) <> g_w (t_pre t) \/ g_mask (t_post t) <> g_mask (t_pre t)) ->
                     exists bv v, snd (t_ev t) = Some bv /\ authentic (t_pre t) bv v)
           (trace s evs).
  Proof.
    intros evs s. eapply Forall_impl; [|apply trace_steps].
    intros [pre [e b] post rp inv]; cbn. intros Hs Hd.
    exact (gate_effect_needs_auth _ _ _ _ _ _ Hs Hd).
  Qed.

  (** Refused requests are no-ops: dropping one from a history changes neither the final
      state nor any other reply. *)
  Theorem run_drop_rejected : forall evs1 ev evs2 (s : gstate S),
    rejected (run s evs1) ev ->
    run s (evs1 ++ ev :: evs2) = run s (evs1 ++ evs2) /\
    exists r, is_error r /\
      replies s (evs1 ++ ev :: evs2)
      = replies s evs1 ++ r :: replies (run s evs1) evs2 /\
      replies s (evs1 ++ evs2) = replies s evs1 ++ replies (run s evs1) evs2.
  Proof.
    intros evs1 [e b] evs2 s Hr. unfold rejected in Hr. cbn [fst snd] in Hr.
    destruct (step (run s evs1) e b) as [[s' rp] inv] eqn:Hs. cbn in Hr. subst inv.
    destruct (gate_rejects _ _ _ _ _ Hs) as [He Herr]. subst s'.
    split.
    - rewrite !run_app. cbn [run]. rewrite Hs. reflexivity.
    - exists rp. split; [exact Herr|]. unfold replies. rewrite !trace_app, !map_app.
      cbn [trace]. rewrite Hs. cbn [map t_reply]. split; reflexivity.
  Qed.

  (** Before any key exchange, a history without init_secure_api values does nothing. *)
  Theorem run_without_key : forall evs (s : gstate S),
    g_key s = None ->
    Forall (fun ev => match snd ev with Some b => is_init S b = false | None => True end) evs ->
    run s evs = s /\ Forall is_error (replies s evs).
  Proof.
    induction evs as [|[e b] r IH]; intros s Hk Hall.
    - split; [reflexivity|constructor].
    - inversion Hall as [|x l Hb Hr]; subst. cbn [snd] in Hb.
      assert (Hs : step s e b = (s, t_reply (mkT s (e, b) s (snd (fst (step s e b))) None), None)
                   /\ is_error (snd (fst (step s e b)))).
      { destruct b as [bv|].
        - rewrite (gate_no_key_rejected s e bv Hk Hb). cbn. split; [reflexivity|right; eauto].
        - rewrite step_none. cbn. split; [reflexivity|left; reflexivity]. }
      destruct Hs as [Hs Herr]. cbn [t_reply] in Hs.
      unfold replies. cbn [run trace]. rewrite Hs. cbn [fst map t_reply].
      destruct (IH s Hk Hr) as [Hrun Hreps]. split; [exact Hrun|].
      constructor; [rewrite Hs in Herr; exact Herr|exact Hreps].
  Qed.
End GateProofs.

(** * The executable instance *)

Lemma keq_refl k : keq k k = true.
Proof. unfold keq. rewrite !N.eqb_refl. reflexivity. Qed.

Lemma keq_eq a b : keq a b = true -> a = b.
Proof.
  unfold keq. intros H. apply andb_prop in H. destruct H as [H1 H2].
  apply N.eqb_eq in H1. apply N.eqb_eq in H2. destruct a, b; cbn in *; congruence.
Qed.

Lemma csys_ideal : ideal csys.
Proof.
  constructor; cbn.
  - intros k n v. unfold cunseal, cseal. rewrite keq_refl. reflexivity.
  - intros k [[[ok k'] n] v'] v H. unfold cunseal in H.
    destruct ok; cbn in H; [|discriminate].
    destruct (keq k k') eqn:Hk; [|discriminate].
    apply keq_eq in Hk. inversion H; subst. exists n. reflexivity.
  - intros k n v k' n' v' H. unfold cseal in H. congruence.
  - intros v H. destruct v as [m g nf| | | | |]; try discriminate. destruct m; try discriminate.
    reflexivity.
  - intros e w v H. destruct v as [m g nf| | | | |]; try discriminate. destruct m; try discriminate.
    destruct g, nf; reflexivity.
Qed.

(** Key rotation: the key only ever changes to one generated during the current POST. *)
Definition kl (s : gstate csys) : N := match g_key s with Some k => fst k | None => 0 end.

Lemma cstep_key : forall (s : gstate csys) e b s' r inv,
  step s e b = (s', r, inv) ->
  g_key s' = g_key s \/ exists pos, g_key s' = Some (e, pos).
Proof.
  intros s e b s' r inv Hs.
  assert (Hin : forall v sk s1 r1 i1, @run_inner csys s e v sk = (s1, r1, i1) ->
                g_key s1 = g_key s \/ exists pos, g_key s1 = Some (e, pos)).
  { intros v sk s1 r1 i1 Hr. unfold run_inner in Hr. cbn [handle csys] in Hr.
    destruct (chandle e (g_w s) v) as [[w' nk] rp] eqn:Hh.
    destruct rp as [rp|]; [|inversion Hr; subst; cbn; auto].
    cbn [intercept csys is_init ok_str] in Hr.
    destruct (c_is_init v) eqn:Hi; cbn [andb] in Hr.
    2:{ inversion Hr; subst; cbn; auto. }
    destruct v as [m g nf| | | | |]; try discriminate. destruct m; try discriminate.
    unfold chandle, call1 in Hh.
    destruct g, nf; inversion Hh; subst; cbn in Hr; inversion Hr; subst; cbn; eauto. }
  destruct b as [bv|]; [|inversion Hs; subst; auto].
  unfold step in Hs. destruct (is_init csys bv); [eapply Hin; eauto|].
  destruct (g_key s) as [k|] eqn:Hk; [|inversion Hs; subst; auto].
  destruct (as_env csys bv) as [c|]; [|inversion Hs; subst; auto].
  destruct (unseal csys k c) as [v|]; [|inversion Hs; subst; auto].
  eapply Hin; eauto.
Qed.

Lemma nth_error_number {A} (l : list A) i n x :
  nth_error (number i l) n = Some x -> fst x = i + N.of_nat n.
Proof.
  revert i n. induction l as [|a r IH]; intros i n H; cbn in H.
  - destruct n; discriminate.
  - destruct n as [|n]; cbn in H.
    + inversion H; subst. cbn. lia.
    + apply IH in H. lia.
Qed.

(** From the start of a numbered run: the key is unchanged or its label has grown; labels
    stay below the number of the next POST. *)
Lemma ctrace_from_start : forall reqs i (s : gstate csys),
  kl s < i ->
  forall n t, nth_error (trace s (number i reqs)) n = Some t ->
    (g_key (t_post t) = g_key s \/ kl s < kl (t_post t)) /\ kl (t_post t) < i + N.of_nat n + 1.
Proof.
  induction reqs as [|b r IH]; intros i s Hi n t Hn; cbn [number trace] in Hn.
  - destruct n; discriminate.
  - destruct (step s i b) as [[s' rp] inv] eqn:Hs.
    pose proof (cstep_key _ _ _ _ _ _ Hs) as Hk.
    assert (Hs' : (g_key s' = g_key s \/ kl s < kl s') /\ kl s' < i + 1).
    { unfold kl in Hi |- *. destruct Hk as [Hk|[pos Hk]]; rewrite Hk.
      - split; [left; reflexivity|lia].
      - cbn [fst]. split; [right; lia|lia]. }
    destruct n as [|n]; cbn in Hn.
    + inversion Hn; subst; cbn. destruct Hs' as [H1 H2]. split; [exact H1|lia].
    + destruct Hs' as [H1 H2].
      destruct (IH (i + 1) s' H2 n t Hn) as [H3 H4]. split; [|lia].
      destruct H1 as [H1|H1], H3 as [H3|H3].
      * left. congruence.
      * right. unfold kl in H3 |- *. rewrite <- H1. exact H3.
      * right. unfold kl in H1 |- *. rewrite H3. exact H1.
      * right. lia.
Qed.

Lemma ctrace_monotone : forall reqs i (s : gstate csys),
  kl s < i ->
  forall a b ta tb, (a < b)%nat ->
    nth_error (trace s (number i reqs)) a = Some ta ->
    nth_error (trace s (number i reqs)) b = Some tb ->
    g_key (t_post tb) = g_key (t_post ta) \/ kl (t_post ta) < kl (t_post tb).
Proof.
  induction reqs as [|rq r IH]; intros i s Hi a b ta tb Hab Ha Hb; cbn [number trace] in Ha, Hb.
  - destruct a; discriminate.
  - destruct (step s i rq) as [[s' rp] inv] eqn:Hs.
    assert (Hs' : kl s' < i + 1).
    { destruct (cstep_key _ _ _ _ _ _ Hs) as [Hk|[pos Hk]]; unfold kl in Hi |- *; rewrite Hk; cbn [fst]; lia. }
    destruct b as [|b]; [lia|]. cbn in Hb.
    destruct a as [|a]; cbn in Ha.
    + inversion Ha; subst; cbn.
      destruct (ctrace_from_start r (i + 1) s' Hs' b tb Hb) as [H _]. exact H.
    + apply (IH (i + 1) s' Hs' a b ta tb); [lia|exact Ha|exact Hb].
Qed.

(** Once the handler's key has been replaced, the superseded key never authenticates
    again, whatever the rest of the session. *)
Theorem superseded_key_dead : forall rf w reqs (i j m : nat) ti tj tm k k',
  (i < j <= m)%nat ->
  nth_error (trace (cinit rf w) (number 1 reqs)) i = Some ti ->
  nth_error (trace (cinit rf w) (number 1 reqs)) j = Some tj ->
  nth_error (trace (cinit rf w) (number 1 reqs)) m = Some tm ->
  g_key (t_post ti) = Some k -> g_key (t_post tj) = Some k' -> k' <> k ->
  forall e n p,
    step (t_post tm) e (Some (JEnv true k n p)) = (t_post tm, RGateError (-32002)%Z, None).
Proof.
  intros rf w reqs i j m ti tj tm k k' [Hij Hjm] Hi Hj Hm Hki Hkj Hne e n p.
  assert (H0 : kl (cinit rf w) < 1) by (cbn; lia).
  assert (Hlt : kl (t_post ti) < kl (t_post tj)).
  { destruct (ctrace_monotone reqs 1 _ H0 i j ti tj Hij Hi Hj) as [H|H]; [congruence|exact H]. }
  assert (Hkm : exists km, g_key (t_post tm) = Some km /\ km <> k).
  { destruct (Nat.eq_dec j m) as [Hjm'|Hjm'].
    - subst m. rewrite Hj in Hm. inversion Hm; subst. eauto.
    - destruct (ctrace_monotone reqs 1 _ H0 j m tj tm ltac:(lia) Hj Hm) as [H|H].
      + exists k'. split; congruence.
      + destruct (g_key (t_post tm)) as [km|] eqn:Hgm.
        * exists km. split; [reflexivity|]. intros ->. unfold kl in *.
          rewrite Hgm in H. rewrite Hki in Hlt. rewrite Hkj in Hlt, H. lia.
        * unfold kl in H. rewrite Hgm in H. lia. }
  destruct Hkm as [km [Hgm Hkne]].
  apply (gate_other_key_rejected csys csys_ideal (t_post tm) e (JEnv true k n p) km k n p);
    auto.
Qed.
