(** A history-level invariant behind C03 / C05: in every state reachable by standard-flow
    operations (everything except the invoice operations), an output that is Locked is held
    by a TxSent log entry OF ITS OWN ACCOUNT — so cancelling that entry (which looks for the
    entry's outputs in the entry's account) releases it, and no reservation is ever stranded.
    The statement needs a bundle of auxiliary invariants about the log (sorted by key, ids below
    the per-account counters) and about what the stored contexts may refer to. *)
From GW Require Import Ledger SelectProofs LedgerProofs.
From Coq Require Import ZifyBool ZifyN ZifyNat Sorting.Sorted.

(* ------------------------------------------------------------------ the log *)
Definition tlt (a b : trec) : Prop :=
  t_parent a < t_parent b \/ (t_parent a = t_parent b /\ t_id a < t_id b).
Definition LogSorted (w : wallet) : Prop := StronglySorted tlt (w_log w).
Definition LogBelow (w : wallet) : Prop :=
  forall t, In t (w_log w) -> t_id t < lookup (w_logid w) (t_parent t).

Lemma tlt_trans a b c : tlt a b -> tlt b c -> tlt a c.
Proof. unfold tlt. intros [H1|[H1 H2]] [H3|[H3 H4]]; lia. Qed.

Lemma tkey_eqb_false t p i : tkey_eqb t p i = false <-> ~ (t_parent t = p /\ t_id t = i).
Proof.
  split.
  - intros H C. apply tkey_eqb_iff in C. congruence.
  - intros H. destruct (tkey_eqb t p i) eqn:E; [|reflexivity]. apply tkey_eqb_iff in E. contradiction.
Qed.

Lemma in_save_tx l x t : In t (save_tx l x) -> t = x \/ In t l.
Proof.
  induction l as [|y r IH]; cbn [save_tx]; intros H.
  - destruct H as [<-|[]]. now left.
  - destruct (tkey_eqb y (t_parent x) (t_id x)).
    + destruct H as [<-|H]; [now left|right; now right].
    + destruct (_ || _).
      * destruct H as [<-|H]; [now left|now right].
      * destruct H as [<-|H]; [right; now left|]. destruct (IH H); [now left|right; now right].
Qed.

Lemma sorted_save_tx l x : StronglySorted tlt l -> StronglySorted tlt (save_tx l x).
Proof.
  induction l as [|y r IH]; cbn [save_tx]; intros Hs.
  - constructor; constructor.
  - apply StronglySorted_inv in Hs as [Hr Hy].
    destruct (tkey_eqb y (t_parent x) (t_id x)) eqn:E.
    + apply tkey_eqb_iff in E as [A B]. constructor; [exact Hr|].
      rewrite Forall_forall in *. intros z Hz. specialize (Hy z Hz). unfold tlt in *. lia.
    + destruct ((t_parent x <? t_parent y) || ((t_parent x =? t_parent y) && (t_id x <? t_id y))) eqn:E2.
      * assert (Hxy : tlt x y) by (unfold tlt; lia).
        constructor; [constructor; assumption|].
        constructor; [exact Hxy|]. rewrite Forall_forall in *. intros z Hz.
        eapply tlt_trans; [exact Hxy|apply Hy; exact Hz].
      * constructor; [apply IH; exact Hr|].
        rewrite Forall_forall in *. intros z Hz. apply in_save_tx in Hz as [->|Hz]; [|apply Hy; exact Hz].
        apply tkey_eqb_false in E. unfold tlt. lia.
Qed.

Lemma sorted_map_key (f : trec -> trec) l :
  (forall t, t_parent (f t) = t_parent t /\ t_id (f t) = t_id t) ->
  StronglySorted tlt l -> StronglySorted tlt (map f l).
Proof.
  intros Hf. induction l as [|y r IH]; cbn [map]; intros Hs; [constructor|].
  apply StronglySorted_inv in Hs as [Hr Hy]. constructor; [apply IH; exact Hr|].
  rewrite Forall_forall in *. intros z Hz. apply in_map_iff in Hz as (z0 & <- & Hz0).
  specialize (Hy z0 Hz0). destruct (Hf y) as [A B]. destruct (Hf z0) as [C D]. unfold tlt in *. lia.
Qed.

(** in a sorted log an entry is found under its key *)
Lemma sorted_get_tx l t : StronglySorted tlt l -> In t l -> get_tx l (t_parent t) (t_id t) = Some t.
Proof.
  unfold get_tx. induction l as [|y r IH]; intros Hs Hin; [contradiction|].
  apply StronglySorted_inv in Hs as [Hr Hy]. cbn [find].
  destruct Hin as [->|Hin].
  - assert (E : tkey_eqb t (t_parent t) (t_id t) = true) by (apply tkey_eqb_iff; auto). now rewrite E.
  - destruct (tkey_eqb y (t_parent t) (t_id t)) eqn:E; [|apply IH; assumption].
    exfalso. apply tkey_eqb_iff in E as [A B]. rewrite Forall_forall in Hy. specialize (Hy t Hin).
    unfold tlt in Hy. lia.
Qed.

Lemma get_tx_in l p i t : get_tx l p i = Some t -> In t l /\ t_parent t = p /\ t_id t = i.
Proof.
  unfold get_tx. intros H. apply find_some in H as [A B]. apply tkey_eqb_iff in B. tauto.
Qed.

Lemma get_tx_map_key (f : trec -> trec) l p i :
  (forall t, t_parent (f t) = t_parent t /\ t_id (f t) = t_id t) ->
  get_tx (map f l) p i = option_map f (get_tx l p i).
Proof.
  intros Hf. unfold get_tx. induction l as [|y r IH]; cbn [map find]; [reflexivity|].
  assert (E : tkey_eqb (f y) p i = tkey_eqb y p i).
  { unfold tkey_eqb. destruct (Hf y) as [-> ->]. reflexivity. }
  rewrite E. destruct (tkey_eqb y p i); [reflexivity|exact IH].
Qed.

(** no entry is stored under the next id of an account *)
Lemma below_fresh_id w parent : LogBelow w -> get_tx (w_log w) parent (lookup (w_logid w) parent) = None.
Proof.
  intros Hb. destruct (get_tx (w_log w) parent (lookup (w_logid w) parent)) as [t|] eqn:E; [|reflexivity].
  apply get_tx_in in E as (Hin & Hp & Hi). specialize (Hb t Hin). rewrite Hp in Hb. lia.
Qed.

(* ------------------------------------------------------------------ the invariants *)
(** a coinbase candidate: the only kind of record a caller-named build_coinbase may replace *)
Definition cand (o : orec) : Prop := r_cb o = true /\ r_status o = Unconfirmed.

Definition Held (w : wallet) : Prop :=
  forall k m o, get_out (w_outs w) k m = Some o -> r_status o = Locked ->
  exists id t, r_tx o = Some id /\ get_tx (w_log w) (r_root o) id = Some t /\ t_type t = TSent.

(** what a stored context may name: inputs are existing-or-vanished records of the context's own
    account (never a coinbase candidate), under keys already drawn *)
Definition CtxIn (w : wallet) : Prop :=
  forall c k m v, In c (w_ctxs w) -> In (k, m, v) (c_ins c) ->
    key_below w k
    /\ forall o, get_out (w_outs w) k m = Some o -> r_root o = c_parent c /\ ~ cand o.
(** a record stored under a change key of a context belongs to the context's account *)
Definition CtxOut (w : wallet) : Prop :=
  forall c k m v o, In c (w_ctxs w) -> In (k, m, v) (c_outs c) ->
    get_out (w_outs w) k None = Some o -> r_root o = c_parent c /\ r_cb o = false.
(** contexts that share a change key, or where one spends the other's change, are of one account *)
Definition CtxOO (w : wallet) : Prop :=
  forall c c' k m v m' v', In c (w_ctxs w) -> In c' (w_ctxs w) ->
    In (k, m, v) (c_outs c) -> In (k, m', v') (c_outs c') -> c_parent c = c_parent c'.
Definition CtxOI (w : wallet) : Prop :=
  forall c c' k m v v', In c (w_ctxs w) -> In c' (w_ctxs w) ->
    In (k, m, v) (c_outs c) -> In (k, None, v') (c_ins c') -> c_parent c = c_parent c'.

Record Core (w : wallet) : Prop := mkCore {
  core_sorted : LogSorted w;
  core_below : LogBelow w;
  core_held : Held w;
  core_in : CtxIn w;
  core_out : CtxOut w;
  core_oo : CtxOO w;
  core_oi : CtxOI w
}.

(* ------------------------------------------------------------------ generic preservation *)
Definition tsent_kept (l l' : list trec) : Prop :=
  forall p i t, get_tx l p i = Some t -> t_type t = TSent ->
  exists t', get_tx l' p i = Some t' /\ t_type t' = TSent.

Lemma tsent_kept_refl l : tsent_kept l l.
Proof. intros p i t H1 H2. eauto. Qed.
Lemma tsent_kept_trans l1 l2 l3 : tsent_kept l1 l2 -> tsent_kept l2 l3 -> tsent_kept l1 l3.
Proof. intros A B p i t H1 H2. destruct (A p i t H1 H2) as (t' & H3 & H4). eauto. Qed.

(** saving an entry under a key that is not in use, or one that keeps TxSent a TxSent *)
Lemma tsent_kept_save l x :
  (forall t, get_tx l (t_parent x) (t_id x) = Some t -> t_type t = TSent -> t_type x = TSent) ->
  tsent_kept l (save_tx l x).
Proof.
  intros Hx p i t Hg Ht. rewrite get_save_tx. destruct (tkey_eqb x p i) eqn:E; [|eauto].
  apply tkey_eqb_iff in E as [A B]. subst p i. exists x. split; [reflexivity|]. eapply Hx; eauto.
Qed.

Definition locked_kept (l l' : list orec) : Prop :=
  forall k m o', get_out l' k m = Some o' -> r_status o' = Locked ->
  exists o, get_out l k m = Some o /\ r_status o = Locked /\ r_root o' = r_root o /\ r_tx o' = r_tx o.

Lemma held_pres w w' :
  Held w -> locked_kept (w_outs w) (w_outs w') -> tsent_kept (w_log w) (w_log w') -> Held w'.
Proof.
  intros Hh Hl Ht k m o' Hg Hs. destruct (Hl k m o' Hg Hs) as (o & Hg0 & Hs0 & Hr & Htx).
  destruct (Hh k m o Hg0 Hs0) as (id & t & A & B & C).
  destruct (Ht _ _ _ B C) as (t' & B' & C'). exists id, t'. rewrite Hr, Htx. auto.
Qed.

(** records keep their account and coinbase flag and do not become Unconfirmed; a record under
    a key not held before satisfies [P] *)
Definition kept (o o' : orec) : Prop :=
  r_root o' = r_root o /\ r_cb o' = r_cb o /\ (r_status o' = Unconfirmed -> r_status o = Unconfirmed).
Definition evolves_or (P : kid -> option N -> orec -> Prop) (l l' : list orec) : Prop :=
  forall k m o', get_out l' k m = Some o' ->
    (exists o, get_out l k m = Some o /\ kept o o') \/ P k m o'.

Lemma kept_refl o : kept o o.
Proof. unfold kept. auto. Qed.

Lemma evolves_refl P l : evolves_or P l l.
Proof. intros k m o' H. left. exists o'. split; [exact H|apply kept_refl]. Qed.

Lemma ctxin_pres P w w' :
  CtxIn w -> w_ctxs w' = w_ctxs w -> child_le w w' ->
  evolves_or P (w_outs w) (w_outs w') ->
  (forall c k m v o', In c (w_ctxs w) -> In (k, m, v) (c_ins c) -> P k m o' ->
     r_root o' = c_parent c /\ ~ cand o') ->
  CtxIn w'.
Proof.
  intros Hi Hc Hle He HP c k m v Hin1 Hin2. rewrite Hc in Hin1.
  destruct (Hi c k m v Hin1 Hin2) as [Hb Hrec]. split; [eapply key_below_mono; eauto|].
  intros o' Hg. destruct (He k m o' Hg) as [(o & Hg0 & Hr & Hcb & Hst)|Hp].
  - destruct (Hrec o Hg0) as [A B]. split; [congruence|].
    intros [C D]. apply B. split; [congruence|auto].
  - eapply HP; eauto.
Qed.

Lemma ctxout_pres P w w' :
  CtxOut w -> w_ctxs w' = w_ctxs w ->
  evolves_or P (w_outs w) (w_outs w') ->
  (forall c k m v o', In c (w_ctxs w) -> In (k, m, v) (c_outs c) -> P k None o' ->
     r_root o' = c_parent c /\ r_cb o' = false) ->
  CtxOut w'.
Proof.
  intros Ho Hc He HP c k m v o' Hin1 Hin2 Hg. rewrite Hc in Hin1.
  destruct (He k None o' Hg) as [(o & Hg0 & Hr & Hcb & Hst)|Hp].
  - destruct (Ho c k m v o Hin1 Hin2 Hg0) as [A B]. split; congruence.
  - eapply HP; eauto.
Qed.

Lemma ctxoo_same w w' : CtxOO w -> w_ctxs w' = w_ctxs w -> CtxOO w'.
Proof. intros H E. unfold CtxOO. rewrite E. exact H. Qed.
Lemma ctxoi_same w w' : CtxOI w -> w_ctxs w' = w_ctxs w -> CtxOI w'.
Proof. intros H E. unfold CtxOI. rewrite E. exact H. Qed.

Lemma lookup_update_ge m k v k' : lookup m k <= v -> lookup m k' <= lookup (update m k v) k'.
Proof. intros H. rewrite lookup_update. destruct (k =? k') eqn:E; [|lia]. apply N.eqb_eq in E. subst. exact H. Qed.

(** saving a new entry under the account's next id *)
Lemma log_new_entry w x :
  LogSorted w -> LogBelow w -> t_id x = lookup (w_logid w) (t_parent x) ->
  StronglySorted tlt (save_tx (w_log w) x)
  /\ (forall t, In t (save_tx (w_log w) x) ->
        t_id t < lookup (update (w_logid w) (t_parent x) (t_id x + 1)) (t_parent t))
  /\ tsent_kept (w_log w) (save_tx (w_log w) x).
Proof.
  intros Hs Hb Hid. split; [apply sorted_save_tx; exact Hs|]. split.
  - intros t Hin. rewrite lookup_update. apply in_save_tx in Hin as [->|Hin].
    + rewrite N.eqb_refl. lia.
    + specialize (Hb t Hin). destruct (t_parent x =? t_parent t) eqn:E; [|exact Hb].
      apply N.eqb_eq in E. rewrite <- E in Hb. lia.
  - apply tsent_kept_save. intros t Hg _. exfalso.
    rewrite Hid in Hg. rewrite below_fresh_id in Hg by exact Hb. discriminate.
Qed.

(** replacing an entry by one with the same key *)
Lemma log_same_key w x t0 :
  LogSorted w -> LogBelow w -> In t0 (w_log w) -> t_parent x = t_parent t0 -> t_id x = t_id t0 ->
  StronglySorted tlt (save_tx (w_log w) x)
  /\ (forall t, In t (save_tx (w_log w) x) -> t_id t < lookup (w_logid w) (t_parent t)).
Proof.
  intros Hs Hb Hin Hp Hi. split; [apply sorted_save_tx; exact Hs|].
  intros t Ht. apply in_save_tx in Ht as [->|Ht]; [|apply Hb; exact Ht].
  rewrite Hp, Hi. apply Hb. exact Hin.
Qed.

Lemma core_pres P w w' :
  Core w -> w_ctxs w' = w_ctxs w -> child_le w w' ->
  evolves_or P (w_outs w) (w_outs w') ->
  (forall c k m v o', In c (w_ctxs w) -> In (k, m, v) (c_ins c) -> P k m o' ->
     r_root o' = c_parent c /\ ~ cand o') ->
  (forall c k m v o', In c (w_ctxs w) -> In (k, m, v) (c_outs c) -> P k None o' ->
     r_root o' = c_parent c /\ r_cb o' = false) ->
  locked_kept (w_outs w) (w_outs w') ->
  LogSorted w' -> LogBelow w' -> tsent_kept (w_log w) (w_log w') ->
  Core w'.
Proof.
  intros [Hs Hb Hh Hi Ho Hoo Hoi] Hc Hle He HPi HPo Hl Hs' Hb' Ht. constructor.
  - exact Hs'.
  - exact Hb'.
  - eapply held_pres; eauto.
  - eapply ctxin_pres; eauto.
  - eapply ctxout_pres; eauto.
  - eapply ctxoo_same; eauto.
  - eapply ctxoi_same; eauto.
Qed.

(** a record saved under a key that no record had: everything else is as before *)
Lemma evolves_save_new l x (P : kid -> option N -> orec -> Prop) :
  P (r_key x) (r_mmr x) x -> evolves_or P l (save_out l x).
Proof.
  intros HP k m o' Hg. rewrite get_save in Hg. destruct (okey_eqb x k m) eqn:E.
  - inversion Hg; subst o'. apply okey_eqb_iff in E as [A B]. subst k m. right. exact HP.
  - left. exists o'. split; [exact Hg|apply kept_refl].
Qed.

Lemma locked_kept_save_unlocked l x : r_status x <> Locked -> locked_kept l (save_out l x).
Proof.
  intros Hx k m o' Hg Hs. rewrite get_save in Hg. destruct (okey_eqb x k m).
  - inversion Hg; subst o'. contradiction.
  - exists o'. auto.
Qed.

(* ------------------------------------------------------------------ receive *)
Lemma core_counters w w' :
  Core w -> w_outs w' = w_outs w -> w_log w' = w_log w -> w_ctxs w' = w_ctxs w ->
  w_logid w' = w_logid w -> child_le w w' -> Core w'.
Proof.
  intros [Hs Hb Hh Hi Ho Hoo Hoi] E1 E2 E3 E4 Hle. constructor.
  - unfold LogSorted. rewrite E2. exact Hs.
  - unfold LogBelow. rewrite E2, E4. exact Hb.
  - unfold Held. rewrite E1, E2. exact Hh.
  - intros c k m v Hc Hk. rewrite E3 in Hc. destruct (Hi c k m v Hc Hk) as [A B].
    split; [eapply key_below_mono; eauto|]. rewrite E1. exact B.
  - unfold CtxOut. rewrite E1, E3. exact Ho.
  - unfold CtxOO. rewrite E3. exact Hoo.
  - unfold CtxOI. rewrite E3. exact Hoi.
Qed.

(** ... also when some contexts have gone: every condition on contexts is universal *)
Lemma core_ctx_subset w w' :
  Core w -> w_outs w' = w_outs w -> w_log w' = w_log w ->
  (forall c, In c (w_ctxs w') -> In c (w_ctxs w)) ->
  w_logid w' = w_logid w -> child_le w w' -> Core w'.
Proof.
  intros [Hs Hb Hh Hi Ho Hoo Hoi] E1 E2 E3 E4 Hle. constructor.
  - unfold LogSorted. rewrite E2. exact Hs.
  - unfold LogBelow. rewrite E2, E4. exact Hb.
  - unfold Held. rewrite E1, E2. exact Hh.
  - intros c k m v Hc Hk. apply E3 in Hc. destruct (Hi c k m v Hc Hk) as [A B].
    split; [eapply key_below_mono; eauto|]. rewrite E1. exact B.
  - intros c k m v o Hc Hk Hg. rewrite E1 in Hg. apply E3 in Hc. eapply Ho; eauto.
  - intros c c' k m v m' v' Hc Hc'. apply E3 in Hc. apply E3 in Hc'. eapply Hoo; eauto.
  - intros c c' k m v v' Hc Hc'. apply E3 in Hc. apply E3 in Hc'. eapply Hoi; eauto.
Qed.

Lemma receive_core w s a t d c :
  Fresh w -> Core w -> Core (fst (receive w s a t d c)).
Proof.
  intros Hf Hc. unfold receive.
  destruct (check_ttl w t) as [[]|e|q]; cbn [fst]; try exact Hc.
  destruct (existsb _ _); cbn [fst]; [exact Hc|].
  destruct (next_child w) as [w1 key] eqn:En.
  assert (Hle : child_le w w1) by (intros x; eapply child_mono_next; eauto).
  apply next_child_spec in En as (Hkey & Hb1 & _ & Ho1 & Hl1 & Hc1 & Hli1 & _).
  destruct c; cbn [negb]; [|cbn [fst]; now apply (core_counters w w1)].
  match goal with |- context [next_log_id w1 ?p] => set (parent := p) end.
  unfold next_log_id. cbn zeta. cbn [fst].
  match goal with |- Core (with_log (with_outs _ (save_out _ ?o)) (save_tx _ ?x)) =>
    set (onew := o); set (tnew := x) end.
  cbn [w_outs w_log with_logid].
  destruct Hc as [Hs Hb Hh Hi Ho Hoo Hoi].
  assert (Hs1 : LogSorted w1) by (unfold LogSorted; rewrite Hl1; exact Hs).
  assert (Hbl1 : LogBelow w1) by (unfold LogBelow; rewrite Hl1, Hli1; exact Hb).
  destruct (log_new_entry w1 tnew Hs1 Hbl1 eq_refl) as (A1 & A2 & A3).
  apply (core_pres (fun k m o' => k = key) w); [constructor; assumption|..].
  - cbn. exact Hc1.
  - intros x. cbn. apply Hle.
  - cbn [w_outs with_log with_outs]. rewrite Ho1. apply evolves_save_new. reflexivity.
  - intros c0 k m v o' Hin1 Hin2 ->. exfalso.
    destruct (Hi c0 _ m v Hin1 Hin2) as [Hkb _]. unfold key_below in Hkb. rewrite Hkey in Hkb. cbn in Hkb. lia.
  - intros c0 k m v o' Hin1 Hin2 ->. exfalso.
    destruct Hf as [_ Hfc]. specialize (Hfc c0 _ m v Hin1 Hin2).
    unfold key_below in Hfc. rewrite Hkey in Hfc. cbn in Hfc. lia.
  - cbn [w_outs with_log with_outs]. rewrite Ho1. apply locked_kept_save_unlocked. cbn. discriminate.
  - unfold LogSorted. cbn [w_log with_log]. exact A1.
  - unfold LogBelow. cbn [w_log w_logid with_log with_outs with_logid]. exact A2.
  - cbn [w_log with_log]. rewrite <- Hl1. exact A3.
Qed.

(* ------------------------------------------------------------------ build_coinbase *)
Lemma coinbase_core w f h key :
  Fresh w -> Core w -> Core (fst (coinbase w f h key)).
Proof.
  intros Hf Hc. unfold coinbase.
  set (reuse := match key with Some k0 => _ | None => None end).
  destruct reuse as [kr|] eqn:Er; cbn [fst].
  - (* the caller named a still-unconfirmed coinbase candidate: it is replaced *)
    assert (Hold : exists old, get_out (w_outs w) kr None = Some old /\ cand old).
    { unfold reuse in Er. destruct key as [k0|]; [|discriminate].
      destruct (get_out (w_outs w) k0 None) as [o0|] eqn:Eg; [|discriminate].
      destruct (r_cb o0 && status_eqb (r_status o0) Unconfirmed) eqn:Ec; [|discriminate].
      inversion Er; subst k0. exists o0. split; [exact Eg|].
      apply andb_true_iff in Ec as [A B]. split; [exact A|]. destruct (r_status o0); try discriminate; reflexivity. }
    destruct Hold as (old & Hgo & Hcand).
    pose proof Hc as [Hs Hb Hh Hi Ho Hoo Hoi].
    apply (core_pres (fun k m o' => k = kr /\ m = None) w); [exact Hc|reflexivity|..].
    + intros x. cbn. lia.
    + cbn [w_outs with_outs]. apply evolves_save_new. split; reflexivity.
    + intros c0 k m v o' Hin1 Hin2 [-> ->]. exfalso.
      destruct (Hi c0 _ _ v Hin1 Hin2) as [_ Hrec]. destruct (Hrec old Hgo) as [_ Hn]. contradiction.
    + intros c0 k m v o' Hin1 Hin2 [-> _]. exfalso.
      destruct (Ho c0 _ m v old Hin1 Hin2 Hgo) as [_ Hcb]. destruct Hcand as [Hcb' _]. congruence.
    + cbn [w_outs with_outs]. apply locked_kept_save_unlocked. cbn. discriminate.
    + exact Hs.
    + exact Hb.
    + apply tsent_kept_refl.
  - destruct (next_child w) as [w1 k1] eqn:En. cbn [fst].
    assert (Hle : child_le w w1) by (intros x; eapply child_mono_next; eauto).
    apply next_child_spec in En as (Hkey & Hb1 & _ & Ho1 & Hl1 & Hc1 & Hli1 & _).
    pose proof Hc as [Hs Hb Hh Hi Ho Hoo Hoi].
    apply (core_pres (fun k m o' => k = k1) w); [exact Hc|exact Hc1|exact Hle|..].
    + cbn [w_outs with_outs]. rewrite Ho1. apply evolves_save_new. reflexivity.
    + intros c0 k m v o' Hin1 Hin2 ->. exfalso.
      destruct (Hi c0 _ m v Hin1 Hin2) as [Hkb _]. unfold key_below in Hkb. rewrite Hkey in Hkb. cbn in Hkb. lia.
    + intros c0 k m v o' Hin1 Hin2 ->. exfalso.
      destruct Hf as [_ Hfc]. specialize (Hfc c0 _ m v Hin1 Hin2).
      unfold key_below in Hfc. rewrite Hkey in Hfc. cbn in Hfc. lia.
    + cbn [w_outs with_outs]. rewrite Ho1. apply locked_kept_save_unlocked. cbn. discriminate.
    + unfold LogSorted. cbn. rewrite Hl1. exact Hs.
    + unfold LogBelow. cbn. rewrite Hl1, Hli1. exact Hb.
    + cbn. rewrite Hl1. apply tsent_kept_refl.
Qed.

Lemma set_active_core w a : Core w -> Core (with_active w a).
Proof. intros [Hs Hb Hh Hi Ho Hoo Hoi]. constructor; assumption. Qed.

(* ------------------------------------------------------------------ what selection puts into a context *)
Lemma index_from_in {A} : forall (l : list A) n i x,
  In (i, x) (index_from n l) -> n <= i /\ nth_error l (N.to_nat (i - n)) = Some x.
Proof.
  induction l as [|a r IH]; intros n i x Hin; cbn [index_from] in Hin; [contradiction|].
  destruct Hin as [Heq|Hin].
  - inversion Heq; subst. split; [lia|]. replace (N.to_nat (i - i)) with O by lia. reflexivity.
  - apply IH in Hin as [Hle Hn]. split; [lia|].
    replace (N.to_nat (i - n)) with (S (N.to_nat (i - (n + 1)))) by lia. exact Hn.
Qed.

Lemma sel_view_in w s :
  In s (sel_view w) -> exists r, nth_out w (o_key s) = Some r /\ s = to_sel (o_key s) r /\ In r (w_outs w).
Proof.
  unfold sel_view. intros Hin. apply in_map_iff in Hin as ([i r] & Hs & Hin). cbn [fst snd] in Hs.
  apply index_from_in in Hin as [_ Hn]. rewrite N.sub_0_r in Hn.
  exists r. subst s. cbn [o_key to_sel]. unfold nth_out. split; [exact Hn|]. split; [reflexivity|].
  eapply nth_error_In; eauto.
Qed.

Lemma ctx_inputs_spec w p b :
  WF w -> Fresh w -> build_send (sel_view w) p = Ok b ->
  forall k m v, In (k, m, v) (ctx_inputs w (b_inputs b)) ->
  exists r, get_out (w_outs w) k m = Some r /\ r_root r = p_parent p /\ ~ cand r /\ key_below w k.
Proof.
  intros Hwf Hf Hb k m v Hin.
  destruct (build_send_conserves _ _ _ Hb) as (Hsel & _).
  unfold ctx_inputs in Hin. apply in_flat_map in Hin as (s & Hs & Hin).
  destruct (Hsel s Hs) as (Hsv & Hroot & Hel).
  destruct (sel_view_in w s Hsv) as (r & Hn & Heq & Hinr).
  rewrite Hn in Hin. destruct Hin as [Hin|[]]. inversion Hin; subst k m v.
  exists r. split; [apply get_out_of_in; assumption|].
  split; [rewrite Heq in Hroot; exact Hroot|]. split.
  - intros [Hcb Hst]. apply eligible_sound in Hel as (_ & _ & _ & _ & Hu).
    rewrite Heq in Hu. cbn [o_status o_cb to_sel] in Hu. destruct (Hu Hst) as [Hcb' _]. congruence.
  - destruct Hf as [Hfo _]. apply Hfo. exact Hinr.
Qed.

(** keys drawn by alloc_change were not drawn before, and are plain (no mmr index) *)
Lemma alloc_change_new : forall chg w w' l,
  alloc_change w chg = (w', l) ->
  forall k m v, In (k, m, v) l -> ~ key_below w k /\ m = None.
Proof.
  induction chg as [|v0 r IH]; intros w w' l H k m v Hin; cbn [alloc_change] in H.
  - inversion H; subst. contradiction.
  - destruct (next_child w) as [w1 k1] eqn:En. destruct (alloc_change w1 r) as [w2 l2] eqn:Ea.
    inversion H; subst; clear H. destruct Hin as [Heq|Hin].
    + inversion Heq; subst. apply next_child_spec in En as (-> & _). split; [|reflexivity].
      unfold key_below. cbn. lia.
    + destruct (IH _ _ _ Ea _ _ _ Hin) as [Hnb Hm]. split; [|exact Hm].
      intros Hkb. apply Hnb. eapply key_below_mono; [|exact Hkb]. intros x. eapply child_mono_next; eauto.
Qed.

(* ------------------------------------------------------------------ storing / dropping a context *)
Lemma in_save_ctx w c c0 :
  In c0 (w_ctxs (save_ctx w c)) -> c0 = c \/ (In c0 (w_ctxs w) /\ c_slate c0 <> c_slate c).
Proof.
  cbn [w_ctxs save_ctx with_ctxs]. intros [<-|Hin]; [now left|].
  apply filter_In in Hin as [Hin Hne]. right. split; [exact Hin|]. lia.
Qed.

Lemma core_save_ctx w c :
  Core w ->
  (forall k m v, In (k, m, v) (c_ins c) ->
     key_below w k /\ forall o, get_out (w_outs w) k m = Some o -> r_root o = c_parent c /\ ~ cand o) ->
  (forall k m v o, In (k, m, v) (c_outs c) -> get_out (w_outs w) k None = Some o ->
     r_root o = c_parent c /\ r_cb o = false) ->
  (forall c' k m v m' v', In c' (w_ctxs w) -> c_slate c' <> c_slate c ->
     In (k, m, v) (c_outs c) -> In (k, m', v') (c_outs c') -> c_parent c = c_parent c') ->
  (forall c' k m v v', In c' (w_ctxs w) -> c_slate c' <> c_slate c ->
     In (k, m, v) (c_outs c) -> In (k, None, v') (c_ins c') -> c_parent c = c_parent c') ->
  (forall c' k m v v', In c' (w_ctxs w) -> c_slate c' <> c_slate c ->
     In (k, m, v) (c_outs c') -> In (k, None, v') (c_ins c) -> c_parent c' = c_parent c) ->
  Core (save_ctx w c).
Proof.
  intros [Hs Hb Hh Hi Ho Hoo Hoi] Hin Hout Hoo1 Hoi1 Hoi2. constructor.
  - exact Hs.
  - exact Hb.
  - exact Hh.
  - intros c0 k m v Hc0 Hk. apply in_save_ctx in Hc0 as [->|[Hc0 _]].
    + apply Hin in Hk. exact Hk.
    + exact (Hi c0 k m v Hc0 Hk).
  - intros c0 k m v o Hc0 Hk Hg. apply in_save_ctx in Hc0 as [->|[Hc0 _]].
    + eapply Hout; eauto.
    + exact (Ho c0 k m v o Hc0 Hk Hg).
  - intros c1 c2 k m v m' v' H1 H2 K1 K2.
    apply in_save_ctx in H1 as [->|[H1 N1]]; apply in_save_ctx in H2 as [->|[H2 N2]].
    + reflexivity.
    + eapply Hoo1; eauto.
    + symmetry. eapply Hoo1; eauto.
    + eapply Hoo; eauto.
  - intros c1 c2 k m v v' H1 H2 K1 K2.
    apply in_save_ctx in H1 as [->|[H1 N1]]; apply in_save_ctx in H2 as [->|[H2 N2]].
    + reflexivity.
    + eapply Hoi1; eauto.
    + eapply Hoi2; eauto.
    + eapply Hoi; eauto.
Qed.

Lemma core_del_ctx w s : Core w -> Core (del_ctx w s).
Proof.
  intros [Hs Hb Hh Hi Ho Hoo Hoi].
  assert (Hsub : forall c, In c (w_ctxs (del_ctx w s)) -> In c (w_ctxs w)).
  { intros c Hin. cbn [w_ctxs del_ctx with_ctxs] in Hin. apply filter_In in Hin as [Hin _]. exact Hin. }
  constructor; try assumption.
  - intros c k m v Hc Hk. exact (Hi c k m v (Hsub c Hc) Hk).
  - intros c k m v o Hc Hk Hg. exact (Ho c k m v o (Hsub c Hc) Hk Hg).
  - intros c1 c2 k m v m' v' H1 H2. exact (Hoo c1 c2 k m v m' v' (Hsub _ H1) (Hsub _ H2)).
  - intros c1 c2 k m v v' H1 H2. exact (Hoi c1 c2 k m v v' (Hsub _ H1) (Hsub _ H2)).
Qed.


(** the context built by a selection over the current table, with freshly drawn change keys *)
Lemma core_new_ctx w w1 slate p b chg amount fee late :
  Fresh w -> WF w -> Core w ->
  build_send (sel_view w) p = Ok b -> alloc_change w (b_changes b) = (w1, chg) ->
  Core (save_ctx w1 (mkC slate (p_parent p) (ctx_inputs w (b_inputs b)) chg amount fee late)).
Proof.
  intros Hf Hwf Hc Hb Ha.
  pose proof (alloc_change_outs _ _ _ _ Ha) as (E1 & E2 & E3 & _ & E4 & _).
  destruct (alloc_change_fresh _ _ _ _ Hf Ha) as (_ & Hle & _).
  pose proof (alloc_change_new _ _ _ _ Ha) as Hnew.
  pose proof (ctx_inputs_spec w p b Hwf Hf Hb) as Hins.
  assert (Hc1 : Core w1) by (eapply core_counters; eauto).
  assert (Hnorec : forall k m v o, In (k, m, v) chg -> get_out (w_outs w) k None = Some o -> False).
  { intros k m v o Hk Hg. destruct (Hnew k m v Hk) as [Hnb _]. apply Hnb.
    apply get_out_in in Hg as [Hin [Hkk _]]. destruct Hf as [Hfo _]. rewrite <- Hkk. apply Hfo. exact Hin. }
  destruct Hc as [Hs Hbl Hh Hi Ho Hoo Hoi].
  apply core_save_ctx; [exact Hc1|..]; cbn [c_ins c_outs c_parent c_slate].
  - intros k m v Hk. destruct (Hins k m v Hk) as (r & Hg & Hr & Hnc & Hkb).
    split; [eapply key_below_mono; eauto|]. intros o Hgo. rewrite E1, Hg in Hgo. inversion Hgo; subst o. auto.
  - intros k m v o Hk Hg. exfalso. rewrite E1 in Hg. eapply Hnorec; eauto.
  - intros c' k m v m' v' Hc' _ Hk Hk'. exfalso. rewrite E3 in Hc'.
    destruct (Hnew k m v Hk) as [Hnb _]. apply Hnb. destruct Hf as [_ Hfc]. eapply Hfc; eauto.
  - intros c' k m v v' Hc' _ Hk Hk'. exfalso. rewrite E3 in Hc'.
    destruct (Hnew k m v Hk) as [Hnb _]. apply Hnb. destruct (Hi c' k None v' Hc' Hk') as [Hkb _]. exact Hkb.
  - intros c' k m v v' Hc' _ Hk Hk'. rewrite E3 in Hc'.
    destruct (Hins k None v' Hk') as (r & Hg & Hr & _).
    destruct (Ho c' k m v r Hc' Hk Hg) as [A _]. congruence.
Qed.

(* ------------------------------------------------------------------ init_send_tx *)
Lemma init_send_core w s src p late :
  Fresh w -> WF w -> Core w -> Core (fst (init_send w s src p late)).
Proof.
  intros Hf Hwf Hc. unfold init_send. destruct late.
  - destruct (select_coins_and_fee _ _) as [[[[? ?] ?] ?]|e|q]; cbn [fst]; try exact Hc.
    apply core_save_ctx; [exact Hc|..]; cbn [c_ins c_outs]; intros; contradiction.
  - match goal with |- context [build_send (sel_view w) ?pp] => set (p' := pp) end.
    destruct (build_send (sel_view w) p') as [b|e|q] eqn:Eb; cbn [fst]; try exact Hc.
    destruct (alloc_change w (b_changes b)) as [w1 chg] eqn:Ea. cbn [fst].
    exact (core_new_ctx w w1 s p' b chg (b_amount b) (Some (b_fee b)) None Hf Hwf Hc Eb Ea).
Qed.

(* ------------------------------------------------------------------ tx_lock_outputs *)
Lemma core_pres2 P w w' :
  Core w -> w_ctxs w' = w_ctxs w -> child_le w w' ->
  evolves_or P (w_outs w) (w_outs w') ->
  (forall c k m v o', In c (w_ctxs w) -> In (k, m, v) (c_ins c) -> P k m o' ->
     r_root o' = c_parent c /\ ~ cand o') ->
  (forall c k m v o', In c (w_ctxs w) -> In (k, m, v) (c_outs c) -> P k None o' ->
     r_root o' = c_parent c /\ r_cb o' = false) ->
  Held w' -> LogSorted w' -> LogBelow w' ->
  Core w'.
Proof.
  intros [Hs Hb Hh Hi Ho Hoo Hoi] Hc Hle He HPi HPo Hh' Hs' Hb'. constructor.
  - exact Hs'.
  - exact Hb'.
  - exact Hh'.
  - eapply ctxin_pres; eauto.
  - eapply ctxout_pres; eauto.
  - eapply ctxoo_same; eauto.
  - eapply ctxoi_same; eauto.
Qed.

Lemma add_change_char : forall chg outs parent id tip k m o',
  get_out (add_change outs chg parent id tip) k m = Some o' ->
  (m = None /\ (exists m0 v, In (k, m0, v) chg) /\ r_root o' = parent /\ r_cb o' = false
   /\ r_status o' = Unconfirmed)
  \/ get_out outs k m = Some o'.
Proof.
  induction chg as [|[[k0 m0] v0] r IH]; intros outs parent id tip k m o' Hg; cbn [add_change] in Hg;
    [right; exact Hg|].
  destruct (get_out outs k0 None) eqn:E0.
  { apply IH in Hg as [(A & (m1 & v1 & B) & C)|Hg]; [left|right; exact Hg].
    split; [exact A|]. split; [exists m1, v1; now right|exact C]. }
  apply IH in Hg as [(A & (m1 & v1 & B) & C)|Hg].
  - left. split; [exact A|]. split; [exists m1, v1; now right|exact C].
  - rewrite get_save in Hg.
    match type of Hg with (if okey_eqb ?x k m then _ else _) = _ => destruct (okey_eqb x k m) eqn:E end.
    + inversion Hg; subst o'. apply okey_eqb_iff in E as [E1 E2]. cbn in E1, E2. subst k m.
      left. split; [reflexivity|]. split; [exists m0, v0; now left|]. cbn. auto.
    + right. exact Hg.
Qed.

Lemma lock_fail_same w s t tip w1 r :
  lock w s t tip = (w1, r) -> r <> Ok tt -> w1 = w.
Proof.
  unfold lock, lock_tx; cbn [negb andb]. destruct (get_ctx w s) as [c|]; [|intros H; inversion H; auto].
  destruct (existsb _ _); [intros H; inversion H; auto|].
  unfold next_log_id. cbn zeta. cbn [w_outs with_logid].
  destruct (lock_inputs _ _ _ _) as [[outs1 deb]|e|q]; intros H; inversion H; subst; auto.
  intros Hn. exfalso. apply Hn. reflexivity.
Qed.

Lemma lock_logid w s t tip w1 c :
  get_ctx w s = Some c -> lock w s t tip = (w1, Ok tt) ->
  w_logid w1 = update (w_logid w) (c_parent c) (lookup (w_logid w) (c_parent c) + 1).
Proof.
  intros Hc. unfold lock, lock_tx; cbn [negb andb]. rewrite Hc.
  destruct (existsb _ _); [discriminate|].
  unfold next_log_id. cbn zeta. cbn [w_outs with_logid].
  destruct (lock_inputs _ _ _ _) as [[outs1 deb]|e|q]; intros H; inversion H; subst. reflexivity.
Qed.

Lemma lock_core w s t tip :
  Fresh w -> WF w -> Core w -> Core (fst (lock w s t tip)).
Proof.
  intros Hf Hwf Hc.
  destruct (lock w s t tip) as [w1 r] eqn:El. cbn [fst].
  assert (Hcases : r = Ok tt \/ r <> Ok tt).
  { destruct r as [[]|e|q]; [left; reflexivity|right; discriminate|right; discriminate]. }
  destruct Hcases as [->|Hne]; [|rewrite (lock_fail_same _ _ _ _ _ _ El Hne); exact Hc].
  destruct (get_ctx w s) as [c|] eqn:Ec.
  2:{ unfold lock, lock_tx in El. rewrite Ec in El. discriminate. }
  pose proof (lock_logid _ _ _ _ _ _ Ec El) as Hlid.
  destruct (lock_ok_fields _ _ _ _ _ _ Ec El) as (outs1 & deb & Hli & Hou & (tnew & Hlog & Htp & Hti & Htt & _) & Hcx & Hch & _).
  destruct (lock_inputs_spec _ _ _ _ _ _ Hli) as (H1 & H2 & _).
  set (id := lookup (w_logid w) (c_parent c)) in *.
  pose proof (get_ctx_in _ _ _ Ec) as Hcin.
  pose proof Hc as [Hs Hb Hh Hi Ho Hoo Hoi].
  assert (Hidx : t_id tnew = lookup (w_logid w) (t_parent tnew)) by (rewrite Hti, Htp; reflexivity).
  destruct (log_new_entry w tnew Hs Hb Hidx) as (A1 & A2 & A3).
  (* every record of the new table: a change output of c, a freshly locked input of c, or as before *)
  assert (Hchar : forall k m o', get_out (w_outs w1) k m = Some o' ->
            (m = None /\ (exists m0 v, In (k, m0, v) (c_outs c)) /\ r_root o' = c_parent c
             /\ r_cb o' = false /\ r_status o' = Unconfirmed)
            \/ (exists o0 v, In (k, m, v) (c_ins c) /\ get_out (w_outs w) k m = Some o0
                /\ o' = set_tx (set_status o0 Locked) (Some id))
            \/ ((forall v, ~ In (k, m, v) (c_ins c)) /\ get_out (w_outs w) k m = Some o')).
  { intros k m o' Hg. rewrite Hou in Hg. apply add_change_char in Hg as [Hl|Hg]; [left; exact Hl|right].
    destruct (classic_in (c_ins c) k m) as [[v Hin]|Hn].
    - left. destruct (H1 k m v Hin) as (o & o0 & B1 & _ & _ & B4 & B5).
      rewrite B1 in Hg. inversion Hg; subst o'. exists o0, v. auto.
    - right. split; [exact Hn|]. rewrite <- (H2 k m Hn). exact Hg. }
  apply (core_pres2 (fun k m o' => m = None /\ (exists m0 v, In (k, m0, v) (c_outs c))
                                    /\ r_root o' = c_parent c /\ r_cb o' = false) w);
    [exact Hc|exact Hcx|intros x; rewrite Hch; lia|..].
  - intros k m o' Hg. destruct (Hchar k m o' Hg) as [(B1 & B2 & B3 & B4 & _)|[(o0 & v & B1 & B2 & ->)|[_ B2]]].
    + right. auto.
    + left. exists o0. split; [exact B2|]. destruct o0; cbn. repeat split; auto. discriminate.
    + left. exists o'. split; [exact B2|apply kept_refl].
  - intros c0 k m v o' Hc0 Hk (-> & (m0 & v0 & Hko) & Hr & Hcb). split.
    + rewrite Hr. eapply Hoi; eauto.
    + intros [Hcb' _]. congruence.
  - intros c0 k m v o' Hc0 Hk (_ & (m0 & v0 & Hko) & Hr & Hcb). split; [|exact Hcb].
    rewrite Hr. eapply Hoo; eauto.
  - (* Held *)
    intros k m o' Hg Hst. destruct (Hchar k m o' Hg) as [(_ & _ & _ & _ & B5)|[(o0 & v & B1 & B2 & ->)|[_ B2]]].
    + congruence.
    + exists id, tnew. destruct (Hi c k m v Hcin B1) as [_ Hrec]. destruct (Hrec o0 B2) as [Hroot _].
      split; [destruct o0; reflexivity|]. split; [|exact Htt].
      rewrite Hlog, get_save_tx.
      assert (E : tkey_eqb tnew (r_root (set_tx (set_status o0 Locked) (Some id))) id = true).
      { apply tkey_eqb_iff. split; [destruct o0; cbn in *; congruence|exact Hti]. }
      now rewrite E.
    + destruct (Hh k m o' B2 Hst) as (id' & t' & C1 & C2 & C3).
      destruct (A3 _ _ _ C2 C3) as (t'' & D1 & D2). exists id', t''. rewrite Hlog. auto.
  - unfold LogSorted. rewrite Hlog. exact A1.
  - unfold LogBelow. rewrite Hlog, Hlid. rewrite <- Htp. fold id. rewrite <- Hti. exact A2.
Qed.

(* ------------------------------------------------------------------ cancel_tx *)
Lemma set_ttype_key t ty : t_parent (set_ttype t ty) = t_parent t /\ t_id (set_ttype t ty) = t_id t.
Proof. destruct t; cbn; auto. Qed.

Lemma cancel_core w id sl : WF w -> Core w -> Core (fst (cancel w id sl)).
Proof.
  intros Hwf Hc. unfold cancel.
  destruct (retrieve_txs w id sl (w_active w)) as [|t [|t2 r]] eqn:Er; cbn [fst]; try exact Hc.
  destruct (negb _); cbn [fst]; [exact Hc|]. destruct (t_conf t); cbn [fst]; [exact Hc|].
  assert (Hin : In t (w_log w) /\ t_parent t = w_active w).
  { assert (H : In t (retrieve_txs w id sl (w_active w))) by (rewrite Er; now left).
    unfold retrieve_txs in H. apply filter_In in H as [H1 H2]. split; [exact H1|].
    apply andb_true_iff in H2 as [H2 _]. apply andb_true_iff in H2 as [H2 _]. lia. }
  destruct Hin as [Hin Hpar].
  set (x := set_ttype t (cancelled_type (t_type t))).
  destruct (set_ttype_key t (cancelled_type (t_type t))) as [Kp Ki]. fold x in Kp, Ki.
  pose proof Hc as [Hs Hb Hh Hi Ho Hoo Hoi].
  destruct (log_same_key w x t Hs Hb Hin Kp Ki) as [A1 A2].
  assert (Hget : forall k m o', get_out (cancel_outputs (w_outs w) (w_active w) (t_id t)) k m = Some o' ->
            exists o, get_out (w_outs w) k m = Some o /\ cancelled_rec (w_active w) (t_id t) o = Some o').
  { intros k m o' Hg. rewrite cancel_outputs_get in Hg by exact Hwf.
    destruct (get_out (w_outs w) k m) as [o|]; [|discriminate]. exists o. auto. }
  apply (core_pres2 (fun _ _ _ => False) w); [exact Hc|reflexivity|intros a; cbn; lia|..].
  - cbn [w_outs with_log with_outs]. intros k m o' Hg. left.
    destruct (Hget k m o' Hg) as (o & Hg0 & Hcr). exists o. split; [exact Hg0|].
    unfold cancelled_rec in Hcr. destruct (cancel_cond _ _ o).
    + destruct (r_status o) eqn:Es; inversion Hcr; subst o'; try apply kept_refl.
      destruct o; cbn in *. unfold kept; cbn. repeat split; auto. discriminate.
    + inversion Hcr; subst. apply kept_refl.
  - intros; contradiction.
  - intros; contradiction.
  - unfold Held. cbn [w_outs w_log with_log with_outs]. intros k m o' Hg Hst.
    destruct (Hget k m o' Hg) as (o & Hg0 & Hcr).
    unfold cancelled_rec in Hcr. destruct (cancel_cond (w_active w) (t_id t) o) eqn:Ecc.
    + destruct (r_status o) eqn:Es; inversion Hcr; subst o'; try congruence.
      destruct o; cbn in *. discriminate.
    + inversion Hcr; subst o'. destruct (Hh k m o Hg0 Hst) as (i & te & C1 & C2 & C3).
      exists i, te. split; [exact C1|]. split; [|exact C3]. rewrite get_save_tx.
      destruct (tkey_eqb x (r_root o) i) eqn:E; [|exact C2]. exfalso.
      apply tkey_eqb_iff in E as [E1 E2]. rewrite Kp in E1. rewrite Ki in E2.
      unfold cancel_cond in Ecc. rewrite C1, Hst in Ecc. cbn [optN_eqb status_eqb negb] in Ecc.
      rewrite <- E1, Hpar, N.eqb_refl in Ecc. rewrite <- E2, N.eqb_refl in Ecc. discriminate.
  - unfold LogSorted. cbn [w_log with_log]. exact A1.
  - unfold LogBelow. cbn [w_log w_logid with_log with_outs]. exact A2.
Qed.

Lemma expire_core w tip : WF w -> Core w -> Core (expire w tip) /\ WF (expire w tip).
Proof.
  unfold expire. generalize (filter (fun t => (t_parent t =? w_active w) && expirable t) (w_log w)).
  intros l. revert w. induction l as [|t r IH]; intros w Hwf Hc; cbn [fold_left]; [split; assumption|].
  assert (H : Core (expire_one tip w t) /\ WF (expire_one tip w t)).
  { unfold expire_one. destruct (t_ttl t); [|split; assumption]. destruct (_ <=? _); [|split; assumption].
    split; [apply cancel_core; assumption|].
    pose proof (step_wf w (OpCancel (Some (t_id t)) None) Hwf) as Hw. cbn [step] in Hw.
    destruct (cancel w (Some (t_id t)) None); exact Hw. }
  destruct H as [H1 H2]. apply IH; assumption.
Qed.

(* ------------------------------------------------------------------ refresh *)
(** the two log writes inside one iteration of apply_api_outputs *)
Definition stage1 (parent : N) (w : wallet) (o : orec) : wallet * orec :=
  if r_cb o && status_eqb (r_status o) Unconfirmed then
    let '(w', id) := next_log_id w parent in
    let t := mkT parent id None TCoinbase true (r_value o) 0 None None 0 1 true false in
    (with_log w' (save_tx (w_log w') t), set_tx o (Some id))
  else (w, o).
Definition stage2 (parent : N) (w1 : wallet) (o1 : orec) : wallet :=
  if negb (r_cb o1) && (status_eqb (r_status o1) Unconfirmed || status_eqb (r_status o1) Reverted)
  then
    match find (fun t => optN_eqb (Some (t_id t)) (r_tx o1) && (t_parent t =? parent)) (w_log w1) with
    | Some t =>
      let t' := if ttype_eqb (t_type t) TReverted then set_ttype t TReceived else t in
      with_log w1 (save_tx (w_log w1) (set_conf t' true))
    | None => w1
    end
  else w1.

Lemma apply_one_eq parent tip p rev w q :
  apply_one parent tip p rev w q =
  match get_out (w_outs w) (r_key q) (r_mmr q) with
  | None => w
  | Some o =>
    match present_height p (r_key q) (r_mmr q) with
    | Some h =>
      let '(w1, o1) := stage1 parent w o in
      let w2 := stage2 parent w1 o1 in
      with_outs w2 (save_out (w_outs w2) (set_status (set_height o1 h) (mark_unspent (r_status o1))))
    | None =>
      let s' :=
        if negb (r_cb o) && match r_tx o with Some i => existsb (N.eqb i) rev | None => false end
        then mark_reverted (r_status o) else mark_spent (r_status o) in
      with_outs w (save_out (w_outs w) (set_status o s'))
    end
  end.
Proof. reflexivity. Qed.

Definition tsent_back (l l' : list trec) : Prop :=
  forall p i t', get_tx l' p i = Some t' -> t_type t' = TSent ->
  exists t, get_tx l p i = Some t /\ t_type t = TSent.
Lemma tsent_back_refl l : tsent_back l l.
Proof. intros p i t H1 H2. eauto. Qed.
Lemma tsent_back_trans l1 l2 l3 : tsent_back l1 l2 -> tsent_back l2 l3 -> tsent_back l1 l3.
Proof. intros A B p i t H1 H2. destruct (B p i t H1 H2) as (t' & H3 & H4). eauto. Qed.

(** what a log write inside the refresh loop preserves *)
Record log_step (w w' : wallet) : Prop := mkLS {
  ls_sorted : LogSorted w';
  ls_below : LogBelow w';
  ls_kept : tsent_kept (w_log w) (w_log w');
  ls_back : tsent_back (w_log w) (w_log w');
  ls_outs : w_outs w' = w_outs w;
  ls_ctxs : w_ctxs w' = w_ctxs w;
  ls_child : w_child w' = w_child w
}.

Lemma log_step_refl w : LogSorted w -> LogBelow w -> log_step w w.
Proof. intros A B. constructor; auto using tsent_kept_refl, tsent_back_refl. Qed.

Lemma log_step_trans w1 w2 w3 : log_step w1 w2 -> log_step w2 w3 -> log_step w1 w3.
Proof.
  intros [A1 A2 A3 A4 A5 A6 A7] [B1 B2 B3 B4 B5 B6 B7]. constructor; try assumption; try congruence.
  - eapply tsent_kept_trans; eauto.
  - eapply tsent_back_trans; eauto.
Qed.

Lemma stage1_step parent w o :
  LogSorted w -> LogBelow w ->
  log_step w (fst (stage1 parent w o))
  /\ r_root (snd (stage1 parent w o)) = r_root o /\ r_cb (snd (stage1 parent w o)) = r_cb o
  /\ r_status (snd (stage1 parent w o)) = r_status o
  /\ r_key (snd (stage1 parent w o)) = r_key o /\ r_mmr (snd (stage1 parent w o)) = r_mmr o
  /\ (r_status o = Locked -> snd (stage1 parent w o) = o).
Proof.
  intros Hs Hb. unfold stage1.
  destruct (r_cb o && status_eqb (r_status o) Unconfirmed) eqn:E.
  - unfold next_log_id. cbn zeta. cbn [fst snd].
    split; [|destruct o; cbn in *; repeat split; auto; intros ->; rewrite andb_false_r in E; discriminate].
    set (x := mkT parent (lookup (w_logid w) parent) None TCoinbase true (r_value o) 0 None None 0 1 true false).
    destruct (log_new_entry w x Hs Hb eq_refl) as (A1 & A2 & A3).
    constructor; cbn [w_log w_logid w_outs w_ctxs w_child with_log with_logid]; try reflexivity.
    + exact A1.
    + exact A2.
    + exact A3.
    + intros p i t' Hg Ht. rewrite get_save_tx in Hg. destruct (tkey_eqb x p i).
      * inversion Hg; subst t'. discriminate.
      * eauto.
  - cbn [fst snd]. split; [apply log_step_refl; assumption|]. repeat split; auto.
Qed.

Lemma stage2_step parent w1 o1 : LogSorted w1 -> LogBelow w1 -> log_step w1 (stage2 parent w1 o1).
Proof.
  intros Hs Hb. unfold stage2.
  destruct (negb (r_cb o1) && _); [|apply log_step_refl; assumption].
  destruct (find _ (w_log w1)) as [t|] eqn:Ef; [|apply log_step_refl; assumption].
  apply find_some in Ef as [Hin Hk].
  set (t' := if ttype_eqb (t_type t) TReverted then set_ttype t TReceived else t).
  set (x := set_conf t' true).
  assert (Kx : t_parent x = t_parent t /\ t_id x = t_id t).
  { unfold x, t'. destruct (ttype_eqb (t_type t) TReverted); destruct t; cbn; auto. }
  destruct Kx as [Kp Ki].
  assert (Kt : t_type x = TSent <-> t_type t = TSent).
  { unfold x, t'. destruct (ttype_eqb (t_type t) TReverted) eqn:E.
    - assert (Hr : t_type t = TReverted) by (destruct (t_type t); try discriminate; reflexivity).
      split; intros H0; [destruct t; cbn in H0; discriminate|congruence].
    - destruct t; cbn; tauto. }
  destruct (log_same_key w1 x t Hs Hb Hin Kp Ki) as [A1 A2].
  pose proof (sorted_get_tx _ _ Hs Hin) as Hgt.
  constructor; cbn [w_log w_logid w_outs w_ctxs w_child with_log]; try reflexivity.
  - exact A1.
  - exact A2.
  - apply tsent_kept_save. intros t0 Hg0 Ht0. rewrite Kp, Ki, Hgt in Hg0. inversion Hg0; subst t0.
    apply Kt. exact Ht0.
  - intros p i t0 Hg Ht0. rewrite get_save_tx in Hg. destruct (tkey_eqb x p i) eqn:E.
    + inversion Hg; subst t0. apply tkey_eqb_iff in E as [E1 E2]. rewrite Kp in E1. rewrite Ki in E2. subst p i.
      exists t. split; [exact Hgt|]. apply Kt. exact Ht0.
    + eauto.
Qed.

Definition rec_step (l l' : list orec) : Prop :=
  forall k m o', get_out l' k m = Some o' ->
  exists o, get_out l k m = Some o /\ kept o o'
    /\ (r_status o' = Locked -> r_status o = Locked /\ r_tx o' = r_tx o).

Lemma rec_step_refl l : rec_step l l.
Proof. intros k m o H. exists o. split; [exact H|]. split; [apply kept_refl|auto]. Qed.
Lemma rec_step_trans l1 l2 l3 : rec_step l1 l2 -> rec_step l2 l3 -> rec_step l1 l3.
Proof.
  intros A B k m o3 H3. destruct (B k m o3 H3) as (o2 & H2 & (K1 & K2 & K3) & L2).
  destruct (A k m o2 H2) as (o1 & H1 & (J1 & J2 & J3) & L1).
  exists o1. split; [exact H1|]. split; [unfold kept; repeat split; try congruence; auto|].
  intros Hl. destruct (L2 Hl) as [M1 M2]. destruct (L1 M1) as [N1 N2]. split; congruence.
Qed.

Lemma mark_unspent_cases s : mark_unspent s <> Unconfirmed /\ (mark_unspent s = Locked -> s = Locked).
Proof. destruct s; cbn; split; try discriminate; auto. Qed.
Lemma mark_spent_cases s : (mark_spent s = Unconfirmed -> s = Unconfirmed) /\ (mark_spent s = Locked -> False).
Proof. destruct s; cbn; split; try discriminate; auto. Qed.
Lemma mark_reverted_cases s :
  (mark_reverted s = Unconfirmed -> s = Unconfirmed) /\ (mark_reverted s = Locked -> s = Locked).
Proof. destruct s; cbn; split; try discriminate; auto. Qed.

Lemma apply_one_step parent tip p rev w q :
  LogSorted w -> LogBelow w ->
  let w' := apply_one parent tip p rev w q in
  LogSorted w' /\ LogBelow w' /\ tsent_kept (w_log w) (w_log w') /\ tsent_back (w_log w) (w_log w')
  /\ rec_step (w_outs w) (w_outs w').
Proof.
  intros Hs Hb. cbn zeta. rewrite apply_one_eq.
  destruct (get_out (w_outs w) (r_key q) (r_mmr q)) as [o|] eqn:Eg.
  2:{ repeat split; auto using tsent_kept_refl, tsent_back_refl, rec_step_refl. }
  pose proof (get_out_in _ _ _ _ Eg) as [_ [Hk Hm]].
  (* saving a record with o's key that keeps what must be kept *)
  assert (Hsave : forall l x, get_out l (r_key q) (r_mmr q) = Some o ->
            r_key x = r_key o -> r_mmr x = r_mmr o -> kept o x ->
            (r_status x = Locked -> r_status o = Locked /\ r_tx x = r_tx o) ->
            rec_step l (save_out l x)).
  { intros l x Hgl K1 K2 K3 K4 k m o' Hg. rewrite get_save in Hg. destruct (okey_eqb x k m) eqn:E.
    - inversion Hg; subst o'. apply okey_eqb_iff in E as [E1 E2].
      exists o. split; [rewrite <- E1, <- E2, K1, K2, Hk, Hm; exact Hgl|]. auto.
    - exists o'. split; [exact Hg|]. split; [apply kept_refl|auto]. }
  destruct (present_height p (r_key q) (r_mmr q)) as [h|].
  - destruct (stage1 parent w o) as [w1 o1] eqn:E1.
    pose proof (stage1_step parent w o Hs Hb) as (L1 & R1 & R2 & R3 & R4 & R5 & R6).
    rewrite E1 in L1, R1, R2, R3, R4, R5, R6. cbn [fst snd] in *.
    pose proof (stage2_step parent w1 o1 (ls_sorted _ _ L1) (ls_below _ _ L1)) as L2.
    pose proof (log_step_trans _ _ _ L1 L2) as [A1 A2 A3 A4 A5 A6 A7].
    cbn [w_log w_logid w_outs with_outs]. repeat split; try assumption.
    rewrite A5. apply Hsave; [exact Eg|destruct o1; cbn in *; congruence..| |].
    + unfold kept. destruct (mark_unspent_cases (r_status o1)) as [M1 M2].
      destruct o1; cbn in *. repeat split; try congruence. all: intros C; contradiction.
    + intros Hl. destruct (mark_unspent_cases (r_status o1)) as [M1 M2].
      assert (Hlo : r_status o = Locked) by (rewrite <- R3; apply M2; destruct o1; exact Hl).
      split; [exact Hlo|]. rewrite (R6 Hlo). destruct o; reflexivity.
  - cbn [w_log w_logid w_outs with_outs]. repeat split; auto using tsent_kept_refl, tsent_back_refl.
    apply Hsave; [exact Eg|destruct o; reflexivity..| |].
    + unfold kept. destruct o; cbn in *. repeat split; auto.
      destruct (negb r_cb && _).
      * apply (proj1 (mark_reverted_cases r_status)).
      * apply (proj1 (mark_spent_cases r_status)).
    + destruct o; cbn in *. destruct (negb r_cb && _); intros Hl.
      * split; [apply (proj2 (mark_reverted_cases r_status)); exact Hl|reflexivity].
      * exfalso. apply (proj2 (mark_spent_cases r_status)); exact Hl.
Qed.

Lemma fold_apply_step parent tip p rev : forall l w,
  LogSorted w -> LogBelow w ->
  let w' := fold_left (apply_one parent tip p rev) l w in
  LogSorted w' /\ LogBelow w' /\ tsent_kept (w_log w) (w_log w') /\ tsent_back (w_log w) (w_log w')
  /\ rec_step (w_outs w) (w_outs w') /\ w_ctxs w' = w_ctxs w /\ w_child w' = w_child w.
Proof.
  induction l as [|q r IH]; intros w Hs Hb; cbn [fold_left].
  - repeat split; auto using tsent_kept_refl, tsent_back_refl, rec_step_refl.
  - destruct (apply_one_step parent tip p rev w q Hs Hb) as (A1 & A2 & A3 & A4 & A5).
    destruct (apply_one_same parent tip p rev w q) as [A6 A7].
    destruct (IH _ A1 A2) as (B1 & B2 & B3 & B4 & B5 & B6 & B7).
    repeat split; try assumption; try congruence.
    + eapply tsent_kept_trans; eauto.
    + eapply tsent_back_trans; eauto.
    + eapply rec_step_trans; eauto.
Qed.

Lemma rec_step_evolves l l' : rec_step l l' -> evolves_or (fun _ _ _ => False) l l'.
Proof. intros H k m o' Hg. left. destruct (H k m o' Hg) as (o & A & B & _). eauto. Qed.
Lemma rec_step_locked l l' : rec_step l l' -> locked_kept l l'.
Proof.
  intros H k m o' Hg Hl. destruct (H k m o' Hg) as (o & A & (B1 & _) & C). destruct (C Hl) as [C1 C2].
  exists o. auto.
Qed.

Lemma refresh_apply_core w parent all tip p km :
  Core w -> Core (refresh_apply w parent all tip p km).
Proof.
  intros Hc. unfold refresh_apply.
  set (qs := refresh_set w parent all). set (rev := reverted_ids w parent qs p km).
  destruct (tip <? lookup (w_confh w) parent); [exact Hc|].
  pose proof Hc as [Hs Hb Hh Hi Ho Hoo Hoi].
  destruct (fold_apply_step parent tip p rev qs w Hs Hb) as (A1 & A2 & A3 & A4 & A5 & A6 & A7).
  set (w1 := fold_left (apply_one parent tip p rev) qs w) in *.
  set (f := fun t => if existsb (N.eqb (t_id t)) rev && (t_parent t =? parent)
                     then set_conf (set_ttype t TReverted) false else t).
  assert (Hf : forall t, t_parent (f t) = t_parent t /\ t_id (f t) = t_id t).
  { intros t. unfold f. destruct (_ && _); destruct t; cbn; auto. }
  apply (core_pres (fun _ _ _ => False) w); [exact Hc|exact A6|intros a; cbn; rewrite A7; lia|..].
  - cbn [w_outs with_confh with_log]. apply rec_step_evolves. exact A5.
  - intros; contradiction.
  - intros; contradiction.
  - cbn [w_outs with_confh with_log]. apply rec_step_locked. exact A5.
  - unfold LogSorted. cbn [w_log with_confh with_log]. apply sorted_map_key; assumption.
  - unfold LogBelow. cbn [w_log w_logid with_confh with_log]. intros t Hin.
    apply in_map_iff in Hin as (t0 & <- & Hin0). destruct (Hf t0) as [-> ->]. apply A2. exact Hin0.
  - cbn [w_log with_confh with_log]. intros pa i t Hg Ht.
    destruct (A3 pa i t Hg Ht) as (t1 & Hg1 & Ht1).
    rewrite (get_tx_map_key f _ pa i Hf), Hg1. cbn [option_map].
    exists (f t1). split; [reflexivity|]. unfold f.
    destruct (existsb (N.eqb (t_id t1)) rev && (t_parent t1 =? parent)) eqn:E; [|exact Ht1].
    exfalso. apply andb_true_iff in E as [E1 E2].
    apply get_tx_in in Hg1 as (_ & Hp1 & Hi1). rewrite Hi1 in E1. rewrite Hp1 in E2.
    apply (reverted_ids_spec w parent qs p km i) in E1 as (tr & Hin & Hid & Hpar & Hty & _).
    pose proof (sorted_get_tx _ _ Hs Hin) as Hgr. rewrite Hid, Hpar in Hgr.
    assert (Hpp : pa = parent) by lia. rewrite Hpp in Hg. rewrite Hgr in Hg. inversion Hg; subst. congruence.
Qed.

Lemma fold_del_get : forall (dels : list orec) l k m o',
  get_out (fold_left (fun acc o => del_out acc (r_key o) None) dels l) k m = Some o' ->
  get_out l k m = Some o'.
Proof.
  induction dels as [|d r IH]; intros l k m o' Hg; cbn [fold_left] in Hg; [exact Hg|].
  apply IH in Hg. rewrite get_del in Hg. destruct (_ && _); [discriminate|exact Hg].
Qed.

Lemma clean_core w parent tip : Core w -> Core (clean_old_unconfirmed w parent tip).
Proof.
  intros Hc. unfold clean_old_unconfirmed. destruct (tip <? 50); [exact Hc|].
  pose proof Hc as [Hs Hb Hh Hi Ho Hoo Hoi].
  apply (core_pres (fun _ _ _ => False) w); [exact Hc|reflexivity|intros a; cbn; lia|..].
  - cbn [w_outs with_outs]. intros k m o' Hg. left. apply fold_del_get in Hg. exists o'. split; [exact Hg|apply kept_refl].
  - intros; contradiction.
  - intros; contradiction.
  - cbn [w_outs with_outs]. intros k m o' Hg Hl. apply fold_del_get in Hg. exists o'. auto.
  - exact Hs.
  - exact Hb.
  - apply tsent_kept_refl.
Qed.

Lemma refresh_core w parent all tip p km : Core w -> Core (refresh w parent all tip p km).
Proof. intros Hc. unfold refresh. apply clean_core. apply refresh_apply_core. exact Hc. Qed.

(* ------------------------------------------------------------------ finalize_tx *)
Lemma locked_kept_refl l : locked_kept l l.
Proof. intros k m o H1 H2. exists o. auto. Qed.

Lemma core_log_update w x t :
  Core w -> In t (w_log w) -> t_parent x = t_parent t -> t_id x = t_id t ->
  (t_type t = TSent -> t_type x = TSent) ->
  Core (with_log w (save_tx (w_log w) x)).
Proof.
  intros Hc Hin Kp Ki Kt. pose proof Hc as [Hs Hb Hh Hi Ho Hoo Hoi].
  destruct (log_same_key w x t Hs Hb Hin Kp Ki) as [A1 A2].
  apply (core_pres (fun _ _ _ => False) w); [exact Hc|reflexivity|intros a; cbn; lia|..].
  - apply evolves_refl.
  - intros; contradiction.
  - intros; contradiction.
  - apply locked_kept_refl.
  - exact A1.
  - exact A2.
  - cbn [w_log with_log]. apply tsent_kept_save. intros t0 Hg Ht0.
    rewrite Kp, Ki, (sorted_get_tx _ _ Hs Hin) in Hg. inversion Hg; subst t0. auto.
Qed.

Lemma core_with_files w f : Core w -> Core (with_files w f).
Proof. intros [Hs Hb Hh Hi Ho Hoo Hoi]. constructor; assumption. Qed.

Lemma set_excess_key t :
  t_parent (set_excess t) = t_parent t /\ t_id (set_excess t) = t_id t /\ t_type (set_excess t) = t_type t.
Proof. destruct t; cbn; auto. Qed.

Lemma finalize_core w s t tip so co :
  Fresh w -> WF w -> Core w -> Core (fst (finalize w s t tip so co)).
Proof.
  intros Hf Hwf Hc. unfold finalize. destruct (get_ctx w s) as [c|] eqn:Ectx; cbn [fst]; [|exact Hc].
  destruct (check_ttl w t) as [[]|e|q]; cbn [fst]; try exact Hc.
  destruct (negb so); cbn [fst]; [exact Hc|].
  set (late_result := match c_late c with None => (w, Ok c) | Some la => _ end).
  assert (Hlate : Core (fst late_result)).
  { unfold late_result. destruct (c_late c) as [la|]; cbn [fst]; [|exact Hc].
    match goal with |- context [build_send (sel_view w) ?pp] => set (p' := pp) end.
    destruct (build_send (sel_view w) p') as [b|e|q] eqn:Eb; cbn [fst]; try exact Hc.
    destruct (alloc_change w (b_changes b)) as [w1 chg] eqn:Ea.
    pose proof (alloc_change_outs _ _ _ _ Ea) as (E1 & E2 & E3 & _ & E4 & _).
    destruct (alloc_change_fresh _ _ _ _ Hf Ea) as (Hf1 & Hle & Hl).
    destruct (negb _); cbn [fst]; [eapply core_counters; eauto|].
    match goal with |- context [lock (save_ctx w1 ?cc) s t tip] => set (c' := cc) end.
    assert (Hc2 : Core (save_ctx w1 c')).
    { exact (core_new_ctx w w1 s p' b chg (c_amount c) (c_fee c) None Hf Hwf Hc Eb Ea). }
    assert (Hf2 : Fresh (save_ctx w1 c')) by (apply save_ctx_fresh; [exact Hf1|exact Hl]).
    assert (Hwf2 : WF (save_ctx w1 c')) by (unfold WF; cbn [w_outs save_ctx with_ctxs]; rewrite E1; exact Hwf).
    pose proof (lock_core (save_ctx w1 c') s t tip Hf2 Hwf2 Hc2) as Hc3.
    destruct (lock (save_ctx w1 c') s t tip) as [w3 [u|e|q]] eqn:Elock; cbn [fst] in *; try exact Hc3.
    (* refused: the late-locked context is stored again — the contexts are a subset of w's *)
    assert (w3 = save_ctx w1 c') by (eapply lock_fail_same; [exact Elock|discriminate]). subst w3.
    apply (core_ctx_subset w); [exact Hc|cbn; exact E1|cbn; exact E2| |cbn; exact E4|intros a; cbn; apply Hle].
    assert (Hsl : c_slate c = s).
    { unfold get_ctx in Ectx. apply find_some in Ectx as [_ Hs]. lia. }
    intros x Hx. apply in_save_ctx in Hx as [->|[Hx Hne]]; [apply (get_ctx_in _ _ _ Ectx)|].
    apply in_save_ctx in Hx as [->|[Hx _]].
    - exfalso. apply Hne. unfold c'. cbn [c_slate]. now rewrite Hsl.
    - rewrite E3 in Hx. exact Hx. }
  destruct late_result as [w' [c'|e|q]]; cbn [fst] in *; try exact Hlate.
  destruct (negb co); cbn [fst]; [exact Hlate|].
  destruct (negb (existsb _ _)); cbn [fst]; [exact Hlate|].
  destruct (find _ (w_log w')) as [te|] eqn:Ef; cbn [fst]; [|exact Hlate].
  apply find_some in Ef as [Hin _].
  destruct (set_excess_key te) as (K1 & K2 & K3).
  apply core_del_ctx. apply core_with_files. eapply core_log_update; eauto; congruence.
Qed.

(* ------------------------------------------------------------------ every standard-flow operation *)
(** the invoice operations are left out: a self-addressed invoice merges the issuer's context
    (whose output belongs to the destination account) into the payer's, so [CtxOut] does not
    hold across them *)
Definition std_op (o : op) : bool :=
  match o with
  | OpIssueInvoice _ _ _ _ | OpProcessInvoice _ _ _ _ _ _ _ | OpFinalizeInvoice _ _ _ => false
  | _ => true
  end.

Definition Inv (w : wallet) : Prop := Fresh w /\ WF w /\ Core w.

Theorem step_core w o : std_op o = true -> Fresh w -> WF w -> Core w -> Core (fst (step w o)).
Proof.
  intros Hstd Hf Hwf Hc. destruct o; cbn [std_op] in Hstd; try discriminate; cbn [step].
  - pose proof (receive_core w slate amount ttl dest crypto_ok Hf Hc) as H.
    destruct (receive w slate amount ttl dest crypto_ok); exact H.
  - destruct (lock_tx_cases w slate ttl tip has_tx) as [-> | ->]; [|cbn [fst]; exact Hc].
    pose proof (lock_core w slate ttl tip Hf Hwf Hc) as H. destruct (lock w slate ttl tip); exact H.
  - pose proof (cancel_core w id slate Hwf Hc) as H. destruct (cancel w id slate); exact H.
  - pose proof (coinbase_core w fees height key Hf Hc) as H. destruct (coinbase w fees height key); exact H.
  - cbn [fst]. apply refresh_core. exact Hc.
  - pose proof (init_send_core w slate src p late Hf Hwf Hc) as H. destruct (init_send w slate src p late); exact H.
  - pose proof (finalize_core w slate ttl tip state_ok crypto_ok Hf Hwf Hc) as H.
    destruct (finalize w slate ttl tip state_ok crypto_ok); exact H.
  - cbn [fst]. apply set_active_core. exact Hc.
  - cbn [fst]. apply expire_core; assumption.
Qed.

Theorem step_inv w o : std_op o = true -> Inv w -> Inv (fst (step w o)).
Proof.
  intros Hstd (Hf & Hwf & Hc). split; [apply step_fresh; exact Hf|]. split; [apply step_wf; exact Hwf|].
  apply step_core; assumption.
Qed.

Lemma core_empty : Core empty_wallet.
Proof.
  constructor.
  - constructor.
  - intros t [].
  - intros k m o H. discriminate.
  - intros c k m v [].
  - intros c k m v o [].
  - intros c c' k m v m' v' [].
  - intros c c' k m v v' [].
Qed.

Theorem inv_run : forall ops w, forallb std_op ops = true -> Inv w -> Inv (run w ops).
Proof.
  induction ops as [|o r IH]; intros w Hstd Hi; cbn [run fold_left]; [exact Hi|].
  cbn [forallb] in Hstd. apply andb_true_iff in Hstd as [H1 H2].
  apply IH; [exact H2|]. apply step_inv; assumption.
Qed.

Theorem inv_reachable : forall ops, forallb std_op ops = true -> Inv (run empty_wallet ops).
Proof.
  intros ops Hstd. apply inv_run; [exact Hstd|].
  split; [apply fresh_empty|]. split; [unfold WF; cbn; constructor|apply core_empty].
Qed.

(** In every state reached by standard-flow operations, each Locked output is held by a TxSent
    entry of the output's own account. *)
Theorem locked_is_held : forall ops, forallb std_op ops = true ->
  let w := run empty_wallet ops in
  forall o, In o (w_outs w) -> r_status o = Locked ->
  exists id t, r_tx o = Some id /\ In t (w_log w) /\ t_parent t = r_root o /\ t_id t = id
               /\ t_type t = TSent.
Proof.
  intros ops Hstd w o Hin Hl. destruct (inv_reachable ops Hstd) as (_ & Hwf & Hc).
  fold w in Hwf, Hc. pose proof (get_out_of_in _ _ Hwf Hin) as Hg.
  destruct (core_held _ Hc _ _ _ Hg Hl) as (id & t & A & B & C).
  apply get_tx_in in B as (B1 & B2 & B3). exists id, t. auto.
Qed.

(** ... and that entry's cancel finds the output: as long as the entry is unconfirmed, cancelling
    it from the output's account succeeds and the output is Unspent again — no reservation is
    stranded. *)
Lemma retrieve_by_id_sorted w t :
  LogSorted w -> In t (w_log w) -> retrieve_txs w (Some (t_id t)) None (t_parent t) = [t].
Proof.
  unfold LogSorted, retrieve_txs. intros Hs Hin.
  induction (w_log w) as [|y r IH]; [contradiction|].
  apply StronglySorted_inv in Hs as [Hr Hy]. rewrite Forall_forall in Hy. cbn [filter].
  assert (Hnone : forall l, (forall z, In z l -> tlt t z \/ tlt z t) ->
            filter (fun t0 => (t_parent t0 =? t_parent t) && (t_id t0 =? t_id t) && true) l = []).
  { induction l as [|z l IHl]; intros Hz; [reflexivity|]. cbn [filter].
    assert (E : (t_parent z =? t_parent t) && (t_id z =? t_id t) && true = false).
    { destruct (Hz z (or_introl eq_refl)) as [H|H]; unfold tlt in H; lia. }
    rewrite E. apply IHl. intros z' Hz'. apply Hz. now right. }
  destruct Hin as [->|Hin].
  - rewrite !N.eqb_refl. cbn [andb]. f_equal. apply Hnone. intros z Hz. left. apply Hy. exact Hz.
  - assert (E : (t_parent y =? t_parent t) && (t_id y =? t_id t) && true = false).
    { specialize (Hy t Hin). unfold tlt in Hy. lia. }
    rewrite E. apply IH; assumption.
Qed.

Theorem held_is_releasable : forall ops, forallb std_op ops = true ->
  let w := run empty_wallet ops in
  forall k m o, get_out (w_outs w) k m = Some o -> r_status o = Locked -> r_root o = w_active w ->
  exists id t, r_tx o = Some id /\ get_tx (w_log w) (r_root o) id = Some t /\ t_type t = TSent
    /\ (t_conf t = false ->
        snd (cancel w (Some id) None) = Ok tt
        /\ get_out (w_outs (fst (cancel w (Some id) None))) k m = Some (set_status o Unspent)).
Proof.
  intros ops Hstd w k m o Hg Hl Hroot. destruct (inv_reachable ops Hstd) as (_ & Hwf & Hc).
  fold w in Hwf, Hc. destruct (core_held _ Hc _ _ _ Hg Hl) as (id & t & A & B & C).
  exists id, t. split; [exact A|]. split; [exact B|]. split; [exact C|]. intros Hconf.
  pose proof (get_tx_in _ _ _ _ B) as (B1 & B2 & B3).
  pose proof (retrieve_by_id_sorted w t (core_sorted _ Hc) B1) as Hr.
  rewrite B2, B3, Hroot in Hr. unfold cancel. rewrite Hr, C, Hconf. cbn [ttype_eqb orb negb fst snd].
  split; [reflexivity|]. cbn [w_outs with_log with_outs].
  rewrite cancel_outputs_get by exact Hwf. rewrite Hg. unfold cancelled_rec, cancel_cond.
  rewrite A, Hl, B3, Hroot, N.eqb_refl. cbn [optN_eqb]. rewrite N.eqb_refl. reflexivity.
Qed.

(* ================================================================== one live entry per slate *)
(** C03, second sentence, at history level: a slate never has two live log entries of the same
    kind in one account — however often reserve / receive / finalize are repeated, re-ordered or
    replayed. *)
Definition live_class (t : trec) : N :=
  match t_type t with TSent => 1 | TReceived | TReverted => 2 | _ => 0 end.

Definition same_slot (a b : trec) : Prop :=
  live_class a <> 0 /\ live_class a = live_class b /\ t_slate a <> None /\ t_slate a = t_slate b
  /\ t_parent a = t_parent b.

Definition Uniq (l : list trec) : Prop :=
  forall a b, In a l -> In b l -> same_slot a b -> t_id a = t_id b.

Lemma in_save_tx_sorted l x t :
  StronglySorted tlt l -> In t (save_tx l x) ->
  t = x \/ (In t l /\ ~ (t_parent t = t_parent x /\ t_id t = t_id x)).
Proof.
  induction l as [|y r IH]; cbn [save_tx]; intros Hs Hin.
  - destruct Hin as [<-|[]]. now left.
  - apply StronglySorted_inv in Hs as [Hr Hy]. rewrite Forall_forall in Hy.
    destruct (tkey_eqb y (t_parent x) (t_id x)) eqn:E.
    + destruct Hin as [<-|Hin]; [now left|]. right. split; [now right|].
      apply tkey_eqb_iff in E as [A B]. specialize (Hy t Hin). unfold tlt in Hy. lia.
    + apply tkey_eqb_false in E.
      destruct ((t_parent x <? t_parent y) || ((t_parent x =? t_parent y) && (t_id x <? t_id y))) eqn:E2.
      * destruct Hin as [<-|[<-|Hin]]; [now left| |].
        -- right. split; [now left|]. intros [A B]. apply E. split; congruence.
        -- right. split; [now right|]. specialize (Hy t Hin). unfold tlt in Hy. lia.
      * destruct Hin as [<-|Hin].
        -- right. split; [now left|]. intros [A B]. apply E. split; congruence.
        -- destruct (IH Hr Hin) as [->|[A B]]; [now left|]. right. split; [now right|exact B].
Qed.

(** an existing entry is rewritten in place: same key, same slate, same class or not live any more *)
Lemma uniq_save_replace l x t :
  StronglySorted tlt l -> Uniq l -> In t l ->
  t_parent x = t_parent t -> t_id x = t_id t -> t_slate x = t_slate t ->
  (live_class x = live_class t \/ live_class x = 0) ->
  Uniq (save_tx l x).
Proof.
  intros Hs Hu Hin Kp Ki Ksl Kc a b Ha Hb Hab.
  apply (in_save_tx_sorted _ _ _ Hs) in Ha. apply (in_save_tx_sorted _ _ _ Hs) in Hb.
  destruct Hab as (C1 & C2 & C3 & C4 & C5).
  assert (Hx : forall o, In o l -> ~ (t_parent o = t_parent x /\ t_id o = t_id x) ->
             live_class x <> 0 -> live_class x = live_class o -> t_slate x = t_slate o ->
             t_slate x <> None -> t_parent x = t_parent o -> False).
  { intros o Ho Hne D1 D2 D3 D4 D5. destruct Kc as [Kc|Kc]; [|congruence].
    assert (t_id t = t_id o).
    { apply Hu; [exact Hin|exact Ho|]. unfold same_slot. repeat split; congruence. }
    apply Hne. split; congruence. }
  destruct Ha as [->|[Ha Na]], Hb as [->|[Hb Nb]].
  - reflexivity.
  - exfalso. eapply (Hx b); eauto.
  - exfalso. eapply (Hx a); eauto; congruence.
  - apply Hu; auto. unfold same_slot. auto.
Qed.

(** a new entry: not live, without a slate, or the first live one of its kind for its slate *)
Lemma uniq_save_new l x :
  Uniq l ->
  (live_class x = 0 \/ t_slate x = None
   \/ forall o, In o l -> ~ (live_class o = live_class x /\ t_slate o = t_slate x /\ t_parent o = t_parent x)) ->
  Uniq (save_tx l x).
Proof.
  intros Hu Hx a b Ha Hb Hab. apply in_save_tx in Ha. apply in_save_tx in Hb.
  destruct Hab as (C1 & C2 & C3 & C4 & C5).
  destruct Ha as [->|Ha], Hb as [->|Hb].
  - reflexivity.
  - exfalso. destruct Hx as [H|[H|H]]; [congruence|congruence|]. apply (H b Hb). repeat split; congruence.
  - exfalso. destruct Hx as [H|[H|H]]; [congruence|congruence|]. apply (H a Ha). repeat split; congruence.
  - apply Hu; auto. unfold same_slot. auto.
Qed.

Lemma uniq_map (f : trec -> trec) l :
  (forall t, In t l -> t_parent (f t) = t_parent t /\ t_id (f t) = t_id t /\ t_slate (f t) = t_slate t
                       /\ (live_class (f t) = live_class t \/ live_class (f t) = 0)) ->
  Uniq l -> Uniq (map f l).
Proof.
  intros Hf Hu a b Ha Hb (C1 & C2 & C3 & C4 & C5).
  apply in_map_iff in Ha as (a0 & <- & Ha0). apply in_map_iff in Hb as (b0 & <- & Hb0).
  destruct (Hf a0 Ha0) as (A1 & A2 & A3 & A4). destruct (Hf b0 Hb0) as (B1 & B2 & B3 & B4).
  rewrite A2, B2. apply Hu; auto. unfold same_slot.
  destruct A4 as [A4|A4]; [|congruence]. destruct B4 as [B4|B4]; [|congruence].
  repeat split; congruence.
Qed.

Definition cls_kept (l l' : list trec) : Prop :=
  forall p i t, get_tx l p i = Some t ->
  exists t', get_tx l' p i = Some t' /\ live_class t' = live_class t.
Lemma cls_kept_refl l : cls_kept l l.
Proof. intros p i t H. eauto. Qed.
Lemma cls_kept_trans l1 l2 l3 : cls_kept l1 l2 -> cls_kept l2 l3 -> cls_kept l1 l3.
Proof.
  intros A B p i t H. destruct (A p i t H) as (t' & H1 & H2). destruct (B p i t' H1) as (t'' & H3 & H4).
  exists t''. split; [exact H3|congruence].
Qed.

Lemma stage1_uniq parent w o :
  LogSorted w -> LogBelow w ->
  cls_kept (w_log w) (w_log (fst (stage1 parent w o)))
  /\ (Uniq (w_log w) -> Uniq (w_log (fst (stage1 parent w o)))).
Proof.
  intros Hs Hb. unfold stage1. destruct (r_cb o && status_eqb (r_status o) Unconfirmed).
  - unfold next_log_id. cbn zeta. cbn [fst w_log with_log with_logid].
    set (x := mkT parent (lookup (w_logid w) parent) None TCoinbase true (r_value o) 0 None None 0 1 true false).
    split.
    + intros p i t Hg. rewrite get_save_tx. destruct (tkey_eqb x p i) eqn:E; [|eauto].
      exfalso. apply tkey_eqb_iff in E as [A B]. cbn in A, B. subst p i.
      rewrite below_fresh_id in Hg by exact Hb. discriminate.
    + intros Hu. apply uniq_save_new; [exact Hu|]. left. reflexivity.
  - cbn [fst]. split; [apply cls_kept_refl|auto].
Qed.

Lemma stage2_uniq parent w1 o1 :
  LogSorted w1 -> LogBelow w1 ->
  cls_kept (w_log w1) (w_log (stage2 parent w1 o1))
  /\ (Uniq (w_log w1) -> Uniq (w_log (stage2 parent w1 o1))).
Proof.
  intros Hs Hb. unfold stage2.
  destruct (negb (r_cb o1) && _); [|split; [apply cls_kept_refl|auto]].
  destruct (find _ (w_log w1)) as [t|] eqn:Ef; [|split; [apply cls_kept_refl|auto]].
  apply find_some in Ef as [Hin _].
  set (t' := if ttype_eqb (t_type t) TReverted then set_ttype t TReceived else t).
  set (x := set_conf t' true).
  assert (Kx : t_parent x = t_parent t /\ t_id x = t_id t /\ t_slate x = t_slate t /\ live_class x = live_class t).
  { unfold x, t'. destruct (ttype_eqb (t_type t) TReverted) eqn:E.
    - assert (Hr : t_type t = TReverted) by (destruct (t_type t); try discriminate; reflexivity).
      unfold live_class. rewrite Hr. destruct t; cbn. auto.
    - destruct t; cbn. auto. }
  destruct Kx as (Kp & Ki & Ksl & Kc).
  pose proof (sorted_get_tx _ _ Hs Hin) as Hgt.
  cbn [w_log with_log]. split.
  - intros p i t0 Hg. rewrite get_save_tx. destruct (tkey_eqb x p i) eqn:E; [|eauto].
    apply tkey_eqb_iff in E as [A B]. rewrite Kp in A. rewrite Ki in B. subst p i.
    rewrite Hgt in Hg. inversion Hg; subst t0. exists x. split; [reflexivity|exact Kc].
  - intros Hu. eapply uniq_save_replace; eauto.
Qed.

Lemma apply_one_uniq parent tip p rev w q :
  LogSorted w -> LogBelow w ->
  cls_kept (w_log w) (w_log (apply_one parent tip p rev w q))
  /\ (Uniq (w_log w) -> Uniq (w_log (apply_one parent tip p rev w q))).
Proof.
  intros Hs Hb. rewrite apply_one_eq.
  destruct (get_out (w_outs w) (r_key q) (r_mmr q)) as [o|]; [|split; [apply cls_kept_refl|auto]].
  destruct (present_height p (r_key q) (r_mmr q)) as [h|]; [|cbn [w_log with_outs]; split; [apply cls_kept_refl|auto]].
  destruct (stage1 parent w o) as [w1 o1] eqn:E1.
  pose proof (stage1_step parent w o Hs Hb) as (L1 & _). pose proof (stage1_uniq parent w o Hs Hb) as (C1 & U1).
  rewrite E1 in L1, C1, U1. cbn [fst] in *.
  pose proof (stage2_uniq parent w1 o1 (ls_sorted _ _ L1) (ls_below _ _ L1)) as (C2 & U2).
  cbn [w_log with_outs]. split; [eapply cls_kept_trans; eauto|auto].
Qed.

Lemma fold_apply_uniq parent tip p rev : forall l w,
  LogSorted w -> LogBelow w ->
  cls_kept (w_log w) (w_log (fold_left (apply_one parent tip p rev) l w))
  /\ (Uniq (w_log w) -> Uniq (w_log (fold_left (apply_one parent tip p rev) l w))).
Proof.
  induction l as [|q r IH]; intros w Hs Hb; cbn [fold_left]; [split; [apply cls_kept_refl|auto]|].
  destruct (apply_one_step parent tip p rev w q Hs Hb) as (A1 & A2 & _).
  destruct (apply_one_uniq parent tip p rev w q Hs Hb) as (C1 & U1).
  destruct (IH _ A1 A2) as (C2 & U2).
  split; [eapply cls_kept_trans; eauto|auto].
Qed.

Lemma refresh_uniq w parent all tip p km :
  LogSorted w -> LogBelow w -> Uniq (w_log w) -> Uniq (w_log (refresh w parent all tip p km)).
Proof.
  intros Hs Hb Hu. unfold refresh.
  assert (Hclean : forall w0, w_log (clean_old_unconfirmed w0 parent tip) = w_log w0).
  { intros w0. unfold clean_old_unconfirmed. destruct (tip <? 50); reflexivity. }
  rewrite Hclean. unfold refresh_apply.
  set (qs := refresh_set w parent all). set (rev := reverted_ids w parent qs p km).
  destruct (tip <? lookup (w_confh w) parent); [exact Hu|].
  destruct (fold_apply_step parent tip p rev qs w Hs Hb) as (A1 & _).
  destruct (fold_apply_uniq parent tip p rev qs w Hs Hb) as (C1 & U1).
  set (w1 := fold_left (apply_one parent tip p rev) qs w) in *.
  cbn [w_log with_confh with_log]. apply uniq_map; [|auto].
  intros t Hin.
  destruct (existsb (N.eqb (t_id t)) rev && (t_parent t =? parent)) eqn:E;
    [|repeat split; auto].
  (* the entries the reverted-kernel rule marks are received entries *)
  apply andb_true_iff in E as [E1 E2].
  apply (reverted_ids_spec w parent qs p km (t_id t)) in E1 as (tr & Htr & Hid & Hpar & Hty & _).
  pose proof (sorted_get_tx _ _ Hs Htr) as Hgr. rewrite Hid, Hpar in Hgr.
  destruct (C1 _ _ _ Hgr) as (t1 & Hg1 & Hc1).
  pose proof (sorted_get_tx _ _ A1 Hin) as Hgt.
  assert (Hp : t_parent t = parent) by lia. rewrite Hp, Hg1 in Hgt. inversion Hgt; subst t1.
  unfold live_class in Hc1. rewrite Hty in Hc1.
  fold (live_class t) in Hc1.
  repeat split; try (destruct t; reflexivity). left. rewrite Hc1. destruct t; reflexivity.
Qed.

Lemma class_sent t : live_class t = 1 <-> t_type t = TSent.
Proof. unfold live_class. destruct (t_type t); split; intros H; try discriminate; auto. Qed.
Lemma class_recv t : live_class t = 2 <-> (t_type t = TReceived \/ t_type t = TReverted).
Proof. unfold live_class. destruct (t_type t); split; intros H; try discriminate; auto; destruct H; discriminate. Qed.

Lemma receive_uniq w s a t d c :
  Uniq (w_log w) -> Uniq (w_log (fst (receive w s a t d c))).
Proof.
  intros Hu. unfold receive.
  destruct (check_ttl w t) as [[]|e|q]; cbn [fst]; try exact Hu.
  destruct (existsb _ (w_log w)) eqn:Ex; cbn [fst]; [exact Hu|].
  destruct (next_child w) as [w1 key] eqn:En.
  apply next_child_spec in En as (_ & _ & _ & _ & Hl1 & _).
  destruct c; cbn [negb]; [|cbn [fst]; rewrite Hl1; exact Hu].
  unfold next_log_id. cbn zeta. cbn [fst w_log with_log with_outs with_logid]. rewrite Hl1.
  apply uniq_save_new; [exact Hu|]. right. right. intros o Ho (A & B & C). cbn in A, B, C.
  assert (existsb (fun t0 => optN_eqb (t_slate t0) (Some s)
            && (t_parent t0 =? match d with Some d0 => d0 | None => w_active w end)
            && (ttype_eqb (t_type t0) TReceived || ttype_eqb (t_type t0) TReverted)) (w_log w) = true).
  { apply existsb_exists. exists o. split; [exact Ho|]. rewrite B, C, optN_eqb_refl, N.eqb_refl.
    apply class_recv in A as [-> | ->]; reflexivity. }
  congruence.
Qed.

Lemma lock_uniq w s t tip :
  Uniq (w_log w) -> Uniq (w_log (fst (lock w s t tip))).
Proof.
  intros Hu. unfold lock, lock_tx; cbn [negb andb].
  destruct (get_ctx w s) as [c|]; cbn [fst]; [|exact Hu].
  destruct (existsb _ (w_log w)) eqn:Ex; cbn [fst]; [exact Hu|].
  unfold next_log_id. cbn zeta. cbn [w_outs with_logid].
  destruct (lock_inputs _ _ _ _) as [[outs1 deb]|e|q]; cbn [fst]; try exact Hu.
  cbn [w_log with_files with_log with_outs with_logid].
  apply uniq_save_new; [exact Hu|]. right. right. intros o Ho (A & B & C). cbn in A, B, C.
  assert (existsb (fun t0 => optN_eqb (t_slate t0) (Some s) && (t_parent t0 =? c_parent c)
                             && ttype_eqb (t_type t0) TSent) (w_log w) = true).
  { apply existsb_exists. exists o. split; [exact Ho|]. rewrite B, C, optN_eqb_refl, N.eqb_refl.
    apply class_sent in A. rewrite A. reflexivity. }
  congruence.
Qed.

Lemma cancel_uniq w id sl :
  LogSorted w -> Uniq (w_log w) -> Uniq (w_log (fst (cancel w id sl))).
Proof.
  intros Hs Hu. unfold cancel.
  destruct (retrieve_txs w id sl (w_active w)) as [|t [|t2 r]] eqn:Er; cbn [fst]; try exact Hu.
  destruct (negb _) eqn:Et; cbn [fst]; [exact Hu|]. destruct (t_conf t); cbn [fst]; [exact Hu|].
  assert (Hin : In t (w_log w)).
  { assert (H : In t (retrieve_txs w id sl (w_active w))) by (rewrite Er; now left).
    unfold retrieve_txs in H. apply filter_In in H as [H _]. exact H. }
  cbn [w_log with_log with_outs].
  eapply uniq_save_replace; [exact Hs|exact Hu|exact Hin|destruct t; reflexivity..|].
  right.
  assert (Hty : t_type t = TSent \/ t_type t = TReceived \/ t_type t = TReverted)
    by (destruct (t_type t); cbn in Et; try discriminate; auto).
  unfold live_class. destruct Hty as [H | [H | H]]; destruct t; cbn in *; rewrite H; reflexivity.
Qed.

Lemma expire_uniq w tip :
  WF w -> Core w -> Uniq (w_log w) -> Uniq (w_log (expire w tip)).
Proof.
  unfold expire. generalize (filter (fun t => (t_parent t =? w_active w) && expirable t) (w_log w)).
  intros l. revert w. induction l as [|t r IH]; intros w Hwf Hc Hu; cbn [fold_left]; [exact Hu|].
  assert (H : WF (expire_one tip w t) /\ Core (expire_one tip w t) /\ Uniq (w_log (expire_one tip w t))).
  { unfold expire_one. destruct (t_ttl t); [|auto]. destruct (_ <=? _); [|auto].
    split; [|split].
    - pose proof (step_wf w (OpCancel (Some (t_id t)) None) Hwf) as Hw. cbn [step] in Hw.
      destruct (cancel w (Some (t_id t)) None); exact Hw.
    - apply cancel_core; assumption.
    - apply cancel_uniq; [apply (core_sorted _ Hc)|exact Hu]. }
  destruct H as (H1 & H2 & H3). apply IH; assumption.
Qed.

Lemma finalize_uniq w s t tip so co :
  LogSorted w -> Uniq (w_log w) -> Uniq (w_log (fst (finalize w s t tip so co))).
Proof.
  intros Hs Hu. unfold finalize. destruct (get_ctx w s) as [c|]; cbn [fst]; [|exact Hu].
  destruct (check_ttl w t) as [[]|e|q]; cbn [fst]; try exact Hu.
  destruct (negb so); cbn [fst]; [exact Hu|].
  set (late_result := match c_late c with None => (w, Ok c) | Some la => _ end).
  assert (Hlate : Uniq (w_log (fst late_result)) /\ StronglySorted tlt (w_log (fst late_result))).
  { unfold late_result. destruct (c_late c) as [la|]; cbn [fst]; [|split; assumption].
    destruct (build_send _ _) as [b|e|q]; cbn [fst]; try (split; assumption).
    destruct (alloc_change w (b_changes b)) as [w1 chg] eqn:Ea.
    pose proof (alloc_change_outs _ _ _ _ Ea) as (_ & E2 & _).
    destruct (negb _); cbn [fst]; [rewrite E2; split; assumption|].
    match goal with |- context [lock (save_ctx w1 ?cc) s t tip] => set (c' := cc) end.
    assert (Hl2 : w_log (save_ctx w1 c') = w_log w) by (cbn; exact E2).
    assert (Hu2 : Uniq (w_log (save_ctx w1 c'))) by (rewrite Hl2; exact Hu).
    pose proof (lock_uniq (save_ctx w1 c') s t tip Hu2) as Hu3.
    assert (Hs3 : StronglySorted tlt (w_log (fst (lock (save_ctx w1 c') s t tip)))).
    { unfold lock, lock_tx; cbn [negb andb]. destruct (get_ctx (save_ctx w1 c') s); cbn [fst]; [|rewrite Hl2; exact Hs].
      destruct (existsb _ _); cbn [fst]; [rewrite Hl2; exact Hs|].
      unfold next_log_id. cbn zeta. cbn [w_outs with_logid].
      destruct (lock_inputs _ _ _ _) as [[o1 d1]|e|q]; cbn [fst]; try (rewrite Hl2; exact Hs).
      cbn [w_log with_files with_log with_outs with_logid]. apply sorted_save_tx. rewrite Hl2. exact Hs. }
    destruct (lock (save_ctx w1 c') s t tip) as [w3 [u|e|q]]; cbn [fst] in *; split; assumption. }
  destruct Hlate as [Hul Hsl].
  destruct late_result as [w' [c'|e|q]]; cbn [fst] in *; try exact Hul.
  destruct (negb co); cbn [fst]; [exact Hul|].
  destruct (negb (existsb _ _)); cbn [fst]; [exact Hul|].
  destruct (find _ (w_log w')) as [te|] eqn:Ef; cbn [fst]; [|exact Hul].
  apply find_some in Ef as [Hin _].
  cbn [w_log del_ctx with_ctxs with_files with_log].
  eapply uniq_save_replace; [exact Hsl|exact Hul|exact Hin|destruct te; reflexivity..|].
  left. destruct te; reflexivity.
Qed.

(** every standard-flow step keeps the log free of a second live entry for a slate *)
Theorem step_uniq w o :
  std_op o = true -> Inv w -> Uniq (w_log w) -> Uniq (w_log (fst (step w o))).
Proof.
  intros Hstd (Hf & Hwf & Hc) Hu. pose proof (core_sorted _ Hc) as Hs. pose proof (core_below _ Hc) as Hb.
  destruct o; cbn [std_op] in Hstd; try discriminate; cbn [step].
  - pose proof (receive_uniq w slate amount ttl dest crypto_ok Hu) as H.
    destruct (receive w slate amount ttl dest crypto_ok); exact H.
  - destruct (lock_tx_cases w slate ttl tip has_tx) as [-> | ->]; [|cbn [fst]; exact Hu].
    pose proof (lock_uniq w slate ttl tip Hu) as H. destruct (lock w slate ttl tip); exact H.
  - pose proof (cancel_uniq w id slate Hs Hu) as H. destruct (cancel w id slate); exact H.
  - unfold coinbase. destruct (match key with Some k0 => _ | None => None end); cbn [fst].
    + exact Hu.
    + destruct (next_child w) as [w1 k1] eqn:En. cbn [fst w_log with_outs].
      apply next_child_spec in En as (_ & _ & _ & _ & Hl1 & _). rewrite Hl1. exact Hu.
  - cbn [fst]. apply refresh_uniq; assumption.
  - destruct (init_send_outs w slate src p late) as [_ H].
    destruct (init_send w slate src p late) as [w' r]. cbn [fst] in *. rewrite H. exact Hu.
  - pose proof (finalize_uniq w slate ttl tip state_ok crypto_ok Hs Hu) as H.
    destruct (finalize w slate ttl tip state_ok crypto_ok); exact H.
  - cbn [fst]. exact Hu.
  - cbn [fst]. apply expire_uniq; assumption.
Qed.

Theorem uniq_reachable : forall ops, forallb std_op ops = true -> Uniq (w_log (run empty_wallet ops)).
Proof.
  assert (H : forall ops w, forallb std_op ops = true -> Inv w -> Uniq (w_log w) ->
            Uniq (w_log (run w ops))).
  { induction ops as [|o r IH]; intros w Hstd Hi Hu; cbn [run fold_left]; [exact Hu|].
    cbn [forallb] in Hstd. apply andb_true_iff in Hstd as [H1 H2].
    apply IH; [exact H2|apply step_inv; assumption|apply step_uniq; assumption]. }
  intros ops Hstd. apply H; [exact Hstd| |intros a b []].
  split; [apply fresh_empty|]. split; [unfold WF; cbn; constructor|apply core_empty].
Qed.

(** the statement in the property's words: in every reachable state a slate has at most one live
    sent entry and at most one live received entry per account *)
Theorem one_live_entry_per_slate : forall ops, forallb std_op ops = true ->
  forall a b s, In a (w_log (run empty_wallet ops)) -> In b (w_log (run empty_wallet ops)) ->
  t_slate a = Some s -> t_slate b = Some s -> t_parent a = t_parent b ->
  ((t_type a = TSent /\ t_type b = TSent)
   \/ ((t_type a = TReceived \/ t_type a = TReverted) /\ (t_type b = TReceived \/ t_type b = TReverted))) ->
  a = b.
Proof.
  intros ops Hstd a b s Ha Hb Sa Sb Hp Hty.
  pose proof (uniq_reachable ops Hstd) as Hu.
  destruct (inv_reachable ops Hstd) as (_ & _ & Hc). pose proof (core_sorted _ Hc) as Hs.
  assert (Hid : t_id a = t_id b).
  { apply Hu; [exact Ha|exact Hb|]. unfold same_slot.
    destruct Hty as [[A B]|[A B]].
    - apply class_sent in A. apply class_sent in B. repeat split; congruence.
    - apply class_recv in A. apply class_recv in B. repeat split; congruence. }
  pose proof (sorted_get_tx _ _ Hs Ha) as G1. pose proof (sorted_get_tx _ _ Hs Hb) as G2.
  rewrite Hp, Hid in G1. congruence.
Qed.
