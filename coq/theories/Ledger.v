(** Executable model of one wallet's persistent bookkeeping: output records, transaction
    log, private contexts, key-index / log-id counters, per-account confirmed height, and
    the operations of libwallet's owner/foreign API that change them (see DESIGN.md
    Appendix A.3 for the reading of the code this encodes). Everything the wallet learns
    from the node enters as explicit arguments of the operation (tip height, which of the
    queried outputs are in the UTXO set and at which height, which kernels are missing);
    cryptographic verdicts (signature / proof checks inside finalize) enter as a boolean.
    No proofs here. The correspondence harness (harness/src/bin/ledger.rs) replays real
    histories of real LMDB wallets against a real in-process chain through [step]. *)
From GW Require Export Base Select.

(** key id m/acct/0/child as the pair (acct, child) *)
Definition kid := (N * N)%type.
Definition kid_eqb (a b : kid) : bool := (fst a =? fst b) && (snd a =? snd b).
Definition optN_eqb (a b : option N) : bool :=
  match a, b with
  | None, None => true
  | Some x, Some y => x =? y
  | _, _ => false
  end.

(** OutputData *)
Record orec := mkO {
  r_root : N;            (* root_key_id: owning account *)
  r_key : kid;           (* key_id *)
  r_mmr : option N;      (* mmr_index (part of the DB key) *)
  r_value : N;
  r_status : status;
  r_height : N;
  r_lock : N;
  r_cb : bool;
  r_tx : option N        (* tx_log_entry *)
}.

Inductive ttype := TCoinbase | TReceived | TSent | TReceivedCancelled | TSentCancelled | TReverted.
Definition ttype_eqb (a b : ttype) : bool :=
  match a, b with
  | TCoinbase, TCoinbase | TReceived, TReceived | TSent, TSent
  | TReceivedCancelled, TReceivedCancelled | TSentCancelled, TSentCancelled
  | TReverted, TReverted => true
  | _, _ => false
  end.

(** TxLogEntry (the fields the bookkeeping reads or writes) *)
Record trec := mkT {
  t_parent : N;
  t_id : N;
  t_slate : option N;
  t_type : ttype;
  t_conf : bool;
  t_cred : N;
  t_deb : N;
  t_fee : option N;
  t_ttl : option N;
  t_nin : N;
  t_nout : N;
  t_excess : bool;        (* kernel_excess.is_some() *)
  t_stored : bool         (* stored_tx.is_some() *)
}.

(** late-lock arguments kept in a context *)
Record largs := mkLA {
  la_minconf : N; la_max_outputs : N; la_change_outputs : N; la_all : bool
}.

(** Context (private, per slate) *)
Record crec := mkC {
  c_slate : N;
  c_parent : N;
  c_ins : list (kid * option N * N);     (* input_ids: key, mmr, value *)
  c_outs : list (kid * option N * N);    (* output_ids *)
  c_amount : N;
  c_fee : option N;
  c_late : option largs
}.

Record wallet := mkW {
  w_outs : list orec;              (* in DB key order: (acct, child, mmr) *)
  w_log : list trec;               (* in DB key order: (parent, id) *)
  w_ctxs : list crec;
  w_child : list (N * N);          (* parent acct -> next child index *)
  w_logid : list (N * N);          (* parent acct -> next tx log id *)
  w_confh : list (N * N);          (* parent acct -> last confirmed height *)
  w_active : N;                    (* active account (parent_key_id) *)
  w_files : list N                 (* slate ids with a stored .grintx *)
}.

Definition empty_wallet : wallet := mkW [] [] [] [] [] [] 0 [].

(* ------------------------------------------------------------------ small maps *)
Fixpoint lookup (m : list (N * N)) (k : N) : N :=
  match m with [] => 0 | (k', v) :: r => if k' =? k then v else lookup r k end.
Fixpoint update (m : list (N * N)) (k v : N) : list (N * N) :=
  match m with
  | [] => [(k, v)]
  | (k', v') :: r => if k' =? k then (k, v) :: r else (k', v') :: update r k v
  end.

(* ------------------------------------------------------------------ output table *)
Definition mmr_ltb (a b : option N) : bool :=
  match a, b with
  | None, Some _ => true
  | Some x, Some y => x <? y
  | _, _ => false
  end.
Definition okey_eqb (o : orec) (k : kid) (m : option N) : bool :=
  kid_eqb (r_key o) k && optN_eqb (r_mmr o) m.
Definition okey_ltb (k1 : kid) (m1 : option N) (k2 : kid) (m2 : option N) : bool :=
  (fst k1 <? fst k2)
  || ((fst k1 =? fst k2) && ((snd k1 <? snd k2)
       || ((snd k1 =? snd k2) && mmr_ltb m1 m2))).

Fixpoint get_out (l : list orec) (k : kid) (m : option N) : option orec :=
  match l with
  | [] => None
  | o :: r => if okey_eqb o k m then Some o else get_out r k m
  end.
(** batch.save: replace the record stored under the same DB key, or insert in key order *)
Fixpoint replace_out (l : list orec) (x : orec) : list orec :=
  match l with
  | [] => []
  | o :: r => if okey_eqb o (r_key x) (r_mmr x) then x :: r else o :: replace_out r x
  end.
Fixpoint insert_out (l : list orec) (x : orec) : list orec :=
  match l with
  | [] => [x]
  | o :: r => if okey_ltb (r_key x) (r_mmr x) (r_key o) (r_mmr o) then x :: o :: r
              else o :: insert_out r x
  end.
Definition save_out (l : list orec) (x : orec) : list orec :=
  match get_out l (r_key x) (r_mmr x) with
  | Some _ => replace_out l x
  | None => insert_out l x
  end.
Definition del_out (l : list orec) (k : kid) (m : option N) : list orec :=
  filter (fun o => negb (okey_eqb o k m)) l.

(* ------------------------------------------------------------------ tx log *)
Definition tkey_eqb (t : trec) (parent id : N) : bool := (t_parent t =? parent) && (t_id t =? id).
Fixpoint save_tx (l : list trec) (x : trec) : list trec :=
  match l with
  | [] => [x]
  | t :: r =>
    if tkey_eqb t (t_parent x) (t_id x) then x :: r
    else if (t_parent x <? t_parent t) || ((t_parent x =? t_parent t) && (t_id x <? t_id t))
    then x :: t :: r
    else t :: save_tx r x
  end.

Definition set_status (o : orec) (s : status) : orec :=
  mkO (r_root o) (r_key o) (r_mmr o) (r_value o) s (r_height o) (r_lock o) (r_cb o) (r_tx o).
Definition set_tx (o : orec) (t : option N) : orec :=
  mkO (r_root o) (r_key o) (r_mmr o) (r_value o) (r_status o) (r_height o) (r_lock o) (r_cb o) t.
Definition set_height (o : orec) (h : N) : orec :=
  mkO (r_root o) (r_key o) (r_mmr o) (r_value o) (r_status o) h (r_lock o) (r_cb o) (r_tx o).
Definition set_ttype (t : trec) (ty : ttype) : trec :=
  mkT (t_parent t) (t_id t) (t_slate t) ty (t_conf t) (t_cred t) (t_deb t) (t_fee t) (t_ttl t)
      (t_nin t) (t_nout t) (t_excess t) (t_stored t).
Definition set_conf (t : trec) (b : bool) : trec :=
  mkT (t_parent t) (t_id t) (t_slate t) (t_type t) b (t_cred t) (t_deb t) (t_fee t) (t_ttl t)
      (t_nin t) (t_nout t) (t_excess t) (t_stored t).
Definition set_excess (t : trec) : trec :=
  mkT (t_parent t) (t_id t) (t_slate t) (t_type t) (t_conf t) (t_cred t) (t_deb t) (t_fee t) (t_ttl t)
      (t_nin t) (t_nout t) true (t_stored t).

(** the entry takes the cutoff the counterparty attached when it has none of its own (the
    issuer of an invoice, at finalize: the [fix:] for C17-invoice-issuer-never-expires) *)
Definition adopt_ttl (t : trec) (ttl : N) : trec :=
  match t_ttl t with
  | Some _ => t
  | None =>
    if ttl =? 0 then t
    else mkT (t_parent t) (t_id t) (t_slate t) (t_type t) (t_conf t) (t_cred t) (t_deb t) (t_fee t)
             (Some ttl) (t_nin t) (t_nout t) (t_excess t) (t_stored t)
  end.

Definition with_outs (w : wallet) (o : list orec) : wallet :=
  mkW o (w_log w) (w_ctxs w) (w_child w) (w_logid w) (w_confh w) (w_active w) (w_files w).
Definition with_log (w : wallet) (l : list trec) : wallet :=
  mkW (w_outs w) l (w_ctxs w) (w_child w) (w_logid w) (w_confh w) (w_active w) (w_files w).
Definition with_ctxs (w : wallet) (c : list crec) : wallet :=
  mkW (w_outs w) (w_log w) c (w_child w) (w_logid w) (w_confh w) (w_active w) (w_files w).
Definition with_child (w : wallet) (c : list (N * N)) : wallet :=
  mkW (w_outs w) (w_log w) (w_ctxs w) c (w_logid w) (w_confh w) (w_active w) (w_files w).
Definition with_logid (w : wallet) (c : list (N * N)) : wallet :=
  mkW (w_outs w) (w_log w) (w_ctxs w) (w_child w) c (w_confh w) (w_active w) (w_files w).
Definition with_confh (w : wallet) (c : list (N * N)) : wallet :=
  mkW (w_outs w) (w_log w) (w_ctxs w) (w_child w) (w_logid w) c (w_active w) (w_files w).
Definition with_active (w : wallet) (a : N) : wallet :=
  mkW (w_outs w) (w_log w) (w_ctxs w) (w_child w) (w_logid w) (w_confh w) a (w_files w).
Definition with_files (w : wallet) (f : list N) : wallet :=
  mkW (w_outs w) (w_log w) (w_ctxs w) (w_child w) (w_logid w) (w_confh w) (w_active w) f.

(** next_child: derives under the ACTIVE account and commits the bump first *)
Definition next_child (w : wallet) : wallet * kid :=
  let i := lookup (w_child w) (w_active w) in
  (with_child w (update (w_child w) (w_active w) (i + 1)), (w_active w, i)).

Definition next_log_id (w : wallet) (parent : N) : wallet * N :=
  let i := lookup (w_logid w) parent in
  (with_logid w (update (w_logid w) parent (i + 1)), i).

Definition get_ctx (w : wallet) (slate : N) : option crec :=
  find (fun c => c_slate c =? slate) (w_ctxs w).
Definition save_ctx (w : wallet) (c : crec) : wallet :=
  with_ctxs w (c :: filter (fun c' => negb (c_slate c' =? c_slate c)) (w_ctxs w)).
Definition del_ctx (w : wallet) (slate : N) : wallet :=
  with_ctxs w (filter (fun c' => negb (c_slate c' =? slate)) (w_ctxs w)).

(* ------------------------------------------------------------------ check_ttl *)
Definition check_ttl (w : wallet) (ttl : N) : result unit :=
  if negb (ttl =? 0) && (ttl <=? lookup (w_confh w) (w_active w)) then Err EExpired else Ok tt.

(* ------------------------------------------------------------------ receive_tx *)
(** foreign::receive_tx as bookkeeping. [crypto_ok = false]: the slate's public data made
    fill_round_1/2 fail AFTER the output and log entry were committed. *)
Definition receive (w : wallet) (slate amount ttl : N) (dest : option N) (crypto_ok : bool)
  : wallet * result unit :=
  match check_ttl w ttl with
  | Err e => (w, Err e)
  | Panic p => (w, Panic p)
  | Ok _ =>
    let parent := match dest with Some d => d | None => w_active w end in
    if existsb (fun t => optN_eqb (t_slate t) (Some slate) && (t_parent t =? parent)
                         && (ttype_eqb (t_type t) TReceived || ttype_eqb (t_type t) TReverted)) (w_log w)
    then (w, Err EAlreadyReceived)
    else
      let height := lookup (w_confh w) (w_active w) in
      let '(w1, key) := next_child w in
      (* the slate's signature data is checked once the key is drawn and before anything else
         is written (the C07 [fix:]; before it the output and the entry were written first) *)
      if negb crypto_ok then (w1, Err ECrypto) else
      let '(w2, id) := next_log_id w1 parent in
      let o := mkO parent key None amount Unconfirmed height 0 false (Some id) in
      let t := mkT parent id (Some slate) TReceived false amount 0 None
                   (if ttl =? 0 then None else Some ttl) 0 1 true false in
      let w3 := with_log (with_outs w2 (save_out (w_outs w2) o)) (save_tx (w_log w2) t) in
      (w3, Ok tt)
  end.

(* ------------------------------------------------------------------ lock_tx_context *)
Definition lockable (s : status) : bool :=
  match s with Unspent | Unconfirmed => true | _ => false end.

(** lock every context input: fails (nothing written) if a record is missing or is not
    currently spendable — the C03 [fix:] *)
Fixpoint lock_inputs (outs : list orec) (ins : list (kid * option N * N)) (id : N) (deb : N)
  : result (list orec * N) :=
  match ins with
  | [] => Ok (outs, deb)
  | (k, m, _) :: r =>
    match get_out outs k m with
    | None => Err EOther      (* batch.get(..)? : the backend's not-found error *)
    | Some o =>
      if lockable (r_status o) then
        lock_inputs (save_out outs (set_tx (set_status o Locked) (Some id))) r id (deb + r_value o)
      else Err EGeneric
    end
  end.

(** the change outputs are written — except under a key the wallet already records (the
    receiving output of an invoice it pays to itself, merged into the context): that record
    and its log entry are left as they are (the C04 [fix:]) *)
Fixpoint add_change (outs : list orec) (chg : list (kid * option N * N)) (parent id tip : N)
  : list orec :=
  match chg with
  | [] => outs
  | (k, _, v) :: r =>
    match get_out outs k None with
    | Some _ => add_change outs r parent id tip
    | None =>
      add_change (save_out outs (mkO parent k None v Unconfirmed tip 0 false (Some id))) r parent id tip
    end
  end.
(** the entries add_change writes (they are what the log entry counts as credited) *)
Fixpoint written_change (outs : list orec) (chg : list (kid * option N * N)) (parent id tip : N)
  : list (kid * option N * N) :=
  match chg with
  | [] => []
  | (k, m, v) :: r =>
    match get_out outs k None with
    | Some _ => written_change outs r parent id tip
    | None =>
      (k, m, v) :: written_change (save_out outs (mkO parent k None v Unconfirmed tip 0 false (Some id)))
                                  r parent id tip
    end
  end.

Definition sum_vals (l : list (kid * option N * N)) : N := sumN (map (fun x => snd x) l).

(** owner::tx_lock_outputs *)
Definition lock_tx (w : wallet) (slate ttl tip : N) (has_tx : bool) : wallet * result unit :=
  match get_ctx w slate with
  | None => (w, Err EOther)
  | Some c =>
    (* a compact slate carries no transaction: it is rebuilt from the context, which needs
       the context's fee (absent in an invoice issuer's context) *)
    if negb has_tx && match c_fee c with None => true | Some _ => false end then (w, Err EFee) else
    (* a slate is reserved at most once per account (the C03 [fix:]) *)
    if existsb (fun t => optN_eqb (t_slate t) (Some slate) && (t_parent t =? c_parent c)
                         && ttype_eqb (t_type t) TSent) (w_log w)
    then (w, Err EGeneric) else
    let '(w1, id) := next_log_id w (c_parent c) in
    match lock_inputs (w_outs w1) (c_ins c) id 0 with
    | Err e => (w, Err e)
    | Panic p => (w, Panic p)
    | Ok (outs1, deb) =>
      let outs2 := add_change outs1 (c_outs c) (c_parent c) id tip in
      let written := written_change outs1 (c_outs c) (c_parent c) id tip in
      let t := mkT (c_parent c) id (Some slate) TSent false (sum_vals written) deb (c_fee c)
                   (if ttl =? 0 then None else Some ttl) (lenN (c_ins c)) (lenN written)
                   true true in
      (with_files (with_log (with_outs w1 outs2) (save_tx (w_log w1) t)) (slate :: w_files w1), Ok tt)
    end
  end.

Definition lock (w : wallet) (slate ttl tip : N) : wallet * result unit := lock_tx w slate ttl tip true.

(* ------------------------------------------------------------------ cancel *)
Definition retrieve_txs (w : wallet) (id : option N) (slate : option N) (parent : N) : list trec :=
  filter (fun t => (t_parent t =? parent)
                   && (match id with Some i => t_id t =? i | None => true end)
                   && (match slate with Some s => optN_eqb (t_slate t) (Some s) | None => true end))
         (w_log w).

Definition cancel_cond (parent id : N) (o : orec) : bool :=
  (r_root o =? parent) && optN_eqb (r_tx o) (Some id) && negb (status_eqb (r_status o) Spent).
Definition cancel_one (parent id : N) (acc : list orec) (o : orec) : list orec :=
  if cancel_cond parent id o
  then match r_status o with
       | Unconfirmed | Reverted => del_out acc (r_key o) (r_mmr o)
       | Locked => save_out acc (set_status o Unspent)
       | _ => acc
       end
  else acc.
Definition cancel_outputs (outs : list orec) (parent id : N) : list orec :=
  fold_left (cancel_one parent id) outs outs.

Definition cancelled_type (ty : ttype) : ttype :=
  match ty with
  | TSent => TSentCancelled
  | TReceived | TReverted => TReceivedCancelled
  | x => x
  end.

(** tx::cancel_tx (the part after the refresh), addressed by log id or by slate id *)
Definition cancel (w : wallet) (id : option N) (slate : option N) : wallet * result unit :=
  let parent := w_active w in
  match retrieve_txs w id slate parent with
  | [t] =>
    if negb (ttype_eqb (t_type t) TSent || ttype_eqb (t_type t) TReceived
             || ttype_eqb (t_type t) TReverted)
    then (w, Err ENotCancellable)
    else if t_conf t then (w, Err ENotCancellable)
    else
      (with_log (with_outs w (cancel_outputs (w_outs w) parent (t_id t)))
                (save_tx (w_log w) (set_ttype t (cancelled_type (t_type t)))), Ok tt)
  | _ => (w, Err ENotFound)
  end.

(* ------------------------------------------------------------------ build_coinbase *)
Definition COINBASE_MATURITY : N := 3.   (* AutomatedTesting chain type, as in the harness *)
Definition REWARD : N := 60000000000.

(** updater::receive_coinbase after the C07 [fix:]: a caller-supplied key id is reused
    only if it names a still-unconfirmed coinbase candidate of this wallet *)
Definition coinbase (w : wallet) (fees height : N) (key : option kid) : wallet * result kid :=
  let reuse :=
    match key with
    | Some k => match get_out (w_outs w) k None with
                | Some o => if r_cb o && status_eqb (r_status o) Unconfirmed then Some k else None
                | None => None
                end
    | None => None
    end in
  let '(w1, k) := match reuse with Some k => (w, k) | None => next_child w end in
  let o := mkO (w_active w) k None (sat_add REWARD fees) Unconfirmed height
               (sat_add height COINBASE_MATURITY) true None in
  (with_outs w1 (save_out (w_outs w1) o), Ok k).

(* ------------------------------------------------------------------ refresh *)
(** what the node answered: for each queried output present in the UTXO set, its height *)
Definition presence := list (kid * option N * N).
Fixpoint present_height (p : presence) (k : kid) (m : option N) : option N :=
  match p with
  | [] => None
  | (k', m', h) :: r => if kid_eqb k k' && optN_eqb m m' then Some h else present_height r k m
  end.

Definition outstanding (t : trec) : bool :=
  negb (t_conf t) && (ttype_eqb (t_type t) TReceived || ttype_eqb (t_type t) TSent
                      || ttype_eqb (t_type t) TReverted).

(** map_wallet_outputs: which records the refresh looks at *)
Definition refresh_set (w : wallet) (parent : N) (update_all : bool) : list orec :=
  filter (fun o =>
    (r_root o =? parent) && negb (status_eqb (r_status o) Spent)
    && (update_all
        || match r_tx o with
           | None => true
           | Some t => existsb (fun te => (t_parent te =? parent) && outstanding te && (t_id te =? t))
                               (w_log w)
           end)) (w_outs w).

(** find_reverted_kernels: ids of TxReceived entries whose previously-Unspent output has
    vanished and whose kernel the node does not have ([kernel_missing] is the node's answer) *)
Definition reverted_ids (w : wallet) (parent : N) (qs : list orec) (p : presence)
           (kernel_missing : list N) : list N :=
  let gone := map (fun o => match r_tx o with Some t => t | None => 0 end)
                  (filter (fun o => match r_tx o with Some _ => true | None => false end
                                    && status_eqb (r_status o) Unspent
                                    && match present_height p (r_key o) (r_mmr o) with
                                       | None => true | Some _ => false end) qs) in
  map t_id (filter (fun t => existsb (N.eqb (t_id t)) gone && (t_parent t =? parent)
                             && ttype_eqb (t_type t) TReceived && t_excess t
                             && existsb (N.eqb (t_id t)) kernel_missing) (w_log w)).

Definition mark_unspent (s : status) : status :=
  match s with Unconfirmed | Reverted => Unspent | x => x end.
Definition mark_spent (s : status) : status :=
  match s with Unspent | Locked => Spent | x => x end.
Definition mark_reverted (s : status) : status :=
  match s with Unspent => Reverted | x => x end.

(** one iteration of the loop in apply_api_outputs, on the current batch state *)
Definition apply_one (parent tip : N) (p : presence) (reverted : list N) (w : wallet) (q : orec)
  : wallet :=
  match get_out (w_outs w) (r_key q) (r_mmr q) with
  | None => w
  | Some o =>
    match present_height p (r_key q) (r_mmr q) with
    | Some h =>
      (* coinbase being confirmed: new ConfirmedCoinbase entry *)
      let '(w1, o1) :=
        if r_cb o && status_eqb (r_status o) Unconfirmed then
          let '(w', id) := next_log_id w parent in
          let t := mkT parent id None TCoinbase true (r_value o) 0 None None 0 1 true false in
          (with_log w' (save_tx (w_log w') t), set_tx o (Some id))
        else (w, o) in
      (* non-coinbase: its transaction is confirmed *)
      let w2 :=
        if negb (r_cb o1) && (status_eqb (r_status o1) Unconfirmed || status_eqb (r_status o1) Reverted)
        then
          match find (fun t => optN_eqb (Some (t_id t)) (r_tx o1) && (t_parent t =? parent)) (w_log w1) with
          | Some t =>
            let t' := if ttype_eqb (t_type t) TReverted then set_ttype t TReceived else t in
            with_log w1 (save_tx (w_log w1) (set_conf t' true))
          | None => w1
          end
        else w1 in
      with_outs w2 (save_out (w_outs w2) (set_status (set_height o1 h) (mark_unspent (r_status o1))))
    | None =>
      let s' :=
        if negb (r_cb o) && match r_tx o with Some i => existsb (N.eqb i) reverted | None => false end
        then mark_reverted (r_status o) else mark_spent (r_status o) in
      with_outs w (save_out (w_outs w) (set_status o s'))
    end
  end.

(** (of the refreshed account only — a [fix:] for C04: before it every account's stale
    candidates went, checked against the node or not) *)
Definition clean_old_unconfirmed (w : wallet) (parent tip : N) : wallet :=
  if tip <? 50 then w
  else
    let dels := filter (fun o => (r_root o =? parent) && status_eqb (r_status o) Unconfirmed && (0 <? r_height o)
                                 && (r_height o <? tip - 50) && r_cb o) (w_outs w) in
    with_outs w (fold_left (fun acc o => del_out acc (r_key o) None) dels (w_outs w)).

(** updater::apply_api_outputs given the node's answers *)
Definition refresh_apply (w : wallet) (parent : N) (update_all : bool) (tip : N) (p : presence)
           (kernel_missing : list N) : wallet :=
  let qs := refresh_set w parent update_all in
  let reverted := reverted_ids w parent qs p kernel_missing in
  if tip <? lookup (w_confh w) parent then w
  else
    let w' := fold_left (apply_one parent tip p reverted) qs w in
    let log' := map (fun t => if existsb (N.eqb (t_id t)) reverted && (t_parent t =? parent)
                              then set_conf (set_ttype t TReverted) false else t) (w_log w') in
    with_confh (with_log w' log') (update (w_confh w') parent tip).

(** updater::refresh_outputs: apply the node's answers, then drop stale coinbase candidates *)
Definition refresh (w : wallet) (parent : N) (update_all : bool) (tip : N) (p : presence)
           (kernel_missing : list N) : wallet :=
  clean_old_unconfirmed (refresh_apply w parent update_all tip p kernel_missing) parent tip.

(* ------------------------------------------------------------------ init_send *)
Definition to_sel (i : N) (o : orec) : out :=
  mkOut (r_root o) i (r_value o) (r_status o) (r_height o) (r_lock o) (r_cb o).
Fixpoint index_from {A} (i : N) (l : list A) : list (N * A) :=
  match l with [] => [] | x :: r => (i, x) :: index_from (i + 1) r end.
Definition sel_view (w : wallet) : list out :=
  map (fun ix => to_sel (fst ix) (snd ix)) (index_from 0 (w_outs w)).
Definition nth_out (w : wallet) (i : N) : option orec := nth_error (w_outs w) (N.to_nat i).

Fixpoint alloc_change (w : wallet) (chg : list N) : wallet * list (kid * option N * N) :=
  match chg with
  | [] => (w, [])
  | v :: r =>
    let '(w1, k) := next_child w in
    let '(w2, l) := alloc_change w1 r in
    (w2, (k, None, v) :: l)
  end.

Definition ctx_inputs (w : wallet) (sel : list out) : list (kid * option N * N) :=
  flat_map (fun s => match nth_out w (o_key s) with
                     | Some o => [(r_key o, r_mmr o, r_value o)]
                     | None => [] end) sel.

(** owner::init_send_tx (not estimate_only) after its internal refresh has been applied;
    [late] = late_lock *)
Definition init_send (w : wallet) (slate : N) (src : option N) (p0 : params) (late : bool)
  : wallet * result (N * N) :=
  let parent := match src with Some a => a | None => w_active w end in
  let p := mkParams (p_amount p0) (p_aif p0) (p_h p0) (p_minconf p0) (p_max_outputs p0)
                    (p_change_outputs p0) (p_all p0) parent in
  if late then
    match select_coins_and_fee (sel_view w) p with
    | Err e => (w, Err e)
    | Panic q => (w, Panic q)
    | Ok (_, _, _, fee) =>
      let c := mkC slate parent [] [] (p_amount p) (Some fee)
                   (Some (mkLA (p_minconf p) (p_max_outputs p) (p_change_outputs p) (p_all p))) in
      (save_ctx w c, Ok (p_amount p, fee))
    end
  else
    match build_send (sel_view w) p with
    | Err e => (w, Err e)
    | Panic q => (w, Panic q)
    | Ok b =>
      let '(w1, chg) := alloc_change w (b_changes b) in
      let c := mkC slate parent (ctx_inputs w (b_inputs b)) chg (b_amount b) (Some (b_fee b)) None in
      (save_ctx w1 c, Ok (b_amount b, b_fee b))
    end.

(* ------------------------------------------------------------------ invoices *)
(** owner::issue_invoice_tx: the payee creates its output, a received entry and a context *)
Definition issue_invoice (w : wallet) (slate amount tip : N) (dest : option N) : wallet * result unit :=
  let parent := match dest with Some d => d | None => w_active w end in
  let '(w1, key) := next_child w in
  let '(w2, id) := next_log_id w1 parent in
  let o := mkO parent key None amount Unconfirmed tip 0 false (Some id) in
  let t := mkT parent id (Some slate) TReceived false amount 0 None None 0 1 false false in
  let w3 := with_log (with_outs w2 (save_out (w_outs w2) o)) (save_tx (w_log w2) t) in
  (save_ctx w3 (mkC slate parent [] [(key, None, amount)] amount None None), Ok tt).

(** ... or is that of a still pending late-locked send of ours (no inputs yet either): a [fix:]
    for C12 — treated as an issuer's context, its blinding key went out in the returned offset *)
Definition ctx_has_inputs (w : wallet) (slate : N) : bool :=
  match get_ctx w slate with
  | Some c => match c_ins c with [] => match c_late c with Some _ => true | None => false end | _ => true end
  | None => false
  end.

(** owner::process_invoice_tx after its internal refresh: the payer selects inputs for the
    invoiced amount; when paying its own invoice the two contexts are merged *)
Definition process_invoice (w0 : wallet) (slate ttl : N) (src : option N) (p0 : params)
           (tip : N) (pres : presence) (km : list N) : wallet * result unit :=
  match check_ttl w0 ttl with
  | Err e => (w0, Err e)
  | Panic q => (w0, Panic q)
  | Ok _ =>
    let parent := match src with Some a => a | None => w_active w0 end in
    (* the first entry (in creation order) for this slate in the account that is a sent or a
       cancelled sent transaction decides the refusal *)
    match find (fun t => optN_eqb (t_slate t) (Some slate) && (t_parent t =? parent)
                         && (ttype_eqb (t_type t) TSent || ttype_eqb (t_type t) TSentCancelled))
               (w_log w0) with
    | Some t => (w0, Err (if ttype_eqb (t_type t) TSent then EAlreadyReceived else EWasCancelled))
    | None =>
    (* a stored context that already names inputs is the payer's own from an earlier run of
       this step: refused before anything else happens (the C03 [fix:]) *)
    if ctx_has_inputs w0 slate then (w0, Err EAlreadyReceived) else
    (* the sender always refreshes its outputs first (add_inputs_to_slate) *)
    let w := refresh w0 parent false tip pres km in
      let p := mkParams (p_amount p0) false (p_h p0) (p_minconf p0) (p_max_outputs p0)
                        (p_change_outputs p0) (p_all p0) parent in
      match build_send (sel_view w) p with
      | Err e => (w, Err e)
      | Panic q => (w, Panic q)
      | Ok b =>
        let '(w1, chg) := alloc_change w (b_changes b) in
        let own := mkC slate parent (ctx_inputs w (b_inputs b)) chg (b_amount b) (Some (b_fee b)) None in
        let merged :=
          match get_ctx w slate with
          | Some c => mkC slate parent (c_ins own ++ c_ins c) (c_outs own ++ c_outs c) (c_amount c)
                          (c_fee c) None
          | None => own
          end in
        (save_ctx w1 merged, Ok tt)
      end
    end
  end.

(* ------------------------------------------------------------------ finalize *)
(** owner/foreign finalize_tx for a Standard2 reply, as bookkeeping. [crypto_ok]: whether
    the signature/fee/validation checks of complete_tx and the payment-proof check pass. *)
Definition finalize_invoice (w : wallet) (slate ttl : N) (crypto_ok : bool) : wallet * result unit :=
  if negb crypto_ok then (w, Err ECrypto)
  else
    match find (fun t => optN_eqb (t_slate t) (Some slate) && ttype_eqb (t_type t) TReceived)
               (w_log w) with
    | None => (w, Err ENotFound)
    | Some t =>
      (del_ctx (with_files (with_log w (save_tx (w_log w) (set_excess (adopt_ttl t ttl))))
                           (slate :: w_files w)) slate,
       Ok tt)
    end.

Definition finalize (w : wallet) (slate ttl tip : N) (state_ok crypto_ok : bool)
  : wallet * result unit :=
  match get_ctx w slate with
  | None => (w, Err EOther)
  | Some c =>
    match check_ttl w ttl with
    | Err e => (w, Err e)
    | Panic q => (w, Panic q)
    | Ok _ =>
      if negb state_ok then (w, Err ESlateState)
      else
        let late_result :=
          match c_late c with
          | None => (w, Ok c)
          | Some la =>
            (* late lock: select now with the fixed fee, store the context, lock *)
            let p := mkParams (c_amount c) false tip (la_minconf la) (la_max_outputs la)
                              (la_change_outputs la) (la_all la) (c_parent c) in
            match build_send (sel_view w) p with
            | Err e => (w, Err e)
            | Panic q => (w, Panic q)
            | Ok b =>
              (* the change keys are drawn (index bumps committed) before the fixed-fee test *)
              let '(w1, chg) := alloc_change w (b_changes b) in
              if negb (optN_eqb (Some (b_fee b)) (c_fee c)) then (w1, Err EFee)
              else
                let c' := mkC slate (c_parent c) (ctx_inputs w (b_inputs b)) chg (c_amount c)
                              (c_fee c) None in
                let w2 := save_ctx w1 c' in
                match lock w2 slate ttl tip with
                | (w3, Ok _) => (w3, Ok c')
                | (w3, Err e) => (save_ctx w3 c, Err e)   (* refused: the late-locked context goes back
                                                             (a [fix:] for C03; left as just saved, a retry
                                                             skipped the reservation and signed) *)
                | (w3, Panic q) => (w3, Panic q)
                end
            end
          end in
        match late_result with
        | (w', Err e) => (w', Err e)
        | (w', Panic q) => (w', Panic q)
        | (w', Ok _) =>
          if negb crypto_ok then (w', Err ECrypto)
          else if negb (existsb (fun t => optN_eqb (t_slate t) (Some slate)
                                          && (t_parent t =? c_parent c)) (w_log w'))
          then (w', Err EPaymentProof)   (* verify_slate_payment_proof: entry of the context's account *)
          else
            match find (fun t => optN_eqb (t_slate t) (Some slate) && ttype_eqb (t_type t) TSent)
                       (w_log w') with
            | None => (w', Err ENotFound)
            | Some t =>
              (del_ctx (with_files (with_log w' (save_tx (w_log w') (set_excess t)))
                                   (slate :: w_files w')) slate, Ok tt)
            end
        end
    end
  end.

(* ------------------------------------------------------------------ retrieve_info *)
Record info := mkInfo {
  i_total : N; i_awaiting_finalization : N; i_awaiting_confirmation : N; i_immature : N;
  i_locked : N; i_spendable : N; i_reverted : N
}.

Definition num_conf (o : orec) (h : N) : N :=
  if h <? r_height o then 0
  else if status_eqb (r_status o) Unconfirmed then 0 else sat_add 1 (h - r_height o).

Inductive bucket := BSpendable | BImmature | BAwaitConf | BAwaitFinal | BLocked | BReverted | BNone.
Definition bucket_of (o : orec) (h minconf : N) : bucket :=
  match r_status o with
  | Unspent =>
    if r_cb o && (h <? r_lock o) then BImmature
    else if num_conf o h <? minconf then BAwaitConf else BSpendable
  | Unconfirmed =>
    if r_cb o then BNone else if minconf =? 0 then BAwaitConf else BAwaitFinal
  | Locked => BLocked
  | Reverted => BReverted
  | Spent => BNone
  end.
Definition bucket_eqb (a b : bucket) : bool :=
  match a, b with
  | BSpendable, BSpendable | BImmature, BImmature | BAwaitConf, BAwaitConf
  | BAwaitFinal, BAwaitFinal | BLocked, BLocked | BReverted, BReverted | BNone, BNone => true
  | _, _ => false
  end.
Definition bucket_sum (outs : list orec) (parent h minconf : N) (b : bucket) : N :=
  sumN (map r_value (filter (fun o => (r_root o =? parent) && bucket_eqb (bucket_of o h minconf) b) outs)).

(** updater::retrieve_info: every figure is a saturating u64 sum (after the C04 [fix:]);
    a saturating accumulation of non-negative values equals min(exact sum, u64::MAX) *)
Definition sat (n : N) : N := N.min n U64MAX.
Definition retrieve_info (w : wallet) (parent minconf : N) : info :=
  let h := lookup (w_confh w) (w_active w) in
  let s := fun b => sat (bucket_sum (w_outs w) parent h minconf b) in
  mkInfo (sat_add (sat_add (s BSpendable) (s BAwaitConf)) (s BImmature)) (s BAwaitFinal)
         (s BAwaitConf) (s BImmature) (s BLocked) (s BSpendable) (s BReverted).

(* ------------------------------------------------------------------ TTL expiry (update_wallet_state step 5) *)
(** one outstanding entry of the refresh snapshot: cancelled iff it carries a cutoff that the
    observed tip has reached *)
Definition expire_one (tip : N) (w : wallet) (t : trec) : wallet :=
  match t_ttl t with
  | Some e => if e <=? tip then fst (cancel w (Some (t_id t)) None) else w
  | None => w
  end.
(** what the expiry step looks at: the outstanding entries, except a payment that was confirmed
    and then reorganised away (TxReverted) — it is not pending any more and stays reported as
    reverted until mined again (the [fix:] for C18; before it the step cancelled it) *)
Definition expirable (t : trec) : bool := outstanding t && negb (ttype_eqb (t_type t) TReverted).
Definition expire (w : wallet) (tip : N) : wallet :=
  fold_left (expire_one tip)
            (filter (fun t => (t_parent t =? w_active w) && expirable t) (w_log w)) w.

(* ------------------------------------------------------------------ operations *)
Inductive op :=
| OpReceive (slate amount ttl : N) (dest : option N) (crypto_ok : bool)
| OpLock (slate ttl tip : N) (has_tx : bool)
| OpCancel (id : option N) (slate : option N)
| OpCoinbase (fees height : N) (key : option kid)
| OpRefresh (parent : N) (update_all : bool) (tip : N) (p : presence) (kernel_missing : list N)
| OpInitSend (slate : N) (src : option N) (p : params) (late : bool)
| OpFinalize (slate ttl tip : N) (state_ok crypto_ok : bool)
| OpSetActive (a : N)
| OpExpire (tip : N)
| OpIssueInvoice (slate amount tip : N) (dest : option N)
| OpProcessInvoice (slate ttl : N) (src : option N) (p : params) (tip : N) (pres : presence) (km : list N)
| OpFinalizeInvoice (slate ttl : N) (crypto_ok : bool).

(** result code of a step: 0 Ok, 1 :: class for Err, 2 Panic *)
Definition rcode {A} (r : result A) : list Z :=
  match r with Ok _ => [0%Z] | Err e => [1%Z; err_code e] | Panic _ => [2%Z] end.

Definition step (w : wallet) (o : op) : wallet * list Z :=
  match o with
  | OpReceive s a t d c => let '(w', r) := receive w s a t d c in (w', rcode r)
  | OpLock s t tip h => let '(w', r) := lock_tx w s t tip h in (w', rcode r)
  | OpCancel i s => let '(w', r) := cancel w i s in (w', rcode r)
  | OpCoinbase f h k => let '(w', r) := coinbase w f h k in (w', rcode r)
  | OpRefresh p a t pr km => (refresh w p a t pr km, [0%Z])
  | OpInitSend s src p l => let '(w', r) := init_send w s src p l in (w', rcode r)
  | OpFinalize s t tip so c => let '(w', r) := finalize w s t tip so c in (w', rcode r)
  | OpSetActive a => (with_active w a, [0%Z])
  | OpExpire tip => (expire w tip, [0%Z])
  | OpIssueInvoice s a tip d => let '(w', r) := issue_invoice w s a tip d in (w', rcode r)
  | OpProcessInvoice s t src p tip pr km =>
    let '(w', r) := process_invoice w s t src p tip pr km in (w', rcode r)
  | OpFinalizeInvoice s t c =>
    match get_ctx w s with
    | None => (w, rcode (@Err unit EOther))
    | Some _ =>
      match check_ttl w t with
      | Err e => (w, rcode (@Err unit e))
      | Panic q => (w, rcode (@Panic unit q))
      | Ok _ => let '(w', r) := finalize_invoice w s t c in (w', rcode r)
      end
    end
  end.

Definition run (w : wallet) (ops : list op) : wallet := fold_left (fun w o => fst (step w o)) ops w.

(* ------------------------------------------------------------------ canonical projection *)
Definition status_code (s : status) : Z :=
  match s with Unconfirmed => 0 | Unspent => 1 | Locked => 2 | Spent => 3 | Reverted => 4 end%Z.
Definition ttype_code (t : ttype) : Z :=
  match t with TCoinbase => 0 | TReceived => 1 | TSent => 2 | TReceivedCancelled => 3
             | TSentCancelled => 4 | TReverted => 5 end%Z.
Definition optZ (o : option N) : Z := match o with None => (-1)%Z | Some n => Z.of_N n end.
Definition bZ (b : bool) : Z := if b then 1%Z else 0%Z.

Definition enc_out (o : orec) : list Z :=
  [Z.of_N (r_root o); Z.of_N (fst (r_key o)); Z.of_N (snd (r_key o)); optZ (r_mmr o);
   Z.of_N (r_value o); status_code (r_status o); Z.of_N (r_height o); Z.of_N (r_lock o);
   bZ (r_cb o); optZ (r_tx o)].
Definition enc_tx (t : trec) : list Z :=
  [Z.of_N (t_parent t); Z.of_N (t_id t); optZ (t_slate t); ttype_code (t_type t); bZ (t_conf t);
   Z.of_N (t_cred t); Z.of_N (t_deb t); optZ (t_fee t); optZ (t_ttl t); Z.of_N (t_nin t);
   Z.of_N (t_nout t); bZ (t_excess t)].
Definition enc_pairs (m : list (N * N)) : list (list Z) :=
  map (fun kv => [Z.of_N (fst kv); Z.of_N (snd kv)]) (filter (fun kv => negb (snd kv =? 0)) m).

Definition enc_info (w : wallet) (minconf : N) : list Z :=
  let i := retrieve_info w (w_active w) minconf in
  [Z.of_N minconf; Z.of_N (i_spendable i); Z.of_N (i_immature i); Z.of_N (i_awaiting_confirmation i);
   Z.of_N (i_awaiting_finalization i); Z.of_N (i_locked i); Z.of_N (i_reverted i); Z.of_N (i_total i);
   Z.of_N (lookup (w_confh w) (w_active w))].

(** projection compared with the harness snapshot: outputs, log, child counters, contexts,
    and the balance figures of the active account for 0, 1 and 3 minimum confirmations *)
Definition project (w : wallet) : list (list (list Z)) :=
  [map enc_out (w_outs w); map enc_tx (w_log w); enc_pairs (w_child w);
   [map (fun c => Z.of_N (c_slate c)) (w_ctxs w)];
   [enc_info w 0; enc_info w 1; enc_info w 3]].

(** run a history and emit, per step, the result code and the projection *)
Fixpoint trace (w : wallet) (ops : list op) : list (list (list (list Z))) :=
  match ops with
  | [] => []
  | o :: r => let '(w', rc) := step w o in ([rc] :: project w') :: trace w' r
  end.
