(** Proofs about the wallet bookkeeping model (Ledger.v): table lemmas, exclusivity of
    reservations (C03), cancel as rollback (C05), foreign operations only add (C07),
    key freshness (C15), TTL (C17). All statements quantify over every wallet state
    (and, where lifted, over every operation sequence). *)
From GW Require Import Ledger.
From Coq Require Import ZifyBool ZifyN ZifyNat.

(* ------------------------------------------------------------------ keys *)

Lemma kid_eqb_eq a b : kid_eqb a b = true <-> a = b.
Proof.
  destruct a as [a1 a2], b as [b1 b2]; unfold kid_eqb; cbn. split.
  - intros H. apply andb_true_iff in H as [H1 H2]. f_equal; lia.
  - intros H; inversion H; subst. apply andb_true_iff; split; lia.
Qed.

Lemma optN_eqb_eq a b : optN_eqb a b = true <-> a = b.
Proof.
  destruct a, b; cbn; split; intros H; try discriminate; try reflexivity.
  - f_equal; lia.
  - inversion H; lia.
Qed.

Lemma kid_eqb_refl a : kid_eqb a a = true.
Proof. now apply kid_eqb_eq. Qed.
Lemma optN_eqb_refl a : optN_eqb a a = true.
Proof. now apply optN_eqb_eq. Qed.

Definition same_key (o : orec) (k : kid) (m : option N) : Prop := r_key o = k /\ r_mmr o = m.

Lemma okey_eqb_iff o k m : okey_eqb o k m = true <-> same_key o k m.
Proof.
  unfold okey_eqb, same_key. rewrite andb_true_iff, kid_eqb_eq, optN_eqb_eq. tauto.
Qed.

Lemma okey_eqb_false o k m : okey_eqb o k m = false <-> ~ same_key o k m.
Proof.
  rewrite <- okey_eqb_iff. destruct (okey_eqb o k m); intuition congruence.
Qed.

(* ------------------------------------------------------------------ output table *)

Lemma get_save_same l x : get_out (save_out l x) (r_key x) (r_mmr x) = Some x.
Proof.
  induction l as [|o r IH]; cbn [save_out get_out].
  - assert (E : okey_eqb x (r_key x) (r_mmr x) = true) by (apply okey_eqb_iff; split; reflexivity).
    now rewrite E.
  - destruct (okey_eqb o (r_key x) (r_mmr x)) eqn:E1.
    + cbn [get_out]. assert (E : okey_eqb x (r_key x) (r_mmr x) = true) by (apply okey_eqb_iff; split; reflexivity).
      now rewrite E.
    + destruct (okey_ltb _ _ _ _); cbn [get_out].
      * assert (E : okey_eqb x (r_key x) (r_mmr x) = true) by (apply okey_eqb_iff; split; reflexivity).
        now rewrite E.
      * now rewrite E1.
Qed.

Lemma get_save_other l x k m :
  ~ same_key x k m -> get_out (save_out l x) k m = get_out l k m.
Proof.
  intros Hne. apply okey_eqb_false in Hne.
  induction l as [|o r IH]; cbn [save_out get_out].
  - now rewrite Hne.
  - destruct (okey_eqb o (r_key x) (r_mmr x)) eqn:E1.
    + cbn [get_out]. rewrite Hne.
      apply okey_eqb_iff in E1 as [E1 E2].
      assert (okey_eqb o k m = false).
      { apply okey_eqb_false. intros [H1 H2]. apply okey_eqb_false in Hne. apply Hne.
        split; congruence. }
      now rewrite H.
    + destruct (okey_ltb _ _ _ _); cbn [get_out].
      * now rewrite Hne.
      * destruct (okey_eqb o k m); [reflexivity|apply IH].
Qed.

Lemma get_save l x k m :
  get_out (save_out l x) k m = if okey_eqb x k m then Some x else get_out l k m.
Proof.
  destruct (okey_eqb x k m) eqn:E.
  - apply okey_eqb_iff in E as [<- <-]. apply get_save_same.
  - apply get_save_other. now apply okey_eqb_false.
Qed.

Lemma get_del l k0 m0 k m :
  get_out (del_out l k0 m0) k m
  = if kid_eqb k0 k && optN_eqb m0 m then None else get_out l k m.
Proof.
  unfold del_out. induction l as [|o r IH]; cbn [filter get_out].
  - destruct (_ && _); reflexivity.
  - destruct (okey_eqb o k0 m0) eqn:E0; cbn [negb].
    + rewrite IH. destruct (kid_eqb k0 k && optN_eqb m0 m) eqn:E1; [reflexivity|].
      assert (okey_eqb o k m = false).
      { apply okey_eqb_false. intros [H1 H2]. apply okey_eqb_iff in E0 as [H3 H4].
        assert (kid_eqb k0 k && optN_eqb m0 m = true).
        { apply andb_true_iff; split; [apply kid_eqb_eq|apply optN_eqb_eq]; congruence. }
        congruence. }
      now rewrite H.
    + cbn [get_out]. destruct (okey_eqb o k m) eqn:E1.
      * destruct (kid_eqb k0 k && optN_eqb m0 m) eqn:E2; [|reflexivity].
        exfalso. apply andb_true_iff in E2 as [H1 H2].
        apply kid_eqb_eq in H1. apply optN_eqb_eq in H2. subst.
        apply okey_eqb_iff in E1. apply okey_eqb_false in E0. contradiction.
      * apply IH.
Qed.

Lemma get_out_in l k m o : get_out l k m = Some o -> In o l /\ same_key o k m.
Proof.
  induction l as [|x r IH]; cbn [get_out]; [discriminate|].
  destruct (okey_eqb x k m) eqn:E.
  - intros H; inversion H; subst. split; [now left|now apply okey_eqb_iff].
  - intros H. destruct (IH H). split; [now right|assumption].
Qed.

(* ------------------------------------------------------------------ maps *)

Lemma lookup_update m k v k' : lookup (update m k v) k' = if k =? k' then v else lookup m k'.
Proof.
  induction m as [|[a b] r IH]; cbn [update lookup].
  - destruct (k =? k') eqn:E; [reflexivity|]. reflexivity.
  - destruct (a =? k) eqn:E1; cbn [lookup].
    + destruct (k =? k') eqn:E2.
      * reflexivity.
      * assert (a =? k' = false) by lia. now rewrite H.
    + destruct (a =? k') eqn:E3.
      * assert (k =? k' = false) by lia. now rewrite H.
      * apply IH.
Qed.

(* ------------------------------------------------------------------ C17: TTL *)

Lemma check_ttl_spec w ttl :
  check_ttl w ttl = Err EExpired <-> (ttl <> 0 /\ ttl <= lookup (w_confh w) (w_active w)).
Proof.
  unfold check_ttl. destruct (negb (ttl =? 0) && (ttl <=? lookup (w_confh w) (w_active w))) eqn:E.
  - split; [intros _; lia|reflexivity].
  - split; [discriminate|intros [H1 H2]; lia].
Qed.

Lemma check_ttl_cases w ttl : check_ttl w ttl = Err EExpired \/ check_ttl w ttl = Ok tt.
Proof. unfold check_ttl. destruct (_ && _); auto. Qed.

Lemma receive_expired w s a ttl d c :
  ttl <> 0 -> ttl <= lookup (w_confh w) (w_active w) ->
  receive w s a ttl d c = (w, Err EExpired).
Proof.
  intros H1 H2. unfold receive.
  assert (E : check_ttl w ttl = Err EExpired) by (apply check_ttl_spec; auto). now rewrite E.
Qed.

Lemma finalize_expired w s ttl tip so c :
  ttl <> 0 -> ttl <= lookup (w_confh w) (w_active w) ->
  fst (finalize w s ttl tip so c) = w /\ is_ok (snd (finalize w s ttl tip so c)) = false.
Proof.
  intros H1 H2. unfold finalize. destruct (get_ctx w s); [|split; reflexivity].
  assert (E : check_ttl w ttl = Err EExpired) by (apply check_ttl_spec; auto). rewrite E.
  split; reflexivity.
Qed.

Lemma receive_not_expired_reason w s a ttl d c :
  (ttl = 0 \/ lookup (w_confh w) (w_active w) < ttl) ->
  snd (receive w s a ttl d c) <> Err EExpired.
Proof.
  intros H. unfold receive.
  destruct (check_ttl_cases w ttl) as [E|E].
  - apply check_ttl_spec in E. lia.
  - rewrite E. destruct (existsb _ _); cbn; [discriminate|].
    destruct (next_child w) as [w1 key].
    try match goal with |- context [next_log_id w1 ?p] => destruct (next_log_id w1 p) as [w2 id] end.
    cbn. destruct c; discriminate.
Qed.

(* ------------------------------------------------------------------ C03: reservation *)

Lemma classic_in (r : list (kid * option N * N)) k m :
  (exists v, In (k, m, v) r) \/ (forall v, ~ In (k, m, v) r).
Proof.
  induction r as [|[[k1 m1] v1] r IH]; [right; intros v []|].
  destruct (kid_eqb k1 k && optN_eqb m1 m) eqn:E.
  - apply andb_true_iff in E as [E1 E2]. apply kid_eqb_eq in E1. apply optN_eqb_eq in E2. subst.
    left; exists v1; now left.
  - destruct IH as [[v Hv]|Hn]; [left; exists v; now right|].
    right. intros v [Heq|Hin]; [|eapply Hn; eauto].
    inversion Heq; subst. rewrite kid_eqb_refl, optN_eqb_refl in E. discriminate.
Qed.

(** lock_inputs: on success every named input was free and is now Locked with the new id;
    every other record is untouched *)
Lemma lock_inputs_spec : forall ins outs id deb outs' deb',
  lock_inputs outs ins id deb = Ok (outs', deb') ->
  (forall k m v, In (k, m, v) ins ->
     exists o, get_out outs' k m = Some o /\ r_status o = Locked /\ r_tx o = Some id)
  /\ (forall k m, (forall v, ~ In (k, m, v) ins) -> get_out outs' k m = get_out outs k m)
  /\ (forall k m v, In (k, m, v) ins ->
        exists o0, get_out outs k m = Some o0 /\ lockable (r_status o0) = true).
Proof.
  induction ins as [|[[k0 m0] v0] r IH]; intros outs id deb outs' deb' H; cbn [lock_inputs] in H.
  - inversion H; subst. repeat split; intros; try contradiction; reflexivity.
  - destruct (get_out outs k0 m0) as [o|] eqn:Eg; [|discriminate].
    destruct (lockable (r_status o)) eqn:El; [|discriminate].
    apply IH in H as (H1 & H2 & H3).
    pose proof (get_out_in _ _ _ _ Eg) as [_ [Hk Hm]].
    set (o' := set_tx (set_status o Locked) (Some id)) in *.
    assert (Hk' : r_key o' = k0 /\ r_mmr o' = m0) by (destruct o; cbn in *; auto).
    split; [|split].
    + intros k m v [Heq|Hin].
      * inversion Heq; subst k m v.
        destruct (classic_in r k0 m0) as [[v' Hin']|Hnot].
        -- eapply H1; eauto.
        -- rewrite (H2 k0 m0 Hnot). rewrite get_save.
           assert (okey_eqb o' k0 m0 = true) by (apply okey_eqb_iff; exact Hk').
           rewrite H. exists o'. destruct o; cbn; auto.
      * eapply H1; eauto.
    + intros k m Hnot.
      rewrite H2 by (intros v Hin; apply (Hnot v); now right).
      rewrite get_save.
      assert (okey_eqb o' k m = false).
      { apply okey_eqb_false. intros [Ha Hb]. apply (Hnot v0). left.
        destruct Hk' as [Hk1 Hk2]. congruence. }
      now rewrite H.
    + intros k m v [Heq|Hin].
      * inversion Heq; subst k m v. exists o; split; [exact Eg|exact El].
      * destruct (H3 k m v Hin) as (o0 & Hg & Hs).
        rewrite get_save in Hg. destruct (okey_eqb o' k m) eqn:E.
        -- inversion Hg; subst o0. exfalso. unfold o' in Hs. destruct o; cbn in Hs. discriminate.
        -- exists o0; split; [exact Hg|exact Hs].
Qed.

Lemma add_change_get : forall chg outs parent id tip k m,
  (forall v, ~ In (k, m, v) (map (fun x => (fst (fst x), None, snd x)) chg)) ->
  get_out (add_change outs chg parent id tip) k m = get_out outs k m.
Proof.
  induction chg as [|[[k0 m0] v0] r IH]; intros outs parent id tip k m Hn; cbn [add_change]; [reflexivity|].
  rewrite IH.
  - rewrite get_save.
    match goal with |- (if okey_eqb ?x k m then _ else _) = _ => destruct (okey_eqb x k m) eqn:E end;
      [|reflexivity].
    exfalso. apply okey_eqb_iff in E as [E1 E2]. cbn in E1, E2.
    subst. apply (Hn v0). now left.
  - intros v Hin. apply (Hn v). now right.
Qed.

(** C03 (step form): a successful reservation takes only outputs that were free, marks
    exactly those as held by the new log entry, and touches no other existing record
    (in particular no output held by another pending transaction). *)
Theorem lock_exclusive w slate ttl tip w' :
  lock w slate ttl tip = (w', Ok tt) ->
  exists c, get_ctx w slate = Some c /\
    let id := lookup (w_logid w) (c_parent c) in
    (forall k m v, In (k, m, v) (c_ins c) ->
       (exists o0, get_out (w_outs w) k m = Some o0 /\ lockable (r_status o0) = true))
    /\ (forall k m o, get_out (w_outs w) k m = Some o ->
          (forall v, ~ In (k, m, v) (c_ins c)) ->
          (forall v, ~ In (k, m, v) (map (fun x => (fst (fst x), None, snd x)) (c_outs c))) ->
          get_out (w_outs w') k m = Some o)
    /\ (forall k m v, In (k, m, v) (c_ins c) ->
          (forall v', ~ In (k, m, v') (map (fun x => (fst (fst x), None, snd x)) (c_outs c))) ->
          exists o, get_out (w_outs w') k m = Some o /\ r_status o = Locked /\ r_tx o = Some id).
Proof.
  unfold lock. destruct (get_ctx w slate) as [c|] eqn:Ec; [|discriminate].
  destruct (existsb _ (w_log w)) eqn:Edup; [discriminate|].
  unfold next_log_id. cbn zeta.
  destruct (lock_inputs _ _ _ _) as [[outs1 deb]|e|q] eqn:El; try discriminate.
  intros H. inversion H; subst; clear H. exists c. split; [reflexivity|]. cbn zeta.
  cbn [w_outs with_logid with_outs with_log with_files] in *.
  apply lock_inputs_spec in El as (H1 & H2 & H3).
  split; [|split].
  - intros k m v Hin. eapply H3; eauto.
  - intros k m o Hg Hn1 Hn2. rewrite add_change_get by exact Hn2. rewrite H2 by exact Hn1. exact Hg.
  - intros k m v Hin Hn2. rewrite add_change_get by exact Hn2. eapply H1; eauto.
Qed.

(** a reservation that names an output some pending transaction already holds (or a spent
    / reverted / missing one) is refused and changes nothing *)
Theorem lock_refuses_held w slate ttl tip c k m v :
  get_ctx w slate = Some c -> In (k, m, v) (c_ins c) ->
  (match get_out (w_outs w) k m with
   | Some o => lockable (r_status o) = false
   | None => True end) ->
  lock w slate ttl tip = (w, Err EGeneric).
Proof.
  intros Hc Hin Hbad. unfold lock. rewrite Hc.
  destruct (existsb _ (w_log w)); [reflexivity|]. unfold next_log_id. cbn zeta.
  cbn [w_outs with_logid].
  assert (Hl : forall ins outs id deb,
     In (k, m, v) ins ->
     (forall k' m', get_out outs k' m' = None -> get_out (w_outs w) k' m' = None) ->
     (forall k' m' o', get_out outs k' m' = Some o' ->
        lockable (r_status o') = true -> exists o0, get_out (w_outs w) k' m' = Some o0
                                                    /\ lockable (r_status o0) = true) ->
     lock_inputs outs ins id deb = Err EGeneric).
  { induction ins as [|[[k0 m0] v0] r IH]; intros outs id deb Hi Hnone Hsome; [contradiction|].
    cbn [lock_inputs]. destruct (get_out outs k0 m0) as [o|] eqn:Eg; [|reflexivity].
    destruct (lockable (r_status o)) eqn:Elk; [|reflexivity].
    destruct Hi as [Heq|Hi].
    - inversion Heq; subst. exfalso. destruct (Hsome _ _ _ Eg Elk) as (o0 & Hg0 & Hl0).
      rewrite Hg0 in Hbad. congruence.
    - apply IH; auto.
      + intros k' m' Hg. rewrite get_save in Hg. destruct (okey_eqb _ k' m'); [discriminate|auto].
      + intros k' m' o' Hg Hlk. rewrite get_save in Hg.
        destruct (okey_eqb (set_tx (set_status o Locked) (Some id)) k' m') eqn:E.
        * inversion Hg; subst. destruct o; cbn in Hlk. discriminate.
        * eauto. }
  rewrite (Hl (c_ins c) (w_outs w)); auto. intros k' m' o' Hg Hlk. eauto.
Qed.
