(** Proofs about the wallet bookkeeping model (Ledger.v): table lemmas, exclusivity of
    reservations (C03), cancel as rollback (C05), foreign operations only add (C07),
    key freshness (C15), TTL (C17). All statements quantify over every wallet state
    (and, where lifted, over every operation sequence). *)
From GW Require Import Ledger.
From Coq Require Import ZifyBool ZifyN ZifyNat.

(* ------------------------------------------------------------------ keys *)

Lemma kid_eqb_eq a b : kid_eqb a b = true <-> a = b.
Proof.
  destruct a as [a1 a2], b as [b1 b2]; unfold kid_eqb; cbn. split.
  - intros H. apply andb_true_iff in H as [H1 H2]. f_equal; lia.
  - intros H; inversion H; subst. apply andb_true_iff; split; lia.
Qed.

Lemma optN_eqb_eq a b : optN_eqb a b = true <-> a = b.
Proof.
  destruct a, b; cbn; split; intros H; try discriminate; try reflexivity.
  - f_equal; lia.
  - inversion H; lia.
Qed.

Lemma kid_eqb_refl a : kid_eqb a a = true.
Proof. now apply kid_eqb_eq. Qed.
Lemma optN_eqb_refl a : optN_eqb a a = true.
Proof. now apply optN_eqb_eq. Qed.

Definition same_key (o : orec) (k : kid) (m : option N) : Prop := r_key o = k /\ r_mmr o = m.

Lemma okey_eqb_iff o k m : okey_eqb o k m = true <-> same_key o k m.
Proof.
  unfold okey_eqb, same_key. rewrite andb_true_iff, kid_eqb_eq, optN_eqb_eq. tauto.
Qed.

Lemma okey_eqb_false o k m : okey_eqb o k m = false <-> ~ same_key o k m.
Proof.
  rewrite <- okey_eqb_iff. destruct (okey_eqb o k m); intuition congruence.
Qed.

(* ------------------------------------------------------------------ output table *)

Definition okey (o : orec) : kid * option N := (r_key o, r_mmr o).

Lemma get_replace l x k m :
  get_out (replace_out l x) k m
  = match get_out l (r_key x) (r_mmr x) with
    | Some _ => if okey_eqb x k m then Some x else get_out l k m
    | None => get_out l k m
    end.
Proof.
  induction l as [|o r IH]; cbn [replace_out get_out]; [reflexivity|].
  destruct (okey_eqb o (r_key x) (r_mmr x)) eqn:E1; cbn [get_out].
  - destruct (okey_eqb x k m) eqn:E2; [reflexivity|].
    apply okey_eqb_iff in E1 as [E1a E1b].
    assert (okey_eqb o k m = false).
    { apply okey_eqb_false. intros [H1 H2]. apply okey_eqb_false in E2. apply E2. split; congruence. }
    now rewrite H.
  - rewrite IH. destruct (get_out r (r_key x) (r_mmr x)) eqn:Eg.
    + destruct (okey_eqb o k m) eqn:E3; [|reflexivity].
      destruct (okey_eqb x k m) eqn:E2; [|reflexivity].
      exfalso. apply okey_eqb_iff in E3 as [? ?]. apply okey_eqb_iff in E2 as [? ?].
      apply okey_eqb_false in E1. apply E1. split; congruence.
    + reflexivity.
Qed.

Lemma get_insert l x k m :
  get_out l (r_key x) (r_mmr x) = None ->
  get_out (insert_out l x) k m = if okey_eqb x k m then Some x else get_out l k m.
Proof.
  induction l as [|o r IH]; cbn [insert_out get_out]; intros Hn.
  - reflexivity.
  - destruct (okey_eqb o (r_key x) (r_mmr x)) eqn:E1; [discriminate|].
    destruct (okey_ltb _ _ _ _); cbn [get_out].
    + reflexivity.
    + rewrite IH by exact Hn. destruct (okey_eqb o k m) eqn:E3; [|reflexivity].
      destruct (okey_eqb x k m) eqn:E2; [|reflexivity].
      exfalso. apply okey_eqb_iff in E3 as [? ?]. apply okey_eqb_iff in E2 as [? ?].
      apply okey_eqb_false in E1. apply E1. split; congruence.
Qed.

Lemma get_save l x k m :
  get_out (save_out l x) k m = if okey_eqb x k m then Some x else get_out l k m.
Proof.
  unfold save_out. destruct (get_out l (r_key x) (r_mmr x)) eqn:E.
  - rewrite get_replace, E. reflexivity.
  - apply get_insert. exact E.
Qed.

Lemma get_save_same l x : get_out (save_out l x) (r_key x) (r_mmr x) = Some x.
Proof.
  rewrite get_save.
  assert (E : okey_eqb x (r_key x) (r_mmr x) = true) by (apply okey_eqb_iff; split; reflexivity).
  now rewrite E.
Qed.

Lemma get_save_other l x k m :
  ~ same_key x k m -> get_out (save_out l x) k m = get_out l k m.
Proof. intros Hne. apply okey_eqb_false in Hne. rewrite get_save. now rewrite Hne. Qed.

Lemma get_out_none l k m : get_out l k m = None <-> ~ In (k, m) (map okey l).
Proof.
  induction l as [|o r IH]; cbn [get_out map In]; [tauto|].
  destruct (okey_eqb o k m) eqn:E.
  - apply okey_eqb_iff in E as [E1 E2]. split; [discriminate|]. intros H; exfalso; apply H.
    left. unfold okey. congruence.
  - rewrite IH. apply okey_eqb_false in E. split; intros H.
    + intros [Heq|Hin]; [|tauto]. apply E. unfold okey in Heq. inversion Heq; split; reflexivity.
    + tauto.
Qed.

Lemma keys_replace l x :
  (exists o, get_out l (r_key x) (r_mmr x) = Some o) -> map okey (replace_out l x) = map okey l.
Proof.
  induction l as [|o r IH]; cbn [replace_out get_out map]; [reflexivity|].
  destruct (okey_eqb o (r_key x) (r_mmr x)) eqn:E; cbn [map]; intros Hex.
  - apply okey_eqb_iff in E as [E1 E2]. f_equal. unfold okey. congruence.
  - f_equal. apply IH. exact Hex.
Qed.

Lemma in_keys_insert l x kk : In kk (map okey (insert_out l x)) <-> kk = okey x \/ In kk (map okey l).
Proof.
  induction l as [|o r IH]; cbn [insert_out map In]; [intuition|].
  destruct (okey_ltb _ _ _ _); cbn [map In]; [intuition|]. rewrite IH. intuition.
Qed.

Lemma nodup_insert l x :
  NoDup (map okey l) -> ~ In (okey x) (map okey l) -> NoDup (map okey (insert_out l x)).
Proof.
  induction l as [|o r IH]; cbn [insert_out map]; intros Hn Hni.
  - constructor; [intros []|constructor].
  - destruct (okey_ltb _ _ _ _); cbn [map].
    + constructor; assumption.
    + inversion Hn as [|? ? Ho Hr]; subst. constructor.
      * rewrite in_keys_insert. intros [Heq|Hin]; [|contradiction]. apply Hni. left. congruence.
      * apply IH; [assumption|]. intros Hin; apply Hni; now right.
Qed.

Lemma nodup_save l x : NoDup (map okey l) -> NoDup (map okey (save_out l x)).
Proof.
  intros Hn. unfold save_out. destruct (get_out l (r_key x) (r_mmr x)) eqn:E.
  - rewrite keys_replace by eauto. exact Hn.
  - apply nodup_insert; [exact Hn|]. apply get_out_none in E. exact E.
Qed.

Lemma nodup_del l k m : NoDup (map okey l) -> NoDup (map okey (del_out l k m)).
Proof.
  unfold del_out. induction l as [|o r IH]; cbn [filter map]; intros Hn; [constructor|].
  inversion Hn as [|? ? Ho Hr]; subst.
  destruct (negb (okey_eqb o k m)); cbn [map]; [|auto].
  constructor; [|auto]. intros Hin. apply Ho.
  apply in_map_iff in Hin as (y & Hy & Hin). apply filter_In in Hin as [Hin _].
  apply in_map_iff. eauto.
Qed.

Lemma get_del l k0 m0 k m :
  get_out (del_out l k0 m0) k m
  = if kid_eqb k0 k && optN_eqb m0 m then None else get_out l k m.
Proof.
  unfold del_out. induction l as [|o r IH]; cbn [filter get_out].
  - destruct (_ && _); reflexivity.
  - destruct (okey_eqb o k0 m0) eqn:E0; cbn [negb].
    + rewrite IH. destruct (kid_eqb k0 k && optN_eqb m0 m) eqn:E1; [reflexivity|].
      assert (okey_eqb o k m = false).
      { apply okey_eqb_false. intros [H1 H2]. apply okey_eqb_iff in E0 as [H3 H4].
        assert (kid_eqb k0 k && optN_eqb m0 m = true).
        { apply andb_true_iff; split; [apply kid_eqb_eq|apply optN_eqb_eq]; congruence. }
        congruence. }
      now rewrite H.
    + cbn [get_out]. destruct (okey_eqb o k m) eqn:E1.
      * destruct (kid_eqb k0 k && optN_eqb m0 m) eqn:E2; [|reflexivity].
        exfalso. apply andb_true_iff in E2 as [H1 H2].
        apply kid_eqb_eq in H1. apply optN_eqb_eq in H2. subst.
        apply okey_eqb_iff in E1. apply okey_eqb_false in E0. contradiction.
      * apply IH.
Qed.

Lemma get_out_in l k m o : get_out l k m = Some o -> In o l /\ same_key o k m.
Proof.
  induction l as [|x r IH]; cbn [get_out]; [discriminate|].
  destruct (okey_eqb x k m) eqn:E.
  - intros H; inversion H; subst. split; [now left|now apply okey_eqb_iff].
  - intros H. destruct (IH H). split; [now right|assumption].
Qed.

(* ------------------------------------------------------------------ maps *)

Lemma lookup_update m k v k' : lookup (update m k v) k' = if k =? k' then v else lookup m k'.
Proof.
  induction m as [|[a b] r IH]; cbn [update lookup].
  - destruct (k =? k') eqn:E; [reflexivity|]. reflexivity.
  - destruct (a =? k) eqn:E1; cbn [lookup].
    + destruct (k =? k') eqn:E2.
      * reflexivity.
      * assert (a =? k' = false) by lia. now rewrite H.
    + destruct (a =? k') eqn:E3.
      * assert (k =? k' = false) by lia. now rewrite H.
      * apply IH.
Qed.

(* ------------------------------------------------------------------ C17: TTL *)

Lemma check_ttl_spec w ttl :
  check_ttl w ttl = Err EExpired <-> (ttl <> 0 /\ ttl <= lookup (w_confh w) (w_active w)).
Proof.
  unfold check_ttl. destruct (negb (ttl =? 0) && (ttl <=? lookup (w_confh w) (w_active w))) eqn:E.
  - split; [intros _; lia|reflexivity].
  - split; [discriminate|intros [H1 H2]; lia].
Qed.

Lemma check_ttl_cases w ttl : check_ttl w ttl = Err EExpired \/ check_ttl w ttl = Ok tt.
Proof. unfold check_ttl. destruct (_ && _); auto. Qed.

Lemma receive_expired w s a ttl d c :
  ttl <> 0 -> ttl <= lookup (w_confh w) (w_active w) ->
  receive w s a ttl d c = (w, Err EExpired).
Proof.
  intros H1 H2. unfold receive.
  assert (E : check_ttl w ttl = Err EExpired) by (apply check_ttl_spec; auto). now rewrite E.
Qed.

Lemma finalize_expired w s ttl tip so c :
  ttl <> 0 -> ttl <= lookup (w_confh w) (w_active w) ->
  fst (finalize w s ttl tip so c) = w /\ is_ok (snd (finalize w s ttl tip so c)) = false.
Proof.
  intros H1 H2. unfold finalize. destruct (get_ctx w s); [|split; reflexivity].
  assert (E : check_ttl w ttl = Err EExpired) by (apply check_ttl_spec; auto). rewrite E.
  split; reflexivity.
Qed.

Lemma receive_not_expired_reason w s a ttl d c :
  (ttl = 0 \/ lookup (w_confh w) (w_active w) < ttl) ->
  snd (receive w s a ttl d c) <> Err EExpired.
Proof.
  intros H. unfold receive.
  destruct (check_ttl_cases w ttl) as [E|E].
  - apply check_ttl_spec in E. lia.
  - rewrite E. destruct (existsb _ _); cbn; [discriminate|].
    destruct (next_child w) as [w1 key].
    try match goal with |- context [next_log_id w1 ?p] => destruct (next_log_id w1 p) as [w2 id] end.
    cbn. destruct c; discriminate.
Qed.

(* ------------------------------------------------------------------ C03: reservation *)

Lemma classic_in (r : list (kid * option N * N)) k m :
  (exists v, In (k, m, v) r) \/ (forall v, ~ In (k, m, v) r).
Proof.
  induction r as [|[[k1 m1] v1] r IH]; [right; intros v []|].
  destruct (kid_eqb k1 k && optN_eqb m1 m) eqn:E.
  - apply andb_true_iff in E as [E1 E2]. apply kid_eqb_eq in E1. apply optN_eqb_eq in E2. subst.
    left; exists v1; now left.
  - destruct IH as [[v Hv]|Hn]; [left; exists v; now right|].
    right. intros v [Heq|Hin]; [|eapply Hn; eauto].
    inversion Heq; subst. rewrite kid_eqb_refl, optN_eqb_refl in E. discriminate.
Qed.

(** lock_inputs: on success every named input was free and is now Locked with the new id;
    every other record is untouched *)
Lemma lock_inputs_spec : forall ins outs id deb outs' deb',
  lock_inputs outs ins id deb = Ok (outs', deb') ->
  (forall k m v, In (k, m, v) ins ->
     exists o o0, get_out outs' k m = Some o /\ r_status o = Locked /\ r_tx o = Some id
                  /\ get_out outs k m = Some o0 /\ o = set_tx (set_status o0 Locked) (Some id))
  /\ (forall k m, (forall v, ~ In (k, m, v) ins) -> get_out outs' k m = get_out outs k m)
  /\ (forall k m v, In (k, m, v) ins ->
        exists o0, get_out outs k m = Some o0 /\ lockable (r_status o0) = true).
Proof.
  induction ins as [|[[k0 m0] v0] r IH]; intros outs id deb outs' deb' H; cbn [lock_inputs] in H.
  - inversion H; subst. repeat split; intros; try contradiction; reflexivity.
  - destruct (get_out outs k0 m0) as [o|] eqn:Eg; [|discriminate].
    destruct (lockable (r_status o)) eqn:El; [|discriminate].
    apply IH in H as (H1 & H2 & H3).
    pose proof (get_out_in _ _ _ _ Eg) as [_ [Hk Hm]].
    set (o' := set_tx (set_status o Locked) (Some id)) in *.
    assert (Hk' : r_key o' = k0 /\ r_mmr o' = m0) by (destruct o; cbn in *; auto).
    split; [|split].
    + intros k m v [Heq|Hin].
      * inversion Heq; subst k m v.
        destruct (classic_in r k0 m0) as [[v' Hin']|Hnot].
        -- (* listed twice: the second attempt finds it Locked and the whole call fails *)
           exfalso. destruct (H3 k0 m0 v' Hin') as (ox & Hgx & Hlx).
           rewrite get_save in Hgx.
           assert (okey_eqb o' k0 m0 = true) as Ek by (apply okey_eqb_iff; exact Hk').
           rewrite Ek in Hgx. inversion Hgx; subst ox. unfold o' in Hlx. destruct o; cbn in Hlx.
           discriminate.
        -- rewrite (H2 k0 m0 Hnot). rewrite get_save.
           assert (okey_eqb o' k0 m0 = true) by (apply okey_eqb_iff; exact Hk').
           rewrite H. exists o', o. destruct o; cbn; auto.
      * destruct (H1 k m v Hin) as (ox & o0 & A1 & A2 & A3 & A4 & A5).
        rewrite get_save in A4. destruct (okey_eqb o' k m) eqn:Ek.
        -- (* same key as the head: impossible, the head is Locked by then *)
           exfalso. destruct (H3 k m v Hin) as (oy & Hgy & Hly). rewrite get_save, Ek in Hgy.
           inversion Hgy; subst oy. unfold o' in Hly. destruct o; cbn in Hly. discriminate.
        -- exists ox, o0. auto.
    + intros k m Hnot.
      rewrite H2 by (intros v Hin; apply (Hnot v); now right).
      rewrite get_save.
      assert (okey_eqb o' k m = false).
      { apply okey_eqb_false. intros [Ha Hb]. apply (Hnot v0). left.
        destruct Hk' as [Hk1 Hk2]. congruence. }
      now rewrite H.
    + intros k m v [Heq|Hin].
      * inversion Heq; subst k m v. exists o; split; [exact Eg|exact El].
      * destruct (H3 k m v Hin) as (o0 & Hg & Hs).
        rewrite get_save in Hg. destruct (okey_eqb o' k m) eqn:E.
        -- inversion Hg; subst o0. exfalso. unfold o' in Hs. destruct o; cbn in Hs. discriminate.
        -- exists o0; split; [exact Hg|exact Hs].
Qed.

Lemma add_change_get : forall chg outs parent id tip k m,
  (forall v, ~ In (k, m, v) (map (fun x => (fst (fst x), None, snd x)) chg)) ->
  get_out (add_change outs chg parent id tip) k m = get_out outs k m.
Proof.
  induction chg as [|[[k0 m0] v0] r IH]; intros outs parent id tip k m Hn; cbn [add_change]; [reflexivity|].
  assert (Hn' : forall v, ~ In (k, m, v) (map (fun x => (fst (fst x), None, snd x)) r))
    by (intros v Hin; apply (Hn v); now right).
  destruct (get_out outs k0 None); [apply IH; exact Hn'|].
  rewrite IH by exact Hn'.
  rewrite get_save.
  match goal with |- (if okey_eqb ?x k m then _ else _) = _ => destruct (okey_eqb x k m) eqn:E end;
    [|reflexivity].
  exfalso. apply okey_eqb_iff in E as [E1 E2]. cbn in E1, E2.
  subst. apply (Hn v0). now left.
Qed.

(** add_change never changes a record that exists *)
Lemma add_change_keeps : forall chg outs parent id tip k m o,
  get_out outs k m = Some o -> get_out (add_change outs chg parent id tip) k m = Some o.
Proof.
  induction chg as [|[[k0 m0] v0] r IH]; intros outs parent id tip k m o Hg; cbn [add_change]; [exact Hg|].
  destruct (get_out outs k0 None) eqn:E0; [apply IH; exact Hg|].
  apply IH. rewrite get_save.
  match goal with |- (if okey_eqb ?x k m then _ else _) = _ => destruct (okey_eqb x k m) eqn:E end;
    [|exact Hg].
  exfalso. apply okey_eqb_iff in E as [E1 E2]. cbn in E1, E2. subst. congruence.
Qed.

(** C03 (step form): a successful reservation takes only outputs that were free, marks
    exactly those as held by the new log entry, and touches no other existing record
    (in particular no output held by another pending transaction). *)
Theorem lock_exclusive w slate ttl tip w' :
  lock w slate ttl tip = (w', Ok tt) ->
  exists c, get_ctx w slate = Some c /\
    let id := lookup (w_logid w) (c_parent c) in
    (forall k m v, In (k, m, v) (c_ins c) ->
       (exists o0, get_out (w_outs w) k m = Some o0 /\ lockable (r_status o0) = true))
    /\ (forall k m o, get_out (w_outs w) k m = Some o ->
          (forall v, ~ In (k, m, v) (c_ins c)) ->
          (forall v, ~ In (k, m, v) (map (fun x => (fst (fst x), None, snd x)) (c_outs c))) ->
          get_out (w_outs w') k m = Some o)
    /\ (forall k m v, In (k, m, v) (c_ins c) ->
          (forall v', ~ In (k, m, v') (map (fun x => (fst (fst x), None, snd x)) (c_outs c))) ->
          exists o, get_out (w_outs w') k m = Some o /\ r_status o = Locked /\ r_tx o = Some id).
Proof.
  unfold lock, lock_tx; cbn [negb andb]. destruct (get_ctx w slate) as [c|] eqn:Ec; [|discriminate].
  destruct (existsb _ (w_log w)) eqn:Edup; [discriminate|].
  unfold next_log_id. cbn zeta.
  destruct (lock_inputs _ _ _ _) as [[outs1 deb]|e|q] eqn:El; try discriminate.
  intros H. inversion H; subst; clear H. exists c. split; [reflexivity|]. cbn zeta.
  cbn [w_outs with_logid with_outs with_log with_files] in *.
  apply lock_inputs_spec in El as (H1 & H2 & H3).
  split; [|split].
  - intros k m v Hin. eapply H3; eauto.
  - intros k m o Hg Hn1 Hn2. rewrite add_change_get by exact Hn2. rewrite H2 by exact Hn1. exact Hg.
  - intros k m v Hin Hn2. rewrite add_change_get by exact Hn2.
    destruct (H1 k m v Hin) as (o & o0 & A1 & A2 & A3 & _). eauto.
Qed.

(** a reservation that names an output some pending transaction already holds (or a spent
    / reverted / missing one) is refused and changes nothing *)
Theorem lock_refuses_held w slate ttl tip c k m v :
  get_ctx w slate = Some c -> In (k, m, v) (c_ins c) ->
  (match get_out (w_outs w) k m with
   | Some o => lockable (r_status o) = false
   | None => True end) ->
  exists e, lock w slate ttl tip = (w, Err e).
Proof.
  intros Hc Hin Hbad. unfold lock, lock_tx; cbn [negb andb]. rewrite Hc.
  destruct (existsb _ (w_log w)); [eexists; reflexivity|]. unfold next_log_id. cbn zeta.
  cbn [w_outs with_logid].
  assert (Hl : forall ins outs id deb,
     In (k, m, v) ins ->
     (forall k' m', get_out outs k' m' = None -> get_out (w_outs w) k' m' = None) ->
     (forall k' m' o', get_out outs k' m' = Some o' ->
        lockable (r_status o') = true -> exists o0, get_out (w_outs w) k' m' = Some o0
                                                    /\ lockable (r_status o0) = true) ->
     exists e, lock_inputs outs ins id deb = Err e).
  { induction ins as [|[[k0 m0] v0] r IH]; intros outs id deb Hi Hnone Hsome; [contradiction|].
    cbn [lock_inputs]. destruct (get_out outs k0 m0) as [o|] eqn:Eg; [|eexists; reflexivity].
    destruct (lockable (r_status o)) eqn:Elk; [|eexists; reflexivity].
    destruct Hi as [Heq|Hi].
    - inversion Heq; subst. exfalso. destruct (Hsome _ _ _ Eg Elk) as (o0 & Hg0 & Hl0).
      rewrite Hg0 in Hbad. congruence.
    - apply IH; auto.
      + intros k' m' Hg. rewrite get_save in Hg. destruct (okey_eqb _ k' m'); [discriminate|auto].
      + intros k' m' o' Hg Hlk. rewrite get_save in Hg.
        destruct (okey_eqb (set_tx (set_status o Locked) (Some id)) k' m') eqn:E.
        * inversion Hg; subst. destruct o; cbn in Hlk. discriminate.
        * eauto. }
  destruct (Hl (c_ins c) (w_outs w) (lookup (w_logid w) (c_parent c)) 0) as [e He]; auto.
  - intros k' m' o' Hg Hlk. eauto.
  - rewrite He. eexists; reflexivity.
Qed.

(* ------------------------------------------------------------------ C05: cancel *)

Definition WF (w : wallet) : Prop := NoDup (map okey (w_outs w)).

(** what cancelling entry [id] of account [parent] does to one record *)
Definition cancelled_rec (parent id : N) (o : orec) : option orec :=
  if cancel_cond parent id o
  then match r_status o with
       | Unconfirmed | Reverted => None
       | Locked => Some (set_status o Unspent)
       | _ => Some o
       end
  else Some o.

Lemma get_out_find l k m : get_out l k m = find (fun o => okey_eqb o k m) l.
Proof. induction l as [|o r IH]; cbn; [reflexivity|]. destruct (okey_eqb o k m); auto. Qed.

Lemma set_status_key o s : r_key (set_status o s) = r_key o /\ r_mmr (set_status o s) = r_mmr o.
Proof. destruct o; cbn; auto. Qed.

Lemma cancel_fold_get parent id : forall l acc k m,
  NoDup (map okey l) ->
  get_out (fold_left (cancel_one parent id) l acc) k m
  = match get_out l k m with
    | Some o => if cancel_cond parent id o
                then match r_status o with
                     | Unconfirmed | Reverted => None
                     | Locked => Some (set_status o Unspent)
                     | _ => get_out acc k m
                     end
                else get_out acc k m
    | None => get_out acc k m
    end.
Proof.
  induction l as [|o r IH]; intros acc k m Hn; cbn [fold_left get_out]; [reflexivity|].
  inversion Hn as [|? ? Ho Hr]; subst.
  rewrite IH by exact Hr.
  destruct (okey_eqb o k m) eqn:E.
  - (* the record under this key is o itself; no later element has the key *)
    assert (Hnone : get_out r k m = None).
    { apply get_out_none. apply okey_eqb_iff in E as [E1 E2]. subst k m. exact Ho. }
    rewrite Hnone. unfold cancel_one.
    destruct (cancel_cond parent id o); [|reflexivity].
    apply okey_eqb_iff in E as [E1 E2].
    destruct (r_status o) eqn:Es; try reflexivity.
    + rewrite get_del. subst. now rewrite kid_eqb_refl, optN_eqb_refl.
    + rewrite get_save. destruct (set_status_key o Unspent) as [K1 K2].
      assert (okey_eqb (set_status o Unspent) k m = true) by (apply okey_eqb_iff; split; congruence).
      now rewrite H.
    + rewrite get_del. subst. now rewrite kid_eqb_refl, optN_eqb_refl.
  - (* another key: processing o does not change what is stored under (k, m) *)
    assert (Hsame : get_out (cancel_one parent id acc o) k m = get_out acc k m).
    { unfold cancel_one. destruct (cancel_cond parent id o); [|reflexivity].
      apply okey_eqb_false in E.
      destruct (r_status o); try reflexivity.
      - rewrite get_del. destruct (kid_eqb (r_key o) k && optN_eqb (r_mmr o) m) eqn:E2; [|reflexivity].
        exfalso. apply E. apply andb_true_iff in E2 as [A B]. apply kid_eqb_eq in A.
        apply optN_eqb_eq in B. split; assumption.
      - apply get_save_other. destruct (set_status_key o Unspent) as [K1 K2].
        intros [A B]. apply E. split; congruence.
      - rewrite get_del. destruct (kid_eqb (r_key o) k && optN_eqb (r_mmr o) m) eqn:E2; [|reflexivity].
        exfalso. apply E. apply andb_true_iff in E2 as [A B]. apply kid_eqb_eq in A.
        apply optN_eqb_eq in B. split; assumption. }
    rewrite Hsame. reflexivity.
Qed.

Lemma cancel_outputs_get outs parent id k m :
  NoDup (map okey outs) ->
  get_out (cancel_outputs outs parent id) k m
  = match get_out outs k m with
    | Some o => cancelled_rec parent id o
    | None => None
    end.
Proof.
  intros Hn. unfold cancel_outputs. rewrite cancel_fold_get by exact Hn.
  unfold cancelled_rec. destruct (get_out outs k m) as [o|] eqn:E; [|reflexivity].
  destruct (cancel_cond parent id o); [|reflexivity]. destruct (r_status o); reflexivity.
Qed.

(** C05 frame: a successful cancel changes only the records linked to the cancelled entry in
    the active account, changes that entry's type only, and leaves everything else alone. *)
Theorem cancel_frame w id slate w' :
  WF w -> cancel w id slate = (w', Ok tt) ->
  exists t, retrieve_txs w id slate (w_active w) = [t]
    /\ In t (w_log w) /\ t_parent t = w_active w /\ t_conf t = false
    /\ (t_type t = TSent \/ t_type t = TReceived \/ t_type t = TReverted)
    /\ (forall k m, get_out (w_outs w') k m
                    = match get_out (w_outs w) k m with
                      | Some o => cancelled_rec (w_active w) (t_id t) o
                      | None => None end)
    /\ w_log w' = save_tx (w_log w) (set_ttype t (cancelled_type (t_type t)))
    /\ w_ctxs w' = w_ctxs w /\ w_child w' = w_child w /\ w_logid w' = w_logid w
    /\ w_confh w' = w_confh w /\ w_active w' = w_active w.
Proof.
  intros Hwf. unfold cancel.
  destruct (retrieve_txs w id slate (w_active w)) as [|t [|t2 r]] eqn:Er; try discriminate.
  destruct (negb _) eqn:Ety; [discriminate|].
  destruct (t_conf t) eqn:Ec; [discriminate|].
  intros H; inversion H; subst; clear H. exists t.
  assert (Hin : In t (retrieve_txs w id slate (w_active w))) by (rewrite Er; now left).
  unfold retrieve_txs in Hin. apply filter_In in Hin as [Hin Hf].
  split; [reflexivity|]. split; [exact Hin|]. split.
  { apply andb_true_iff in Hf as [Hf _]. apply andb_true_iff in Hf as [Hf _]. lia. }
  split; [exact Ec|]. split.
  { destruct (t_type t); cbn in Ety; try discriminate; auto. }
  cbn. split; [|repeat split].
  intros k m. apply cancel_outputs_get. exact Hwf.
Qed.

(** C05 refusals: confirmed, already cancelled, coinbase and unknown transactions are
    refused and the wallet is left exactly as it was. *)
Theorem cancel_refusals w id slate w' e :
  cancel w id slate = (w', Err e) -> w' = w.
Proof.
  unfold cancel. destruct (retrieve_txs w id slate (w_active w)) as [|t [|t2 r]];
    try (intros H; now inversion H).
  destruct (negb _); [intros H; now inversion H|].
  destruct (t_conf t); [intros H; now inversion H|discriminate].
Qed.

Theorem cancel_refuses_what w id slate t :
  retrieve_txs w id slate (w_active w) = [t] ->
  (t_conf t = true \/ t_type t = TCoinbase \/ t_type t = TSentCancelled
   \/ t_type t = TReceivedCancelled) ->
  cancel w id slate = (w, Err ENotCancellable).
Proof.
  intros Hr Hc. unfold cancel. rewrite Hr.
  destruct Hc as [Hc|[Hc|[Hc|Hc]]].
  - destruct (negb _); [reflexivity|]. now rewrite Hc.
  - now rewrite Hc.
  - now rewrite Hc.
  - now rewrite Hc.
Qed.

Theorem cancel_unknown w id slate :
  (forall t, In t (w_log w) -> t_parent t = w_active w ->
     ~ ((match id with Some i => t_id t = i | None => True end)
        /\ (match slate with Some s => t_slate t = Some s | None => True end))) ->
  cancel w id slate = (w, Err ENotFound).
Proof.
  intros Hn. unfold cancel.
  assert (retrieve_txs w id slate (w_active w) = []) as ->; [|reflexivity].
  unfold retrieve_txs. induction (w_log w) as [|t r IH]; cbn [filter]; [reflexivity|].
  destruct (_ && _) eqn:E.
  - exfalso. apply andb_true_iff in E as [E E3]. apply andb_true_iff in E as [E1 E2].
    apply (Hn t); [now left|lia|]. split.
    + destruct id; [lia|exact I].
    + destruct slate; [now apply optN_eqb_eq|exact I].
  - apply IH. intros t' Hin. apply Hn. now right.
Qed.

(* ------------------------------------------------------------------ C15: key freshness *)

(** every key id recorded anywhere (output table, contexts) lies below the next-child counter
    of its account path *)
Definition key_below (w : wallet) (k : kid) : Prop := snd k < lookup (w_child w) (fst k).
Definition Fresh (w : wallet) : Prop :=
  (forall o, In o (w_outs w) -> key_below w (r_key o))
  /\ (forall c k m v, In c (w_ctxs w) -> In (k, m, v) (c_outs c) -> key_below w k).

Lemma next_child_spec w w' k :
  next_child w = (w', k) ->
  k = (w_active w, lookup (w_child w) (w_active w))
  /\ lookup (w_child w') (w_active w) = lookup (w_child w) (w_active w) + 1
  /\ (forall a, a <> w_active w -> lookup (w_child w') a = lookup (w_child w) a)
  /\ w_outs w' = w_outs w /\ w_log w' = w_log w /\ w_ctxs w' = w_ctxs w
  /\ w_logid w' = w_logid w /\ w_confh w' = w_confh w /\ w_active w' = w_active w.
Proof.
  unfold next_child. intros H; inversion H; subst; clear H. cbn.
  repeat split.
  - rewrite lookup_update. now rewrite N.eqb_refl.
  - intros a Ha. rewrite lookup_update. destruct (w_active w =? a) eqn:E; [lia|reflexivity].
Qed.

(** the key handed out was never recorded before: it is not in the table nor in a context *)
Theorem next_child_fresh w w' k :
  Fresh w -> next_child w = (w', k) ->
  (forall m, get_out (w_outs w) k m = None)
  /\ (forall c k' m v, In c (w_ctxs w) -> In (k', m, v) (c_outs c) -> k' <> k)
  /\ key_below w' k.
Proof.
  intros [Ho Hc] Hn. apply next_child_spec in Hn as (-> & Hb & _).
  split; [|split].
  - intros m. apply get_out_none. intros Hin. apply in_map_iff in Hin as (o & Hk & Hin).
    specialize (Ho o Hin). unfold key_below in Ho. unfold okey in Hk. inversion Hk as [[Hk1 Hk2]].
    rewrite Hk1 in Ho. cbn in Ho. lia.
  - intros c k' m v Hin1 Hin2 ->. specialize (Hc c _ m v Hin1 Hin2). unfold key_below in Hc.
    cbn in Hc. lia.
  - unfold key_below. cbn. lia.
Qed.

Lemma child_mono_next w w' k a :
  next_child w = (w', k) -> lookup (w_child w) a <= lookup (w_child w') a.
Proof.
  intros H. apply next_child_spec in H as (_ & Hb & Hs & _).
  destruct (N.eq_dec a (w_active w)) as [->|Hne]; [lia|]. rewrite Hs by exact Hne. lia.
Qed.

(* ------------------------------------------------------------------ C07: foreign operations *)

Lemma next_log_id_spec w parent w' id :
  next_log_id w parent = (w', id) ->
  id = lookup (w_logid w) parent /\ w_outs w' = w_outs w /\ w_log w' = w_log w
  /\ w_ctxs w' = w_ctxs w /\ w_child w' = w_child w /\ w_confh w' = w_confh w
  /\ w_active w' = w_active w.
Proof. unfold next_log_id. intros H; inversion H; subst; cbn. repeat split. Qed.

(** foreign::receive_tx never touches an existing record: whatever the slate says, every
    output stored before is stored unchanged afterwards, no context is consumed, and when it
    succeeds exactly one Unconfirmed output of the slate's amount is added to the destination
    account. *)
Theorem receive_only_adds w slate amount ttl dest crypto_ok w' r :
  Fresh w -> receive w slate amount ttl dest crypto_ok = (w', r) ->
  (forall k m o, get_out (w_outs w) k m = Some o -> get_out (w_outs w') k m = Some o)
  /\ w_ctxs w' = w_ctxs w
  /\ (r = Ok tt ->
      let key := (w_active w, lookup (w_child w) (w_active w)) in
      let parent := match dest with Some d => d | None => w_active w end in
      exists o, get_out (w_outs w') key None = Some o
        /\ r_value o = amount /\ r_status o = Unconfirmed /\ r_root o = parent /\ r_cb o = false
        /\ (forall k m, (k, m) <> (key, None) -> get_out (w_outs w') k m = get_out (w_outs w) k m))
  /\ (is_ok r = false -> r <> Err ECrypto -> w' = w).
Proof.
  intros Hf. unfold receive.
  destruct (check_ttl w ttl) as [[]|e|q] eqn:Et.
  2:{ intros H; inversion H; subst. repeat split; auto; intros; discriminate. }
  2:{ intros H; inversion H; subst. repeat split; auto; intros; discriminate. }
  destruct (existsb _ (w_log w)) eqn:Edup.
  { intros H; inversion H; subst. repeat split; auto; intros; discriminate. }
  destruct (next_child w) as [w1 key] eqn:En.
  destruct crypto_ok; cbn [negb].
  2:{ intros H; inversion H; subst; clear H.
      apply next_child_spec in En as (Hkey & _ & _ & Ho1 & _ & Hc1 & _).
      split; [intros k m o Hg; now rewrite Ho1|]. split; [exact Hc1|]. split; [discriminate|].
      intros _ Hn. exfalso. now apply Hn. }
  destruct (next_log_id w1 _) as [w2 id] eqn:El.
  intros H; inversion H; subst; clear H.
  pose proof (next_child_fresh _ _ _ Hf En) as (Hfr & _ & _).
  apply next_child_spec in En as (Hkey & _ & _ & Ho1 & _ & Hc1 & _).
  apply next_log_id_spec in El as (_ & Ho2 & _ & Hc2 & _).
  cbn [w_outs w_ctxs with_log with_outs].
  set (o := mkO _ key None amount Unconfirmed _ 0 false (Some id)).
  assert (Hget : forall k m, get_out (save_out (w_outs w2) o) k m
                 = if okey_eqb o k m then Some o else get_out (w_outs w) k m).
  { intros k m. rewrite get_save. now rewrite Ho2, Ho1. }
  split; [|split; [|split]].
  - intros k m o0 Hg. rewrite Hget. destruct (okey_eqb o k m) eqn:E; [|exact Hg].
    exfalso. apply okey_eqb_iff in E as [E1 E2]. cbn in E1, E2. subst k m.
    rewrite Hfr in Hg. discriminate.
  - now rewrite Hc2, Hc1.
  - intros Hr. cbn zeta. exists o. rewrite Hget. subst key.
    assert (E : okey_eqb o (w_active w, lookup (w_child w) (w_active w)) None = true).
    { apply okey_eqb_iff. split; reflexivity. }
    rewrite E. repeat split; try reflexivity.
    intros k m Hne. rewrite Hget. destruct (okey_eqb o k m) eqn:E2; [|reflexivity].
    exfalso. apply okey_eqb_iff in E2 as [E3 E4]. cbn in E3, E4. subst. now apply Hne.
  - intros Hnok Hnc. cbn in Hnok. discriminate.
Qed.

(** a second delivery of a slate already received into that account is refused, no effect *)
Theorem receive_twice_refused w slate amount ttl dest crypto_ok t :
  In t (w_log w) -> t_slate t = Some slate -> (t_type t = TReceived \/ t_type t = TReverted) ->
  t_parent t = (match dest with Some d => d | None => w_active w end) ->
  fst (receive w slate amount ttl dest crypto_ok) = w
  /\ is_ok (snd (receive w slate amount ttl dest crypto_ok)) = false.
Proof.
  intros Hin Hs Ht Hp. unfold receive.
  destruct (check_ttl w ttl) as [[]|e|q]; try (split; reflexivity).
  assert (E : existsb (fun t0 => optN_eqb (t_slate t0) (Some slate)
             && (t_parent t0 =? match dest with Some d => d | None => w_active w end)
             && (ttype_eqb (t_type t0) TReceived || ttype_eqb (t_type t0) TReverted)) (w_log w) = true).
  { apply existsb_exists. exists t. split; [exact Hin|]. rewrite Hs, Hp, optN_eqb_refl.
    rewrite N.eqb_refl. destruct Ht as [-> | ->]; reflexivity. }
  rewrite E. split; reflexivity.
Qed.

(** foreign::build_coinbase: every existing record is left alone, except a still-unconfirmed
    coinbase candidate the caller names (which it replaces) *)
Theorem coinbase_only_adds w fees height key w' k :
  Fresh w -> coinbase w fees height key = (w', Ok k) ->
  (forall k0 m o, get_out (w_outs w) k0 m = Some o ->
     get_out (w_outs w') k0 m = Some o
     \/ (key = Some k0 /\ m = None /\ r_cb o = true /\ r_status o = Unconfirmed))
  /\ w_ctxs w' = w_ctxs w /\ w_log w' = w_log w.
Proof.
  intros Hf. unfold coinbase.
  set (reuse := match key with Some k0 => _ | None => None end).
  destruct reuse as [kr|] eqn:Er.
  - (* reuse: the named record is an unconfirmed coinbase *)
    intros H; inversion H; subst; clear H. cbn [w_outs w_ctxs w_log with_outs].
    split; [|split; reflexivity].
    intros k0 m o Hg. rewrite get_save.
    match goal with |- context [okey_eqb ?x k0 m] => destruct (okey_eqb x k0 m) eqn:E end; [|left; exact Hg].
    right. apply okey_eqb_iff in E as [E1 E2]. cbn in E1, E2. subst k0 m.
    unfold reuse in Er. destruct key as [k0|]; [|discriminate].
    destruct (get_out (w_outs w) k0 None) as [o0|] eqn:Eg0; [|discriminate].
    destruct (r_cb o0 && status_eqb (r_status o0) Unconfirmed) eqn:Ec; [|discriminate].
    inversion Er; subst k0. rewrite Hg in Eg0. inversion Eg0; subst o0.
    apply andb_true_iff in Ec as [Ec1 Ec2]. destruct (r_status o); try discriminate. auto.
  - destruct (next_child w) as [w1 k1] eqn:En.
    intros H; inversion H; subst; clear H. cbn [w_outs w_ctxs w_log with_outs].
    pose proof (next_child_fresh _ _ _ Hf En) as (Hfr & _ & _).
    apply next_child_spec in En as (Hkey & _ & _ & Ho1 & Hl1 & Hc1 & _).
    split; [|split; congruence].
    intros k0 m o Hg. left. rewrite get_save, Ho1.
    match goal with |- context [okey_eqb ?x k0 m] => destruct (okey_eqb x k0 m) eqn:E end; [|exact Hg].
    exfalso. apply okey_eqb_iff in E as [E1 E2]. cbn in E1, E2. subst k0 m.
    rewrite Hfr in Hg. discriminate.
Qed.

(** a finalize request for a slate this wallet holds no context for does nothing *)
Theorem finalize_unknown_slate w slate ttl tip so co :
  get_ctx w slate = None -> finalize w slate ttl tip so co = (w, Err EOther).
Proof. intros H. unfold finalize. now rewrite H. Qed.

(** a reply that is not validly counter-signed does not consume the context, and — unless
    the transaction was late-locked (known finding C07-late-lock) — changes nothing *)
Theorem finalize_invalid_reply_no_effect w slate ttl tip so c :
  get_ctx w slate = Some c -> c_late c = None ->
  finalize w slate ttl tip so false = (w, snd (finalize w slate ttl tip so false))
  /\ is_ok (snd (finalize w slate ttl tip so false)) = false.
Proof.
  intros Hc Hl. unfold finalize. rewrite Hc, Hl.
  destruct (check_ttl w ttl) as [[]|e|q]; try (split; reflexivity).
  destruct (negb so); split; reflexivity.
Qed.

(* ------------------------------------------------------------------ C03: replays, stability *)

Theorem lock_twice_refused w slate ttl tip c t :
  get_ctx w slate = Some c -> In t (w_log w) -> t_slate t = Some slate ->
  t_parent t = c_parent c -> t_type t = TSent ->
  lock w slate ttl tip = (w, Err EGeneric).
Proof.
  intros Hc Hin Hs Hp Ht. unfold lock, lock_tx; cbn [negb andb]. rewrite Hc.
  assert (E : existsb (fun t0 => optN_eqb (t_slate t0) (Some slate) && (t_parent t0 =? c_parent c)
                                 && ttype_eqb (t_type t0) TSent) (w_log w) = true).
  { apply existsb_exists. exists t. split; [exact Hin|]. rewrite Hs, Hp, Ht, optN_eqb_refl, N.eqb_refl.
    reflexivity. }
  now rewrite E.
Qed.

Lemma alloc_change_outs : forall chg w w' l, alloc_change w chg = (w', l) ->
  w_outs w' = w_outs w /\ w_log w' = w_log w /\ w_ctxs w' = w_ctxs w /\ w_active w' = w_active w
  /\ w_logid w' = w_logid w /\ w_confh w' = w_confh w.
Proof.
  induction chg as [|v r IH]; intros w w' l H; cbn [alloc_change] in H.
  - inversion H; subst. repeat split.
  - destruct (next_child w) as [w1 k] eqn:En. destruct (alloc_change w1 r) as [w2 l2] eqn:Ea.
    inversion H; subst; clear H. apply IH in Ea as (A1 & A2 & A3 & A4 & A5 & A6).
    apply next_child_spec in En as (_ & _ & _ & B1 & B2 & B3 & B4 & B5 & B6).
    repeat split; congruence.
Qed.

Lemma init_send_outs w slate src p late :
  w_outs (fst (init_send w slate src p late)) = w_outs w
  /\ w_log (fst (init_send w slate src p late)) = w_log w.
Proof.
  unfold init_send. destruct late.
  - destruct (select_coins_and_fee _ _) as [[[[? ?] ?] ?]|e|q]; cbn; auto.
  - destruct (build_send _ _) as [b|e|q]; cbn; auto.
    destruct (alloc_change w (b_changes b)) as [w1 chg] eqn:Ea. cbn.
    apply alloc_change_outs in Ea as (A1 & A2 & _). auto.
Qed.

(** Held outputs stay held. For a record that is Locked, each operation either leaves it
    exactly as it is, or is one of the two legitimate releases: a successful cancel of the
    log entry that holds it (-> Unspent), or a refresh of its account (-> Locked or Spent);
    a reservation naming it is refused. (Late-locked finalize = selection + reservation,
    covered by C01 (selection skips held outputs) and the reservation theorems.) *)
Theorem held_stable_step w k m o :
  Fresh w -> WF w -> get_out (w_outs w) k m = Some o -> r_status o = Locked ->
  (forall s a t d c, get_out (w_outs (fst (receive w s a t d c))) k m = Some o)
  /\ (forall f h key, get_out (w_outs (fst (coinbase w f h key))) k m = Some o)
  /\ (forall s src p late, get_out (w_outs (fst (init_send w s src p late))) k m = Some o)
  /\ (forall s t tip, get_out (w_outs (fst (lock w s t tip))) k m = Some o
        \/ exists c v, get_ctx w s = Some c
             /\ In (k, m, v) (map (fun x => (fst (fst x), None, snd x)) (c_outs c)))
  /\ (forall id sl, get_out (w_outs (fst (cancel w id sl))) k m = Some o
        \/ (snd (cancel w id sl) = Ok tt
            /\ r_root o = w_active w
            /\ get_out (w_outs (fst (cancel w id sl))) k m = Some (set_status o Unspent)
            /\ exists t, In t (retrieve_txs w id sl (w_active w)) /\ r_tx o = Some (t_id t)))
  /\ (forall s t tip so co c, get_ctx w s = Some c -> c_late c = None ->
        get_out (w_outs (fst (finalize w s t tip so co))) k m = Some o).
Proof.
  intros Hf Hwf Hg Hl. split; [|split; [|split; [|split; [|split]]]].
  - intros s a t d c.
    destruct (receive w s a t d c) as [w' r] eqn:E. cbn.
    apply (receive_only_adds _ _ _ _ _ _ _ _ Hf) in E as (H1 & _). auto.
  - intros f h key. destruct (coinbase w f h key) as [w' r] eqn:E. cbn.
    assert (exists k', r = Ok k') as [k' ->].
    { unfold coinbase in E. destruct (match key with Some _ => _ | None => None end);
        [|destruct (next_child w)]; inversion E; eauto. }
    apply (coinbase_only_adds _ _ _ _ _ _ Hf) in E as (H1 & _).
    destruct (H1 _ _ _ Hg) as [H|(_ & _ & _ & Hs)]; [exact H|]. rewrite Hl in Hs. discriminate.
  - intros s src p late. destruct (init_send_outs w s src p late) as [-> _]. exact Hg.
  - intros s t tip. destruct (lock w s t tip) as [w' r] eqn:E. cbn.
    destruct r as [[]|e|q].
    + pose proof E as E0. apply lock_exclusive in E as (c & Hc & _ & Hkeep & _).
      destruct (classic_in (c_ins c) k m) as [[v Hin]|Hn1].
      * (* named as an input: then the reservation would have been refused *)
        exfalso. pose proof (lock_refuses_held w s t tip c k m v Hc Hin) as Hr.
        rewrite Hg in Hr. rewrite Hl in Hr. destruct (Hr eq_refl) as [e He]. congruence.
      * destruct (classic_in (map (fun x => (fst (fst x), None, snd x)) (c_outs c)) k m) as [[v Hin]|Hn2].
        -- right. eauto.
        -- left. apply Hkeep; auto.
    + left. unfold lock, lock_tx in E; cbn [negb andb] in E. destruct (get_ctx w s); [|inversion E; subst; exact Hg].
      destruct (existsb _ _); [inversion E; subst; exact Hg|].
      destruct (next_log_id w (c_parent c)) as [w1 id]. destruct (lock_inputs _ _ _ _) as [[? ?]|?|?];
        inversion E; subst; exact Hg.
    + left. unfold lock, lock_tx in E; cbn [negb andb] in E. destruct (get_ctx w s); [|inversion E; subst; exact Hg].
      destruct (existsb _ _); [inversion E; subst; exact Hg|].
      destruct (next_log_id w (c_parent c)) as [w1 id]. destruct (lock_inputs _ _ _ _) as [[? ?]|?|?];
        inversion E; subst; exact Hg.
  - intros id sl. destruct (cancel w id sl) as [w' r] eqn:E. cbn.
    destruct r as [[]|e|q].
    + apply (cancel_frame _ _ _ _ Hwf) in E as (t & Hret & Hin & Hp & _ & _ & Hget & _).
      rewrite Hget, Hg. unfold cancelled_rec, cancel_cond.
      destruct (r_root o =? w_active w) eqn:E1; cbn [andb]; [|left; reflexivity].
      destruct (optN_eqb (r_tx o) (Some (t_id t))) eqn:E2; cbn [andb]; [|left; reflexivity].
      rewrite Hl. cbn. right. split; [reflexivity|]. split; [lia|]. split; [reflexivity|].
      exists t. split.
      * rewrite Hret. now left.
      * now apply optN_eqb_eq.
    + left. apply cancel_refusals in E. subst. exact Hg.
    + left. unfold cancel in E. destruct (retrieve_txs _ _ _ _) as [|? [|? ?]]; try (inversion E; subst; exact Hg).
      destruct (negb _); [inversion E; subst; exact Hg|]. destruct (t_conf _); inversion E; subst; exact Hg.
  - intros s t tip so co c Hc Hlate. unfold finalize. rewrite Hc, Hlate.
    destruct (check_ttl w t) as [[]|e|q]; cbn; try exact Hg.
    destruct (negb so); cbn; [exact Hg|].
    destruct (negb co); cbn; [exact Hg|].
    destruct (negb (existsb _ _)); cbn; [exact Hg|].
    destruct (find _ _); cbn; exact Hg.
Qed.

(* ------------------------------------------------------------------ C05: exact rollback *)

Lemma nodup_lock_inputs : forall ins outs id deb outs' deb',
  NoDup (map okey outs) -> lock_inputs outs ins id deb = Ok (outs', deb') -> NoDup (map okey outs').
Proof.
  induction ins as [|[[k m] v] r IH]; intros outs id deb outs' deb' Hn H; cbn [lock_inputs] in H.
  - inversion H; subst; exact Hn.
  - destruct (get_out outs k m); [|discriminate]. destruct (lockable _); [|discriminate].
    eapply IH; [|exact H]. now apply nodup_save.
Qed.

Lemma nodup_add_change : forall chg outs parent id tip,
  NoDup (map okey outs) -> NoDup (map okey (add_change outs chg parent id tip)).
Proof.
  induction chg as [|[[k m] v] r IH]; intros outs parent id tip Hn; cbn [add_change]; [exact Hn|].
  destruct (get_out outs k None); [apply IH; exact Hn|].
  apply IH. now apply nodup_save.
Qed.

Lemma lock_wf w slate ttl tip w' r : WF w -> lock w slate ttl tip = (w', r) -> WF w'.
Proof.
  unfold WF, lock, lock_tx; cbn [negb andb]. intros Hn. destruct (get_ctx w slate); [|intros H; inversion H; subst; exact Hn].
  destruct (existsb _ _); [intros H; inversion H; subst; exact Hn|].
  unfold next_log_id. cbn zeta. cbn [w_outs with_logid].
  destruct (lock_inputs _ _ _ _) as [[o d]|e|q] eqn:E; intros H; inversion H; subst; try exact Hn.
  cbn. apply nodup_add_change. eapply nodup_lock_inputs; eauto.
Qed.

Lemma filter_save_tx_unique (P : trec -> bool) : forall l x,
  (forall t, In t l -> P t = false) -> P x = true -> filter P (save_tx l x) = [x].
Proof.
  induction l as [|t r IH]; intros x Hl Hx; cbn [save_tx filter].
  - now rewrite Hx.
  - assert (Ht : P t = false) by (apply Hl; now left).
    assert (Hr : forall t', In t' r -> P t' = false) by (intros; apply Hl; now right).
    assert (Hfr : filter P r = []).
    { clear - Hr. induction r as [|a r IH]; cbn; [reflexivity|]. rewrite (Hr a) by now left.
      apply IH. intros; apply Hr; now right. }
    destruct (tkey_eqb t (t_parent x) (t_id x)); cbn [filter].
    + now rewrite Hx, Hfr.
    + destruct (_ || _); cbn [filter].
      * now rewrite Hx, Ht, Hfr.
      * rewrite Ht. now apply IH.
Qed.

Lemma add_change_in : forall chg outs parent id tip k v,
  In (k, None, v) (map (fun x => (fst (fst x), @None N, snd x)) chg) ->
  get_out outs k None = None ->
  exists o, get_out (add_change outs chg parent id tip) k None = Some o
            /\ r_root o = parent /\ r_tx o = Some id /\ r_status o = Unconfirmed.
Proof.
  induction chg as [|[[k0 m0] v0] r IH]; intros outs parent id tip k v Hin Hnone; [contradiction|].
  cbn [add_change].
  destruct (kid_eqb k0 k) eqn:Ek.
  - (* the first entry with this key: written now, kept by the rest *)
    apply kid_eqb_eq in Ek. subst k0. rewrite Hnone.
    eexists. split; [apply add_change_keeps; apply get_save_same|]. repeat split.
  - assert (Hne : k0 <> k) by (intros ->; rewrite kid_eqb_refl in Ek; discriminate).
    destruct Hin as [Heq|Hin]; [inversion Heq; contradiction|].
    destruct (get_out outs k0 None); [eapply IH; eauto|].
    eapply IH; [exact Hin|]. rewrite get_save_other; [exact Hnone|].
    intros [A B]. cbn in A. contradiction.
Qed.

Definition sv (o : orec) : N * status := (r_value o, r_status o).

(** C05 (immediate rollback of a reservation): in every wallet state, cancelling a sent
    transaction right after it was reserved puts status and value of EVERY output back to
    what they were: reserved inputs spendable again, change outputs gone, nothing else
    touched. Hypotheses: the inputs were Unspent records of the transaction's account (an
    Unconfirmed input — possible only with minimum_confirmations = 0 — comes back as Unspent:
    recorded known finding C05-unconfirmed-input), the change keys were unused and the new
    log id unused (both are invariants of every reachable state: Fresh / log-id freshness). *)
Lemma cancel_of_unique w id slate t :
  retrieve_txs w id slate (w_active w) = [t] ->
  (t_type t = TSent \/ t_type t = TReceived \/ t_type t = TReverted) -> t_conf t = false ->
  cancel w id slate
  = (with_log (with_outs w (cancel_outputs (w_outs w) (w_active w) (t_id t)))
              (save_tx (w_log w) (set_ttype t (cancelled_type (t_type t)))), Ok tt).
Proof.
  intros Hr Ht Hc. unfold cancel. rewrite Hr, Hc.
  destruct Ht as [Ht|[Ht|Ht]]; rewrite Ht; reflexivity.
Qed.

(** what a successful lock produces, field by field *)
Lemma lock_ok_fields w slate ttl tip w1 c :
  get_ctx w slate = Some c -> lock w slate ttl tip = (w1, Ok tt) ->
  let id := lookup (w_logid w) (c_parent c) in
  exists outs1 deb,
    lock_inputs (w_outs w) (c_ins c) id 0 = Ok (outs1, deb)
    /\ w_outs w1 = add_change outs1 (c_outs c) (c_parent c) id tip
    /\ (exists tnew, w_log w1 = save_tx (w_log w) tnew /\ t_parent tnew = c_parent c
          /\ t_id tnew = id /\ t_type tnew = TSent /\ t_conf tnew = false)
    /\ w_ctxs w1 = w_ctxs w /\ w_child w1 = w_child w /\ w_active w1 = w_active w.
Proof.
  intros Hc Hlock. unfold lock, lock_tx in Hlock; cbn [negb andb] in Hlock. rewrite Hc in Hlock.
  destruct (existsb _ (w_log w)); [discriminate|].
  unfold next_log_id in Hlock. cbn zeta in Hlock. cbn [w_outs with_logid] in Hlock.
  destruct (lock_inputs _ _ _ _) as [[outs1 deb]|e|q] eqn:El; try discriminate.
  inversion Hlock; subst w1; clear Hlock. cbn zeta.
  exists outs1, deb. split; [exact El|]. split; [reflexivity|]. split.
  - eexists. split; [reflexivity|]. repeat split.
  - repeat split.
Qed.

Theorem lock_cancel_rollback w slate ttl tip w1 c :
  WF w -> get_ctx w slate = Some c -> c_parent c = w_active w ->
  lock w slate ttl tip = (w1, Ok tt) ->
  let id := lookup (w_logid w) (c_parent c) in
  (forall k m o, get_out (w_outs w) k m = Some o -> r_root o = c_parent c -> r_tx o <> Some id) ->
  (forall t, In t (w_log w) -> t_parent t = c_parent c -> t_id t <> id) ->
  (forall k m v, In (k, m, v) (c_ins c) ->
     exists o, get_out (w_outs w) k m = Some o /\ r_status o = Unspent /\ r_root o = c_parent c) ->
  (forall k m v, In (k, m, v) (c_outs c) -> get_out (w_outs w) k None = None) ->
  exists w2, cancel w1 (Some id) None = (w2, Ok tt)
    /\ (forall k m, option_map sv (get_out (w_outs w2) k m) = option_map sv (get_out (w_outs w) k m))
    /\ w_ctxs w2 = w_ctxs w /\ w_child w2 = w_child w.
Proof.
  intros Hwf Hc Hpar Hlock id Hnolink Hnoid Hins Houts.
  pose proof (lock_wf _ _ _ _ _ _ Hwf Hlock) as Hwf1.
  destruct (lock_ok_fields _ _ _ _ _ _ Hc Hlock)
    as (outs1 & deb & El & Ho1 & (tnew & Hl1 & Tp & Ti & Tt & Tc) & Hc1 & Hch1 & Ha1).
  fold id in El, Ho1, Ti.
  assert (Hret : retrieve_txs w1 (Some id) None (w_active w1) = [tnew]).
  { unfold retrieve_txs. rewrite Hl1, Ha1.
    apply filter_save_tx_unique.
    - intros t Hin. destruct (t_parent t =? w_active w) eqn:E1; cbn [andb]; [|reflexivity].
      destruct (t_id t =? id) eqn:E2; [|reflexivity].
      exfalso. apply (Hnoid t Hin); [rewrite Hpar|]; lia.
    - rewrite Tp, Ti, Hpar, !N.eqb_refl. reflexivity. }
  rewrite (cancel_of_unique _ _ _ _ Hret (or_introl Tt) Tc).
  eexists; split; [reflexivity|]. cbn [w_outs w_ctxs w_child with_log with_outs].
  split; [|split; assumption].
  intros k m. rewrite cancel_outputs_get by exact Hwf1. rewrite Ti, Ha1, Ho1.
  apply lock_inputs_spec in El as (H1 & H2 & H3).
  destruct (classic_in (c_ins c) k m) as [[v Hin]|Hn1].
  - (* an input: Locked by the new entry, comes back Unspent with the same value *)
    destruct (Hins k m v Hin) as (o0 & Hg0 & Hs0 & Hr0).
    assert (Hn2 : forall v', ~ In (k, m, v') (map (fun x => (fst (fst x), @None N, snd x)) (c_outs c))).
    { intros v' Hin'. apply in_map_iff in Hin' as ([[k' m'] v''] & Heq & Hin'').
      cbn in Heq. inversion Heq; subst. rewrite (Houts _ _ _ Hin'') in Hg0. discriminate. }
    rewrite add_change_get by exact Hn2.
    destruct (H1 k m v Hin) as (o & o0' & A1 & A2 & A3 & A4 & A5).
    rewrite A1, Hg0. rewrite Hg0 in A4. inversion A4; subst o0'.
    unfold cancelled_rec, cancel_cond. subst o. destruct o0; cbn in *. subst.
    rewrite Hpar, N.eqb_refl, N.eqb_refl. cbn. reflexivity.
  - destruct (classic_in (map (fun x => (fst (fst x), @None N, snd x)) (c_outs c)) k m) as [[v Hin]|Hn2].
    + (* a change output: created by the lock, deleted by the cancel, absent before *)
      assert (m = None) as ->.
      { apply in_map_iff in Hin as (x & Heq & _). now inversion Heq. }
      assert (Hnone1 : get_out outs1 k None = None).
      { rewrite H2 by exact Hn1. apply in_map_iff in Hin as ([[k' m'] v''] & Heq & Hin''). cbn in Heq.
        inversion Heq; subst. exact (Houts _ _ _ Hin''). }
      destruct (add_change_in (c_outs c) outs1 (c_parent c) id tip k v Hin Hnone1) as (o & Hg & Hr & Ht & Hs).
      rewrite Hg. unfold cancelled_rec, cancel_cond. rewrite Hr, Ht, Hs, Hpar, N.eqb_refl, optN_eqb_refl.
      cbn. apply in_map_iff in Hin as ([[k' m'] v''] & Heq & Hin''). cbn in Heq. inversion Heq; subst.
      now rewrite (Houts _ _ _ Hin'').
    + (* any other record: unchanged by lock, and not linked to the new id *)
      rewrite add_change_get by exact Hn2. rewrite H2 by exact Hn1.
      destruct (get_out (w_outs w) k m) as [o|] eqn:Eg; [|reflexivity].
      unfold cancelled_rec, cancel_cond.
      destruct (r_root o =? w_active w) eqn:E1; cbn [andb]; [|reflexivity].
      destruct (optN_eqb (r_tx o) (Some id)) eqn:E2; cbn [andb]; [|reflexivity].
      exfalso. apply optN_eqb_eq in E2. apply (Hnolink k m o Eg); [rewrite Hpar; lia|exact E2].
Qed.

(** known finding C07-late-lock: a forged reply to a late-locked send makes finalize
    select and lock inputs before the reply is verified *)
Lemma late_lock_reserves_before_verifying : exists w slate ttl tip,
  is_ok (snd (finalize w slate ttl tip true false)) = false
  /\ exists k m o o', get_out (w_outs w) k m = Some o /\ r_status o = Unspent
       /\ get_out (w_outs (fst (finalize w slate ttl tip true false))) k m = Some o'
       /\ r_status o' = Locked.
Proof.
  set (w0 := fst (step (fst (step empty_wallet (OpCoinbase 0 1 None)))
                       (OpRefresh 0 false 5 [((0, 0), None, 1)] []))).
  set (wA := fst (step w0 (OpInitSend 1 None (mkParams 1000000000 false 5 1 500 1 true 0) true))).
  exists wA, 1, 0, 5. split; [vm_compute; reflexivity|].
  exists (0, 0), None. eexists. eexists. vm_compute. repeat split.
Qed.

(* ------------------------------------------------------------------ C17: expiry step *)

Lemma expire_one_acts_only_when_expired tip w t :
  (t_ttl t = None \/ exists e, t_ttl t = Some e /\ tip < e) -> expire_one tip w t = w.
Proof.
  unfold expire_one. intros [->|(e & -> & Hlt)]; [reflexivity|].
  destruct (e <=? tip) eqn:E; [lia|reflexivity].
Qed.

Lemma expire_one_is_cancel tip w t e :
  t_ttl t = Some e -> e <= tip -> expire_one tip w t = fst (cancel w (Some (t_id t)) None).
Proof. unfold expire_one. intros -> H. destruct (e <=? tip) eqn:E; [reflexivity|lia]. Qed.

(** a wallet none of whose outstanding entries has reached its cutoff is left alone *)
Lemma expire_nothing_due w tip :
  (forall t, In t (w_log w) -> t_parent t = w_active w -> outstanding t = true ->
     t_ttl t = None \/ exists e, t_ttl t = Some e /\ tip < e) ->
  expire w tip = w.
Proof.
  intros H. unfold expire.
  assert (Hl : forall l, (forall t, In t l -> t_ttl t = None \/ exists e, t_ttl t = Some e /\ tip < e) ->
                fold_left (expire_one tip) l w = w).
  { induction l as [|t r IH]; intros Hl; cbn [fold_left]; [reflexivity|].
    rewrite expire_one_acts_only_when_expired by (apply Hl; now left).
    apply IH. intros; apply Hl; now right. }
  apply Hl. intros t Hin. apply filter_In in Hin as [Hin Hf].
  apply andb_true_iff in Hf as [Hp Ho]. apply H; auto; [lia|].
  unfold expirable in Ho. apply andb_true_iff in Ho as [Ho _]. exact Ho.
Qed.

(* ------------------------------------------------------------------ C15: Fresh is an invariant *)

Definition child_le (w w' : wallet) : Prop := forall a, lookup (w_child w) a <= lookup (w_child w') a.

Lemma child_le_refl w : child_le w w. Proof. intros a; lia. Qed.
Lemma child_le_trans w1 w2 w3 : child_le w1 w2 -> child_le w2 w3 -> child_le w1 w3.
Proof. intros H1 H2 a. specialize (H1 a). specialize (H2 a). lia. Qed.

Lemma key_below_mono w w' k : child_le w w' -> key_below w k -> key_below w' k.
Proof. unfold key_below. intros H Hk. specialize (H (fst k)). lia. Qed.

Lemma in_replace_out l x o : In o (replace_out l x) -> o = x \/ In o l.
Proof.
  induction l as [|y r IH]; cbn [replace_out]; [intros []|].
  destruct (okey_eqb y _ _); cbn [In]; intuition.
Qed.
Lemma in_insert_out l x o : In o (insert_out l x) -> o = x \/ In o l.
Proof.
  induction l as [|y r IH]; cbn [insert_out In]; [intuition|].
  destruct (okey_ltb _ _ _ _); cbn [In]; intuition.
Qed.
Lemma in_save_out l x o : In o (save_out l x) -> o = x \/ In o l.
Proof. unfold save_out. destruct (get_out _ _ _); [apply in_replace_out|apply in_insert_out]. Qed.
Lemma in_del_out l k m o : In o (del_out l k m) -> In o l.
Proof. unfold del_out. intros H. now apply filter_In in H. Qed.

(** "every key of [outs'] is a key of [outs] or satisfies P" style reasoning *)
Definition keys_ok (P : kid -> Prop) (outs : list orec) : Prop := forall o, In o outs -> P (r_key o).

Lemma keys_ok_save P l x : keys_ok P l -> P (r_key x) -> keys_ok P (save_out l x).
Proof. intros Hl Hx o Hin. apply in_save_out in Hin as [->|Hin]; auto. Qed.
Lemma keys_ok_del P l k m : keys_ok P l -> keys_ok P (del_out l k m).
Proof. intros Hl o Hin. apply in_del_out in Hin. auto. Qed.

Lemma keys_ok_lock_inputs P : forall ins outs id deb outs' deb',
  keys_ok P outs -> lock_inputs outs ins id deb = Ok (outs', deb') -> keys_ok P outs'.
Proof.
  induction ins as [|[[k m] v] r IH]; intros outs id deb outs' deb' Hk H; cbn [lock_inputs] in H.
  - inversion H; subst; exact Hk.
  - destruct (get_out outs k m) as [o|] eqn:Eg; [|discriminate]. destruct (lockable _); [|discriminate].
    eapply IH; [|exact H]. apply keys_ok_save; [exact Hk|].
    apply get_out_in in Eg as [Hin _]. specialize (Hk o Hin). destruct o; exact Hk.
Qed.

Lemma keys_ok_add_change P : forall chg outs parent id tip,
  keys_ok P outs -> (forall k m v, In (k, m, v) chg -> P k) ->
  keys_ok P (add_change outs chg parent id tip).
Proof.
  induction chg as [|[[k m] v] r IH]; intros outs parent id tip Hk Hc; cbn [add_change]; [exact Hk|].
  assert (Hc' : forall k' m' v', In (k', m', v') r -> P k') by (intros k' m' v' Hin; eapply Hc; right; eauto).
  destruct (get_out outs k None); [apply IH; assumption|].
  apply IH; [|exact Hc'].
  apply keys_ok_save; [exact Hk|]. cbn. eapply Hc. now left.
Qed.

Lemma keys_ok_cancel_outputs P outs parent id : keys_ok P outs -> keys_ok P (cancel_outputs outs parent id).
Proof.
  intros Hk. unfold cancel_outputs.
  assert (H : forall l acc, keys_ok P l -> keys_ok P acc -> keys_ok P (fold_left (cancel_one parent id) l acc)).
  { induction l as [|o r IH]; intros acc Hl Hacc; cbn [fold_left]; [exact Hacc|].
    apply IH; [intros x Hx; apply Hl; now right|].
    unfold cancel_one. destruct (cancel_cond parent id o); [|exact Hacc].
    assert (Po : P (r_key o)) by (apply Hl; now left).
    destruct (r_status o); try exact Hacc.
    - now apply keys_ok_del.
    - apply keys_ok_save; [exact Hacc|]. destruct o; exact Po.
    - now apply keys_ok_del. }
  apply H; exact Hk.
Qed.

Lemma fresh_of w w' :
  Fresh w -> child_le w w' ->
  keys_ok (key_below w') (w_outs w') ->
  (forall c k m v, In c (w_ctxs w') -> In (k, m, v) (c_outs c) -> key_below w' k) ->
  Fresh w'.
Proof. intros _ _ H1 H2. split; assumption. Qed.

Lemma fresh_outs_keys w : Fresh w -> keys_ok (key_below w) (w_outs w).
Proof. intros [H _]. exact H. Qed.

(* --- per operation --- *)

Lemma fresh_build w w2 outs' log' :
  Fresh w -> child_le w w2 -> w_ctxs w2 = w_ctxs w ->
  keys_ok (key_below w2) outs' ->
  Fresh (with_log (with_outs w2 outs') log') /\ child_le w (with_log (with_outs w2 outs') log').
Proof.
  intros [Hfo Hfc] Hle Hc Hk. split; [split|].
  - exact Hk.
  - intros c k m v Hin1 Hin2. cbn [w_ctxs with_log with_outs] in Hin1. rewrite Hc in Hin1.
    unfold key_below. cbn [w_child with_log with_outs]. apply (key_below_mono w w2); eauto.
  - exact Hle.
Qed.

Lemma fresh_next_child w w1 k : Fresh w -> next_child w = (w1, k) -> Fresh w1 /\ child_le w w1.
Proof.
  intros [Hfo Hfc] En.
  assert (Hle : child_le w w1) by (intros x; eapply child_mono_next; eauto).
  apply next_child_spec in En as (_ & _ & _ & Ho1 & _ & Hc1 & _).
  split; [split|exact Hle].
  - intros o Hin. rewrite Ho1 in Hin. apply (key_below_mono w w1); auto.
  - intros c k0 m v H1 H2. rewrite Hc1 in H1. apply (key_below_mono w w1); eauto.
Qed.

Lemma receive_fresh w s a t d c :
  Fresh w -> Fresh (fst (receive w s a t d c)) /\ child_le w (fst (receive w s a t d c)).
Proof.
  intros Hf. unfold receive.
  destruct (check_ttl w t) as [[]|e|q]; cbn [fst]; try (split; [exact Hf|apply child_le_refl]).
  destruct (existsb _ _); cbn [fst]; try (split; [exact Hf|apply child_le_refl]).
  destruct (next_child w) as [w1 key] eqn:En.
  destruct c; cbn [negb]; [|cbn [fst]; now apply (fresh_next_child w w1 key)].
  match goal with |- context [next_log_id w1 ?p] => destruct (next_log_id w1 p) as [w2 id] eqn:El end.
  cbn [fst].
  pose proof (next_child_fresh _ _ _ Hf En) as (_ & _ & Hkb).
  assert (Hle : child_le w w1) by (intros x; eapply child_mono_next; eauto).
  apply next_child_spec in En as (_ & _ & _ & Ho1 & _ & Hc1 & _).
  apply next_log_id_spec in El as (_ & Ho2 & _ & Hc2 & Hch2 & _).
  apply fresh_build; auto.
  - intros x. rewrite Hch2. apply Hle.
  - congruence.
  - apply keys_ok_save.
    + intros o Hin. rewrite Ho2, Ho1 in Hin. unfold key_below. rewrite Hch2.
      apply (key_below_mono w w1); auto. destruct Hf as [Hfo _]. auto.
    + cbn. unfold key_below in *. rewrite Hch2. exact Hkb.
Qed.

Lemma coinbase_fresh w f h key :
  Fresh w -> Fresh (fst (coinbase w f h key)) /\ child_le w (fst (coinbase w f h key)).
Proof.
  intros Hf. unfold coinbase.
  set (reuse := match key with Some k0 => _ | None => None end).
  destruct reuse as [kr|] eqn:Er; cbn [fst].
  - assert (Hb : key_below w kr).
    { unfold reuse in Er. destruct key as [k0|]; [|discriminate].
      destruct (get_out (w_outs w) k0 None) as [o0|] eqn:Eg; [|discriminate].
      destruct (_ && _); [|discriminate]. inversion Er; subst.
      apply get_out_in in Eg as [Hin [Hk _]]. destruct Hf as [Hfo _]. rewrite <- Hk. auto. }
    destruct Hf as [Hfo Hfc]. split; [split|intros a; cbn; lia].
    + cbn [w_outs with_outs]. apply keys_ok_save; [exact Hfo|exact Hb].
    + exact Hfc.
  - destruct (next_child w) as [w1 k1] eqn:En. cbn [fst].
    pose proof (next_child_fresh _ _ _ Hf En) as (_ & _ & Hkb).
    assert (Hle : child_le w w1) by (intros x; eapply child_mono_next; eauto).
    apply next_child_spec in En as (_ & _ & _ & Ho1 & _ & Hc1 & _).
    destruct Hf as [Hfo Hfc]. split; [split|exact Hle].
    + cbn [w_outs with_outs]. apply keys_ok_save; [|exact Hkb].
      intros o Hin. rewrite Ho1 in Hin. apply (key_below_mono w w1); auto.
    + intros c k m v Hin1 Hin2. cbn [w_ctxs with_outs] in Hin1. rewrite Hc1 in Hin1.
      unfold key_below. cbn [w_child with_outs]. apply (key_below_mono w w1); eauto.
Qed.

Lemma get_ctx_in w s c : get_ctx w s = Some c -> In c (w_ctxs w).
Proof. unfold get_ctx. intros H. apply find_some in H as [H _]. exact H. Qed.

Lemma lock_fresh w s t tip :
  Fresh w -> Fresh (fst (lock w s t tip)) /\ child_le w (fst (lock w s t tip)).
Proof.
  intros Hf. unfold lock, lock_tx; cbn [negb andb]. destruct (get_ctx w s) as [c|] eqn:Ec; cbn [fst];
    [|split; [exact Hf|apply child_le_refl]].
  destruct (existsb _ _); cbn [fst]; [split; [exact Hf|apply child_le_refl]|].
  unfold next_log_id. cbn zeta. cbn [w_outs with_logid].
  destruct (lock_inputs _ _ _ _) as [[outs1 deb]|e|q] eqn:El; cbn [fst];
    try (split; [exact Hf|apply child_le_refl]).
  destruct Hf as [Hfo Hfc]. split; [split|intros a; cbn; lia].
  - cbn [w_outs with_files with_log with_outs with_logid].
    apply keys_ok_add_change.
    + eapply keys_ok_lock_inputs; [|exact El]. exact Hfo.
    + intros k m v Hin. apply (Hfc c k m v); [eapply get_ctx_in; exact Ec|exact Hin].
  - exact Hfc.
Qed.

Lemma cancel_fresh w id sl :
  Fresh w -> Fresh (fst (cancel w id sl)) /\ child_le w (fst (cancel w id sl)).
Proof.
  intros Hf. unfold cancel.
  destruct (retrieve_txs w id sl (w_active w)) as [|t [|t2 r]]; cbn [fst];
    try (split; [exact Hf|apply child_le_refl]).
  destruct (negb _); cbn [fst]; [split; [exact Hf|apply child_le_refl]|].
  destruct (t_conf t); cbn [fst]; [split; [exact Hf|apply child_le_refl]|].
  destruct Hf as [Hfo Hfc]. split; [split|intros a; cbn; lia].
  - cbn [w_outs with_log with_outs]. now apply keys_ok_cancel_outputs.
  - exact Hfc.
Qed.

Lemma expire_fresh w tip : Fresh w -> Fresh (expire w tip) /\ child_le w (expire w tip).
Proof.
  unfold expire. generalize (filter (fun t => (t_parent t =? w_active w) && expirable t) (w_log w)).
  intros l. revert w. induction l as [|t r IH]; intros w Hf; cbn [fold_left];
    [split; [exact Hf|apply child_le_refl]|].
  assert (H1 : Fresh (expire_one tip w t) /\ child_le w (expire_one tip w t)).
  { unfold expire_one. destruct (t_ttl t); [|split; [exact Hf|apply child_le_refl]].
    destruct (_ <=? _); [apply cancel_fresh; exact Hf|split; [exact Hf|apply child_le_refl]]. }
  destruct H1 as [H1 H2]. destruct (IH _ H1) as [H3 H4]. split; [exact H3|].
  eapply child_le_trans; eauto.
Qed.

(** refresh never introduces a key *)
Lemma apply_one_keys parent tip p rev w q P :
  keys_ok P (w_outs w) -> keys_ok P (w_outs (apply_one parent tip p rev w q)).
Proof.
  intros Hk. unfold apply_one.
  destruct (get_out (w_outs w) (r_key q) (r_mmr q)) as [o|] eqn:Eg; [|exact Hk].
  assert (Po : P (r_key o)) by (apply get_out_in in Eg as [Hin _]; auto).
  destruct (present_height p (r_key q) (r_mmr q)) as [h|].
  - destruct (r_cb o && status_eqb (r_status o) Unconfirmed).
    + unfold next_log_id. cbn zeta.
      match goal with |- context [if ?b then _ else _] => destruct b end;
        [destruct (find _ _)|]; cbn [w_outs with_outs with_log with_logid];
        (apply keys_ok_save; [exact Hk|destruct o; exact Po]).
    + match goal with |- context [if ?b then _ else _] => destruct b end;
        [destruct (find _ _)|]; cbn [w_outs with_outs with_log with_logid];
        (apply keys_ok_save; [exact Hk|destruct o; exact Po]).
  - cbn [w_outs with_outs]. apply keys_ok_save; [exact Hk|destruct o; exact Po].
Qed.

Lemma apply_one_same parent tip p rev w q :
  w_ctxs (apply_one parent tip p rev w q) = w_ctxs w
  /\ w_child (apply_one parent tip p rev w q) = w_child w.
Proof.
  unfold apply_one. destruct (get_out _ _ _) as [o|]; [|split; reflexivity].
  destruct (present_height _ _ _).
  - destruct (r_cb o && _).
    + unfold next_log_id. cbn zeta.
      match goal with |- context [if ?b then _ else _] => destruct b end;
        [destruct (find _ _)|]; split; reflexivity.
    + match goal with |- context [if ?b then _ else _] => destruct b end;
        [destruct (find _ _)|]; split; reflexivity.
  - split; reflexivity.
Qed.

Lemma refresh_fresh w parent all tip p km :
  Fresh w -> Fresh (refresh w parent all tip p km) /\ child_le w (refresh w parent all tip p km).
Proof.
  intros [Hfo Hfc]. unfold refresh, refresh_apply.
  set (qs := refresh_set w parent all). set (rev := reverted_ids w parent qs p km).
  assert (Hfold : forall l w0, keys_ok (key_below w) (w_outs w0) -> w_ctxs w0 = w_ctxs w ->
            w_child w0 = w_child w ->
            let w1 := fold_left (apply_one parent tip p rev) l w0 in
            keys_ok (key_below w) (w_outs w1) /\ w_ctxs w1 = w_ctxs w /\ w_child w1 = w_child w).
  { induction l as [|q r IH]; intros w0 H1 H2 H3; cbn [fold_left]; [auto|].
    apply IH.
    - now apply apply_one_keys.
    - destruct (apply_one_same parent tip p rev w0 q) as [-> _]. exact H2.
    - destruct (apply_one_same parent tip p rev w0 q) as [_ ->]. exact H3. }
  assert (Hmid : exists w1, (if tip <? lookup (w_confh w) parent then w else
      with_confh (with_log (fold_left (apply_one parent tip p rev) qs w)
        (map (fun t => if existsb (N.eqb (t_id t)) rev && (t_parent t =? parent)
                       then set_conf (set_ttype t TReverted) false else t)
             (w_log (fold_left (apply_one parent tip p rev) qs w))))
        (update (w_confh (fold_left (apply_one parent tip p rev) qs w)) parent tip)) = w1
      /\ keys_ok (key_below w) (w_outs w1) /\ w_ctxs w1 = w_ctxs w /\ w_child w1 = w_child w).
  { destruct (tip <? _); [exists w; auto|].
    eexists; split; [reflexivity|]. cbn [w_outs w_ctxs w_child with_confh with_log].
    apply Hfold; auto. }
  destruct Hmid as (w1 & -> & K1 & K2 & K3).
  unfold clean_old_unconfirmed. destruct (tip <? 50).
  - split; [split|intros a; rewrite K3; lia].
    + intros o Hin. unfold key_below. rewrite K3. apply K1; exact Hin.
    + intros c k m v Hin1 Hin2. rewrite K2 in Hin1. unfold key_below. rewrite K3. eapply Hfc; eauto.
  - split; [split|intros a; cbn; rewrite K3; lia].
    + cbn [w_outs with_outs].
      assert (Hd : forall l acc, keys_ok (key_below w) acc ->
                keys_ok (key_below w) (fold_left (fun acc o => del_out acc (r_key o) None) l acc)).
      { induction l as [|o r IH]; intros acc Ha; cbn [fold_left]; [exact Ha|].
        apply IH. now apply keys_ok_del. }
      intros o Hin. unfold key_below. cbn [w_child with_outs]. rewrite K3.
      eapply Hd; [exact K1|exact Hin].
    + intros c k m v Hin1 Hin2. cbn [w_ctxs with_outs] in Hin1. rewrite K2 in Hin1.
      unfold key_below. cbn [w_child with_outs]. rewrite K3. eapply Hfc; eauto.
Qed.

Lemma fresh_child_le w w' :
  Fresh w -> child_le w w' -> w_outs w' = w_outs w -> w_ctxs w' = w_ctxs w -> Fresh w'.
Proof.
  intros [Hfo Hfc] Hle Ho Hc. split.
  - intros o Hin. rewrite Ho in Hin. apply (key_below_mono w w'); auto.
  - intros c k m v Hin1 Hin2. rewrite Hc in Hin1. apply (key_below_mono w w'); eauto.
Qed.

Lemma alloc_change_fresh : forall chg w w' l,
  Fresh w -> alloc_change w chg = (w', l) ->
  Fresh w' /\ child_le w w' /\ (forall k m v, In (k, m, v) l -> key_below w' k).
Proof.
  induction chg as [|v r IH]; intros w w' l Hf H; cbn [alloc_change] in H.
  - inversion H; subst. split; [exact Hf|]. split; [apply child_le_refl|intros ? ? ? []].
  - destruct (next_child w) as [w1 k] eqn:En. destruct (alloc_change w1 r) as [w2 l2] eqn:Ea.
    inversion H; subst; clear H.
    pose proof (next_child_fresh _ _ _ Hf En) as (_ & _ & Hkb).
    assert (Hle1 : child_le w w1) by (intros x; eapply child_mono_next; eauto).
    pose proof En as En'. apply next_child_spec in En' as (_ & _ & _ & Ho1 & _ & Hc1 & _).
    assert (Hf1 : Fresh w1) by (eapply fresh_child_le; eauto).
    destruct (IH _ _ _ Hf1 Ea) as (Hf2 & Hle2 & Hl2).
    split; [exact Hf2|]. split; [eapply child_le_trans; eauto|].
    intros k' m' v' [Heq|Hin]; [|eauto]. inversion Heq; subst. eapply key_below_mono; eauto.
Qed.

Lemma save_ctx_fresh w c :
  Fresh w -> (forall k m v, In (k, m, v) (c_outs c) -> key_below w k) -> Fresh (save_ctx w c).
Proof.
  intros [Hfo Hfc] Hc. split; [exact Hfo|].
  intros c0 k m v Hin1 Hin2. cbn [w_ctxs save_ctx with_ctxs] in Hin1.
  destruct Hin1 as [<-|Hin1]; [eapply Hc; eauto|].
  apply filter_In in Hin1 as [Hin1 _]. unfold key_below. cbn. eapply Hfc; eauto.
Qed.

Lemma del_ctx_fresh w s : Fresh w -> Fresh (del_ctx w s).
Proof.
  intros [Hfo Hfc]. split; [exact Hfo|].
  intros c k m v Hin1 Hin2. cbn [w_ctxs del_ctx with_ctxs] in Hin1.
  apply filter_In in Hin1 as [Hin1 _]. unfold key_below. cbn. eapply Hfc; eauto.
Qed.

Lemma init_send_fresh w s src p late :
  Fresh w -> Fresh (fst (init_send w s src p late)) /\ child_le w (fst (init_send w s src p late)).
Proof.
  intros Hf. unfold init_send. destruct late.
  - destruct (select_coins_and_fee _ _) as [[[[? ?] ?] ?]|e|q]; cbn [fst];
      try (split; [exact Hf|apply child_le_refl]).
    split; [|intros a; cbn; lia]. apply save_ctx_fresh; [exact Hf|]. intros ? ? ? [].
  - destruct (build_send _ _) as [b|e|q]; cbn [fst]; try (split; [exact Hf|apply child_le_refl]).
    destruct (alloc_change w (b_changes b)) as [w1 chg] eqn:Ea. cbn [fst].
    destruct (alloc_change_fresh _ _ _ _ Hf Ea) as (Hf1 & Hle & Hl).
    split; [|intros a; cbn; apply Hle]. apply save_ctx_fresh; [exact Hf1|]. cbn [c_outs]. exact Hl.
Qed.

Lemma with_log_files_fresh w l f : Fresh w -> Fresh (with_files (with_log w l) f).
Proof. intros [A B]. split; [exact A|exact B]. Qed.

Lemma finalize_fresh w s t tip so co :
  Fresh w -> Fresh (fst (finalize w s t tip so co)) /\ child_le w (fst (finalize w s t tip so co)).
Proof.
  intros Hf. unfold finalize.
  destruct (get_ctx w s) as [c|] eqn:Ec; cbn [fst]; [|split; [exact Hf|apply child_le_refl]].
  destruct (check_ttl w t) as [[]|e|q]; cbn [fst]; try (split; [exact Hf|apply child_le_refl]).
  destruct (negb so); cbn [fst]; [split; [exact Hf|apply child_le_refl]|].
  (* the late-lock part yields some fresh wallet above w *)
  set (late_result := match c_late c with None => (w, Ok c) | Some la => _ end).
  assert (Hlate : Fresh (fst late_result) /\ child_le w (fst late_result)).
  { unfold late_result. destruct (c_late c) as [la|]; cbn [fst]; [|split; [exact Hf|apply child_le_refl]].
    destruct (build_send _ _) as [b|e|q]; cbn [fst]; try (split; [exact Hf|apply child_le_refl]).
    destruct (alloc_change w (b_changes b)) as [w1 chg] eqn:Ea.
    destruct (alloc_change_fresh _ _ _ _ Hf Ea) as (Hf1 & Hle & Hl).
    destruct (negb _); cbn [fst]; [split; [exact Hf1|exact Hle]|].
    match goal with |- context [lock ?w2 s t tip] =>
      assert (Hf2 : Fresh w2) by (apply save_ctx_fresh; [exact Hf1|exact Hl]);
      pose proof (lock_fresh w2 s t tip Hf2) as [Hf3 Hle3];
      assert (Hle2 : child_le w w2) by (intros a; cbn; apply Hle);
      destruct (lock w2 s t tip) as [w3 [[]|e|q]] end; cbn [fst] in *;
      try (split; [exact Hf3|eapply child_le_trans; eauto]).
    (* refused: the late-locked context is stored again *)
    split; [|intros a; cbn; eapply child_le_trans; eauto].
    apply save_ctx_fresh; [exact Hf3|].
    intros k m v Hk. destruct Hf as [_ Hfc].
    eapply key_below_mono; [eapply child_le_trans; eauto|].
    eapply Hfc; [apply (get_ctx_in _ _ _ Ec)|exact Hk]. }
  destruct late_result as [w' [c'|e|q]]; cbn [fst] in *; try exact Hlate.
  destruct Hlate as [Hf' Hle'].
  destruct (negb co); cbn [fst]; [split; assumption|].
  destruct (negb (existsb _ _)); cbn [fst]; [split; assumption|].
  destruct (find _ _) as [te|]; cbn [fst]; [|split; assumption].
  split; [|intros a; cbn; apply Hle'].
  apply del_ctx_fresh. apply with_log_files_fresh. exact Hf'.
Qed.

Lemma lock_tx_cases w s t tip h :
  lock_tx w s t tip h = lock w s t tip \/ lock_tx w s t tip h = (w, Err EFee).
Proof.
  unfold lock, lock_tx. destruct (get_ctx w s) as [c|]; [|left; reflexivity].
  destruct h; cbn [negb andb]; [left; reflexivity|].
  destruct (c_fee c); [left; reflexivity|right; reflexivity].
Qed.

Lemma issue_invoice_fresh w s a tip d :
  Fresh w -> Fresh (fst (issue_invoice w s a tip d)) /\ child_le w (fst (issue_invoice w s a tip d)).
Proof.
  intros Hf. unfold issue_invoice.
  destruct (next_child w) as [w1 key] eqn:En.
  match goal with |- context [next_log_id w1 ?p] => destruct (next_log_id w1 p) as [w2 id] eqn:El end.
  cbn [fst].
  pose proof (next_child_fresh _ _ _ Hf En) as (_ & _ & Hkb).
  assert (Hle : child_le w w1) by (intros x; eapply child_mono_next; eauto).
  apply next_child_spec in En as (_ & _ & _ & Ho1 & _ & Hc1 & _).
  apply next_log_id_spec in El as (_ & Ho2 & _ & Hc2 & Hch2 & _).
  match goal with |- Fresh (save_ctx ?w3 ?c) /\ _ =>
    assert (H3 : Fresh w3 /\ child_le w w3) end.
  { apply fresh_build; auto.
    - intros x. rewrite Hch2. apply Hle.
    - congruence.
    - apply keys_ok_save.
      + intros o Hin. rewrite Ho2, Ho1 in Hin. unfold key_below. rewrite Hch2.
        apply (key_below_mono w w1); auto. destruct Hf as [Hfo _]. auto.
      + cbn. unfold key_below in *. rewrite Hch2. exact Hkb. }
  destruct H3 as [H3 H4]. split; [|intros x; cbn; apply H4].
  apply save_ctx_fresh; [exact H3|]. cbn [c_outs]. intros k m v [Heq|[]]. inversion Heq; subst.
  unfold key_below in *. cbn [w_child with_log with_outs]. rewrite Hch2. exact Hkb.
Qed.

Lemma process_invoice_fresh w s t src p tip pr km :
  Fresh w -> Fresh (fst (process_invoice w s t src p tip pr km))
             /\ child_le w (fst (process_invoice w s t src p tip pr km)).
Proof.
  intros Hf. unfold process_invoice.
  destruct (check_ttl w t) as [[]|e|q]; cbn [fst]; try (split; [exact Hf|apply child_le_refl]).
  destruct (find _ (w_log w)); cbn [fst]; [split; [exact Hf|apply child_le_refl]|].
  destruct (ctx_has_inputs w s); cbn [fst]; [split; [exact Hf|apply child_le_refl]|].
  match goal with |- context [refresh w ?a ?b ?c ?d ?e] =>
    destruct (refresh_fresh w a b c d e Hf) as [Hfr Hler]; set (wr := refresh w a b c d e) in * end.
  destruct (build_send _ _) as [b|e|q]; cbn [fst]; try (split; [exact Hfr|exact Hler]).
  destruct (alloc_change wr (b_changes b)) as [w1 chg] eqn:Ea. cbn [fst].
  destruct (alloc_change_fresh _ _ _ _ Hfr Ea) as (Hf1 & Hle & Hl).
  split; [|intros a; cbn; eapply N.le_trans; [apply Hler|apply Hle]].
  apply save_ctx_fresh; [exact Hf1|].
  destruct (get_ctx wr s) as [c|] eqn:Ec; cbn [c_outs]; [|exact Hl].
  intros k m v Hin. apply in_app_or in Hin as [Hin|Hin]; [eapply Hl; eauto|].
  apply (key_below_mono wr w1); [exact Hle|]. destruct Hfr as [_ Hfc].
  eapply Hfc; [eapply get_ctx_in; eauto|eauto].
Qed.

Lemma finalize_invoice_fresh w s ttl c :
  Fresh w -> Fresh (fst (finalize_invoice w s ttl c)) /\ child_le w (fst (finalize_invoice w s ttl c)).
Proof.
  intros Hf. unfold finalize_invoice. destruct (negb c); cbn [fst]; [split; [exact Hf|apply child_le_refl]|].
  destruct (find _ _); cbn [fst]; [|split; [exact Hf|apply child_le_refl]].
  split; [|intros a; cbn; lia]. apply del_ctx_fresh. apply with_log_files_fresh. exact Hf.
Qed.

(** every operation preserves [Fresh] and never decreases a key counter *)
Theorem step_fresh w op : Fresh w -> Fresh (fst (step w op)) /\ child_le w (fst (step w op)).
Proof.
  intros Hf. destruct op; cbn [step].
  - pose proof (receive_fresh w slate amount ttl dest crypto_ok Hf).
    destruct (receive w slate amount ttl dest crypto_ok); exact H.
  - destruct (lock_tx_cases w slate ttl tip has_tx) as [-> | ->];
      [|cbn [fst]; split; [exact Hf|apply child_le_refl]].
    pose proof (lock_fresh w slate ttl tip Hf). destruct (lock w slate ttl tip); exact H.
  - pose proof (cancel_fresh w id slate Hf). destruct (cancel w id slate); exact H.
  - pose proof (coinbase_fresh w fees height key Hf). destruct (coinbase w fees height key); exact H.
  - cbn [fst]. apply refresh_fresh. exact Hf.
  - pose proof (init_send_fresh w slate src p late Hf). destruct (init_send w slate src p late); exact H.
  - pose proof (finalize_fresh w slate ttl tip state_ok crypto_ok Hf).
    destruct (finalize w slate ttl tip state_ok crypto_ok); exact H.
  - cbn [fst]. split; [destruct Hf as [A B]; split; [exact A|exact B]|intros x; cbn; lia].
  - cbn [fst]. apply expire_fresh. exact Hf.
  - pose proof (issue_invoice_fresh w slate amount tip dest Hf).
    destruct (issue_invoice w slate amount tip dest); exact H.
  - pose proof (process_invoice_fresh w slate ttl src p tip pres km Hf).
    destruct (process_invoice w slate ttl src p tip pres km); exact H.
  - destruct (get_ctx w slate); cbn [fst]; [|split; [exact Hf|apply child_le_refl]].
    destruct (check_ttl w ttl) as [[]|e|q]; cbn [fst]; try (split; [exact Hf|apply child_le_refl]).
    pose proof (finalize_invoice_fresh w slate ttl crypto_ok Hf).
    destruct (finalize_invoice w slate ttl crypto_ok); exact H.
Qed.

Lemma fresh_empty : Fresh empty_wallet.
Proof. split; [intros o []|intros c k m v []]. Qed.

Theorem fresh_run : forall ops w, Fresh w -> Fresh (run w ops).
Proof.
  induction ops as [|o r IH]; intros w Hf; cbn [run fold_left]; [exact Hf|].
  apply IH. apply step_fresh. exact Hf.
Qed.

Theorem fresh_reachable : forall ops, Fresh (run empty_wallet ops).
Proof. intros ops. apply fresh_run. apply fresh_empty. Qed.

Theorem child_monotone w op a :
  Fresh w -> lookup (w_child w) a <= lookup (w_child (fst (step w op))) a.
Proof. intros Hf. destruct (step_fresh w op Hf) as [_ H]. apply H. Qed.

(* ------------------------------------------------------------------ WF is an invariant *)

Lemma nodup_cancel_outputs outs parent id :
  NoDup (map okey outs) -> NoDup (map okey (cancel_outputs outs parent id)).
Proof.
  intros Hn. unfold cancel_outputs.
  assert (H : forall l acc, NoDup (map okey acc) -> NoDup (map okey (fold_left (cancel_one parent id) l acc))).
  { induction l as [|o r IH]; intros acc Ha; cbn [fold_left]; [exact Ha|].
    apply IH. unfold cancel_one. destruct (cancel_cond parent id o); [|exact Ha].
    destruct (r_status o); try exact Ha; [now apply nodup_del|now apply nodup_save|now apply nodup_del]. }
  now apply H.
Qed.

Lemma apply_one_wf parent tip p rev w q : WF w -> WF (apply_one parent tip p rev w q).
Proof.
  unfold WF, apply_one. intros Hn.
  destruct (get_out (w_outs w) (r_key q) (r_mmr q)) as [o|]; [|exact Hn].
  destruct (present_height p (r_key q) (r_mmr q)) as [h|].
  - destruct (r_cb o && status_eqb (r_status o) Unconfirmed).
    + unfold next_log_id. cbn zeta.
      match goal with |- context [if ?b then _ else _] => destruct b end;
        [destruct (find _ _)|]; cbn [w_outs with_outs with_log with_logid]; now apply nodup_save.
    + match goal with |- context [if ?b then _ else _] => destruct b end;
        [destruct (find _ _)|]; cbn [w_outs with_outs with_log with_logid]; now apply nodup_save.
  - cbn [w_outs with_outs]. now apply nodup_save.
Qed.

Lemma refresh_wf w parent all tip p km : WF w -> WF (refresh w parent all tip p km).
Proof.
  intros Hn. unfold refresh, refresh_apply.
  set (qs := refresh_set w parent all). set (rev := reverted_ids w parent qs p km).
  assert (Hfold : forall l w0, WF w0 -> WF (fold_left (apply_one parent tip p rev) l w0)).
  { induction l as [|q r IH]; intros w0 H0; cbn [fold_left]; [exact H0|].
    apply IH. now apply apply_one_wf. }
  match goal with |- WF (clean_old_unconfirmed ?x parent tip) => assert (H1 : WF x); [|generalize dependent x; intros w1 H1] end.
  { destruct (tip <? _); [exact Hn|]. unfold WF. cbn [w_outs with_confh with_log]. now apply Hfold. }
  unfold clean_old_unconfirmed. destruct (tip <? 50); [exact H1|].
  unfold WF. cbn [w_outs with_outs].
  assert (Hd : forall l acc, NoDup (map okey acc) ->
            NoDup (map okey (fold_left (fun acc o => del_out acc (r_key o) None) l acc))).
  { induction l as [|o r IH]; intros acc Ha; cbn [fold_left]; [exact Ha|]. apply IH. now apply nodup_del. }
  now apply Hd.
Qed.

Theorem step_wf w op : WF w -> WF (fst (step w op)).
Proof.
  intros Hn. destruct op; cbn [step].
  - unfold receive. destruct (check_ttl w ttl) as [[]|e|q]; cbn [fst]; try exact Hn.
    destruct (existsb _ _); cbn [fst]; [exact Hn|].
    destruct (next_child w) as [w1 key] eqn:En.
    apply next_child_spec in En as (_ & _ & _ & Ho1 & _).
    destruct crypto_ok; cbn [negb]; [|cbn [fst]; unfold WF; rewrite Ho1; exact Hn].
    match goal with |- context [next_log_id w1 ?p] => destruct (next_log_id w1 p) as [w2 id] eqn:El end.
    cbn [fst].
    apply next_log_id_spec in El as (_ & Ho2 & _).
    unfold WF. cbn [w_outs with_log with_outs]. apply nodup_save. rewrite Ho2, Ho1. exact Hn.
  - destruct (lock_tx_cases w slate ttl tip has_tx) as [-> | ->]; [|cbn [fst]; exact Hn].
    destruct (lock w slate ttl tip) as [w' r] eqn:E. cbn [fst]. eapply lock_wf; eauto.
  - unfold cancel. destruct (retrieve_txs w id slate (w_active w)) as [|t [|t2 r]]; cbn [fst]; try exact Hn.
    destruct (negb _); cbn [fst]; [exact Hn|]. destruct (t_conf t); cbn [fst]; [exact Hn|].
    unfold WF. cbn [w_outs with_log with_outs]. now apply nodup_cancel_outputs.
  - unfold coinbase. set (reuse := match key with Some k0 => _ | None => None end).
    destruct reuse; cbn [fst].
    + unfold WF. cbn [w_outs with_outs]. now apply nodup_save.
    + destruct (next_child w) as [w1 k1] eqn:En. cbn [fst].
      apply next_child_spec in En as (_ & _ & _ & Ho1 & _).
      unfold WF. cbn [w_outs with_outs]. apply nodup_save. rewrite Ho1. exact Hn.
  - cbn [fst]. now apply refresh_wf.
  - unfold WF. destruct (init_send_outs w slate src p late) as [H _].
    destruct (init_send w slate src p late) as [w' r]. cbn [fst] in *. rewrite H. exact Hn.
  - unfold finalize. destruct (get_ctx w slate) as [c|]; cbn [fst]; [|exact Hn].
    destruct (check_ttl w ttl) as [[]|e|q]; cbn [fst]; try exact Hn.
    destruct (negb state_ok); cbn [fst]; [exact Hn|].
    set (late_result := match c_late c with None => (w, Ok c) | Some la => _ end).
    assert (Hlate : WF (fst late_result)).
    { unfold late_result. destruct (c_late c) as [la|]; cbn [fst]; [|exact Hn].
      destruct (build_send _ _) as [b|e|q]; cbn [fst]; try exact Hn.
      destruct (alloc_change w (b_changes b)) as [w1 chg] eqn:Ea.
      apply alloc_change_outs in Ea as (Ho1 & _).
      assert (Hn1 : WF w1) by (unfold WF; rewrite Ho1; exact Hn).
      destruct (negb _); cbn [fst]; [exact Hn1|].
      match goal with |- context [lock ?w2 slate ttl tip] =>
        assert (Hn2 : WF w2) by exact Hn1;
        destruct (lock w2 slate ttl tip) as [w3 r3] eqn:El;
        pose proof (lock_wf _ _ _ _ _ _ Hn2 El) as Hn3 end.
      destruct r3; cbn [fst]; exact Hn3. }
    destruct late_result as [w' [c'|e|q]]; cbn [fst] in *; try exact Hlate.
    destruct (negb crypto_ok); cbn [fst]; [exact Hlate|].
    destruct (negb (existsb _ _)); cbn [fst]; [exact Hlate|].
    destruct (find _ _); cbn [fst]; exact Hlate.
  - cbn [fst]. exact Hn.
  - cbn [fst]. unfold expire.
    generalize (filter (fun t => (t_parent t =? w_active w) && expirable t) (w_log w)).
    intros l. revert w Hn. induction l as [|t r IH]; intros w Hn; cbn [fold_left]; [exact Hn|].
    apply IH. unfold expire_one. destruct (t_ttl t); [|exact Hn]. destruct (_ <=? _); [|exact Hn].
    unfold cancel. destruct (retrieve_txs w _ _ _) as [|t1 [|t2 r2]]; cbn [fst]; try exact Hn.
    destruct (negb _); cbn [fst]; [exact Hn|]. destruct (t_conf t1); cbn [fst]; [exact Hn|].
    unfold WF. cbn [w_outs with_log with_outs]. now apply nodup_cancel_outputs.
  - unfold issue_invoice. destruct (next_child w) as [w1 key] eqn:En.
    match goal with |- context [next_log_id w1 ?p] => destruct (next_log_id w1 p) as [w2 id] eqn:El end.
    cbn [fst]. apply next_child_spec in En as (_ & _ & _ & Ho1 & _).
    apply next_log_id_spec in El as (_ & Ho2 & _).
    unfold WF. cbn [w_outs save_ctx with_ctxs with_log with_outs]. apply nodup_save. rewrite Ho2, Ho1. exact Hn.
  - unfold process_invoice. destruct (check_ttl w ttl) as [[]|e|q]; cbn [fst]; try exact Hn.
    destruct (find _ (w_log w)); cbn [fst]; [exact Hn|].
    destruct (ctx_has_inputs w slate); cbn [fst]; [exact Hn|].
    match goal with |- context [refresh w ?a ?b ?c ?d ?e] =>
      pose proof (refresh_wf w a b c d e Hn) as Hnr; set (wr := refresh w a b c d e) in * end.
    destruct (build_send _ _) as [b|e|q]; cbn [fst]; try exact Hnr.
    destruct (alloc_change wr (b_changes b)) as [w1 chg] eqn:Ea. cbn [fst].
    apply alloc_change_outs in Ea as (Ho1 & _). unfold WF. cbn [w_outs save_ctx with_ctxs]. rewrite Ho1. exact Hnr.
  - destruct (get_ctx w slate); cbn [fst]; [|exact Hn].
    destruct (check_ttl w ttl) as [[]|e|q]; cbn [fst]; try exact Hn.
    unfold finalize_invoice. destruct (negb crypto_ok); cbn [fst]; [exact Hn|].
    destruct (find _ _); cbn [fst]; exact Hn.
Qed.

Theorem wf_reachable : forall ops, WF (run empty_wallet ops).
Proof.
  intros ops. assert (H : forall ops w, WF w -> WF (run w ops)).
  { induction ops0 as [|o r IH]; intros w Hw; cbn [run fold_left]; [exact Hw|]. apply IH. now apply step_wf. }
  apply H. unfold WF. cbn. constructor.
Qed.

(* ------------------------------------------------------------------ C04: balances partition *)

Lemma sumN_filter_split {A} (f : A -> N) (p : A -> bool) l :
  sumN (map f l) = sumN (map f (filter p l)) + sumN (map f (filter (fun x => negb (p x)) l)).
Proof.
  induction l as [|x r IH]; cbn [map filter sumN]; [reflexivity|].
  destruct (p x); cbn [negb map sumN]; lia.
Qed.

Definition all_buckets := [BSpendable; BImmature; BAwaitConf; BAwaitFinal; BLocked; BReverted; BNone].

Lemma bucket_eqb_eq a b : bucket_eqb a b = true <-> a = b.
Proof. destruct a, b; cbn; split; intros H; try discriminate; reflexivity. Qed.

(** every output of the account falls in exactly one bucket, so the seven bucket sums add
    up to the total value of the account's records *)
Theorem buckets_partition outs parent h minconf :
  sumN (map (fun b => bucket_sum outs parent h minconf b) all_buckets)
  = sumN (map r_value (filter (fun o => r_root o =? parent) outs)).
Proof.
  unfold bucket_sum, all_buckets. cbn [map sumN].
  induction outs as [|o r IH]; cbn [filter map sumN]; [reflexivity|].
  destruct (r_root o =? parent) eqn:E; cbn [andb]; [|exact IH].
  destruct (bucket_of o h minconf); cbn [bucket_eqb filter map sumN]; lia.
Qed.

(** the reported figures, when nothing saturates: total = spendable + awaiting confirmation
    + immature; the six figures are the six bucket sums *)
Theorem retrieve_info_partition w parent minconf :
  let h := lookup (w_confh w) (w_active w) in
  let s := bucket_sum (w_outs w) parent h minconf in
  s BSpendable + s BAwaitConf + s BImmature <= U64MAX ->
  s BAwaitFinal <= U64MAX -> s BLocked <= U64MAX -> s BReverted <= U64MAX ->
  let i := retrieve_info w parent minconf in
  i_spendable i = s BSpendable /\ i_awaiting_confirmation i = s BAwaitConf
  /\ i_immature i = s BImmature /\ i_awaiting_finalization i = s BAwaitFinal
  /\ i_locked i = s BLocked /\ i_reverted i = s BReverted
  /\ i_total i = i_spendable i + i_awaiting_confirmation i + i_immature i.
Proof.
  cbn zeta. intros H1 H2 H3 H4. unfold retrieve_info, sat, sat_add. cbn [i_spendable
    i_awaiting_confirmation i_immature i_awaiting_finalization i_locked i_reverted i_total].
  repeat split; lia.
Qed.

(** which bucket: the classification by status, maturity and confirmations *)
Theorem bucket_classification o h minconf :
  match bucket_of o h minconf with
  | BSpendable => r_status o = Unspent /\ (r_cb o = true -> r_lock o <= h) /\ minconf <= num_conf o h
  | BImmature => r_status o = Unspent /\ r_cb o = true /\ h < r_lock o
  | BAwaitConf => (r_status o = Unspent /\ num_conf o h < minconf)
                  \/ (r_status o = Unconfirmed /\ r_cb o = false /\ minconf = 0)
  | BAwaitFinal => r_status o = Unconfirmed /\ r_cb o = false /\ minconf <> 0
  | BLocked => r_status o = Locked
  | BReverted => r_status o = Reverted
  | BNone => r_status o = Spent \/ (r_status o = Unconfirmed /\ r_cb o = true)
  end.
Proof.
  unfold bucket_of. destruct (r_status o) eqn:Es.
  - destruct (r_cb o) eqn:Ec; [right; auto|]. destruct (minconf =? 0) eqn:E; [right|]; repeat split; auto; lia.
  - destruct (r_cb o && (h <? r_lock o)) eqn:E1.
    + apply andb_true_iff in E1 as [A B]. repeat split; auto; lia.
    + destruct (num_conf o h <? minconf) eqn:E2.
      * left; split; [reflexivity|lia].
      * split; [reflexivity|split; [intros Hc; rewrite Hc in E1; cbn in E1; lia|lia]].
  - reflexivity.
  - left; reflexivity.
  - reflexivity.
Qed.

(** Reverted, Locked, Spent and unconfirmed-coinbase values never count as spendable or
    in the total (C18: a reverted output is excluded from both). *)
Theorem reverted_not_counted o h minconf :
  r_status o = Reverted -> bucket_of o h minconf = BReverted.
Proof. unfold bucket_of. intros ->. reflexivity. Qed.

(* ------------------------------------------------------------------ C04: refresh is exact *)

Definition refreshed_status (p : presence) (reverted : list N) (o : orec) : status :=
  match present_height p (r_key o) (r_mmr o) with
  | Some _ => mark_unspent (r_status o)
  | None =>
    if negb (r_cb o) && match r_tx o with Some i => existsb (N.eqb i) reverted | None => false end
    then mark_reverted (r_status o) else mark_spent (r_status o)
  end.

Lemma apply_one_get_other parent tip p rev w q k m :
  ~ (r_key q = k /\ r_mmr q = m) ->
  get_out (w_outs (apply_one parent tip p rev w q)) k m = get_out (w_outs w) k m.
Proof.
  intros Hne. unfold apply_one.
  destruct (get_out (w_outs w) (r_key q) (r_mmr q)) as [o|] eqn:Eg; [|reflexivity].
  apply get_out_in in Eg as [_ [Hk Hm]].
  assert (Hno : forall o', r_key o' = r_key o -> r_mmr o' = r_mmr o -> ~ same_key o' k m).
  { intros o' A B [C D]. apply Hne. split; congruence. }
  destruct (present_height p (r_key q) (r_mmr q)) as [h|].
  - destruct (r_cb o && status_eqb (r_status o) Unconfirmed).
    + unfold next_log_id. cbn zeta.
      match goal with |- context [if ?b then _ else _] => destruct b end;
        [destruct (find _ _)|]; cbn [w_outs with_outs with_log with_logid];
        (rewrite get_save_other; [reflexivity|apply Hno; destruct o; reflexivity]).
    + match goal with |- context [if ?b then _ else _] => destruct b end;
        [destruct (find _ _)|]; cbn [w_outs with_outs with_log with_logid];
        (rewrite get_save_other; [reflexivity|apply Hno; destruct o; reflexivity]).
  - cbn [w_outs with_outs]. rewrite get_save_other; [reflexivity|apply Hno; destruct o; reflexivity].
Qed.

Lemma apply_one_get_same parent tip p rev w q o :
  get_out (w_outs w) (r_key q) (r_mmr q) = Some o ->
  exists o', get_out (w_outs (apply_one parent tip p rev w q)) (r_key q) (r_mmr q) = Some o'
    /\ r_status o' = refreshed_status p rev o /\ r_value o' = r_value o /\ r_root o' = r_root o
    /\ r_key o' = r_key o /\ r_mmr o' = r_mmr o /\ r_cb o' = r_cb o.
Proof.
  intros Eg. unfold apply_one. rewrite Eg.
  pose proof (get_out_in _ _ _ _ Eg) as [_ [Hk Hm]].
  unfold refreshed_status. rewrite Hk, Hm.
  destruct (present_height p (r_key q) (r_mmr q)) as [h|].
  - destruct (r_cb o && status_eqb (r_status o) Unconfirmed) eqn:Ecb.
    + unfold next_log_id. cbn zeta.
      match goal with |- context [if ?b then _ else _] => destruct b end;
        [destruct (find _ _)|]; cbn [w_outs with_outs with_log with_logid];
        (eexists; split; [rewrite <- Hk, <- Hm;
           match goal with |- get_out (save_out _ ?x) _ _ = _ =>
             replace (r_key o) with (r_key x) by (destruct o; reflexivity);
             replace (r_mmr o) with (r_mmr x) by (destruct o; reflexivity); apply get_save_same end
         |destruct o; cbn in *; repeat split; auto]).
    + match goal with |- context [if ?b then _ else _] => destruct b end;
        [destruct (find _ _)|]; cbn [w_outs with_outs with_log with_logid];
        (eexists; split; [rewrite <- Hk, <- Hm;
           match goal with |- get_out (save_out _ ?x) _ _ = _ =>
             replace (r_key o) with (r_key x) by (destruct o; reflexivity);
             replace (r_mmr o) with (r_mmr x) by (destruct o; reflexivity); apply get_save_same end
         |destruct o; cbn in *; repeat split; auto]).
  - cbn [w_outs with_outs].
    eexists; split; [rewrite <- Hk, <- Hm;
       match goal with |- get_out (save_out _ ?x) _ _ = _ =>
         replace (r_key o) with (r_key x) by (destruct o; reflexivity);
         replace (r_mmr o) with (r_mmr x) by (destruct o; reflexivity); apply get_save_same end
     |destruct o; cbn in *; repeat split; auto].
Qed.

Lemma fold_apply_get_other parent tip p rev : forall l w k m,
  (forall q, In q l -> ~ (r_key q = k /\ r_mmr q = m)) ->
  get_out (w_outs (fold_left (apply_one parent tip p rev) l w)) k m = get_out (w_outs w) k m.
Proof.
  induction l as [|q r IH]; intros w k m Hn; cbn [fold_left]; [reflexivity|].
  rewrite IH by (intros q' Hq; apply Hn; now right).
  apply apply_one_get_other. apply Hn. now left.
Qed.

(** after the loop of apply_api_outputs, the record of every queried output has exactly the
    status the node's answer dictates; its value, owner, key and coinbase flag are unchanged *)
Lemma fold_apply_exact parent tip p rev : forall l w,
  NoDup (map okey l) ->
  (forall q, In q l -> get_out (w_outs w) (r_key q) (r_mmr q) = Some q) ->
  forall q, In q l ->
  exists o', get_out (w_outs (fold_left (apply_one parent tip p rev) l w)) (r_key q) (r_mmr q) = Some o'
    /\ r_status o' = refreshed_status p rev q /\ r_value o' = r_value q /\ r_root o' = r_root q
    /\ r_cb o' = r_cb q.
Proof.
  induction l as [|q0 r IH]; intros w Hn Hg q Hin; [contradiction|].
  cbn [fold_left]. inversion Hn as [|? ? Hq0 Hr]; subst.
  destruct Hin as [<-|Hin].
  - (* the head: processed now, untouched by the rest *)
    rewrite fold_apply_get_other.
    + destruct (apply_one_get_same parent tip p rev w q0 q0 (Hg q0 (or_introl eq_refl)))
        as (o' & A & B & C & D & _ & _ & E). exists o'. auto.
    + intros q' Hq' [A B]. apply Hq0. apply in_map_iff. exists q'. split; [|exact Hq'].
      unfold okey. congruence.
  - apply IH; auto.
    intros q' Hq'. rewrite apply_one_get_other; [apply Hg; now right|].
    intros [A B]. apply Hq0. apply in_map_iff. exists q'. split; [|exact Hq']. unfold okey. congruence.
Qed.

Lemma nodup_filter_keys (f : orec -> bool) l : NoDup (map okey l) -> NoDup (map okey (filter f l)).
Proof.
  induction l as [|o r IH]; cbn [filter map]; intros Hn; [constructor|].
  inversion Hn as [|? ? Ho Hr]; subst. destruct (f o); cbn [map]; auto.
  constructor; auto. intros Hin. apply Ho. apply in_map_iff in Hin as (y & Hy & Hin).
  apply filter_In in Hin as [Hin _]. apply in_map_iff; eauto.
Qed.

Lemma get_out_of_in l o : NoDup (map okey l) -> In o l -> get_out l (r_key o) (r_mmr o) = Some o.
Proof.
  induction l as [|x r IH]; intros Hn Hin; [contradiction|]. cbn [get_out].
  inversion Hn as [|? ? Hx Hr]; subst. destruct Hin as [->|Hin].
  - assert (E : okey_eqb o (r_key o) (r_mmr o) = true) by (apply okey_eqb_iff; split; reflexivity).
    now rewrite E.
  - destruct (okey_eqb x (r_key o) (r_mmr o)) eqn:E.
    + exfalso. apply Hx. apply okey_eqb_iff in E as [A B]. apply in_map_iff. exists o. split; [|exact Hin].
      unfold okey. congruence.
    + now apply IH.
Qed.

(** C04 (refresh is exact, step form): in every well-formed wallet, after the node's answers
    are applied (tip not below the last confirmed height), every record the refresh looks at
    has the status those answers dictate; value, owner and coinbase flag are unchanged. *)
Theorem refresh_exact w parent all tip p km q :
  WF w -> lookup (w_confh w) parent <= tip ->
  In q (refresh_set w parent all) ->
  let w' := refresh_apply w parent all tip p km in
  let rev := reverted_ids w parent (refresh_set w parent all) p km in
  exists o', get_out (w_outs w') (r_key q) (r_mmr q) = Some o'
     /\ r_status o' = refreshed_status p rev q /\ r_value o' = r_value q /\ r_root o' = r_root q
     /\ r_cb o' = r_cb q.
Proof.
  intros Hwf Hh Hin. cbn zeta. unfold refresh_apply.
  set (qs := refresh_set w parent all) in *. set (rev := reverted_ids w parent qs p km).
  assert (E : tip <? lookup (w_confh w) parent = false) by lia. rewrite E.
  assert (Hnq : NoDup (map okey qs)) by (apply nodup_filter_keys; exact Hwf).
  assert (Hgq : forall q0, In q0 qs -> get_out (w_outs w) (r_key q0) (r_mmr q0) = Some q0).
  { intros q0 Hq0. apply get_out_of_in; [exact Hwf|]. apply filter_In in Hq0 as [H _]. exact H. }
  destruct (fold_apply_exact parent tip p rev qs w Hnq Hgq q Hin) as (o' & A & B & C & D & F).
  exists o'. cbn [w_outs with_confh with_log]. auto.
Qed.

(** hence: a queried record is Unspent or Locked after the refresh exactly when the node
    reports its commitment in the UTXO set — for records that were Unspent, Unconfirmed or
    Reverted, and for Locked ones not caught by the reverted-kernel rule *)
Theorem refresh_matches_utxo w parent all tip p km q :
  WF w -> lookup (w_confh w) parent <= tip ->
  In q (refresh_set w parent all) ->
  (r_status q = Locked ->
     match r_tx q with
     | Some i => existsb (N.eqb i) (reverted_ids w parent (refresh_set w parent all) p km) = false
     | None => True end) ->
  exists o', get_out (w_outs (refresh_apply w parent all tip p km)) (r_key q) (r_mmr q) = Some o'
    /\ ((r_status o' = Unspent \/ r_status o' = Locked)
        <-> present_height p (r_key q) (r_mmr q) <> None).
Proof.
  intros Hwf Hh Hin Hlk.
  destruct (refresh_exact w parent all tip p km q Hwf Hh Hin) as (o' & A & B & _).
  exists o'. split; [exact A|]. rewrite B. unfold refreshed_status.
  assert (Hns : r_status q <> Spent).
  { apply filter_In in Hin as [_ Hf]. apply andb_true_iff in Hf as [Hf _].
    apply andb_true_iff in Hf as [_ Hf]. destruct (r_status q); cbn in Hf; try discriminate; discriminate. }
  destruct (present_height p (r_key q) (r_mmr q)) as [h|].
  - split; [intros _; discriminate|intros _].
    destruct (r_status q); cbn; auto. contradiction.
  - split; [|intros H; contradiction].
    intros Hs. exfalso.
    destruct (negb (r_cb q) && _) eqn:Erev.
    + destruct (r_status q) eqn:Es; cbn in Hs; destruct Hs as [Hs|Hs]; try discriminate.
      apply andb_true_iff in Erev as [_ Erev]. specialize (Hlk eq_refl).
      destruct (r_tx q); [congruence|discriminate].
    + destruct (r_status q) eqn:Es; cbn in Hs; destruct Hs as [Hs|Hs]; try discriminate.
Qed.

(** an account's refresh never changes a record of another account *)
Theorem refresh_apply_other_account w parent all tip p km k m o :
  WF w -> get_out (w_outs w) k m = Some o -> r_root o <> parent ->
  get_out (w_outs (refresh_apply w parent all tip p km)) k m = Some o.
Proof.
  intros Hwf Hg Hr. unfold refresh_apply. destruct (tip <? _); [exact Hg|].
  cbn [w_outs with_confh with_log]. rewrite fold_apply_get_other; [exact Hg|].
  intros q Hq [A B]. apply filter_In in Hq as [Hq Hf].
  pose proof (get_out_of_in _ _ Hwf Hq) as G. rewrite A, B, Hg in G. inversion G; subst.
  apply andb_true_iff in Hf as [Hf _]. apply andb_true_iff in Hf as [Hf _]. apply Hr. lia.
Qed.

(* ------------------------------------------------------------------ C17: invoices *)

Lemma process_invoice_expired w s ttl src p tip pr km :
  ttl <> 0 -> ttl <= lookup (w_confh w) (w_active w) ->
  process_invoice w s ttl src p tip pr km = (w, Err EExpired).
Proof.
  intros H1 H2. unfold process_invoice.
  assert (E : check_ttl w ttl = Err EExpired) by (apply check_ttl_spec; auto). now rewrite E.
Qed.

(** a payer that already built its contribution for an invoice (the stored context names
    inputs) refuses to process the same invoice again, from any account, with any arguments *)
Lemma process_invoice_twice_refused w s ttl src p tip pr km :
  ctx_has_inputs w s = true ->
  fst (process_invoice w s ttl src p tip pr km) = w
  /\ is_ok (snd (process_invoice w s ttl src p tip pr km)) = false.
Proof.
  intros H. unfold process_invoice.
  destruct (check_ttl w ttl) as [[]|e|q]; cbn [fst snd]; try (split; reflexivity).
  destruct (find _ (w_log w)); cbn [fst snd]; [split; reflexivity|].
  rewrite H. split; reflexivity.
Qed.

Lemma finalize_invoice_expired w s ttl c :
  ttl <> 0 -> ttl <= lookup (w_confh w) (w_active w) ->
  fst (step w (OpFinalizeInvoice s ttl c)) = w
  /\ snd (step w (OpFinalizeInvoice s ttl c)) <> [0%Z].
Proof.
  intros H1 H2. cbn [step]. destruct (get_ctx w s); [|split; [reflexivity|discriminate]].
  assert (E : check_ttl w ttl = Err EExpired) by (apply check_ttl_spec; auto). rewrite E.
  split; [reflexivity|discriminate].
Qed.

(* ------------------------------------------------------------------ C18: the reverted state machine *)

Definition get_tx (l : list trec) (parent id : N) : option trec :=
  find (fun t => tkey_eqb t parent id) l.

Lemma tkey_eqb_iff t p i : tkey_eqb t p i = true <-> t_parent t = p /\ t_id t = i.
Proof. unfold tkey_eqb. rewrite andb_true_iff. split; intros [A B]; split; lia. Qed.

Lemma get_save_tx l x p i :
  get_tx (save_tx l x) p i = if tkey_eqb x p i then Some x else get_tx l p i.
Proof.
  unfold get_tx. induction l as [|t r IH]; cbn [save_tx find].
  - destruct (tkey_eqb x p i); reflexivity.
  - destruct (tkey_eqb t (t_parent x) (t_id x)) eqn:E1; cbn [find].
    + destruct (tkey_eqb x p i) eqn:E2; [reflexivity|].
      apply tkey_eqb_iff in E1 as [A B].
      assert (tkey_eqb t p i = false).
      { destruct (tkey_eqb t p i) eqn:E3; [|reflexivity]. apply tkey_eqb_iff in E3 as [C D].
        assert (tkey_eqb x p i = true) by (apply tkey_eqb_iff; split; congruence). congruence. }
      now rewrite H.
    + destruct (_ || _); cbn [find].
      * destruct (tkey_eqb x p i); reflexivity.
      * destruct (tkey_eqb t p i) eqn:E3.
        -- destruct (tkey_eqb x p i) eqn:E2; [|reflexivity].
           exfalso. apply tkey_eqb_iff in E3 as [A B]. apply tkey_eqb_iff in E2 as [C D].
           assert (tkey_eqb t (t_parent x) (t_id x) = true) by (apply tkey_eqb_iff; split; congruence).
           congruence.
        -- apply IH.
Qed.

(** C17 (the [fix:] for the issuer of an invoice): a successful finalize of an invoice whose reply
    carries a cutoff leaves the issuer's entry with a cutoff — its own if it had one, the
    reply's otherwise — so the expiry step sees it like the payer's entry. *)
Lemma adopt_ttl_key t ttl :
  t_parent (adopt_ttl t ttl) = t_parent t /\ t_id (adopt_ttl t ttl) = t_id t
  /\ t_type (adopt_ttl t ttl) = t_type t /\ t_conf (adopt_ttl t ttl) = t_conf t
  /\ t_slate (adopt_ttl t ttl) = t_slate t.
Proof. unfold adopt_ttl. destruct (t_ttl t); [repeat split|]. destruct (ttl =? 0); repeat split. Qed.

Lemma adopt_ttl_ttl t ttl :
  ttl <> 0 -> t_ttl (adopt_ttl t ttl) = Some (match t_ttl t with Some e => e | None => ttl end).
Proof.
  intros H. unfold adopt_ttl. destruct (t_ttl t) eqn:E; [exact E|].
  destruct (N.eqb_spec ttl 0) as [F|_]; [contradiction|reflexivity].
Qed.

Lemma finalize_invoice_adopts_cutoff w s ttl c w' :
  finalize_invoice w s ttl c = (w', Ok tt) -> ttl <> 0 ->
  exists t t',
    find (fun t => optN_eqb (t_slate t) (Some s) && ttype_eqb (t_type t) TReceived) (w_log w) = Some t
    /\ get_tx (w_log w') (t_parent t) (t_id t) = Some t'
    /\ t_type t' = TReceived /\ t_conf t' = t_conf t
    /\ t_ttl t' = Some (match t_ttl t with Some e => e | None => ttl end).
Proof.
  intros H Hn. unfold finalize_invoice in H. destruct (negb c); [discriminate|].
  destruct (find _ (w_log w)) as [t|] eqn:Ef; [|discriminate].
  inversion H; subst w'; clear H.
  destruct (adopt_ttl_key t ttl) as (K1 & K2 & K3 & K4 & K5).
  exists t, (set_excess (adopt_ttl t ttl)). split; [reflexivity|].
  split.
  { cbn [w_log del_ctx with_ctxs with_files with_log]. rewrite get_save_tx.
    assert (E : tkey_eqb (set_excess (adopt_ttl t ttl)) (t_parent t) (t_id t) = true).
    { apply tkey_eqb_iff. cbn [set_excess t_parent t_id]. split; assumption. }
    now rewrite E. }
  apply find_some in Ef as [_ Ef]. apply andb_true_iff in Ef as [_ Et].
  cbn [set_excess t_type t_conf t_ttl]. rewrite K3, K4.
  split; [destruct (t_type t); try discriminate; reflexivity|]. split; [reflexivity|].
  now apply adopt_ttl_ttl.
Qed.


(** a log entry that counts as settled: confirmed and not marked reverted *)
Definition settled (t : trec) : Prop := t_conf t = true /\ t_type t <> TReverted.
Definition settled_at (l : list trec) (parent id : N) : Prop :=
  exists t, get_tx l parent id = Some t /\ settled t.

Lemma find_key_ext l parent id :
  find (fun t => optN_eqb (Some (t_id t)) (Some id) && (t_parent t =? parent)) l = get_tx l parent id.
Proof.
  unfold get_tx. induction l as [|t r IH]; cbn [find]; [reflexivity|].
  assert (E : optN_eqb (Some (t_id t)) (Some id) && (t_parent t =? parent) = tkey_eqb t parent id).
  { unfold tkey_eqb. cbn. rewrite andb_comm. reflexivity. }
  rewrite E. destruct (tkey_eqb t parent id); [reflexivity|exact IH].
Qed.

(** apply_one only ever writes settled entries, so a settled entry stays settled *)
Lemma apply_one_keeps_settled parent tip p rev w q pa i :
  settled_at (w_log w) pa i -> settled_at (w_log (apply_one parent tip p rev w q)) pa i.
Proof.
  intros Hs. unfold apply_one.
  destruct (get_out (w_outs w) (r_key q) (r_mmr q)) as [o|]; [|exact Hs].
  destruct (present_height p (r_key q) (r_mmr q)) as [h|]; [|exact Hs].
  (* first the coinbase entry, then the confirmation of the linked entry: both settled writes *)
  assert (Hsave : forall l x, settled x -> settled_at l pa i -> settled_at (save_tx l x) pa i).
  { intros l x Hx (t & Hg & Ht). unfold settled_at. rewrite get_save_tx.
    destruct (tkey_eqb x pa i); eauto. }
  destruct (r_cb o && status_eqb (r_status o) Unconfirmed).
  - unfold next_log_id. cbn zeta.
    match goal with |- context [if ?b then _ else _] => destruct b end.
    + cbn [w_log with_log with_logid w_outs with_outs].
      match goal with |- context [find ?f ?l] => destruct (find f l) as [t|] end;
        cbn [w_log with_log with_outs]; repeat apply Hsave; try exact Hs;
        try (split; [reflexivity|cbn; discriminate]).
      split; [destruct t; reflexivity|]. destruct (ttype_eqb (t_type t) TReverted) eqn:E; destruct t; cbn in *;
        [discriminate|]. intros ->. cbn in E. discriminate.
    + cbn [w_log with_log with_logid with_outs]. apply Hsave; [split; [reflexivity|cbn; discriminate]|exact Hs].
  - match goal with |- context [if ?b then _ else _] => destruct b end.
    + match goal with |- context [find ?f ?l] => destruct (find f l) as [t|] end;
        cbn [w_log with_log with_outs]; [|exact Hs].
      apply Hsave; [|exact Hs].
      split; [destruct t; reflexivity|]. destruct (ttype_eqb (t_type t) TReverted) eqn:E; destruct t; cbn in *;
        [discriminate|]. intros ->. cbn in E. discriminate.
    + cbn [w_log with_outs]. exact Hs.
Qed.

Lemma apply_one_keeps_entries parent tip p rev w q pa i :
  get_tx (w_log w) pa i <> None -> get_tx (w_log (apply_one parent tip p rev w q)) pa i <> None.
Proof.
  intros Hs. unfold apply_one.
  destruct (get_out (w_outs w) (r_key q) (r_mmr q)) as [o|]; [|exact Hs].
  destruct (present_height p (r_key q) (r_mmr q)) as [h|]; [|exact Hs].
  assert (Hsave : forall l x, get_tx l pa i <> None -> get_tx (save_tx l x) pa i <> None).
  { intros l x Hg. rewrite get_save_tx. destruct (tkey_eqb x pa i); [discriminate|exact Hg]. }
  destruct (r_cb o && status_eqb (r_status o) Unconfirmed).
  - unfold next_log_id. cbn zeta.
    match goal with |- context [if ?b then _ else _] => destruct b end.
    + cbn [w_log with_log with_logid w_outs with_outs].
      match goal with |- context [find ?f ?l] => destruct (find f l) as [t|] end;
        cbn [w_log with_log with_outs]; repeat apply Hsave; exact Hs.
    + cbn [w_log with_log with_logid with_outs]. apply Hsave; exact Hs.
  - match goal with |- context [if ?b then _ else _] => destruct b end.
    + match goal with |- context [find ?f ?l] => destruct (find f l) as [t|] end;
        cbn [w_log with_log with_outs]; [apply Hsave|]; exact Hs.
    + cbn [w_log with_outs]. exact Hs.
Qed.

(** processing a present, non-coinbase, Unconfirmed-or-Reverted record settles its entry:
    confirmed, and a TxReverted entry is TxReceived again *)
Lemma apply_one_settles parent tip p rev w q o h id :
  get_out (w_outs w) (r_key q) (r_mmr q) = Some o ->
  present_height p (r_key q) (r_mmr q) = Some h ->
  r_cb o = false -> (r_status o = Unconfirmed \/ r_status o = Reverted) -> r_tx o = Some id ->
  get_tx (w_log w) parent id <> None ->
  settled_at (w_log (apply_one parent tip p rev w q)) parent id.
Proof.
  intros Hg Hp Hcb Hst Htx Hent. unfold apply_one. rewrite Hg, Hp, Hcb. cbn [andb negb].
  cbv beta iota zeta. rewrite Hcb. cbn [andb negb].
  assert (E : status_eqb (r_status o) Unconfirmed || status_eqb (r_status o) Reverted = true).
  { destruct Hst as [-> | ->]; reflexivity. }
  rewrite E. rewrite Htx, find_key_ext.
  destruct (get_tx (w_log w) parent id) as [t|] eqn:Et; [|contradiction].
  cbn [w_log with_log with_outs]. unfold settled_at. rewrite get_save_tx.
  assert (Ek : tkey_eqb (set_conf (if ttype_eqb (t_type t) TReverted then set_ttype t TReceived else t) true)
                        parent id = true).
  { unfold get_tx in Et. apply find_some in Et as [_ Ek]. apply tkey_eqb_iff in Ek as [A B].
    apply tkey_eqb_iff. destruct (ttype_eqb (t_type t) TReverted); destruct t; cbn in *; auto. }
  rewrite Ek. eexists; split; [reflexivity|].
  split; [destruct (ttype_eqb _ _); destruct t; reflexivity|].
  destruct (ttype_eqb (t_type t) TReverted) eqn:E2; destruct t; cbn in *; [discriminate|].
  intros ->. cbn in E2. discriminate.
Qed.

(** C18, re-confirmation: when a full or partial refresh finds a reverted (or unconfirmed)
    non-coinbase output of the account on chain again, the output is Unspent and — unless the
    entry is (still) caught by the reverted-kernel rule — its log entry is confirmed and no
    longer TxReverted. *)
Theorem refresh_reconfirms w parent all tip p km q id h :
  WF w -> lookup (w_confh w) parent <= tip ->
  In q (refresh_set w parent all) ->
  r_cb q = false -> (r_status q = Unconfirmed \/ r_status q = Reverted) -> r_tx q = Some id ->
  present_height p (r_key q) (r_mmr q) = Some h ->
  get_tx (w_log w) parent id <> None ->
  existsb (N.eqb id) (reverted_ids w parent (refresh_set w parent all) p km) = false ->
  let w' := refresh_apply w parent all tip p km in
  (exists o', get_out (w_outs w') (r_key q) (r_mmr q) = Some o' /\ r_status o' = Unspent
              /\ r_value o' = r_value q)
  /\ settled_at (w_log w') parent id.
Proof.
  intros Hwf Hh Hin Hcb Hst Htx Hp Hent Hnrev. cbn zeta. split.
  - destruct (refresh_exact w parent all tip p km q Hwf Hh Hin) as (o' & A & B & C & _).
    exists o'. split; [exact A|]. split; [|exact C]. rewrite B. unfold refreshed_status. rewrite Hp.
    destruct Hst as [-> | ->]; reflexivity.
  - unfold refresh_apply.
    set (qs := refresh_set w parent all) in *. set (rev := reverted_ids w parent qs p km) in *.
    assert (E : tip <? lookup (w_confh w) parent = false) by lia. rewrite E.
    cbn [w_log with_confh with_log].
    assert (Hnq : NoDup (map okey qs)) by (apply nodup_filter_keys; exact Hwf).
    assert (Hgq : forall q0, In q0 qs -> get_out (w_outs w) (r_key q0) (r_mmr q0) = Some q0).
    { intros q0 Hq0. apply get_out_of_in; [exact Hwf|]. apply filter_In in Hq0 as [H _]. exact H. }
    (* the fold settles the entry when it reaches q and keeps it settled afterwards *)
    assert (Hfold : forall l w0, NoDup (map okey l) ->
              (forall q0, In q0 l -> get_out (w_outs w0) (r_key q0) (r_mmr q0) = Some q0) ->
              get_tx (w_log w0) parent id <> None -> In q l ->
              settled_at (w_log (fold_left (apply_one parent tip p rev) l w0)) parent id).
    { induction l as [|q0 r IH]; intros w0 Hn Hg He Hi; [contradiction|].
      cbn [fold_left]. inversion Hn as [|? ? Hq0 Hr]; subst.
      assert (Hkeep : forall l' w1, settled_at (w_log w1) parent id ->
                settled_at (w_log (fold_left (apply_one parent tip p rev) l' w1)) parent id).
      { induction l' as [|x l' IHl]; intros w1 Hs; cbn [fold_left]; [exact Hs|].
        apply IHl. now apply apply_one_keeps_settled. }
      destruct Hi as [<-|Hi].
      - apply Hkeep. eapply apply_one_settles; eauto. apply Hg. now left.
      - apply IH; auto.
        + intros q' Hq'. rewrite apply_one_get_other; [apply Hg; now right|].
          intros [A B]. apply Hq0. apply in_map_iff. exists q'. split; [|exact Hq']. unfold okey. congruence.
        + now apply apply_one_keeps_entries. }
    destruct (Hfold qs w Hnq Hgq Hent Hin) as (t & Hgt & Hset).
    (* the final pass marks only entries in [rev] *)
    unfold settled_at, get_tx in *.
    induction (w_log (fold_left (apply_one parent tip p rev) qs w)) as [|x l IHl]; [discriminate|].
    cbn [map find] in *.
    assert (Hk : forall y, tkey_eqb (if existsb (N.eqb (t_id y)) rev && (t_parent y =? parent)
                                      then set_conf (set_ttype y TReverted) false else y) parent id
                           = tkey_eqb y parent id).
    { intros y. destruct (_ && _); destruct y; reflexivity. }
    rewrite Hk. destruct (tkey_eqb x parent id) eqn:Ex.
    + inversion Hgt; subst x. apply tkey_eqb_iff in Ex as [A B]. rewrite B, Hnrev. cbn [andb].
      exists t. split; [reflexivity|exact Hset].
    + apply IHl. exact Hgt.
Qed.

(** C18, reverting: what the reverted-kernel rule does to the log — every entry of the account
    whose id is in the reverted set ends up TxReverted and unconfirmed *)
Theorem refresh_marks_reverted w parent all tip p km t :
  lookup (w_confh w) parent <= tip ->
  In t (w_log (refresh_apply w parent all tip p km)) -> t_parent t = parent ->
  existsb (N.eqb (t_id t)) (reverted_ids w parent (refresh_set w parent all) p km) = true ->
  t_type t = TReverted /\ t_conf t = false.
Proof.
  intros Hh Hin Hp Hrev. unfold refresh_apply in Hin.
  assert (E : tip <? lookup (w_confh w) parent = false) by lia. rewrite E in Hin.
  cbn [w_log with_confh with_log] in Hin. apply in_map_iff in Hin as (y & Hy & _).
  destruct (existsb (N.eqb (t_id y)) _ && (t_parent y =? parent)) eqn:Ec.
  - subst t. destruct y; cbn. auto.
  - subst t. rewrite Hrev in Ec. cbn in Ec. lia.
Qed.

(** ... and what is in that set: exactly the received entries (with a stored kernel) whose
    kernel the node no longer has and one of whose outputs, recorded Unspent, has vanished *)
Theorem reverted_ids_spec w parent qs p km id :
  existsb (N.eqb id) (reverted_ids w parent qs p km) = true <->
  exists t, In t (w_log w) /\ t_id t = id /\ t_parent t = parent /\ t_type t = TReceived
            /\ t_excess t = true /\ In id km
            /\ exists o, In o qs /\ r_tx o = Some id /\ r_status o = Unspent
                         /\ present_height p (r_key o) (r_mmr o) = None.
Proof.
  unfold reverted_ids. rewrite existsb_exists. split.
  - intros (x & Hin & Hx). apply N.eqb_eq in Hx. subst x.
    apply in_map_iff in Hin as (t & Hid & Hin). apply filter_In in Hin as [Hin Hf].
    repeat (apply andb_true_iff in Hf as [Hf ?]).
    exists t. split; [exact Hin|]. split; [exact Hid|]. split; [lia|].
    split; [destruct (t_type t); try discriminate; reflexivity|]. split; [assumption|].
    split.
    + apply existsb_exists in H as (y & Hy & Hey). apply N.eqb_eq in Hey. congruence.
    + apply existsb_exists in Hf as (g & Hg & Heg). apply N.eqb_eq in Heg.
      apply in_map_iff in Hg as (o & Ho & Hino). apply filter_In in Hino as [Hino Hfo].
      apply andb_true_iff in Hfo as [Hfo Hab]. apply andb_true_iff in Hfo as [Htx Hst].
      exists o. split; [exact Hino|]. destruct (r_tx o) as [i|]; [|discriminate].
      split; [congruence|]. split; [destruct (r_status o); try discriminate; reflexivity|].
      destruct (present_height _ _ _); [discriminate|reflexivity].
  - intros (t & Hin & Hid & Hp & Hty & Hex & Hkm & o & Hino & Htx & Hst & Hab).
    exists id. split; [|apply N.eqb_refl]. apply in_map_iff. exists t. split; [exact Hid|].
    apply filter_In. split; [exact Hin|].
    repeat (apply andb_true_iff; split).
    + apply existsb_exists. exists id. split; [|rewrite Hid; apply N.eqb_refl].
      apply in_map_iff. exists o. split; [now rewrite Htx|]. apply filter_In. split; [exact Hino|].
      rewrite Htx, Hst, Hab. reflexivity.
    + lia.
    + now rewrite Hty.
    + exact Hex.
    + apply existsb_exists. exists id. split; [exact Hkm|rewrite Hid; apply N.eqb_refl].
Qed.

(* ------------------------------------------------------------------ C04: the stale-candidate cleanup after the refresh *)

(** what [clean_old_unconfirmed] deletes: the records stored under (key id, no MMR index) of the
    refreshed account's Unconfirmed coinbase candidates older than 50 blocks. A record that is not
    Unconfirmed stays, provided no Unconfirmed record shadows it (same key id while it is itself
    stored without an MMR index — key ids are unique in a wallet that was not restored twice). *)
Lemma clean_old_keeps w parent tip k m o :
  get_out (w_outs w) k m = Some o ->
  (forall d, In d (w_outs w) -> r_status d = Unconfirmed -> r_key d = k -> m <> None) ->
  get_out (w_outs (clean_old_unconfirmed w parent tip)) k m = Some o.
Proof.
  intros Hg Hsh. unfold clean_old_unconfirmed. destruct (tip <? 50); [exact Hg|].
  cbn [w_outs with_outs].
  set (dels := filter _ (w_outs w)).
  assert (Hd : forall d, In d dels -> In d (w_outs w) /\ r_status d = Unconfirmed).
  { intros d Hin. apply filter_In in Hin as [Hin Hf]. split; [exact Hin|].
    repeat (apply andb_true_iff in Hf as [Hf ?]).
    match goal with H : status_eqb (r_status d) Unconfirmed = true |- _ =>
      destruct (r_status d); cbn in H; try discriminate; reflexivity end. }
  clearbody dels.
  assert (G : forall acc, get_out acc k m = Some o ->
            get_out (fold_left (fun acc0 o0 => del_out acc0 (r_key o0) None) dels acc) k m = Some o);
    [|apply G; exact Hg].
  clear Hg. induction dels as [|d r IH]; intros acc Hg; cbn [fold_left]; [exact Hg|].
  apply IH; [intros d' Hin; apply Hd; right; exact Hin|].
  rewrite get_del.
  destruct (kid_eqb (r_key d) k && optN_eqb None m) eqn:E; [|exact Hg].
  exfalso. apply andb_true_iff in E as [E1 E2].
  apply kid_eqb_eq in E1. destruct m as [x|]; [cbn in E2; discriminate|].
  destruct (Hd d (or_introl eq_refl)) as [Hin Hs].
  exact (Hsh d Hin Hs E1 eq_refl).
Qed.

(** the whole [refresh] (apply, then cleanup): a queried record the node reports in its unspent set is
    still recorded afterwards, Unspent or Locked — the cleanup cannot take it, it is not Unconfirmed
    any more when the cleanup runs (the order of the two steps matters: seeded change C04_m4) *)
Theorem refresh_keeps_present w parent all tip p km q :
  WF w -> lookup (w_confh w) parent <= tip ->
  In q (refresh_set w parent all) ->
  (r_status q = Locked ->
     match r_tx q with
     | Some i => existsb (N.eqb i) (reverted_ids w parent (refresh_set w parent all) p km) = false
     | None => True end) ->
  present_height p (r_key q) (r_mmr q) <> None ->
  (forall d, In d (w_outs (refresh_apply w parent all tip p km)) -> r_status d = Unconfirmed ->
             r_key d = r_key q -> r_mmr q <> None) ->
  exists o', get_out (w_outs (refresh w parent all tip p km)) (r_key q) (r_mmr q) = Some o'
    /\ (r_status o' = Unspent \/ r_status o' = Locked).
Proof.
  intros Hwf Hh Hin Hlk Hp Hsh.
  destruct (refresh_matches_utxo w parent all tip p km q Hwf Hh Hin Hlk) as (o' & A & B).
  exists o'. split; [|apply B; exact Hp].
  unfold refresh. apply clean_old_keeps; assumption.
Qed.
