(** Ledger operations extended with the two whole-wallet operations of scan.rs, for the
    correspondence run: restoring a wallet from its recovery phrase (a fresh wallet, then a scan)
    and a repair scan of the existing wallet. Executable only; the theorems about the parts are
    in LedgerProofs.v / HeldProofs.v (Ledger operations) and ScanProofs.v / ScanRepairProofs.v. *)
From GW Require Export Scan.

Inductive xop :=
| XOp (o : op)
| XReset                                       (* a new, empty database (same seed) *)
| XScan (chain : list cout) (del : bool).      (* scan::scan from the first block; owner::scan = a
                                                  full refresh of the active account, then this *)

Definition xstep (w : wallet) (x : xop) : wallet * list Z :=
  match x with
  | XOp o => step w o
  | XReset => (empty_wallet, [0%Z])
  | XScan chain del => (scan_repair w chain del, [0%Z])
  end.

Fixpoint xtrace (w : wallet) (ops : list xop) : list (list (list (list Z))) :=
  match ops with
  | [] => []
  | o :: r => let '(w', rc) := xstep w o in ([rc] :: project w') :: xtrace w' r
  end.
