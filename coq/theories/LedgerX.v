(** Ledger operations extended with the two whole-wallet operations of scan.rs, for the
    correspondence run: restoring a wallet from its recovery phrase (a fresh wallet, then a scan)
    and a repair scan of the existing wallet. Executable only; the theorems about the parts are
    in LedgerProofs.v / HeldProofs.v (Ledger operations) and ScanProofs.v / ScanRepairProofs.v. *)
From GW Require Export Scan.

Inductive xop :=
| XOp (o : op)
| XReset                                       (* a new, empty database (same seed) *)
| XScan (chain : list cout) (del : bool)       (* scan::scan from the first block; owner::scan = a
                                                  full refresh of the active account, then this *)
| XKernel (parent : N) (missing : list N)
| XRc (rc : list Z).                           (* a call that failed before touching the wallet (node
                                                  outage): the state is unchanged, the result is [rc] *)     (* update_txs_via_kernel: [missing] = ids of the
                                                  account's entries whose kernel the node lacks *)

(** owner::update_txs_via_kernel (step 2 of update_wallet_state): an outstanding entry of the
    account — not a reverted payment: that one is confirmed again through its output, never by
    its kernel alone (a [fix:] for C18) — that does not have both a debit and a credit, carries a kernel excess, and whose
    kernel the node has, is marked confirmed *)
Definition kernel_confirm (w : wallet) (parent : N) (missing : list N) : wallet :=
  with_log w (map (fun t =>
    if (t_parent t =? parent) && outstanding t && negb (ttype_eqb (t_type t) TReverted)
       && negb (negb (t_deb t =? 0) && negb (t_cred t =? 0))
       && t_excess t && negb (existsb (N.eqb (t_id t)) missing)
    then set_conf t true else t) (w_log w)).

Definition xstep (w : wallet) (x : xop) : wallet * list Z :=
  match x with
  | XOp o => step w o
  | XReset => (empty_wallet, [0%Z])
  | XScan chain del => (scan_repair w chain del, [0%Z])
  | XKernel parent missing => (kernel_confirm w parent missing, [0%Z])
  | XRc rc => (w, rc)
  end.

Fixpoint xtrace (w : wallet) (ops : list xop) : list (list (list (list Z))) :=
  match ops with
  | [] => []
  | o :: r => let '(w', rc) := xstep w o in ([rc] :: project w') :: xtrace w' r
  end.

Definition xrun (w : wallet) (ops : list xop) : wallet := fold_left (fun w o => fst (xstep w o)) ops w.
