(** The table invariant over histories that also lose and restore the wallet, scan it and run
    the kernel-confirmation step: every state reachable through LedgerX.xstep has distinct DB
    keys (the premise of the refresh / cancel / scan theorems). *)
From GW Require Import Ledger LedgerProofs Scan ScanProofs ScanRepairProofs LedgerX.

Theorem xstep_wf w x : WF w -> WF (fst (xstep w x)).
Proof.
  intros Hw. destruct x; cbn [xstep fst].
  - apply step_wf. exact Hw.
  - unfold WF. cbn. constructor.
  - apply scan_repair_wf. exact Hw.
  - exact Hw.
  - exact Hw.
Qed.

Theorem xwf_reachable : forall ops, WF (xrun empty_wallet ops).
Proof.
  intros ops. assert (H : forall ops w, WF w -> WF (xrun w ops)).
  { induction ops0 as [|o r IH]; intros w Hw; cbn [xrun fold_left]; [exact Hw|]. apply IH. now apply xstep_wf. }
  apply H. unfold WF. cbn. constructor.
Qed.

(** ... and every recorded key lies below the next-child counter of its account path (C15), also
    across loss and restore, scans and the kernel step *)
Theorem xstep_fresh w x : Fresh w -> Fresh (fst (xstep w x)).
Proof.
  intros Hf. destruct x; cbn [xstep fst].
  - apply step_fresh. exact Hf.
  - apply fresh_empty.
  - apply scan_repair_fresh. exact Hf.
  - destruct Hf as [A B]. split; [exact A|exact B].
  - exact Hf.
Qed.

Theorem xfresh_reachable : forall ops, Fresh (xrun empty_wallet ops).
Proof.
  intros ops. assert (H : forall ops w, Fresh w -> Fresh (xrun w ops)).
  { induction ops0 as [|o r IH]; intros w Hw; cbn [xrun fold_left]; [exact Hw|]. apply IH. now apply xstep_fresh. }
  apply H. apply fresh_empty.
Qed.

(** C18: the kernel step leaves a reverted payment as it is *)
Lemma kernel_confirm_keeps_reverted w parent missing t :
  In t (w_log w) -> t_type t = TReverted -> In t (w_log (kernel_confirm w parent missing)).
Proof.
  intros Hin Hty. unfold kernel_confirm. cbn [w_log with_log].
  apply in_map_iff. exists t. split; [|exact Hin]. rewrite Hty. cbn [ttype_eqb negb].
  rewrite andb_false_r. reflexivity.
Qed.
