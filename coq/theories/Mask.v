(** C14 — the keychain-mask gate (impls/src/backends/lmdb.rs) and the owner API
    (api/src/owner.rs, libwallet/src/api_impl/owner.rs) as scripts over backend
    primitives. Model only, no proofs.

    Part 1, the gate. [LMDBBackend::set_keychain] stores Blake2b(derive_key(0, root)) of
    the real master key as [master_checksum] and, when a mask is requested, XORs the master
    key with a fresh secret key (the token) before keeping it. [keychain(mask)] clones the
    stored keychain, XORs the supplied token in (if any), recomputes the checksum and
    compares: mismatch -> InvalidKeychainMask; no keychain (after [close]) ->
    KeychainDoesntExist. [checksum] (derivation + Blake2b) is a Section variable; the
    theorems assume it collision-free.

    Part 2, the methods. Every [pub fn] of [impl Owner] is a [script]: the order in which
    it reaches
      Inst   lc.wallet_inst()? — fails when the wallet is closed
      Val    a validation that does not depend on the token (label exists, slate expired …)
      Node   a node query — fails when the node is unreachable
      Check  w.keychain(mask)? (also inside get_private_context, calc_commit_for_cache)
      Write  w.batch(mask)? … commit / next_child(mask): the check, then a stored write
      Use f  an effect that does not check by itself: key use (derive / sign / build output
             / reveal), store_tx file write, broadcast, in-memory setting
      Read   unmasked read of stored data
      Pw     the wallet password decrypts the seed file (lifecycle calls)
      Spawn  start_updater: a thread is started and the updater_running flag set
    with branches on "node unreachable" (where the code swallows that error) and on
    "updater running" (refresh forced off). The table is tied to the source by the scan of
    [impl Owner] in checks/c14.py (names and presence of a keychain_mask parameter must
    match) and by running every variant on a real masked wallet. *)
From GW Require Import Base.
From Coq Require Import String Ascii.

(** * Part 1: XOR masking and the checksum comparison *)
Definition xmask (k m : N) : N := N.lxor k m.

Record kstate := mkK { k_stored : option N; k_chk : option N }.

Section Keychain.
  Variable checksum : N -> N.

  (** set_keychain(k, mask): [tokv] is the fresh token when a mask is requested. *)
  Definition set_keychain (k : N) (tokv : option N) : kstate :=
    mkK (Some (match tokv with Some m => xmask k m | None => k end)) (Some (checksum k)).

  Definition close_keychain (s : kstate) : kstate := mkK None (k_chk s).

  Definition keychain (s : kstate) (tok : option N) : result N :=
    match k_stored s with
    | None => Err ENoKeychain
    | Some st =>
      let k' := match tok with Some m => xmask st m | None => st end in
      match k_chk s with
      | Some c => if checksum k' =? c then Ok k' else Err EInvalidMask
      | None => Err EInvalidMask
      end
    end.

  (** * Part 2: owner methods as scripts *)
  Inductive eff := FWrite | FSecret | FPost | FMem | FNew.

  Inductive op :=
  | Inst | Val (c : N) (e : err) | Node | Check | Write | Use (f : eff) | Read | Pw | Spawn.

  Inductive script :=
  | Ret
  | Fail (e : err)
  | Op (o : op) (k : script)
  | IfDown (down up : script)
  | IfUpd (running idle : script).

  (** Observable world: wallet open?, backend keychain, counters of stored writes, key
      uses, broadcasts, settings changes, wallets created; the updater flag. *)
  Record wst := mkWst {
    o_open : bool; o_k : kstate; o_db : N; o_sec : N; o_post : N; o_mem : N; o_new : N;
    o_upd : bool
  }.

  Record env := mkEnv { e_down : bool; e_val : N -> bool; e_pw : bool }.

  Definition bump (f : eff) (s : wst) : wst :=
    match f with
    | FWrite => mkWst (o_open s) (o_k s) (o_db s + 1) (o_sec s) (o_post s) (o_mem s) (o_new s) (o_upd s)
    | FSecret => mkWst (o_open s) (o_k s) (o_db s) (o_sec s + 1) (o_post s) (o_mem s) (o_new s) (o_upd s)
    | FPost => mkWst (o_open s) (o_k s) (o_db s) (o_sec s) (o_post s + 1) (o_mem s) (o_new s) (o_upd s)
    | FMem => mkWst (o_open s) (o_k s) (o_db s) (o_sec s) (o_post s) (o_mem s + 1) (o_new s) (o_upd s)
    | FNew => mkWst (o_open s) (o_k s) (o_db s) (o_sec s) (o_post s) (o_mem s) (o_new s + 1) (o_upd s)
    end.

  Definition set_upd (b : bool) (s : wst) : wst :=
    mkWst (o_open s) (o_k s) (o_db s) (o_sec s) (o_post s) (o_mem s) (o_new s) b.

  Fixpoint exec (ev : env) (tok : option N) (s : wst) (p : script) : result unit * wst :=
    match p with
    | Ret => (Ok tt, s)
    | Fail e => (Err e, s)
    | IfDown d u => if e_down ev then exec ev tok s d else exec ev tok s u
    | IfUpd r i => if o_upd s then exec ev tok s r else exec ev tok s i
    | Op o k =>
      match o with
      | Inst => if o_open s then exec ev tok s k else (Err EOther, s)
      | Val c e => if e_val ev c then (Err e, s) else exec ev tok s k
      | Node => if e_down ev then (Err ENode, s) else exec ev tok s k
      | Pw => if e_pw ev then exec ev tok s k else (Err EOther, s)
      | Read => exec ev tok s k
      | Spawn => exec ev tok (set_upd true s) k
      | Check => match keychain (o_k s) tok with
                 | Ok _ => exec ev tok s k
                 | Err e => (Err e, s)
                 | Panic q => (Panic q, s)
                 end
      | Write => match keychain (o_k s) tok with
                 | Ok _ => exec ev tok (bump FWrite s) k
                 | Err e => (Err e, s)
                 | Panic q => (Panic q, s)
                 end
      | Use f => exec ev tok (bump f s) k
      end
    end.

  (** Equality of everything but the updater flag. *)
  Definition wallet_eq (a b : wst) : Prop := set_upd false a = set_upd false b.

  (** No effect before the first mask check, on any path. *)
  Fixpoint gated (p : script) : bool :=
    match p with
    | Ret | Fail _ => true
    | IfDown a b | IfUpd a b => gated a && gated b
    | Op o k => match o with
                | Check | Write => true
                | Use _ => false
                | _ => gated k
                end
    end.

  (** Nothing but validations happens before the wallet instance is demanded. *)
  Fixpoint closed_safe (p : script) : bool :=
    match p with
    | Ret | Fail _ => true
    | IfDown a b | IfUpd a b => closed_safe a && closed_safe b
    | Op o k => match o with
                | Inst => true
                | Val _ _ | Spawn => closed_safe k
                | _ => false
                end
    end.

  (** Every path demands the wallet instance before doing anything else. *)
  Fixpoint always_inst (p : script) : bool :=
    match p with
    | Ret | Fail _ => false
    | IfDown a b | IfUpd a b => always_inst a && always_inst b
    | Op o k => match o with
                | Inst => true
                | Val _ _ | Spawn => always_inst k
                | _ => false
                end
    end.

  (** Lifecycle calls: every stored write / key use is preceded by the password. *)
  Fixpoint pw_guarded (p : script) : bool :=
    match p with
    | Ret | Fail _ => true
    | IfDown a b | IfUpd a b => pw_guarded a && pw_guarded b
    | Op o k => match o with
                | Pw => true
                | Use FWrite | Use FSecret | Write => false
                | _ => pw_guarded k
                end
    end.
End Keychain.

(** * The table *)
Inductive meth :=
| M_new | M_set_tor_config | M_accounts | M_create_account_path | M_set_active_account
| M_retrieve_outputs | M_retrieve_txs | M_retrieve_summary_info | M_init_send_tx
| M_issue_invoice_tx | M_process_invoice_tx | M_tx_lock_outputs | M_finalize_tx | M_post_tx
| M_cancel_tx | M_get_stored_tx | M_get_rewind_hash | M_scan_rewind_hash | M_scan
| M_node_height | M_get_top_level_directory | M_set_top_level_directory | M_create_config
| M_create_wallet | M_open_wallet | M_close_wallet | M_get_mnemonic | M_change_password
| M_delete_wallet | M_start_updater | M_stop_updater | M_get_updater_messages
| M_get_slatepack_address | M_get_slatepack_secret_key | M_create_slatepack_message
| M_slate_from_slatepack_message | M_decode_slatepack_message | M_retrieve_payment_proof
| M_verify_payment_proof | M_build_output | M_create_mwixnet_req.

Definition all_meths : list meth :=
  [ M_new; M_set_tor_config; M_accounts; M_create_account_path; M_set_active_account;
    M_retrieve_outputs; M_retrieve_txs; M_retrieve_summary_info; M_init_send_tx;
    M_issue_invoice_tx; M_process_invoice_tx; M_tx_lock_outputs; M_finalize_tx; M_post_tx;
    M_cancel_tx; M_get_stored_tx; M_get_rewind_hash; M_scan_rewind_hash; M_scan;
    M_node_height; M_get_top_level_directory; M_set_top_level_directory; M_create_config;
    M_create_wallet; M_open_wallet; M_close_wallet; M_get_mnemonic; M_change_password;
    M_delete_wallet; M_start_updater; M_stop_updater; M_get_updater_messages;
    M_get_slatepack_address; M_get_slatepack_secret_key; M_create_slatepack_message;
    M_slate_from_slatepack_message; M_decode_slatepack_message; M_retrieve_payment_proof;
    M_verify_payment_proof; M_build_output; M_create_mwixnet_req ].

Definition mname (m : meth) : string :=
  match m with
  | M_new => "new" | M_set_tor_config => "set_tor_config" | M_accounts => "accounts"
  | M_create_account_path => "create_account_path"
  | M_set_active_account => "set_active_account"
  | M_retrieve_outputs => "retrieve_outputs" | M_retrieve_txs => "retrieve_txs"
  | M_retrieve_summary_info => "retrieve_summary_info" | M_init_send_tx => "init_send_tx"
  | M_issue_invoice_tx => "issue_invoice_tx" | M_process_invoice_tx => "process_invoice_tx"
  | M_tx_lock_outputs => "tx_lock_outputs" | M_finalize_tx => "finalize_tx"
  | M_post_tx => "post_tx" | M_cancel_tx => "cancel_tx" | M_get_stored_tx => "get_stored_tx"
  | M_get_rewind_hash => "get_rewind_hash" | M_scan_rewind_hash => "scan_rewind_hash"
  | M_scan => "scan" | M_node_height => "node_height"
  | M_get_top_level_directory => "get_top_level_directory"
  | M_set_top_level_directory => "set_top_level_directory"
  | M_create_config => "create_config" | M_create_wallet => "create_wallet"
  | M_open_wallet => "open_wallet" | M_close_wallet => "close_wallet"
  | M_get_mnemonic => "get_mnemonic" | M_change_password => "change_password"
  | M_delete_wallet => "delete_wallet" | M_start_updater => "start_updater"
  | M_stop_updater => "stop_updater" | M_get_updater_messages => "get_updater_messages"
  | M_get_slatepack_address => "get_slatepack_address"
  | M_get_slatepack_secret_key => "get_slatepack_secret_key"
  | M_create_slatepack_message => "create_slatepack_message"
  | M_slate_from_slatepack_message => "slate_from_slatepack_message"
  | M_decode_slatepack_message => "decode_slatepack_message"
  | M_retrieve_payment_proof => "retrieve_payment_proof"
  | M_verify_payment_proof => "verify_payment_proof" | M_build_output => "build_output"
  | M_create_mwixnet_req => "create_mwixnet_req"
  end%string.

(** Does the signature carry [keychain_mask: Option<&SecretKey>]? *)
Definition takes_mask (m : meth) : bool :=
  match m with
  | M_new | M_set_tor_config | M_scan_rewind_hash | M_get_top_level_directory
  | M_set_top_level_directory | M_create_config | M_create_wallet | M_open_wallet
  | M_close_wallet | M_get_mnemonic | M_change_password | M_delete_wallet | M_stop_updater
  | M_get_updater_messages => false
  | _ => true
  end.

Definition ops (l : list op) (k : script) : script := fold_right Op k l.

(** updater::refresh_outputs as used by add_inputs_to_slate / create_late_lock_context:
    the node error is NOT swallowed; the mask is checked (map_wallet_outputs) before the
    batch that applies the node's answer. *)
Definition refresh (k : script) : script := ops [Node; Check; Read; Node; Write] k.

(** api_impl::owner::update_wallet_state(.., update_all = false): [kd] continues after
    "unable to contact node" (update_outputs swallows every error except
    InvalidKeychainMask — and get_chain_tip comes BEFORE the mask check), [ku] after a
    complete update (outputs, kernels, scan, last-scanned block, ttl cancellations). *)
Definition uws (kd ku : script) : script :=
  Op Inst (IfDown kd
    (ops [Node; Check; Read; Node; Write; Read; Node; Write; Node; Read; Check; Node; Read;
          Check; Write; Write; Write] ku)).

(** Validation numbers (which token-independent condition fails):
    1 label exists  2 unknown label  3 slate expired  4 slate already processed
    5 no stored context  6 bad slate state  7 slate carries no tx  8 no such tx
    9 tx not cancellable  10 no ids / no stored tx file  11 bad rewind hash
    12 config exists  13 seed exists  15 undecodable slatepack  16 no tx id given
    17 no proof stored  19 kernel not on chain / bad signature  20 no such output
    21 not enough funds (estimate) *)
Definition script_of (m : meth) (v : N) : script :=
  let outs := ops [Inst; Read; Check; Use FSecret] Ret in
  let txs := ops [Inst; Read] Ret in
  let addr := ops [Inst; Read; Check; Use FSecret] Ret in
  match m, v with
  | M_new, _ => Ret
  | M_set_tor_config, _ => Op (Use FMem) Ret
  | M_accounts, _ => ops [Inst; Check; Read] Ret
  | M_create_account_path, _ => ops [Inst; Read; Val 1 EOther; Read; Write] Ret
  | M_set_active_account, _ => ops [Inst; Check; Read; Val 2 EOther; Use FMem] Ret
  (* v = 0: refresh_from_node = false; v = 1: true *)
  | M_retrieve_outputs, 0 => outs
  | M_retrieve_outputs, _ => IfUpd outs (uws outs outs)
  | M_retrieve_txs, 0 => txs
  | M_retrieve_txs, _ => IfUpd txs (uws txs txs)
  | M_retrieve_summary_info, 0 => txs
  | M_retrieve_summary_info, _ => IfUpd txs (uws txs txs)
  (* v = 0 plain send, 1 estimate_only, 2 late_lock *)
  | M_init_send_tx, 1 =>
    ops [Inst; Read; Node; Node] (refresh (ops [Read; Val 21 ENotEnoughFunds] Ret))
  | M_init_send_tx, 2 =>
    ops [Inst; Read; Node; Node]
        (refresh (ops [Read; Check; Check; Use FSecret; Write] Ret))
  | M_init_send_tx, _ =>
    ops [Inst; Read; Node; Node]
        (refresh (ops [Check; Read; Write; Use FSecret; Check; Use FSecret; Write] Ret))
  | M_issue_invoice_tx, _ =>
    ops [Inst; Read; Node; Node; Check; Write; Check; Use FSecret; Write; Use FSecret; Write] Ret
  | M_process_invoice_tx, _ =>
    ops [Inst; Read; Val 3 EExpired; Read; Val 4 EAlreadyReceived; Node; Read]
        (refresh (ops [Check; Read; Write; Use FSecret; Check; Use FSecret; Check; Write;
                       Use FSecret] Ret))
  | M_tx_lock_outputs, _ =>
    ops [Inst; Check; Read; Val 5 EOther; Node; Check; Write; Use FWrite] Ret
  | M_finalize_tx, _ =>
    ops [Inst; Check; Read; Val 5 EOther; Val 3 EExpired; Val 6 ESlateState; Check;
         Use FSecret; Check; Use FWrite; Write; Write] Ret
  | M_post_tx, _ => ops [Inst; Check; Val 7 EOther; Node; Use FPost] Ret
  | M_cancel_tx, _ =>
    uws (Fail EOther)
        (ops [Inst; Read; Val 8 ENotFound; Val 9 ENotCancellable; Read; Check; Write] Ret)
  | M_get_stored_tx, _ => ops [Inst; Check; Read; Val 10 EOther; Read] Ret
  | M_get_rewind_hash, _ => ops [Inst; Check; Use FSecret] Ret
  | M_scan_rewind_hash, _ => ops [Val 11 EOther; Inst; Node; Node; Read] Ret
  | M_scan, _ =>
    Op Inst (IfDown (Fail ENode)
      (ops [Node; Check; Read; Node; Write; Node; Check; Node; Read; Check; Write; Write] Ret))
  | M_node_height, _ =>
    ops [Inst; Check; Inst] (IfDown outs (Op Node Ret))
  | M_get_top_level_directory, _ => Ret
  | M_set_top_level_directory, _ => Op (Use FMem) Ret
  | M_create_config, _ => ops [Val 12 EOther; Use FMem] Ret
  | M_create_wallet, _ => ops [Val 13 EOther; Use FNew] Ret
  | M_open_wallet, _ => ops [Pw; Use FSecret; Use FMem] Ret
  | M_close_wallet, _ => Op (Use FMem) Ret
  | M_get_mnemonic, _ => ops [Pw; Use FSecret] Ret
  | M_change_password, _ => ops [Pw; Use FWrite] Ret
  | M_delete_wallet, _ => Op (Use FWrite) Ret
  | M_start_updater, _ => Op Spawn Ret
  | M_stop_updater, _ => Op (Use FMem) Ret
  | M_get_updater_messages, _ => Ret
  | M_get_slatepack_address, _ => addr
  | M_get_slatepack_secret_key, _ => addr
  (* v = 0: no sender index / no secret indices; v = 1: with *)
  | M_create_slatepack_message, 0 => Ret
  | M_create_slatepack_message, _ => addr
  | M_slate_from_slatepack_message, 0 => Op (Val 15 EOther) Ret
  | M_slate_from_slatepack_message, _ => ops [Inst; Read; Check; Use FSecret; Val 15 EOther] Ret
  | M_decode_slatepack_message, 0 => Op (Val 15 EOther) Ret
  | M_decode_slatepack_message, _ => ops [Inst; Read; Check; Use FSecret; Val 15 EOther] Ret
  (* v = 0 no refresh, 1 refresh (update_wallet_state runs twice), 2 neither id given *)
  | M_retrieve_payment_proof, 0 => ops [Val 16 EPaymentProof; Inst; Read; Val 17 EPaymentProof] Ret
  | M_retrieve_payment_proof, 2 => Fail EPaymentProof
  | M_retrieve_payment_proof, _ =>
    let t := ops [Inst; Read; Val 17 EPaymentProof] Ret in
    Op (Val 16 EPaymentProof) (IfUpd t (uws (uws t t) (uws t t)))
  | M_verify_payment_proof, _ =>
    ops [Inst; Read; Check; Node; Val 19 EPaymentProof; Use FSecret] Ret
  | M_build_output, _ => ops [Inst; Check; Write; Use FSecret] Ret
  | M_create_mwixnet_req, _ =>
    ops [Inst; Check; Read; Check; Val 20 EOther; Check; Write; Use FSecret; Write] Ret
  end.

(** The background work of start_updater: update_wallet_state in a loop. *)
Definition updater_body : script := uws Ret Ret.

Definition variants (m : meth) : list N :=
  match m with
  | M_retrieve_outputs | M_retrieve_txs | M_retrieve_summary_info
  | M_create_slatepack_message | M_slate_from_slatepack_message
  | M_decode_slatepack_message => [0; 1]
  | M_init_send_tx | M_retrieve_payment_proof => [0; 1; 2]
  | _ => [0]
  end.

Definition table : list (meth * N) :=
  flat_map (fun m => map (fun v => (m, v)) (variants m)) all_meths.

(** The one lifecycle call that destroys stored state with no credential at all
    (known_findings.json, C14-delete-wallet-unguarded). *)
Definition Known (m : meth) : Prop := m = M_delete_wallet.
Definition known_b (m : meth) : bool := match m with M_delete_wallet => true | _ => false end.

(** * Executable instance for the correspondence run *)
Definition id_checksum (x : N) : N := x.

Definition MASTER : N := 1000003.
Definition TOKEN : N := 77031.
Definition OTHER_TOKEN : N := 55001.

(** token kinds: 0 the issued one, 1 absent, 2 random, 3 one bit off, 4 another wallet's *)
Definition token_of (kind : N) : option N :=
  match kind with
  | 0 => Some TOKEN | 1 => None | 2 => Some 918273645 | 3 => Some (N.lxor TOKEN 1)
  | _ => Some OTHER_TOKEN
  end.

Record ccase := mkCase {
  c_m : meth; c_v : N; c_masked : bool; c_tok : N; c_open : bool; c_down : bool; c_upd : bool;
  c_pw : bool;           (* the password supplied to a lifecycle call is the right one *)
  c_vals : list N        (* validations that fail in this scenario *)
}.

Definition meth_eqb_name (a b : meth) : bool := String.eqb (mname a) (mname b).

Definition state_of (c : ccase) : wst :=
  mkWst (c_open c)
        (if c_open c then set_keychain id_checksum MASTER (if c_masked c then Some TOKEN else None)
         else mkK None None)
        0 0 0 0 0 (c_upd c).

Definition env_of (c : ccase) : env :=
  mkEnv (c_down c) (fun n => existsb (N.eqb n) (c_vals c)) (c_pw c).

(** On an unmasked wallet the "issued" token is the absent one. *)
Definition tok_of_case (c : ccase) : option N :=
  if c_masked c then token_of (c_tok c)
  else match c_tok c with 0 => None | 1 => None | k => token_of k end.

Definition res_code (r : result unit) : list Z :=
  match r with Ok _ => [0] | Err e => [1; err_code e] | Panic _ => [2] end%Z.

Definition changed_stored (a b : wst) : Z :=
  if (o_db a =? o_db b) && (o_new a =? o_new b) then 0%Z else 1%Z.

Definition changed (a b : wst) : Z :=
  if (o_db a =? o_db b) && (o_sec a =? o_sec b) && (o_post a =? o_post b)
     && (o_mem a =? o_mem b) && (o_new a =? o_new b) && Bool.eqb (o_open a) (o_open b)
  then 0%Z else 1%Z.

Definition run_case (c : ccase) : list Z :=
  let s := state_of c in
  let '(r, s') := exec id_checksum (env_of c) (tok_of_case c) s (script_of (c_m c) (c_v c)) in
  res_code r ++ [changed_stored s s'; changed s s'].

(** The table as seen by the source scan: name (ASCII codes), takes_mask. *)
Fixpoint codes (s : string) : list Z :=
  match s with
  | EmptyString => []
  | String a r => Z.of_nat (nat_of_ascii a) :: codes r
  end.

Definition table_names : list (list Z) :=
  map (fun m => (if takes_mask m then 1%Z else 0%Z) :: codes (mname m)) all_meths.
