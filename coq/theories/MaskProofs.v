(** Proofs about the keychain-mask gate and the owner method table (model: Mask.v).
    Statements used by props/C14.v. *)
From GW Require Import Base Mask.
From Coq Require Import String.

(** * XOR masking *)
Lemma xmask_involutive k m : xmask (xmask k m) m = k.
Proof. unfold xmask. rewrite N.lxor_assoc, N.lxor_nilpotent, N.lxor_0_r. reflexivity. Qed.

Lemma xmask_cancel k m m' : xmask (xmask k m) m' = k -> m' = m.
Proof.
  unfold xmask. intros H.
  assert (H0 : N.lxor m m' = 0).
  { assert (H1 : N.lxor k (N.lxor (N.lxor k m) m') = N.lxor k k) by (rewrite H; reflexivity).
    rewrite N.lxor_nilpotent in H1. rewrite N.lxor_assoc in H1.
    rewrite <- N.lxor_assoc in H1. rewrite N.lxor_nilpotent, N.lxor_0_l in H1. exact H1. }
  symmetry. apply N.lxor_eq. exact H0.
Qed.

Lemma xmask_fix k m : xmask k m = k -> m = 0.
Proof.
  unfold xmask. intros H.
  assert (H1 : N.lxor k (N.lxor k m) = N.lxor k k) by (rewrite H; reflexivity).
  rewrite N.lxor_nilpotent, <- N.lxor_assoc, N.lxor_nilpotent, N.lxor_0_l in H1. exact H1.
Qed.

Lemma optN_dec (a b : option N) : {a = b} + {a <> b}.
Proof. decide equality. apply N.eq_dec. Qed.

Section MaskProofs.
  Variable checksum : N -> N.
  Hypothesis checksum_inj : forall a b, checksum a = checksum b -> a = b.

  Notation keychain := (keychain checksum).
  Notation set_keychain := (set_keychain checksum).
  Notation exec := (exec checksum).

  (** ** The gate *)
  Theorem keychain_right_token k mv :
    keychain (set_keychain k (Some mv)) (Some mv) = Ok k.
  Proof.
    unfold Mask.keychain, Mask.set_keychain. cbn. rewrite xmask_involutive, N.eqb_refl. reflexivity.
  Qed.

  Theorem keychain_wrong_token k mv tok :
    mv <> 0 -> tok <> Some mv ->
    keychain (set_keychain k (Some mv)) tok = Err EInvalidMask.
  Proof.
    intros Hmv Htok. unfold Mask.keychain, Mask.set_keychain. cbn.
    destruct tok as [m|].
    - destruct (checksum (xmask (xmask k mv) m) =? checksum k) eqn:He; [|reflexivity].
      apply N.eqb_eq in He. apply checksum_inj in He. apply xmask_cancel in He. congruence.
    - destruct (checksum (xmask k mv) =? checksum k) eqn:He; [|reflexivity].
      apply N.eqb_eq in He. apply checksum_inj in He. apply xmask_fix in He. congruence.
  Qed.

  Theorem keychain_iff_issued_token k mv tok :
    mv <> 0 ->
    ((exists k', keychain (set_keychain k (Some mv)) tok = Ok k') <-> tok = Some mv).
  Proof.
    intros Hmv. split.
    - intros [k' H]. destruct (optN_dec tok (Some mv)) as [E|E]; [exact E|].
      rewrite (keychain_wrong_token k mv tok Hmv E) in H. discriminate.
    - intros ->. exists k. apply keychain_right_token.
  Qed.

  Theorem keychain_unmasked_none k : keychain (set_keychain k None) None = Ok k.
  Proof. unfold Mask.keychain, Mask.set_keychain. cbn. rewrite N.eqb_refl. reflexivity. Qed.

  Theorem keychain_unmasked_some k m :
    m <> 0 -> keychain (set_keychain k None) (Some m) = Err EInvalidMask.
  Proof.
    intros Hm. unfold Mask.keychain, Mask.set_keychain. cbn.
    destruct (checksum (xmask k m) =? checksum k) eqn:He; [|reflexivity].
    apply N.eqb_eq in He. apply checksum_inj in He. apply xmask_fix in He. congruence.
  Qed.

  Theorem keychain_closed s tok : keychain (close_keychain s) tok = Err ENoKeychain.
  Proof. reflexivity. Qed.

  (** ** Scripts *)
  Lemma wallet_eq_refl s : wallet_eq s s.
  Proof. reflexivity. Qed.

  Lemma wallet_eq_upd b s : wallet_eq (set_upd b s) s.
  Proof. destruct s; reflexivity. Qed.

  Lemma wallet_eq_trans a b c : wallet_eq a b -> wallet_eq b c -> wallet_eq a c.
  Proof. unfold wallet_eq. congruence. Qed.

  (** A call with a token the gate refuses changes nothing, and returns
      InvalidKeychainMask — unless the call does nothing that needs the key even with the
      right token, in which case it returns exactly what the right token gets. *)
  Theorem wrong_token_no_effect : forall p, gated p = true ->
    forall ev s tb tg,
    keychain (o_k s) tb = Err EInvalidMask ->
    (exists k, keychain (o_k s) tg = Ok k) ->
    wallet_eq (snd (exec ev tb s p)) s /\
    (fst (exec ev tb s p) = Err EInvalidMask \/
     (fst (exec ev tb s p) = fst (exec ev tg s p) /\ wallet_eq (snd (exec ev tg s p)) s)).
  Proof.
    induction p as [|e|o k IH|d IHd u IHu|r IHr i IHi]; intros Hg ev s tb tg Hb [kg Hgd].
    - cbn. split; [apply wallet_eq_refl|right; split; [reflexivity|apply wallet_eq_refl]].
    - cbn. split; [apply wallet_eq_refl|right; split; [reflexivity|apply wallet_eq_refl]].
    - cbn [gated] in Hg. destruct o; cbn [exec].
      + destruct (o_open s); [apply IH; eauto|].
        cbn. split; [apply wallet_eq_refl|right; split; [reflexivity|apply wallet_eq_refl]].
      + destruct (e_val ev c); [|apply IH; eauto].
        cbn. split; [apply wallet_eq_refl|right; split; [reflexivity|apply wallet_eq_refl]].
      + destruct (e_down ev); [|apply IH; eauto].
        cbn. split; [apply wallet_eq_refl|right; split; [reflexivity|apply wallet_eq_refl]].
      + rewrite Hb. cbn. split; [apply wallet_eq_refl|left; reflexivity].
      + rewrite Hb. cbn. split; [apply wallet_eq_refl|left; reflexivity].
      + discriminate.
      + apply IH; eauto.
      + destruct (e_pw ev); [apply IH; eauto|].
        cbn. split; [apply wallet_eq_refl|right; split; [reflexivity|apply wallet_eq_refl]].
      + assert (Hk : o_k (set_upd true s) = o_k s) by (destruct s; reflexivity).
        destruct (IH Hg ev (set_upd true s) tb tg) as [H1 H2].
        { rewrite Hk. exact Hb. } { rewrite Hk. eauto. }
        pose proof (wallet_eq_upd true s) as Hu.
        split; [eapply wallet_eq_trans; eauto|].
        destruct H2 as [H2|[H2 H3]]; [left; exact H2|right].
        split; [exact H2|eapply wallet_eq_trans; eauto].
    - cbn [gated] in Hg. apply andb_prop in Hg. destruct Hg as [Hd Hu]. cbn [exec].
      destruct (e_down ev); [apply IHd|apply IHu]; eauto.
    - cbn [gated] in Hg. apply andb_prop in Hg. destruct Hg as [Hr Hi]. cbn [exec].
      destruct (o_upd s); [apply IHr|apply IHi]; eauto.
  Qed.

  (** If the right token's run does anything (write, key use, broadcast, setting), the
      wrong token's run is refused with InvalidKeychainMask. *)
  Corollary effect_implies_refusal : forall p, gated p = true ->
    forall ev s tb tg,
    keychain (o_k s) tb = Err EInvalidMask ->
    (exists k, keychain (o_k s) tg = Ok k) ->
    ~ wallet_eq (snd (exec ev tg s p)) s ->
    exec ev tb s p = (Err EInvalidMask, snd (exec ev tb s p))
    /\ wallet_eq (snd (exec ev tb s p)) s.
  Proof.
    intros p Hg ev s tb tg Hb Hgd Hne.
    destruct (wrong_token_no_effect p Hg ev s tb tg Hb Hgd) as [H1 [H2|[_ H3]]].
    - split; [|exact H1]. destruct (exec ev tb s p); cbn in *. congruence.
    - contradiction.
  Qed.

  (** With the right token a masked wallet runs every script exactly like the unmasked
      wallet with the same master key. *)
  Definition strip (s : wst) := (o_open s, o_db s, o_sec s, o_post s, o_mem s, o_new s, o_upd s).

  Lemma strip_bump f a b : strip a = strip b -> strip (bump f a) = strip (bump f b).
  Proof. destruct a, b, f; cbn; intros H; inversion H; subst; reflexivity. Qed.

  Lemma strip_upd x a b : strip a = strip b -> strip (set_upd x a) = strip (set_upd x b).
  Proof. destruct a, b; cbn; intros H; inversion H; subst; reflexivity. Qed.

  Lemma ok_bump f s : o_k (bump f s) = o_k s.
  Proof. destruct s, f; reflexivity. Qed.

  Lemma ok_upd x s : o_k (set_upd x s) = o_k s.
  Proof. destruct s; reflexivity. Qed.

  Theorem right_token_equals_unmasked : forall p ev K mv sm su,
    o_k sm = set_keychain K (Some mv) -> o_k su = set_keychain K None ->
    strip sm = strip su ->
    fst (exec ev (Some mv) sm p) = fst (exec ev None su p) /\
    strip (snd (exec ev (Some mv) sm p)) = strip (snd (exec ev None su p)) /\
    o_k (snd (exec ev (Some mv) sm p)) = set_keychain K (Some mv) /\
    o_k (snd (exec ev None su p)) = set_keychain K None.
  Proof.
    induction p as [|e|o k IH|d IHd u IHu|r IHr i IHi]; intros ev K mv sm su Hm Hu Hs.
    - cbn. auto.
    - cbn. auto.
    - assert (Ho : o_open sm = o_open su) by (unfold strip in Hs; congruence).
      destruct o; cbn [exec].
      + rewrite Ho. destruct (o_open su); [apply (IH ev K mv); auto|cbn; auto].
      + destruct (e_val ev c); [cbn; auto|apply (IH ev K mv); auto].
      + destruct (e_down ev); [cbn; auto|apply (IH ev K mv); auto].
      + rewrite Hm, Hu, keychain_right_token, keychain_unmasked_none. apply (IH ev K mv); auto.
      + rewrite Hm, Hu, keychain_right_token, keychain_unmasked_none.
        destruct (IH ev K mv (bump FWrite sm) (bump FWrite su)) as [H1 [H2 [H3 H4]]].
        { rewrite ok_bump. exact Hm. } { rewrite ok_bump. exact Hu. } { apply strip_bump. exact Hs. }
        auto.
      + destruct (IH ev K mv (bump f sm) (bump f su)) as [H1 [H2 [H3 H4]]].
        { rewrite ok_bump. exact Hm. } { rewrite ok_bump. exact Hu. } { apply strip_bump. exact Hs. }
        auto.
      + apply (IH ev K mv); auto.
      + destruct (e_pw ev); [apply (IH ev K mv); auto|cbn; auto].
      + destruct (IH ev K mv (set_upd true sm) (set_upd true su)) as [H1 [H2 [H3 H4]]].
        { rewrite ok_upd. exact Hm. } { rewrite ok_upd. exact Hu. } { apply strip_upd. exact Hs. }
        auto.
    - cbn [exec]. destruct (e_down ev); [apply (IHd ev K mv)|apply (IHu ev K mv)]; auto.
    - assert (Ho : o_upd sm = o_upd su) by (unfold strip in Hs; congruence).
      cbn [exec]. rewrite Ho. destruct (o_upd su); [apply (IHr ev K mv)|apply (IHi ev K mv)]; auto.
  Qed.

  (** While the wallet is closed no script of the table does anything. *)
  Theorem closed_no_effect : forall p, closed_safe p = true ->
    forall ev tok s, o_open s = false ->
    wallet_eq (snd (exec ev tok s p)) s /\
    (always_inst p = true -> exists e, fst (exec ev tok s p) = Err e).
  Proof.
    induction p as [|e|o k IH|d IHd u IHu|r IHr i IHi]; intros Hc ev tok s Ho.
    - cbn. split; [apply wallet_eq_refl|discriminate].
    - cbn. split; [apply wallet_eq_refl|discriminate].
    - cbn [closed_safe] in Hc. destruct o; try discriminate; cbn [exec always_inst].
      + rewrite Ho. cbn. split; [apply wallet_eq_refl|eauto].
      + destruct (e_val ev c); [cbn; split; [apply wallet_eq_refl|eauto]|apply IH; auto].
      + assert (Ho' : o_open (set_upd true s) = false) by (destruct s; exact Ho).
        destruct (IH Hc ev tok (set_upd true s) Ho') as [H1 H2].
        split; [eapply wallet_eq_trans; [exact H1|apply wallet_eq_upd]|exact H2].
    - cbn [closed_safe] in Hc. apply andb_prop in Hc. destruct Hc as [Hd Hu].
      cbn [exec always_inst].
      destruct (e_down ev).
      + destruct (IHd Hd ev tok s Ho) as [H1 H2]. split; [exact H1|].
        intros Ha. apply andb_prop in Ha. apply H2. tauto.
      + destruct (IHu Hu ev tok s Ho) as [H1 H2]. split; [exact H1|].
        intros Ha. apply andb_prop in Ha. apply H2. tauto.
    - cbn [closed_safe] in Hc. apply andb_prop in Hc. destruct Hc as [Hr Hi].
      cbn [exec always_inst].
      destruct (o_upd s).
      + destruct (IHr Hr ev tok s Ho) as [H1 H2]. split; [exact H1|].
        intros Ha. apply andb_prop in Ha. apply H2. tauto.
      + destruct (IHi Hi ev tok s Ho) as [H1 H2]. split; [exact H1|].
        intros Ha. apply andb_prop in Ha. apply H2. tauto.
  Qed.

  (** Lifecycle calls guarded by the password: with a wrong password no stored write and no
      key use happens. *)
  Theorem wrong_password_no_effect : forall p, pw_guarded p = true ->
    forall ev tok s, e_pw ev = false ->
    o_db (snd (exec ev tok s p)) = o_db s /\ o_sec (snd (exec ev tok s p)) = o_sec s.
  Proof.
    clear checksum_inj.
    induction p as [|e|o k IH|d IHd u IHu|r IHr i IHi]; intros Hp ev tok s Hw.
    - cbn. auto.
    - cbn. auto.
    - cbn [pw_guarded] in Hp. destruct o; try discriminate; cbn [exec].
      + destruct (o_open s); [apply IH; auto|cbn; auto].
      + destruct (e_val ev c); [cbn; auto|apply IH; auto].
      + destruct (e_down ev); [cbn; auto|apply IH; auto].
      + destruct (Mask.keychain checksum (o_k s) tok); [apply IH; auto|cbn; auto|cbn; auto].
      + destruct f; try discriminate;
          match goal with |- context [bump ?f s] =>
            destruct (IH Hp ev tok (bump f s) Hw) as [H1 H2]; destruct s; cbn in H1, H2 |- *; auto end.
      + apply IH; auto.
      + rewrite Hw. cbn. auto.
      + destruct (IH Hp ev tok (set_upd true s) Hw) as [H1 H2]. destruct s; cbn in H1, H2 |- *; auto.
    - cbn [pw_guarded] in Hp. apply andb_prop in Hp. destruct Hp as [Hd Hu]. cbn [exec].
      destruct (e_down ev); [apply IHd|apply IHu]; auto.
    - cbn [pw_guarded] in Hp. apply andb_prop in Hp. destruct Hp as [Hr Hi]. cbn [exec].
      destruct (o_upd s); [apply IHr|apply IHi]; auto.
  Qed.
End MaskProofs.

(** * The table *)
Lemma all_meths_complete : forall m, In m all_meths.
Proof. destruct m; vm_compute; tauto. Qed.

Lemma variants_have_0 : forall m, In 0 (variants m).
Proof. destruct m; cbn; auto. Qed.

Theorem table_complete : forall m, exists v, In (m, v) table.
Proof.
  intros m. exists 0. unfold table. apply in_flat_map. exists m.
  split; [apply all_meths_complete|]. apply in_map. apply variants_have_0.
Qed.

Lemma table_forall (P : meth * N -> bool) :
  forallb P table = true -> forall m v, In (m, v) table -> P (m, v) = true.
Proof. intros H m v Hin. rewrite forallb_forall in H. apply H. exact Hin. Qed.

(** Every variant of every method that carries a token parameter checks the mask before
    its first effect, on every path. *)
Theorem table_gated : forall m v, In (m, v) table -> takes_mask m = true ->
  gated (script_of m v) = true.
Proof.
  intros m v Hin Ht.
  pose proof (table_forall (fun mv => implb (takes_mask (fst mv)) (gated (script_of (fst mv) (snd mv))))
                           ltac:(vm_compute; reflexivity) m v Hin) as H.
  cbn [fst snd] in H. rewrite Ht in H. exact H.
Qed.

Theorem updater_body_gated : gated updater_body = true.
Proof. vm_compute. reflexivity. Qed.

(** Variants that never touch the wallet (pure slatepack coding, the constant refusal of
    retrieve_payment_proof without ids, the thread start of start_updater). *)
Definition pure_variant (m : meth) (v : N) : bool :=
  match m, v with
  | M_start_updater, _ => true
  | M_create_slatepack_message, 0 | M_slate_from_slatepack_message, 0
  | M_decode_slatepack_message, 0 | M_retrieve_payment_proof, 2 => true
  | _, _ => false
  end.

Theorem table_closed_safe : forall m v, In (m, v) table -> takes_mask m = true ->
  closed_safe (script_of m v) = true /\
  (pure_variant m v = false -> always_inst (script_of m v) = true).
Proof.
  intros m v Hin Ht.
  pose proof (table_forall
    (fun mv => implb (takes_mask (fst mv))
                 (closed_safe (script_of (fst mv) (snd mv)) &&
                  (pure_variant (fst mv) (snd mv) || always_inst (script_of (fst mv) (snd mv)))))
    ltac:(vm_compute; reflexivity) m v Hin) as H.
  cbn [fst snd] in H. rewrite Ht in H. cbn [implb] in H. apply andb_prop in H.
  destruct H as [H1 H2]. split; [exact H1|]. intros Hp. rewrite Hp in H2. exact H2.
Qed.

Theorem updater_body_closed_safe : closed_safe updater_body = true.
Proof. vm_compute. reflexivity. Qed.

(** Calls without a token parameter: outside the known finding, every stored write and
    every key use sits behind the wallet password. *)
Theorem notoken_guarded_outside_known : forall m v, In (m, v) table ->
  takes_mask m = false -> ~ Known m -> pw_guarded (script_of m v) = true.
Proof.
  intros m v Hin Ht Hk.
  pose proof (table_forall
    (fun mv => takes_mask (fst mv) || known_b (fst mv) || pw_guarded (script_of (fst mv) (snd mv)))
    ltac:(vm_compute; reflexivity) m v Hin) as H.
  cbn [fst snd] in H. rewrite Ht in H. cbn [orb] in H.
  destruct (known_b m) eqn:Hb; [|exact H].
  exfalso. apply Hk. destruct m; try discriminate. reflexivity.
Qed.

(** The full-strength statement fails: delete_wallet removes the wallet directory with no
    token and no password. *)
Theorem notoken_guarded_refuted :
  exists m v, In (m, v) table /\ takes_mask m = false /\ pw_guarded (script_of m v) = false
              /\ forall cs ev tok s, o_db (snd (exec cs ev tok s (script_of m v))) = o_db s + 1.
Proof.
  exists M_delete_wallet, 0. split; [vm_compute; tauto|]. split; [reflexivity|].
  split; [reflexivity|]. intros cs ev tok s. destruct s; reflexivity.
Qed.

Lemma id_checksum_inj : forall a b, id_checksum a = id_checksum b -> a = b.
Proof. intros a b H. exact H. Qed.

(** * The table and the gate together *)
Theorem owner_wrong_token : forall (checksum : N -> N),
  (forall a b, checksum a = checksum b -> a = b) ->
  forall m v, In (m, v) table -> takes_mask m = true ->
  forall ev K mv tb s,
  mv <> 0 -> tb <> Some mv -> o_k s = set_keychain checksum K (Some mv) ->
  let bad := exec checksum ev tb s (script_of m v) in
  let good := exec checksum ev (Some mv) s (script_of m v) in
  wallet_eq (snd bad) s /\
  (fst bad = Err EInvalidMask \/ (fst bad = fst good /\ wallet_eq (snd good) s)).
Proof.
  intros cs Hinj m v Hin Ht ev K mv tb s Hmv Htb Hk. cbn zeta.
  apply (wrong_token_no_effect cs (script_of m v) (table_gated m v Hin Ht) ev s tb (Some mv)).
  - rewrite Hk. apply keychain_wrong_token; auto.
  - exists K. rewrite Hk. apply keychain_right_token.
Qed.

Theorem owner_closed : forall m v, In (m, v) table -> takes_mask m = true ->
  forall checksum ev tok s, o_open s = false ->
  wallet_eq (snd (exec checksum ev tok s (script_of m v))) s /\
  (pure_variant m v = false -> exists e, fst (exec checksum ev tok s (script_of m v)) = Err e).
Proof.
  intros m v Hin Ht cs ev tok s Ho.
  destruct (table_closed_safe m v Hin Ht) as [H1 H2].
  destruct (closed_no_effect cs (script_of m v) H1 ev tok s Ho) as [H3 H4].
  split; [exact H3|]. intros Hp. apply H4. apply H2. exact Hp.
Qed.
